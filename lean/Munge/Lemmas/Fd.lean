import Munge.Model.Fd
set_option linter.unusedSimpArgs false
/-
Lemmas for the `Fd` model (C08 sub-check).  `Spec.*` is the reviewed reading of the decision kernels of the three
timed routines, written by hand with the same C conversions the translator makes explicit; everything in this file is
proved about `run (Spec.routine k)` and does not look at `Munge.Gen.Fd`.  `Props/C08Fd.lean` proves that the routines
assembled from the generated kernels ARE the spec routines (re-checked on every run against what fd.c says now) and
transports the statements.
-/
namespace Munge.Fd
open Munge.C

namespace Spec

def guard2 (fd p _c e : Int) : Int × Int := if fd < 0 ∨ p = 0 then (-1, 22) else (0, e)
def guard3 (fd p c e : Int) : Int × Int := if (fd < 0 ∨ p = 0) ∨ c ≤ 0 then (-1, 22) else (0, e)
def skip (d nl : Int) : Int × Int := if d ≠ 0 ∧ nl > 0 then (1, -1) else (0, 0)
def cond (nl : Int) : Int := if nl > 0 then 1 else 0

/-- the value `_fd_get_poll_timeout` computes from a clock reading (before the clamp at 0) -/
def rawMsecs (ws wu ns nu : Int) : Int :=
  wrapS32 (wrapS64 (wrapS64 (wrapS64 (ws - ns) * 1000) + wrapS64 (cdiv (wrapS64 (wrapS64 (wu - nu) + 999)) 1000)))

def tmo (whenP ws wu ns nu : Int) : Int × Bool :=
  if whenP = 0 then (-1, false)
  else if ws = 0 ∧ wu = 0 then (0, false)
  else (if rawMsecs ws wu ns nu < 0 then 0 else rawMsecs ws wu ns nu, true)

def afterPollR (nfd e rev : Int) : Int × Int :=
  if nfd < 0 then (if e = 4 ∨ e = 11 then (1, e) else (3, e))
  else if nfd = 0 then (2, 110)
  else if band rev 32 ≠ 0 then (3, 9)
  else if band rev 8 ≠ 0 then (3, 5)
  else (0, e)

def afterPollW (nfd e rev : Int) : Int × Int :=
  if nfd < 0 then (if e = 4 ∨ e = 11 then (1, e) else (3, e))
  else if nfd = 0 then (2, 110)
  else if band rev 16 ≠ 0 then (2, e)
  else if band rev 32 ≠ 0 then (3, 9)
  else if band rev 8 ≠ 0 then (3, 5)
  else (0, e)

def afterIoR (n e nl ms : Int) : Int × Int :=
  if n < 0 then (if e = 4 ∨ e = 11 then (1, nl) else (3, nl))
  else if n = 0 then (2, nl)
  else (if ms = 0 then 2 else 0, wrapU64 (nl - wrapU64 n))

def afterIoW (n e nl ms : Int) : Int × Int :=
  if n < 0 then (if e = 4 ∨ e = 11 then (1, nl) else (3, nl))
  else (if ms = 0 then 2 else 0, wrapU64 (nl - wrapU64 n))

def ret (n nl : Int) : Int := wrapS64 (wrapU64 (n - nl))

def advCond (i c nw : Int) : Int := if i < c ∧ nw > 0 then 1 else 0

def advTake (nw l : Int) : Int := if wrapU64 nw > l then l else wrapU64 nw

def advBody (nw l : Int) : Int × Int × Int × Int :=
  if advTake nw l = 0 then (1, advTake nw l, nw, l)
  else (0, advTake nw l, wrapS64 (wrapU64 (wrapU64 nw - advTake nw l)), wrapU64 (l - advTake nw l))

def routine : Kind → Routine
  | .readN => { kind := .readN, events := 1, guard := guard2, skip := skip, cond := cond, tmo := tmo, afterPoll := afterPollR,
                afterIo := afterIoR, ret := ret, advCond := fun _ _ _ => 0, advBody := fun nw l => (0, 0, nw, l) }
  | .writeN => { kind := .writeN, events := 4, guard := guard2, skip := skip, cond := cond, tmo := tmo, afterPoll := afterPollW,
                 afterIo := afterIoW, ret := ret, advCond := fun _ _ _ => 0, advBody := fun nw l => (0, 0, nw, l) }
  | .writeIov => { kind := .writeIov, events := 4, guard := guard3, skip := skip, cond := cond, tmo := tmo, afterPoll := afterPollW,
                   afterIo := afterIoW, ret := ret, advCond := advCond, advBody := advBody }

end Spec

/-! ### arithmetic of the remaining-time computation -/

theorem cdiv_nonneg_eq {a : Int} (b : Int) (h : 0 ≤ a) : cdiv a b = a / b := Int.tdiv_eq_ediv_of_nonneg h
theorem cdiv_neg_eq {a : Int} (b : Int) (h : a < 0) : cdiv a b = -((-a) / b) := by
  have : cdiv a b = -(cdiv (-a) b) := by simp [cdiv, Int.neg_tdiv]
  rw [this, cdiv_nonneg_eq b (by omega)]

/-- the deadline (`ws`, `wu`) and the clock reading `w` (µs) are close enough for the `int` arithmetic of `_fd_get_poll_timeout` -/
def InRange (ws wu w : Int) : Prop :=
  0 ≤ wu ∧ wu < 1000000 ∧ -4000000000000 ≤ ws ∧ ws ≤ 4000000000000 ∧ -4000000000000000000 ≤ w ∧ w ≤ 4000000000000000000 ∧
  -2000000000000 ≤ ws * 1000000 + wu - w ∧ ws * 1000000 + wu - w ≤ 2000000000000

theorem rawMsecs_bounds {ws wu w : Int} (h : InRange ws wu w) :
    (ws * 1000000 + wu - w ≤ 0 → Spec.rawMsecs ws wu (w / 1000000) (w % 1000000) ≤ 0) ∧
    (ws * 1000000 + wu - w > 0 → ws * 1000000 + wu - w ≤ 1000 * Spec.rawMsecs ws wu (w / 1000000) (w % 1000000) ∧
      1000 * Spec.rawMsecs ws wu (w / 1000000) (w % 1000000) ≤ ws * 1000000 + wu - w + 1998) := by
  obtain ⟨h1, h2, h3, h4, h5, h6, h7, h8⟩ := h
  unfold Spec.rawMsecs
  have hx : wrapS64 (wrapS64 (wu - w % 1000000) + 999) = wu - w % 1000000 + 999 := by simp only [wrapS64]; omega
  rw [hx]
  by_cases hs : 0 ≤ wu - w % 1000000 + 999
  · rw [cdiv_nonneg_eq 1000 hs]; simp only [wrapS32, wrapS64]; omega
  · rw [cdiv_neg_eq 1000 (by omega)]; simp only [wrapS32, wrapS64]; omega


/-! ### generic induction over the loop -/

/-- state an outcome carries -/
def Outcome.st : Outcome → St
  | .cont s => s
  | .done x => x.st

/-- `P` holds of a continuing state, `Q` of a final result -/
def Outcome.sat (P : St → Prop) (Q : Result → Prop) : Outcome → Prop
  | .cont s => P s
  | .done x => Q x

def divergedAt (s : St) : Result := { ret := -2, errno := s.errno, st := s, diverged := true }

theorem iterate_sat {r : Routine} {cfg : Cfg} {P : St → Prop} {Q : Result → Prop}
    (hstep : ∀ s, P s → (step r cfg s).sat P Q) (hdiv : ∀ s, P s → Q (divergedAt s)) :
    ∀ f s, P s → Q (iterate r cfg f s) := by
  intro f
  induction f with
  | zero => intro s hs; exact hdiv s hs
  | succ f ih =>
    intro s hs
    have h := hstep s hs
    unfold iterate
    cases hst : step r cfg s with
    | cont s' => rw [hst] at h; exact ih s' h
    | done x => rw [hst] at h; exact h

theorem run_sat {r : Routine} {cfg : Cfg} {pq : List PollEv} {iq : List IoEv} {P : St → Prop} {Q : Result → Prop}
    (hinit : P (init r cfg pq iq))
    (hguard : ∀ g e, r.guard cfg.fd cfg.ptr (cfg.chunks.length : Nat) 0 = (g, e) → g ≠ 0 →
      Q { ret := g, errno := e, st := { init r cfg pq iq with errno := e } })
    (hio : ∀ m, P (init r cfg pq iq) → (ioPhase r cfg m (init r cfg pq iq)).sat P Q)
    (hstep : ∀ s, P s → (step r cfg s).sat P Q) (hdiv : ∀ s, P s → Q (divergedAt s)) :
    Q (run r cfg pq iq) := by
  unfold run
  rcases hg : r.guard cfg.fd cfg.ptr (cfg.chunks.length : Nat) 0 with ⟨g, e⟩
  simp only []
  by_cases hg0 : g ≠ 0
  · rw [if_pos hg0]; exact hguard g e hg hg0
  · rw [if_neg hg0]
    by_cases ht : (r.skip cfg.skip (init r cfg pq iq).nleft).1 ≠ 0
    · rw [if_pos ht]
      have h := hio (r.skip cfg.skip (init r cfg pq iq).nleft).2 hinit
      cases hp : ioPhase r cfg (r.skip cfg.skip (init r cfg pq iq).nleft).2 (init r cfg pq iq) with
      | cont s' => rw [hp] at h; exact iterate_sat hstep hdiv _ _ h
      | done x => rw [hp] at h; exact h
    · rw [if_neg ht]; exact iterate_sat hstep hdiv _ _ hinit


/-! ### what the environment calls leave untouched -/

theorem doIo_frame (k : Kind) (s : St) :
    (doIo k s).2.2.blocked = s.blocked ∧ (doIo k s).2.2.wall = s.wall ∧ (doIo k s).2.2.pollQ = s.pollQ ∧
    (doIo k s).2.2.trace = s.trace ∧ (doIo k s).2.2.nleft = s.nleft ∧ (doIo k s).2.2.p = s.p ∧
    (doIo k s).2.2.iov = s.iov ∧ (doIo k s).2.2.errno = s.errno := by
  unfold doIo
  rcases s.ioQ with _ | ⟨ev, q⟩
  · simp
  · cases ev with
    | fail e => simp
    | xfer n => cases k <;> simp

def isIo : Call → Prop
  | .io _ => True
  | _ => False

/-- the I/O phase touches neither the clock nor the poll queue; it appends exactly one `io` to the trace -/
theorem ioPhase_frame (r : Routine) (cfg : Cfg) (m : Int) (s : St) :
    (ioPhase r cfg m s).st.blocked = s.blocked ∧ (ioPhase r cfg m s).st.wall = s.wall ∧
    (ioPhase r cfg m s).st.pollQ = s.pollQ ∧ ∃ g, (ioPhase r cfg m s).st.trace = s.trace ++ [Call.io g] := by
  have hf := doIo_frame r.kind s
  unfold ioPhase
  rcases hio : doIo r.kind s with ⟨nio, e, s1⟩
  rw [hio] at hf
  obtain ⟨h1, h2, h3, h4, -⟩ := hf
  simp only [] at h1 h2 h3 h4
  (repeat' split) <;> simp_all [Outcome.st, finish]


/-! ### bounded wait -/

/-- what may still be spent inside poll when the clock shows `w` and the deadline is `D` (both µs): the remaining
    time plus the rounding of one wait (up to 1998 µs: round-up to the next millisecond, plus the C division
    truncating towards zero when the microsecond difference is negative); nothing once the deadline has passed -/
def slack (D w : Int) : Int := if D - w > 0 then D - w + 1998 else 0

/-- what backward steps of the clock still pending in the script can add to the wait -/
def credit : List PollEv → Int
  | [] => 0
  | .jump d :: q => (if d < 0 then -d + 1998 else 0) + credit q
  | .ready _ _ :: q => credit q
  | .fail _ _ :: q => credit q

theorem credit_nonneg : ∀ q, 0 ≤ credit q
  | [] => by simp [credit]
  | .jump d :: q => by have := credit_nonneg q; simp only [credit]; split <;> omega
  | .ready _ _ :: q => by simpa [credit] using credit_nonneg q
  | .fail _ _ :: q => by simpa [credit] using credit_nonneg q

theorem slack_nonneg (D w : Int) : 0 ≤ slack D w := by unfold slack; split <;> omega

theorem drain_pot (D : Int) : ∀ q w, slack D (drain q w).2 + credit (drain q w).1 ≤ slack D w + credit q
  | [], w => by simp [drain]
  | .ready _ _ :: q, w => by simp [drain]
  | .fail _ _ :: q, w => by simp [drain]
  | .jump d :: q, w => by
    have ih := drain_pot D q (w + d)
    simp only [drain, credit]
    unfold slack at ih ⊢
    (repeat' split) <;> (repeat' split at ih) <;> omega

def noJumpHead : List PollEv → Prop
  | .jump _ :: _ => False
  | _ => True

theorem drain_noJumpHead : ∀ q w, noJumpHead (drain q w).1
  | [], w => by simp [drain, noJumpHead]
  | .ready _ _ :: q, w => by simp [drain, noJumpHead]
  | .fail _ _ :: q, w => by simp [drain, noJumpHead]
  | .jump d :: q, w => by simpa [drain] using drain_noJumpHead q (w + d)

/-- poll on a queue whose pending clock steps have been applied: the clock is not stepped, the sleep is non-negative and
    at most the timeout, the pending backward steps are unchanged -/
theorem doPoll_noJump (m e : Int) : ∀ q w, noJumpHead q →
    (doPoll m e q w).2.2.2.2.2 = w ∧ credit (doPoll m e q w).2.2.2.2.1 = credit q ∧
    0 ≤ (doPoll m e q w).2.2.2.1 ∧ (0 ≤ m → (doPoll m e q w).2.2.2.1 ≤ 1000 * m)
  | [], w, _ => by unfold doPoll; split <;> simp [credit] <;> omega
  | .ready dt rev :: q, w, _ => by unfold doPoll; split <;> simp [credit] <;> omega
  | .fail dt e' :: q, w, _ => by unfold doPoll; split <;> simp [credit] <;> omega
  | .jump d :: q, w, h => by simp [noJumpHead] at h


/-- One trip around the loop when a real deadline is given (the clock is read): what it does to the environment.
    Holds for ANY decision kernels: the timeout handed to poll is computed from a clock reading taken in the same
    trip, whatever the previous trip ended with. -/
theorem step_env (r : Routine) (cfg : Cfg) (s : St) (hc : r.cond s.nleft ≠ 0)
    (hr : ∀ a b, (r.tmo cfg.whenP cfg.ws cfg.wu a b).2 = true) :
    (step r cfg s).st.blocked = s.blocked +
        (doPoll (r.tmo cfg.whenP cfg.ws cfg.wu ((drain s.pollQ s.wall).2 / 1000000) ((drain s.pollQ s.wall).2 % 1000000)).1
          s.errno (drain s.pollQ s.wall).1 (drain s.pollQ s.wall).2).2.2.2.1 ∧
    (step r cfg s).st.wall =
        (doPoll (r.tmo cfg.whenP cfg.ws cfg.wu ((drain s.pollQ s.wall).2 / 1000000) ((drain s.pollQ s.wall).2 % 1000000)).1
          s.errno (drain s.pollQ s.wall).1 (drain s.pollQ s.wall).2).2.2.2.2.2 +
        (doPoll (r.tmo cfg.whenP cfg.ws cfg.wu ((drain s.pollQ s.wall).2 / 1000000) ((drain s.pollQ s.wall).2 % 1000000)).1
          s.errno (drain s.pollQ s.wall).1 (drain s.pollQ s.wall).2).2.2.2.1 ∧
    (step r cfg s).st.pollQ =
        (doPoll (r.tmo cfg.whenP cfg.ws cfg.wu ((drain s.pollQ s.wall).2 / 1000000) ((drain s.pollQ s.wall).2 % 1000000)).1
          s.errno (drain s.pollQ s.wall).1 (drain s.pollQ s.wall).2).2.2.2.2.1 ∧
    ∃ nfd sl tl, (step r cfg s).st.trace = s.trace ++ Call.gettime (drain s.pollQ s.wall).2 ::
        Call.poll (r.tmo cfg.whenP cfg.ws cfg.wu ((drain s.pollQ s.wall).2 / 1000000) ((drain s.pollQ s.wall).2 % 1000000)).1 nfd sl :: tl ∧
      (tl = [] ∨ ∃ g, tl = [Call.io g]) := by
  unfold step
  rw [if_neg hc]
  simp only [hr, if_true]
  generalize (r.tmo cfg.whenP cfg.ws cfg.wu ((drain s.pollQ s.wall).2 / 1000000) ((drain s.pollQ s.wall).2 % 1000000)).1 = m
  generalize drain s.pollQ s.wall = d
  generalize hp : doPoll m s.errno d.1 d.2 = pr
  obtain ⟨nfd, e1, rev, slept, q1, w1⟩ := pr
  simp only []
  split
  · -- code 0: the I/O phase
    rename_i h0
    have hf := ioPhase_frame r cfg m
      { nleft := s.nleft, p := s.p, iov := s.iov, errno := (r.afterPoll nfd e1 rev).2, blocked := s.blocked + slept, wall := w1 + slept,
        pollQ := q1, ioQ := s.ioQ, src := s.src, buf := s.buf, sink := s.sink,
        trace := s.trace ++ [Call.gettime d.2] ++ [Call.poll m nfd slept] }
    obtain ⟨f1, f2, f3, g, f4⟩ := hf
    refine ⟨f1, f2, f3, nfd, slept, [Call.io g], ?_, Or.inr ⟨g, rfl⟩⟩
    rw [f4]; simp
  · refine ⟨?_, ?_, ?_, nfd, slept, [], ?_, Or.inl rfl⟩ <;> (repeat' split) <;> simp [Outcome.st, finish]


/-- every clock reading of the run is within the range in which `_fd_get_poll_timeout`'s `int` arithmetic is exact -/
def sane (ws wu : Int) (t : List Call) : Prop := ∀ w, Call.gettime w ∈ t → InRange ws wu w

theorem sane_append {ws wu : Int} {t u : List Call} : sane ws wu (t ++ u) ↔ sane ws wu t ∧ sane ws wu u := by
  unfold sane; constructor
  · intro h; exact ⟨fun w hw => h w (List.mem_append_left _ hw), fun w hw => h w (List.mem_append_right _ hw)⟩
  · intro ⟨h1, h2⟩ w hw; rcases List.mem_append.mp hw with h | h; exact h1 w h; exact h2 w h

theorem tmo_facts {wp ws wu w : Int} (hp : wp ≠ 0) (hz : ¬(ws = 0 ∧ wu = 0)) (h : InRange ws wu w) :
    (ws * 1000000 + wu - w ≤ 0 → (Spec.tmo wp ws wu (w / 1000000) (w % 1000000)).1 = 0) ∧
    (ws * 1000000 + wu - w > 0 → 0 ≤ (Spec.tmo wp ws wu (w / 1000000) (w % 1000000)).1 ∧
      1000 * (Spec.tmo wp ws wu (w / 1000000) (w % 1000000)).1 ≤ ws * 1000000 + wu - w + 1998) := by
  have hb := rawMsecs_bounds h
  unfold Spec.tmo
  simp only [hp, hz, if_false]
  constructor
  · intro h0; have := hb.1 h0; split <;> omega
  · intro h0; have := hb.2 h0; split <;> omega

theorem bounded_wait_gen (r : Routine) (cfg : Cfg) (pq : List PollEv) (iq : List IoEv)
    (htmo : r.tmo = Spec.tmo) (hw : cfg.whenP ≠ 0) (hz : ¬(cfg.ws = 0 ∧ cfg.wu = 0)) :
    sane cfg.ws cfg.wu (run r cfg pq iq).st.trace →
    (run r cfg pq iq).st.blocked ≤ slack (cfg.ws * 1000000 + cfg.wu) cfg.start + credit pq := by
  let D := cfg.ws * 1000000 + cfg.wu
  let B0 := slack D cfg.start + credit pq
  have hreads : ∀ a b, (r.tmo cfg.whenP cfg.ws cfg.wu a b).2 = true := by
    intro a b; rw [htmo]; unfold Spec.tmo; simp [hz, hw]
  apply run_sat (P := fun s => sane cfg.ws cfg.wu s.trace → s.blocked + slack D s.wall + credit s.pollQ ≤ B0)
    (Q := fun x => sane cfg.ws cfg.wu x.st.trace → x.st.blocked ≤ B0)
  · intro _; simp [init, B0, D]
  · intro g e _ _ _; have := slack_nonneg D cfg.start; have := credit_nonneg pq; simp [init, B0]; omega
  · intro m hP
    generalize init r cfg pq iq = s at hP ⊢
    obtain ⟨f1, f2, f3, g, f4⟩ := ioPhase_frame r cfg m s
    cases ho : ioPhase r cfg m s with
    | cont s' =>
      rw [ho] at f1 f2 f3 f4; simp only [Outcome.st] at f1 f2 f3 f4
      intro hs; rw [f4, sane_append] at hs; have := hP hs.1; rw [f1, f2, f3]; exact this
    | done x =>
      rw [ho] at f1 f2 f3 f4; simp only [Outcome.st] at f1 f2 f3 f4
      intro hs; rw [f4, sane_append] at hs; have := hP hs.1
      have := slack_nonneg D s.wall; have := credit_nonneg s.pollQ; rw [f1]; omega
  · intro s hP
    by_cases hc : r.cond s.nleft = 0
    · unfold step; rw [if_pos hc]; intro hs; have := hP hs
      have := slack_nonneg D s.wall; have := credit_nonneg s.pollQ; simp only [finish]; omega
    · obtain ⟨e1, e2, e3, nfd, sl, tl, e4, _⟩ := step_env r cfg s hc hreads
      have key : sane cfg.ws cfg.wu (step r cfg s).st.trace →
          (step r cfg s).st.blocked + slack D (step r cfg s).st.wall + credit (step r cfg s).st.pollQ ≤ B0 := by
        intro hs
        rw [e4, sane_append] at hs
        have hP' := hP hs.1
        have hin : InRange cfg.ws cfg.wu (drain s.pollQ s.wall).2 := hs.2 _ (by simp)
        have hd := drain_pot D s.pollQ s.wall
        have hnj := drain_noJumpHead s.pollQ s.wall
        obtain ⟨p1, p2, p3, p4⟩ := doPoll_noJump
          (r.tmo cfg.whenP cfg.ws cfg.wu ((drain s.pollQ s.wall).2 / 1000000) ((drain s.pollQ s.wall).2 % 1000000)).1
          s.errno _ (drain s.pollQ s.wall).2 hnj
        have tf := tmo_facts hw hz hin
        rw [e1, e2, e3, p1, p2]
        rw [htmo] at p3 p4 ⊢
        generalize (doPoll (Spec.tmo cfg.whenP cfg.ws cfg.wu ((drain s.pollQ s.wall).2 / 1000000) ((drain s.pollQ s.wall).2 % 1000000)).1
          s.errno (drain s.pollQ s.wall).1 (drain s.pollQ s.wall).2).2.2.2.1 = slept at *
        generalize (Spec.tmo cfg.whenP cfg.ws cfg.wu ((drain s.pollQ s.wall).2 / 1000000) ((drain s.pollQ s.wall).2 % 1000000)).1 = m at *
        generalize (drain s.pollQ s.wall).2 = w0 at *
        generalize credit (drain s.pollQ s.wall).1 = c0 at *
        show s.blocked + slept + slack (cfg.ws * 1000000 + cfg.wu) (w0 + slept) + c0 ≤ B0
        have hd' : slack (cfg.ws * 1000000 + cfg.wu) w0 + c0 ≤ slack (cfg.ws * 1000000 + cfg.wu) s.wall + credit s.pollQ := hd
        have hP'' : s.blocked + slack (cfg.ws * 1000000 + cfg.wu) s.wall + credit s.pollQ ≤ B0 := hP'
        unfold slack at hd' hP'' ⊢
        by_cases hr : cfg.ws * 1000000 + cfg.wu - w0 > 0
        · have := tf.2 hr; have := p4 this.1
          (repeat' split) <;> (repeat' split at hd') <;> (repeat' split at hP'') <;> omega
        · have := tf.1 (by omega); have := p4 (by omega)
          (repeat' split) <;> (repeat' split at hd') <;> (repeat' split at hP'') <;> omega
      cases ho : step r cfg s with
      | cont s' => rw [ho] at key; exact key
      | done x =>
        rw [ho] at key; simp only [Outcome.st] at key
        intro hs; have := key hs
        have := slack_nonneg D x.st.wall; have := credit_nonneg x.st.pollQ; omega
  · intro s hP hs; have := hP hs
    have := slack_nonneg D s.wall; have := credit_nonneg s.pollQ; simp only [divergedAt]; omega


/-! ### anatomy of one trip (names for the intermediate values of `step`) -/

/-- timeout handed to poll in the trip that starts in `s` -/
def pollMsecs (r : Routine) (cfg : Cfg) (s : St) : Int :=
  (r.tmo cfg.whenP cfg.ws cfg.wu ((drain s.pollQ s.wall).2 / 1000000) ((drain s.pollQ s.wall).2 % 1000000)).1

/-- state after `_fd_get_poll_timeout` -/
def prePoll (r : Routine) (cfg : Cfg) (s : St) : St :=
  if (r.tmo cfg.whenP cfg.ws cfg.wu ((drain s.pollQ s.wall).2 / 1000000) ((drain s.pollQ s.wall).2 % 1000000)).2 then
    { s with pollQ := (drain s.pollQ s.wall).1, wall := (drain s.pollQ s.wall).2,
             trace := s.trace ++ [Call.gettime (drain s.pollQ s.wall).2] }
  else s

def pollRes (r : Routine) (cfg : Cfg) (s : St) : Int × Int × Int × Int × List PollEv × Int :=
  doPoll (pollMsecs r cfg s) (prePoll r cfg s).errno (prePoll r cfg s).pollQ (prePoll r cfg s).wall

/-- (control code, errno) decided by the chain after poll -/
def pollDecision (r : Routine) (cfg : Cfg) (s : St) : Int × Int :=
  r.afterPoll (pollRes r cfg s).1 (pollRes r cfg s).2.1 (pollRes r cfg s).2.2.1

/-- state after poll and the chain on its result -/
def postPoll (r : Routine) (cfg : Cfg) (s : St) : St :=
  { prePoll r cfg s with
    pollQ := (pollRes r cfg s).2.2.2.2.1, wall := (pollRes r cfg s).2.2.2.2.2 + (pollRes r cfg s).2.2.2.1,
    blocked := (prePoll r cfg s).blocked + (pollRes r cfg s).2.2.2.1,
    trace := (prePoll r cfg s).trace ++ [Call.poll (pollMsecs r cfg s) (pollRes r cfg s).1 (pollRes r cfg s).2.2.2.1],
    errno := (pollDecision r cfg s).2 }

theorem step_eq (r : Routine) (cfg : Cfg) (s : St) :
    step r cfg s =
      if r.cond s.nleft = 0 then .done (finish r cfg s)
      else if (pollDecision r cfg s).1 = 0 then ioPhase r cfg (pollMsecs r cfg s) (postPoll r cfg s)
      else if (pollDecision r cfg s).1 = Gen.Fd.CONT then .cont (postPoll r cfg s)
      else if (pollDecision r cfg s).1 = Gen.Fd.BRK then .done (finish r cfg (postPoll r cfg s))
      else .done { ret := -1, errno := (postPoll r cfg s).errno, st := postPoll r cfg s } := by
  unfold step
  by_cases hc : r.cond s.nleft = 0
  · rw [if_pos hc, if_pos hc]
  · rw [if_neg hc, if_neg hc]
    by_cases hr : (r.tmo cfg.whenP cfg.ws cfg.wu ((drain s.pollQ s.wall).2 / 1000000) ((drain s.pollQ s.wall).2 % 1000000)).2 = true
    · simp only [postPoll, pollDecision, pollRes, prePoll, pollMsecs, hr, if_true]
    · simp only [postPoll, pollDecision, pollRes, prePoll, pollMsecs, hr]

theorem ioPhase_eq (r : Routine) (cfg : Cfg) (m : Int) (s : St) :
    ioPhase r cfg m s =
      if (r.afterIo (doIo r.kind s).1 (doIo r.kind s).2.1 s.nleft m).1 = 0 then
        match r.kind with
        | .writeIov => .cont { (doIo r.kind s).2.2 with
            errno := (doIo r.kind s).2.1, trace := (doIo r.kind s).2.2.trace ++ [Call.io (doIo r.kind s).1],
            nleft := (r.afterIo (doIo r.kind s).1 (doIo r.kind s).2.1 s.nleft m).2,
            iov := iovAdvance r (cfg.chunks.length : Nat) 0 (doIo r.kind s).2.2.iov (doIo r.kind s).1 }
        | _ => .cont { (doIo r.kind s).2.2 with
            errno := (doIo r.kind s).2.1, trace := (doIo r.kind s).2.2.trace ++ [Call.io (doIo r.kind s).1],
            nleft := (r.afterIo (doIo r.kind s).1 (doIo r.kind s).2.1 s.nleft m).2,
            p := (doIo r.kind s).2.2.p + (doIo r.kind s).1 }
      else if (r.afterIo (doIo r.kind s).1 (doIo r.kind s).2.1 s.nleft m).1 = Gen.Fd.CONT then
        .cont { (doIo r.kind s).2.2 with
            errno := (doIo r.kind s).2.1, trace := (doIo r.kind s).2.2.trace ++ [Call.io (doIo r.kind s).1],
            nleft := (r.afterIo (doIo r.kind s).1 (doIo r.kind s).2.1 s.nleft m).2 }
      else if (r.afterIo (doIo r.kind s).1 (doIo r.kind s).2.1 s.nleft m).1 = Gen.Fd.BRK then
        .done (finish r cfg { (doIo r.kind s).2.2 with
            errno := (doIo r.kind s).2.1, trace := (doIo r.kind s).2.2.trace ++ [Call.io (doIo r.kind s).1],
            nleft := (r.afterIo (doIo r.kind s).1 (doIo r.kind s).2.1 s.nleft m).2 })
      else .done { ret := -1, errno := (doIo r.kind s).2.1, st := { (doIo r.kind s).2.2 with
            errno := (doIo r.kind s).2.1, trace := (doIo r.kind s).2.2.trace ++ [Call.io (doIo r.kind s).1] } } := by
  rfl


/-! ### return value and errno (control skeleton of the spec routines) -/

theorem doPoll_errno (m e : Int) : ∀ q w, 0 ≤ (doPoll m e q w).1 → (doPoll m e q w).2.1 = e
  | [], w => by unfold doPoll; split <;> simp
  | .ready dt rev :: q, w => by unfold doPoll; split <;> simp
  | .fail dt e' :: q, w => by unfold doPoll; split <;> simp
  | .jump d :: q, w => by unfold doPoll; exact doPoll_errno m e q (w + d)

theorem doIo_errno (k : Kind) (s : St) : 0 ≤ (doIo k s).1 → (doIo k s).2.1 = s.errno := by
  unfold doIo
  rcases s.ioQ with _ | ⟨ev, q⟩
  · simp
  · cases ev with
    | fail e => simp
    | xfer n => cases k <;> simp

theorem spec_afterPoll (k : Kind) : (Spec.routine k).afterPoll = Spec.afterPollR ∨ (Spec.routine k).afterPoll = Spec.afterPollW := by
  cases k <;> simp [Spec.routine]
theorem spec_afterIo (k : Kind) : (Spec.routine k).afterIo = Spec.afterIoR ∨ (Spec.routine k).afterIo = Spec.afterIoW := by
  cases k <;> simp [Spec.routine]
theorem spec_cond (k : Kind) : (Spec.routine k).cond = Spec.cond := by cases k <;> rfl
theorem spec_ret (k : Kind) : (Spec.routine k).ret = Spec.ret := by cases k <;> rfl
theorem spec_tmo (k : Kind) : (Spec.routine k).tmo = Spec.tmo := by cases k <;> rfl
theorem spec_skip (k : Kind) : (Spec.routine k).skip = Spec.skip := by cases k <;> rfl
theorem spec_kind (k : Kind) : (Spec.routine k).kind = k := by cases k <;> rfl

/-- invariant of the continuing states: errno is not ETIMEDOUT, and the last call was not a poll that timed out -/
def Ctl (s : St) : Prop := s.errno ≠ 110 ∧ ∀ m sl, s.trace.getLast? ≠ some (Call.poll m 0 sl)

/-- what a finished call looks like -/
def CtlDone (k : Kind) (cfg : Cfg) (x : Result) : Prop :=
  (x.diverged = false →
    (x.ret = -1 ∧ x.errno ≠ 4 ∧ x.errno ≠ 11) ∨
    (x.ret = Spec.ret (total (Spec.routine k) cfg) x.st.nleft ∧ (x.errno = 110 → 0 < x.st.nleft))) ∧
  (∀ m sl, x.st.trace.getLast? = some (Call.poll m 0 sl) →
    x.ret = Spec.ret (total (Spec.routine k) cfg) x.st.nleft ∧ x.errno = 110 ∧ 0 < x.st.nleft)

theorem ctl_ioPhase (k : Kind) (cfg : Cfg) (m : Int) (s : St) (h : Ctl s) :
    (ioPhase (Spec.routine k) cfg m s).sat Ctl (CtlDone k cfg) := by
  have he := doIo_errno (Spec.routine k).kind s
  obtain ⟨f1, f2, f3, f4, f5, f6, f7, f8⟩ := doIo_frame (Spec.routine k).kind s
  rw [ioPhase_eq]
  generalize doIo (Spec.routine k).kind s = io at *
  obtain ⟨nio, e, s1⟩ := io
  simp only [] at he f4 ⊢
  obtain ⟨h1, h2⟩ := h
  rcases spec_afterIo k with hk | hk <;> rw [hk] <;> simp only [Spec.afterIoR, Spec.afterIoW, Gen.Fd.CONT, Gen.Fd.BRK] <;>
    (repeat' split) <;>
    simp_all [Outcome.sat, Ctl, CtlDone, finish, spec_ret, List.getLast?_append] <;> omega

theorem prePoll_frame (r : Routine) (cfg : Cfg) (s : St) :
    (prePoll r cfg s).errno = s.errno ∧ (prePoll r cfg s).nleft = s.nleft ∧ (prePoll r cfg s).blocked = s.blocked ∧
    (prePoll r cfg s).ioQ = s.ioQ ∧ (prePoll r cfg s).p = s.p ∧ (prePoll r cfg s).iov = s.iov ∧
    (prePoll r cfg s).src = s.src ∧ (prePoll r cfg s).buf = s.buf ∧ (prePoll r cfg s).sink = s.sink := by
  unfold prePoll; split <;> simp

theorem ctl_step (k : Kind) (cfg : Cfg) (s : St) (h : Ctl s) :
    (step (Spec.routine k) cfg s).sat Ctl (CtlDone k cfg) := by
  rw [step_eq]
  obtain ⟨h1, h2⟩ := h
  by_cases hc : (Spec.routine k).cond s.nleft = 0
  · rw [if_pos hc]
    simp only [Outcome.sat, CtlDone, finish, spec_ret]
    exact ⟨fun _ => Or.inr ⟨trivial, fun h => absurd h h1⟩, fun m sl h => absurd h (h2 m sl)⟩
  · rw [if_neg hc]
    have hnl : 0 < s.nleft := by
      rw [spec_cond] at hc; unfold Spec.cond at hc; split at hc <;> simp_all
    clear hc
    have hpe : 0 ≤ (pollRes (Spec.routine k) cfg s).1 → (pollRes (Spec.routine k) cfg s).2.1 = (prePoll (Spec.routine k) cfg s).errno :=
      doPoll_errno _ _ _ _
    obtain ⟨pf1, pf2, -⟩ := prePoll_frame (Spec.routine k) cfg s
    rw [pf1] at hpe
    by_cases c0 : (pollDecision (Spec.routine k) cfg s).1 = 0
    · rw [if_pos c0]
      apply ctl_ioPhase
      unfold pollDecision at c0
      refine ⟨?_, ?_⟩
      · simp only [postPoll, pollDecision]
        generalize pollRes (Spec.routine k) cfg s = pr at *
        obtain ⟨nfd, e1, rev, slept, q1, w1⟩ := pr
        simp only [] at hpe c0 ⊢
        rcases spec_afterPoll k with hk | hk <;> simp only [hk, Spec.afterPollR, Spec.afterPollW] at c0 ⊢ <;>
          (repeat' split at c0) <;> (repeat' split) <;> simp_all <;> omega
      · intro m sl
        simp only [postPoll, List.getLast?_append, List.getLast?_singleton, Option.some_or, ne_eq, Option.some.injEq,
          Call.poll.injEq, not_and]
        intro _ hz
        generalize pollRes (Spec.routine k) cfg s = pr at *
        obtain ⟨nfd, e1, rev, slept, q1, w1⟩ := pr
        simp only [] at hpe c0 hz ⊢
        rcases spec_afterPoll k with hk | hk <;> simp only [hk, Spec.afterPollR, Spec.afterPollW] at c0 <;>
          (repeat' split at c0) <;> simp_all
    · rw [if_neg c0]
      simp only [Gen.Fd.CONT, Gen.Fd.BRK]
      have hpn : (postPoll (Spec.routine k) cfg s).nleft = s.nleft := by simp [postPoll, pf2]
      have hpt : ∃ t, (postPoll (Spec.routine k) cfg s).trace = t ++ [Call.poll (pollMsecs (Spec.routine k) cfg s)
          (pollRes (Spec.routine k) cfg s).1 (pollRes (Spec.routine k) cfg s).2.2.2.1] := ⟨_, rfl⟩
      have hpd : (postPoll (Spec.routine k) cfg s).errno = (pollDecision (Spec.routine k) cfg s).2 := rfl
      obtain ⟨t, hpt⟩ := hpt
      generalize postPoll (Spec.routine k) cfg s = sB at *
      unfold pollDecision at c0 hpd ⊢
      generalize pollMsecs (Spec.routine k) cfg s = ms at *
      generalize pollRes (Spec.routine k) cfg s = pr at *
      obtain ⟨nfd, e1, rev, slept, q1, w1⟩ := pr
      simp only [] at hpe c0 hpd hpt ⊢
      rcases spec_afterPoll k with hk | hk <;> simp only [hk, Spec.afterPollR, Spec.afterPollW] at c0 hpd ⊢ <;>
        (repeat' split) <;>
        simp_all [Outcome.sat, Ctl, CtlDone, finish, spec_ret, List.getLast?_append] <;> omega

theorem spec_guard (k : Kind) (fd p c e g e' : Int) (h : (Spec.routine k).guard fd p c e = (g, e')) (hg : g ≠ 0) :
    g = -1 ∧ e' = 22 := by
  cases k <;> simp only [Spec.routine, Spec.guard2, Spec.guard3] at h <;> split at h <;> simp_all

theorem ctl_run (k : Kind) (cfg : Cfg) (pq : List PollEv) (iq : List IoEv) :
    CtlDone k cfg (run (Spec.routine k) cfg pq iq) := by
  apply run_sat (P := Ctl) (Q := CtlDone k cfg)
  · simp [Ctl, init]
  · intro g e hg hg0
    obtain ⟨rfl, rfl⟩ := spec_guard k _ _ _ _ _ _ hg hg0
    simp [CtlDone, init]
  · exact fun m h => ctl_ioPhase k cfg m _ h
  · exact fun s h => ctl_step k cfg s h
  · intro s h; simp only [CtlDone, divergedAt]
    exact ⟨fun h' => by simp at h', fun m sl h' => absurd h' (h.2 m sl)⟩


/-! ### every trip that continues consumes an event of the script -/

def isPollB : Call → Bool
  | .poll _ _ _ => true
  | _ => false
def isIoB : Call → Bool
  | .io _ => true
  | _ => false
def isGetB : Call → Bool
  | .gettime _ => true
  | _ => false
def npolls (t : List Call) : Nat := (t.filter isPollB).length
def nios (t : List Call) : Nat := (t.filter isIoB).length
def ngets (t : List Call) : Nat := (t.filter isGetB).length

/-- events left in the script -/
def remaining (s : St) : Nat := s.pollQ.length + s.ioQ.length

theorem drain_len : ∀ q w, (drain q w).1.length ≤ q.length
  | [], w => by simp [drain]
  | .ready _ _ :: q, w => by simp [drain]
  | .fail _ _ :: q, w => by simp [drain]
  | .jump d :: q, w => by have := drain_len q (w + d); simp only [drain, List.length_cons]; omega

theorem doPoll_len (m e : Int) : ∀ q w,
    (doPoll m e q w).2.2.2.2.1.length ≤ q.length ∧
    (0 < (doPoll m e q w).1 → (doPoll m e q w).2.2.2.2.1.length < q.length) ∧
    ((doPoll m e q w).1 < 0 → (doPoll m e q w).2.1 ≠ ESCRIPT → (doPoll m e q w).2.2.2.2.1.length < q.length)
  | [], w => by unfold doPoll; split <;> simp
  | .ready dt rev :: q, w => by unfold doPoll; split <;> simp
  | .fail dt e' :: q, w => by unfold doPoll; split <;> simp
  | .jump d :: q, w => by
    have := doPoll_len m e q (w + d)
    unfold doPoll; simp only [List.length_cons]; omega

theorem doIo_len (k : Kind) (s : St) :
    (doIo k s).2.2.ioQ.length ≤ s.ioQ.length ∧
    ((0 ≤ (doIo k s).1 ∨ (doIo k s).2.1 ≠ ESCRIPT) → (doIo k s).2.2.ioQ.length < s.ioQ.length) := by
  unfold doIo
  cases h : s.ioQ with
  | nil => simp [h, ESCRIPT]
  | cons ev q =>
    cases ev with
    | fail e => simp
    | xfer n => cases k <;> simp

/-- bookkeeping of one outcome relative to the state it started from -/
def Counted (s : St) (o : Outcome) : Prop :=
  remaining o.st ≤ remaining s ∧
  (match o with | .cont s' => remaining s' < remaining s | .done _ => True)

theorem count_ioPhase (k : Kind) (cfg : Cfg) (m : Int) (s : St) :
    remaining (ioPhase (Spec.routine k) cfg m s).st ≤ remaining s ∧
    (∀ s', ioPhase (Spec.routine k) cfg m s = .cont s' → remaining s' < remaining s) := by
  obtain ⟨l1, l2⟩ := doIo_len (Spec.routine k).kind s
  obtain ⟨f1, f2, f3, -⟩ := doIo_frame (Spec.routine k).kind s
  rw [ioPhase_eq]
  generalize doIo (Spec.routine k).kind s = io at *
  obtain ⟨nio, e, s1⟩ := io
  simp only [] at l1 l2 f3 ⊢
  rcases spec_afterIo k with hk | hk <;> simp only [hk, Spec.afterIoR, Spec.afterIoW, Gen.Fd.CONT, Gen.Fd.BRK, ESCRIPT] at l2 ⊢ <;>
    (repeat' split) <;> simp_all [Outcome.st, remaining, finish] <;> omega

theorem prePoll_len (r : Routine) (cfg : Cfg) (s : St) : (prePoll r cfg s).pollQ.length ≤ s.pollQ.length := by
  unfold prePoll; split
  · exact drain_len _ _
  · exact Nat.le_refl _

theorem count_step (k : Kind) (cfg : Cfg) (s : St) :
    remaining (step (Spec.routine k) cfg s).st ≤ remaining s ∧
    (∀ s', step (Spec.routine k) cfg s = .cont s' → remaining s' < remaining s) := by
  rw [step_eq]
  by_cases hc : (Spec.routine k).cond s.nleft = 0
  · rw [if_pos hc]; simp [Outcome.st, finish]
  · rw [if_neg hc]
    have hpl := prePoll_len (Spec.routine k) cfg s
    obtain ⟨-, -, -, pf4, -⟩ := prePoll_frame (Spec.routine k) cfg s
    have hd : _ ∧ _ ∧ _ := doPoll_len (pollMsecs (Spec.routine k) cfg s) (prePoll (Spec.routine k) cfg s).errno
      (prePoll (Spec.routine k) cfg s).pollQ (prePoll (Spec.routine k) cfg s).wall
    change (pollRes (Spec.routine k) cfg s).2.2.2.2.1.length ≤ _ ∧
      (0 < (pollRes (Spec.routine k) cfg s).1 → (pollRes (Spec.routine k) cfg s).2.2.2.2.1.length < _) ∧
      ((pollRes (Spec.routine k) cfg s).1 < 0 → (pollRes (Spec.routine k) cfg s).2.1 ≠ ESCRIPT →
        (pollRes (Spec.routine k) cfg s).2.2.2.2.1.length < _) at hd
    have hq : (postPoll (Spec.routine k) cfg s).pollQ = (pollRes (Spec.routine k) cfg s).2.2.2.2.1 := rfl
    have hi : (postPoll (Spec.routine k) cfg s).ioQ = s.ioQ := by simp [postPoll, pf4]
    by_cases c0 : (pollDecision (Spec.routine k) cfg s).1 = 0
    · rw [if_pos c0]
      obtain ⟨i1, i2⟩ := count_ioPhase k cfg (pollMsecs (Spec.routine k) cfg s) (postPoll (Spec.routine k) cfg s)
      have hpos : 0 < (pollRes (Spec.routine k) cfg s).1 := by
        unfold pollDecision at c0
        generalize pollRes (Spec.routine k) cfg s = pr at *
        obtain ⟨nfd, e1, rev, slept, q1, w1⟩ := pr
        simp only [] at c0 ⊢
        rcases spec_afterPoll k with hk | hk <;> simp only [hk, Spec.afterPollR, Spec.afterPollW] at c0 <;>
          (repeat' split at c0) <;> simp_all <;> omega
      have hlt : remaining (postPoll (Spec.routine k) cfg s) < remaining s := by
        have := hd.2.1 hpos; simp only [remaining, hq, hi]; omega
      refine ⟨by omega, fun s' h => ?_⟩
      have := i1; rw [h] at this; simp only [Outcome.st] at this; omega
    · rw [if_neg c0]
      simp only [Gen.Fd.CONT, Gen.Fd.BRK]
      have hle : remaining (postPoll (Spec.routine k) cfg s) ≤ remaining s := by
        simp only [remaining, hq, hi]; omega
      by_cases c1 : (pollDecision (Spec.routine k) cfg s).1 = 1
      · simp only [c1, if_true]
        have hlt : remaining (postPoll (Spec.routine k) cfg s) < remaining s := by
          have h3 := hd.2.2
          unfold pollDecision at c1
          generalize pollRes (Spec.routine k) cfg s = pr at *
          obtain ⟨nfd, e1, rev, slept, q1, w1⟩ := pr
          simp only [ESCRIPT] at c1 h3 hq ⊢
          have : nfd < 0 ∧ e1 ≠ 38 := by
            rcases spec_afterPoll k with hk | hk <;> simp only [hk, Spec.afterPollR, Spec.afterPollW] at c1 <;>
              (repeat' split at c1) <;> simp_all <;> omega
          have := h3 this.1 this.2
          simp only [remaining, hq, hi]; omega
        refine ⟨by simp only [Outcome.st]; omega, fun s' h => ?_⟩
        cases h; exact hlt
      · simp only [c1, if_false]
        by_cases c2 : (pollDecision (Spec.routine k) cfg s).1 = 2 <;> simp [c2, Outcome.st, finish] <;> omega

theorem ioPhase_done_notdiv (r : Routine) (cfg : Cfg) (m : Int) (s : St) (x : Result)
    (h : ioPhase r cfg m s = .done x) : x.diverged = false := by
  rw [ioPhase_eq] at h
  (repeat' split at h) <;> simp_all [finish] <;> (cases h; rfl)

theorem step_done_notdiv (r : Routine) (cfg : Cfg) (s : St) (x : Result)
    (h : step r cfg s = .done x) : x.diverged = false := by
  rw [step_eq] at h
  by_cases hc : r.cond s.nleft = 0
  · rw [if_pos hc] at h; cases h; rfl
  · rw [if_neg hc] at h
    by_cases c0 : (pollDecision r cfg s).1 = 0
    · rw [if_pos c0] at h; exact ioPhase_done_notdiv _ _ _ _ _ h
    · rw [if_neg c0] at h
      (repeat' split at h) <;> simp_all [finish] <;> (cases h; rfl)

theorem iterate_terminates (k : Kind) (cfg : Cfg) : ∀ f s, remaining s < f →
    (iterate (Spec.routine k) cfg f s).diverged = false
  | 0, s, h => by omega
  | f + 1, s, h => by
    unfold iterate
    cases hs : step (Spec.routine k) cfg s with
    | done x => exact step_done_notdiv _ _ _ _ hs
    | cont s' =>
      have := (count_step k cfg s).2 s' hs
      exact iterate_terminates k cfg f s' (by omega)

/-- the routines always return: the fuel of `run` is never exhausted -/
theorem run_terminates (k : Kind) (cfg : Cfg) (pq : List PollEv) (iq : List IoEv) :
    (run (Spec.routine k) cfg pq iq).diverged = false := by
  unfold run
  simp only []
  split
  · rfl
  · have hr : remaining (init (Spec.routine k) cfg pq iq) = pq.length + iq.length := by simp [remaining, init]
    split
    · split
      · rename_i x hx; exact ioPhase_done_notdiv _ _ _ _ _ hx
      · rename_i s' hx
        have := (count_ioPhase k cfg _ _).2 s' hx
        exact iterate_terminates k cfg _ _ (by unfold fuelFor; omega)
    · exact iterate_terminates k cfg _ _ (by unfold fuelFor; omega)


/-! ### counting the calls -/

theorem npolls_append (a b : List Call) : npolls (a ++ b) = npolls a + npolls b := by simp [npolls]
theorem nios_append (a b : List Call) : nios (a ++ b) = nios a + nios b := by simp [nios]
theorem ngets_append (a b : List Call) : ngets (a ++ b) = ngets a + ngets b := by simp [ngets]

/-- all poll timeouts in the trace are non-negative (never an infinite wait) -/
def tmoNonneg (t : List Call) : Prop := ∀ m nfd sl, Call.poll m nfd sl ∈ t → 0 ≤ m

theorem spec_tmo_nonneg (wp ws wu a b : Int) (hw : wp ≠ 0) : 0 ≤ (Spec.tmo wp ws wu a b).1 := by
  unfold Spec.tmo; simp only [hw, if_false]; (repeat' split) <;> simp <;> omega

/-- bookkeeping invariant: `R0` = number of events in the script at entry -/
def Cnt (R0 : Nat) (s : St) : Prop :=
  npolls s.trace + remaining s ≤ R0 ∧ nios s.trace ≤ npolls s.trace + 1 ∧ ngets s.trace = npolls s.trace ∧ tmoNonneg s.trace

def CntDone (R0 : Nat) (x : Result) : Prop :=
  npolls x.st.trace + remaining x.st ≤ R0 + 1 ∧ nios x.st.trace ≤ npolls x.st.trace + 1 ∧
  ngets x.st.trace = npolls x.st.trace ∧ tmoNonneg x.st.trace

theorem cnt_of_st {R0 : Nat} {o : Outcome} (h : Cnt R0 o.st) : o.sat (Cnt R0) (CntDone R0) := by
  cases o with
  | cont s => exact h
  | done x => exact ⟨by have := h.1; simp only [Outcome.st] at this; omega, h.2⟩

theorem cnt_run (k : Kind) (cfg : Cfg) (pq : List PollEv) (iq : List IoEv)
    (hw : cfg.whenP ≠ 0) (hz : ¬(cfg.ws = 0 ∧ cfg.wu = 0)) :
    CntDone (pq.length + iq.length) (run (Spec.routine k) cfg pq iq) := by
  have hreads : ∀ a b, ((Spec.routine k).tmo cfg.whenP cfg.ws cfg.wu a b).2 = true := by
    intro a b; rw [spec_tmo]; unfold Spec.tmo; simp [hz, hw]
  apply run_sat (P := Cnt (pq.length + iq.length)) (Q := CntDone (pq.length + iq.length))
  · simp [Cnt, init, npolls, nios, ngets, remaining, tmoNonneg]
  · intro g e _ _; simp [CntDone, init, npolls, nios, ngets, remaining, tmoNonneg]
  · intro m _
    obtain ⟨-, -, -, g, f4⟩ := ioPhase_frame (Spec.routine k) cfg m (init (Spec.routine k) cfg pq iq)
    obtain ⟨c1, c2⟩ := count_ioPhase k cfg m (init (Spec.routine k) cfg pq iq)
    apply cnt_of_st
    have hr : remaining (init (Spec.routine k) cfg pq iq) = pq.length + iq.length := by simp [remaining, init]
    have ht : (init (Spec.routine k) cfg pq iq).trace = [] := rfl
    rw [ht] at f4
    refine ⟨?_, ?_, ?_, ?_⟩ <;> rw [f4]
    · simp [npolls, isPollB]; omega
    · show nios ([] ++ [Call.io g]) ≤ npolls ([] ++ [Call.io g]) + 1; exact Nat.le_refl 1
    · simp [npolls, ngets, isPollB, isGetB]
    · intro m' nfd sl hm; simp at hm
  · intro s ⟨h1, h2, h3, h4⟩
    by_cases hc : (Spec.routine k).cond s.nleft = 0
    · rw [step_eq, if_pos hc]; exact ⟨by simp only [finish]; omega, h2, h3, h4⟩
    · obtain ⟨-, -, -, nfd, sl, tl, e4, htl⟩ := step_env (Spec.routine k) cfg s hc hreads
      obtain ⟨c1, c2⟩ := count_step k cfg s
      have hm0 : 0 ≤ ((Spec.routine k).tmo cfg.whenP cfg.ws cfg.wu ((drain s.pollQ s.wall).2 / 1000000)
          ((drain s.pollQ s.wall).2 % 1000000)).1 := by rw [spec_tmo]; exact spec_tmo_nonneg _ _ _ _ _ hw
      generalize ((Spec.routine k).tmo cfg.whenP cfg.ws cfg.wu ((drain s.pollQ s.wall).2 / 1000000)
          ((drain s.pollQ s.wall).2 % 1000000)).1 = ms at *
      generalize (drain s.pollQ s.wall).2 = w0 at *
      have a1 : npolls (Call.gettime w0 :: Call.poll ms nfd sl :: tl) = 1 := by
        rcases htl with rfl | ⟨g, rfl⟩ <;> rfl
      have a2 : nios (Call.gettime w0 :: Call.poll ms nfd sl :: tl) ≤ 1 := by
        rcases htl with rfl | ⟨g, rfl⟩
        · exact Nat.zero_le 1
        · exact Nat.le_refl 1
      have a3 : ngets (Call.gettime w0 :: Call.poll ms nfd sl :: tl) = 1 := by
        rcases htl with rfl | ⟨g, rfl⟩ <;> rfl
      have key : npolls (step (Spec.routine k) cfg s).st.trace = npolls s.trace + 1 ∧
          nios (step (Spec.routine k) cfg s).st.trace ≤ nios s.trace + 1 ∧
          ngets (step (Spec.routine k) cfg s).st.trace = ngets s.trace + 1 ∧
          tmoNonneg (step (Spec.routine k) cfg s).st.trace := by
        rw [e4, npolls_append, nios_append, ngets_append]
        refine ⟨by omega, by omega, by omega, ?_⟩
        intro m' nfd' sl' hm
        rcases List.mem_append.mp hm with hm | hm
        · exact h4 _ _ _ hm
        · rcases htl with rfl | ⟨g, rfl⟩ <;> simp at hm <;> omega
      cases ho : step (Spec.routine k) cfg s with
      | cont s' =>
        rw [ho] at key c1; simp only [Outcome.st] at key c1
        have := c2 s' ho
        exact ⟨by omega, by omega, by omega, key.2.2.2⟩
      | done x =>
        rw [ho] at key c1; simp only [Outcome.st] at key c1
        exact ⟨by omega, by omega, by omega, key.2.2.2⟩
  · intro s ⟨h1, h2⟩; exact ⟨by simp only [divergedAt]; omega, h2⟩


/-! ### the data plane: list facts -/

theorem take_add_drop {α} (l : List α) (P m : Nat) : l.take P ++ (l.drop P).take m = l.take (P + m) := by
  rw [List.take_add]

theorem read_xfer (data : List UInt8) (N P m : Nat) (hPd : P ≤ data.length) :
    (data.take P ++ List.replicate (N - P) (0 : UInt8)).take P ++ (data.drop P).take m ++
      (data.take P ++ List.replicate (N - P) (0 : UInt8)).drop (P + m) =
    data.take (P + m) ++ List.replicate (N - (P + m)) 0 := by
  have hl : (data.take P).length = P := by rw [List.length_take]; omega
  rw [List.take_left' hl, List.drop_append, hl]
  rw [List.drop_of_length_le (by omega : (data.take P).length ≤ P + m)]
  rw [List.nil_append, List.drop_replicate, take_add_drop]
  congr 2; omega

/-! ### the iovec -/

/-- bytes the (remaining) iovec designates, in order -/
def flatAll (arena : List UInt8) (iov : List (Int × Int)) : List UInt8 :=
  (iov.map (fun e => (arena.drop e.1.toNat).take e.2.toNat)).flatten

/-- every element lies inside the arena and has a length that fits `ssize_t` -/
def IovWF (arena : List UInt8) (iov : List (Int × Int)) : Prop :=
  ∀ e ∈ iov, 0 ≤ e.1 ∧ 0 ≤ e.2 ∧ e.1 + e.2 ≤ arena.length

theorem piece_length (arena : List UInt8) (b l : Int) (h0 : 0 ≤ b) (h1 : 0 ≤ l) (h2 : b + l ≤ arena.length) :
    ((arena.drop b.toNat).take l.toNat).length = l.toNat := by
  rw [List.length_take, List.length_drop]; omega

theorem flatAll_length (arena : List UInt8) : ∀ iov, IovWF arena iov → (flatAll arena iov).length = iovTotal iov
  | [], _ => by simp [flatAll, iovTotal]
  | (b, l) :: rest, h => by
    have hh := h (b, l) (by simp)
    have ih := flatAll_length arena rest (fun e he => h e (by simp [he]))
    simp only [flatAll, iovTotal, List.map_cons, List.flatten_cons, List.length_append, List.sum_cons] at ih ⊢
    rw [piece_length arena b l hh.1 hh.2.1 hh.2.2, ih]

theorem gather_zero (arena : List UInt8) : ∀ iov, gather arena iov 0 = []
  | [] => by simp [gather]
  | (b, l) :: rest => by simp [gather, gather_zero arena rest]

theorem gather_eq_take (arena : List UInt8) : ∀ iov m, IovWF arena iov → gather arena iov m = (flatAll arena iov).take m
  | [], m, _ => by simp [gather, flatAll]
  | (b, l) :: rest, m, h => by
    have hh := h (b, l) (by simp)
    have ih := gather_eq_take arena rest (m - min m l.toNat) (fun e he => h e (by simp [he]))
    have hp := piece_length arena b l hh.1 hh.2.1 hh.2.2
    simp only [gather, ih]
    show _ = ((arena.drop b.toNat).take l.toNat ++ flatAll arena rest).take m
    rw [List.take_append, hp, List.take_take]
    congr 2
    omega

theorem adv_zero (cnt : Int) : ∀ iov i, iovAdvance (Spec.routine .writeIov) cnt i iov 0 = iov
  | [], i => by simp [iovAdvance]
  | (b, l) :: rest, i => by simp [iovAdvance, Spec.routine, Spec.advCond]

theorem adv_cons (cnt i b l nw : Int) (rest : List (Int × Int)) (hi : i < cnt) (h0 : 0 < nw) (hn : nw < 9223372036854775808)
    (hl0 : 0 ≤ l) (hl : l < 9223372036854775808) :
    iovAdvance (Spec.routine .writeIov) cnt i ((b, l) :: rest) nw =
      (if nw ≤ l then (b + nw, l - nw) :: rest
       else (b + l, 0) :: iovAdvance (Spec.routine .writeIov) cnt (i + 1) rest (nw - l)) := by
  have hw : wrapU64 nw = nw := by simp only [wrapU64]; omega
  simp only [iovAdvance, Spec.routine, Spec.advCond, Spec.advBody, Spec.advTake, hw, Gen.Fd.CONT]
  have hc : i < cnt ∧ nw > 0 := ⟨hi, h0⟩
  simp only [hc, and_self, if_true]
  by_cases h1 : nw > l
  · simp only [h1, if_true]
    have h1' : ¬ nw ≤ l := by omega
    simp only [h1', if_false]
    by_cases h2 : l = 0
    · subst h2; simp
    · simp only [h2, if_false]
      have e1 : wrapS64 (wrapU64 (nw - l)) = nw - l := by simp only [wrapS64, wrapU64]; omega
      have e2 : wrapU64 (l - l) = 0 := by simp [wrapU64]
      simp [e1]
  · simp only [h1, if_false]
    have h1' : nw ≤ l := by omega
    simp only [h1', if_true]
    have h2 : ¬ nw = 0 := by omega
    simp only [h2, if_false]
    have e1 : wrapS64 (wrapU64 (nw - nw)) = 0 := by simp [wrapS64, wrapU64]
    have e2 : wrapU64 (l - nw) = l - nw := by simp only [wrapU64]; omega
    simp only [e1, e2]
    have := adv_zero cnt rest (i + 1)
    simp only [Spec.routine] at this
    simp [this]

/-- advancing the private iovec copy by a short write of `nw` bytes drops exactly the first `nw` designated bytes:
    every byte is designated exactly once, in order, for every split -/
theorem adv_flat (arena : List UInt8) (cnt : Int) (iov : List (Int × Int)) : ∀ (i nw : Int),
    IovWF arena iov → (iovTotal iov : Int) < 9223372036854775808 → i + iov.length = cnt → 0 ≤ nw → nw ≤ iovTotal iov →
    flatAll arena (iovAdvance (Spec.routine .writeIov) cnt i iov nw) = (flatAll arena iov).drop nw.toNat ∧
    IovWF arena (iovAdvance (Spec.routine .writeIov) cnt i iov nw) ∧
    (iovAdvance (Spec.routine .writeIov) cnt i iov nw).length = iov.length := by
  induction iov with
  | nil => intro i nw _ _ _ _ _; simp [iovAdvance, flatAll, IovWF]
  | cons e rest ih =>
    obtain ⟨b, l⟩ := e
    intro i nw hwf ha hi h0 hn
    have hh := hwf (b, l) (by simp)
    have hwf' : IovWF arena rest := fun e he => hwf e (by simp [he])
    have hp := piece_length arena b l hh.1 hh.2.1 hh.2.2
    simp only [List.length_cons] at hi
    have htot : iovTotal ((b, l) :: rest) = l.toNat + iovTotal rest := by simp [iovTotal]
    rw [htot] at ha hn
    by_cases hz : nw = 0
    · subst hz; rw [adv_zero]; exact ⟨by simp, hwf, rfl⟩
    · have hfl := flatAll_length arena rest hwf'
      rw [adv_cons cnt i b l nw rest (by omega) (by omega) (by omega) hh.2.1 (by omega)]
      by_cases h1 : nw ≤ l
      · simp only [h1, if_true]
        refine ⟨?_, ?_, rfl⟩
        · show (arena.drop (b + nw).toNat).take (l - nw).toNat ++ flatAll arena rest =
            ((arena.drop b.toNat).take l.toNat ++ flatAll arena rest).drop nw.toNat
          rw [List.drop_append, hp, List.drop_take, List.drop_drop]
          have e1 : nw.toNat - l.toNat = 0 := by omega
          have e2 : (b + nw).toNat = b.toNat + nw.toNat := by omega
          have e3 : (l - nw).toNat = l.toNat - nw.toNat := by omega
          rw [e1, e2, e3, List.drop_zero]
        · intro e he
          simp only [List.mem_cons] at he
          rcases he with rfl | he
          · simp only []; omega
          · exact hwf' e he
      · simp only [h1, if_false]
        obtain ⟨ih1, ih2, ih3⟩ := ih (i + 1) (nw - l) hwf' (by omega) (by omega) (by omega) (by omega)
        refine ⟨?_, ?_, by simp [ih3]⟩
        · show (arena.drop (b + l).toNat).take (0 : Int).toNat ++ flatAll arena (iovAdvance (Spec.routine .writeIov) cnt (i + 1) rest (nw - l)) =
            ((arena.drop b.toNat).take l.toNat ++ flatAll arena rest).drop nw.toNat
          rw [ih1, List.drop_append, hp]
          rw [List.drop_of_length_le (by omega : ((arena.drop b.toNat).take l.toNat).length ≤ nw.toNat)]
          have e1 : (nw - l).toNat = nw.toNat - l.toNat := by omega
          simp only [Int.toNat_zero, List.take_zero, List.nil_append, e1]
        · intro e he
          simp only [List.mem_cons] at he
          rcases he with rfl | he
          · simp only []; omega
          · exact ih2 e he

theorem iovOf_spec (arena : List UInt8) : ∀ (chunks : List (List UInt8)) (pre : List UInt8),
    arena = pre ++ chunks.flatten →
    flatAll arena (iovOf chunks pre.length) = chunks.flatten ∧ IovWF arena (iovOf chunks pre.length) ∧
    (iovOf chunks pre.length).length = chunks.length
  | [], pre, _ => by simp [iovOf, flatAll, IovWF]
  | c :: cs, pre, h => by
    have h' : arena = (pre ++ c) ++ cs.flatten := by simp [h]
    obtain ⟨i1, i2, i3⟩ := iovOf_spec arena cs (pre ++ c) h'
    have hlen : ((pre ++ c).length : Int) = (pre.length : Int) + (c.length : Int) := by simp
    rw [hlen] at i1 i2 i3
    refine ⟨?_, ?_, by simp [iovOf, i3]⟩
    · show (arena.drop (pre.length : Int).toNat).take (c.length : Int).toNat ++ flatAll arena (iovOf cs (↑pre.length + ↑c.length)) = _
      rw [i1]
      simp only [Int.toNat_natCast, List.flatten_cons]
      rw [h, List.drop_left' rfl, List.flatten_cons, List.take_left' rfl]
    · intro e he
      simp only [iovOf, List.mem_cons] at he
      rcases he with rfl | he
      · simp only []; rw [h]; simp; omega
      · exact i2 e he


/-! ### the data plane: invariants -/

/-- what is known about the data of any state, continuing or final: `N - nleft` bytes have been transferred, they are
    the first `N - nleft` bytes of the stream / of the user data, in order, each exactly once -/
def DataF (k : Kind) (cfg : Cfg) (s : St) : Prop :=
  0 ≤ s.nleft ∧ s.nleft ≤ total (Spec.routine k) cfg ∧
  match k with
  | .readN => total (Spec.routine k) cfg - s.nleft ≤ cfg.data.length ∧
      s.src = cfg.data.drop (total (Spec.routine k) cfg - s.nleft).toNat ∧
      s.buf = cfg.data.take (total (Spec.routine k) cfg - s.nleft).toNat ++
        List.replicate ((total (Spec.routine k) cfg).toNat - (total (Spec.routine k) cfg - s.nleft).toNat) 0
  | .writeN => s.buf = cfg.data ∧ s.sink = cfg.data.take (total (Spec.routine k) cfg - s.nleft).toNat
  | .writeIov => s.buf = cfg.chunks.flatten ∧ s.sink = cfg.chunks.flatten.take (total (Spec.routine k) cfg - s.nleft).toNat

/-- additionally, at the loop head the cursor agrees with the count -/
def DataC (k : Kind) (cfg : Cfg) (s : St) : Prop :=
  DataF k cfg s ∧
  match k with
  | .writeIov => IovWF s.buf s.iov ∧ (s.iov.length : Int) = cfg.chunks.length ∧
      flatAll s.buf s.iov = s.buf.drop (total (Spec.routine k) cfg - s.nleft).toNat ∧ (iovTotal s.iov : Int) = s.nleft
  | _ => s.p = total (Spec.routine k) cfg - s.nleft

def Pre (k : Kind) (cfg : Cfg) : Prop :=
  0 ≤ total (Spec.routine k) cfg ∧ total (Spec.routine k) cfg < 9223372036854775808 ∧
  (k = .writeN → total (Spec.routine k) cfg ≤ cfg.data.length)

theorem doIo_nil (k : Kind) (s : St) (h : s.ioQ = []) : doIo k s = (-1, ESCRIPT, s) := by
  unfold doIo; rw [h]
theorem doIo_fail (k : Kind) (s : St) (e : Int) (q : List IoEv) (h : s.ioQ = .fail e :: q) :
    doIo k s = (-1, e, { s with ioQ := q }) := by
  unfold doIo; rw [h]
theorem doIo_read (s : St) (kk : Nat) (q : List IoEv) (h : s.ioQ = .xfer kk :: q) :
    doIo .readN s = (((min kk (min s.nleft.toNat s.src.length) : Nat) : Int), s.errno,
      { s with ioQ := q, src := s.src.drop (min kk (min s.nleft.toNat s.src.length)),
               buf := s.buf.take s.p.toNat ++ s.src.take (min kk (min s.nleft.toNat s.src.length)) ++
                 s.buf.drop (s.p.toNat + min kk (min s.nleft.toNat s.src.length)) }) := by
  unfold doIo; rw [h]
theorem doIo_write (s : St) (kk : Nat) (q : List IoEv) (h : s.ioQ = .xfer kk :: q) :
    doIo .writeN s = (((min kk s.nleft.toNat : Nat) : Int), s.errno,
      { s with ioQ := q, sink := s.sink ++ (s.buf.drop s.p.toNat).take (min kk s.nleft.toNat) }) := by
  unfold doIo; rw [h]
theorem doIo_iov (s : St) (kk : Nat) (q : List IoEv) (h : s.ioQ = .xfer kk :: q) :
    doIo .writeIov s = (((min kk (iovTotal s.iov) : Nat) : Int), s.errno,
      { s with ioQ := q, sink := s.sink ++ gather s.buf s.iov (min kk (iovTotal s.iov)) }) := by
  unfold doIo; rw [h]

theorem data_io_read (cfg : Cfg) (m : Int) (s : St) (hpre : Pre .readN cfg) (h : DataC .readN cfg s) :
    (ioPhase (Spec.routine .readN) cfg m s).sat (DataC .readN cfg) (fun x => DataF .readN cfg x.st) := by
  obtain ⟨⟨h0, h1, h2, h3, h4⟩, h5⟩ := h
  obtain ⟨p0, p1, -⟩ := hpre
  simp only [total, Spec.routine] at h0 h1 h2 h3 h4 h5 p0 p1
  rw [ioPhase_eq]
  simp only [Spec.routine]
  cases hq : s.ioQ with
  | nil =>
    simp only [doIo_nil _ _ hq]
    simp only [Spec.afterIoR, ESCRIPT, Gen.Fd.CONT, Gen.Fd.BRK]
    simp [Outcome.sat, DataF, total, Spec.routine, *]
  | cons ev q =>
    cases ev with
    | fail e =>
      simp only [doIo_fail _ _ _ _ hq]
      simp only [Spec.afterIoR, Gen.Fd.CONT, Gen.Fd.BRK]
      by_cases he : e = 4 ∨ e = 11
      · simp [he, Outcome.sat, DataC, DataF, total, Spec.routine, *]
      · simp [he, Outcome.sat, DataC, DataF, total, Spec.routine, *]
    | xfer kk =>
      simp only [doIo_read _ _ _ hq]
      -- P bytes so far
      obtain ⟨P, hP⟩ := Int.eq_ofNat_of_zero_le (show 0 ≤ cfg.n - s.nleft by omega)
      obtain ⟨Nn, hN⟩ := Int.eq_ofNat_of_zero_le p0
      have hp : s.p.toNat = P := by omega
      have hPt : (cfg.n - s.nleft).toNat = P := by omega
      have hnt : s.nleft.toNat = Nn - P := by omega
      rw [hPt] at h3 h4
      have hNt : cfg.n.toNat = Nn := by omega
      rw [hNt] at h4
      have hsl : s.src.length = cfg.data.length - P := by rw [h3]; simp
      generalize hm : min kk (min s.nleft.toNat s.src.length) = mm
      have hm1 : mm ≤ Nn - P := by omega
      have hm2 : mm ≤ cfg.data.length - P := by omega
      have hPd : P ≤ cfg.data.length := by omega
      have hbuf := read_xfer cfg.data Nn P mm hPd
      rw [← h4, ← h3] at hbuf
      simp only [hp, Spec.afterIoR, Gen.Fd.CONT, Gen.Fd.BRK]
      have hneg : ¬ ((mm : Int) < 0) := by omega
      simp only [hneg, if_false]
      by_cases hz : (mm : Int) = 0
      · have hz' : mm = 0 := by omega
        subst hz'
        simp only [hz, if_true]
        simp only [show ¬ ((2 : Int) = 0) by omega, show ¬ ((2 : Int) = 1) by omega, if_false, if_true]
        simp only [Outcome.sat, DataF, finish, total, Spec.routine, hPt, hNt]
        refine ⟨by omega, by omega, by omega, by simp [h3], ?_⟩
        rw [hbuf]; simp
      · simp only [hz, if_false]
        have hw : wrapU64 (s.nleft - wrapU64 (mm : Int)) = s.nleft - mm := by simp only [wrapU64]; omega
        have hP' : (cfg.n - (s.nleft - (mm : Int))).toNat = P + mm := by omega
        have hsrc : List.drop mm s.src = List.drop (P + mm) cfg.data := by rw [h3, List.drop_drop]
        by_cases hms : m = 0
        · simp only [hms, if_true, hw]
          simp only [show ¬ ((2 : Int) = 0) by omega, show ¬ ((2 : Int) = 1) by omega, if_false, if_true]
          simp only [Outcome.sat, DataF, finish, total, Spec.routine, hP', hNt]
          refine ⟨by omega, by omega, by omega, hsrc, ?_⟩
          rw [hbuf]
        · simp only [hms, if_false, hw, if_true]
          simp only [Outcome.sat, DataC, DataF, total, Spec.routine, hP', hNt]
          refine ⟨⟨by omega, by omega, by omega, hsrc, ?_⟩, by omega⟩
          rw [hbuf]

theorem data_io_write (cfg : Cfg) (m : Int) (s : St) (hpre : Pre .writeN cfg) (h : DataC .writeN cfg s) :
    (ioPhase (Spec.routine .writeN) cfg m s).sat (DataC .writeN cfg) (fun x => DataF .writeN cfg x.st) := by
  obtain ⟨⟨h0, h1, h3, h4⟩, h5⟩ := h
  obtain ⟨p0, p1, p2⟩ := hpre
  simp only [total, Spec.routine] at h0 h1 h3 h4 h5 p0 p1 p2
  rw [ioPhase_eq]
  simp only [Spec.routine]
  cases hq : s.ioQ with
  | nil =>
    simp only [doIo_nil _ _ hq]
    simp only [Spec.afterIoW, ESCRIPT, Gen.Fd.CONT, Gen.Fd.BRK]
    simp [Outcome.sat, DataF, total, Spec.routine, *]
  | cons ev q =>
    cases ev with
    | fail e =>
      simp only [doIo_fail _ _ _ _ hq]
      simp only [Spec.afterIoW, Gen.Fd.CONT, Gen.Fd.BRK]
      by_cases he : e = 4 ∨ e = 11
      · simp [he, Outcome.sat, DataC, DataF, total, Spec.routine, *]
      · simp [he, Outcome.sat, DataC, DataF, total, Spec.routine, *]
    | xfer kk =>
      simp only [doIo_write _ _ _ hq]
      obtain ⟨P, hP⟩ := Int.eq_ofNat_of_zero_le (show 0 ≤ cfg.n - s.nleft by omega)
      have hp : s.p.toNat = P := by omega
      have hPt : (cfg.n - s.nleft).toNat = P := by omega
      rw [hPt] at h4
      generalize hm : min kk s.nleft.toNat = mm
      have hm1 : (mm : Int) ≤ s.nleft := by omega
      simp only [hp, Spec.afterIoW, Gen.Fd.CONT, Gen.Fd.BRK]
      have hneg : ¬ ((mm : Int) < 0) := by omega
      simp only [hneg, if_false]
      have hw : wrapU64 (s.nleft - wrapU64 (mm : Int)) = s.nleft - mm := by simp only [wrapU64]; omega
      have hP' : (cfg.n - (s.nleft - (mm : Int))).toNat = P + mm := by omega
      have hsink : s.sink ++ List.take mm (List.drop P s.buf) = List.take (P + mm) cfg.data := by
        rw [h4, h3, take_add_drop]
      by_cases hms : m = 0
      · simp only [hms, if_true, hw]
        simp only [show ¬ ((2 : Int) = 0) by omega, show ¬ ((2 : Int) = 1) by omega, if_false]
        simp only [Outcome.sat, DataF, finish, total, Spec.routine, hP']
        exact ⟨by omega, by omega, h3, hsink⟩
      · simp only [hms, if_false, hw, if_true]
        simp only [Outcome.sat, DataC, DataF, total, Spec.routine, hP']
        exact ⟨⟨by omega, by omega, h3, hsink⟩, by omega⟩

theorem sum_lengths (chunks : List (List UInt8)) :
    (chunks.map (fun c => (c.length : Int))).sum = (chunks.flatten.length : Int) := by
  induction chunks with
  | nil => simp
  | cons c cs ih => simp [ih]

theorem total_iov (cfg : Cfg) : total (Spec.routine .writeIov) cfg = (cfg.chunks.flatten.length : Int) := by
  simp only [total, Spec.routine]; exact sum_lengths _

theorem data_io_iov (cfg : Cfg) (m : Int) (s : St) (hpre : Pre .writeIov cfg) (h : DataC .writeIov cfg s) :
    (ioPhase (Spec.routine .writeIov) cfg m s).sat (DataC .writeIov cfg) (fun x => DataF .writeIov cfg x.st) := by
  obtain ⟨⟨h0, h1, h3, h4⟩, h5, h6, h7, h8⟩ := h
  obtain ⟨p0, p1, -⟩ := hpre
  rw [total_iov] at h1 h4 h7 p0 p1
  have hk : (Spec.routine .writeIov).kind = .writeIov := rfl
  have ha : (Spec.routine .writeIov).afterIo = Spec.afterIoW := rfl
  rw [ioPhase_eq]
  simp only [hk, ha]
  cases hq : s.ioQ with
  | nil =>
    simp only [doIo_nil _ _ hq]
    simp only [Spec.afterIoW, ESCRIPT, Gen.Fd.CONT, Gen.Fd.BRK]
    simp only [show ((-1 : Int) < 0) by omega, show ¬ ((38 : Int) = 4 ∨ (38 : Int) = 11) by omega, if_true, if_false,
      show ¬ ((3 : Int) = 0) by omega, show ¬ ((3 : Int) = 1) by omega, show ¬ ((3 : Int) = 2) by omega]
    simp only [Outcome.sat, DataF, total_iov]
    exact ⟨h0, h1, h3, h4⟩
  | cons ev q =>
    cases ev with
    | fail e =>
      simp only [doIo_fail _ _ _ _ hq]
      simp only [Spec.afterIoW, Gen.Fd.CONT, Gen.Fd.BRK]
      simp only [show ((-1 : Int) < 0) by omega, if_true]
      by_cases he : e = 4 ∨ e = 11
      · simp only [he, if_true, show ¬ ((1 : Int) = 0) by omega, if_false]
        simp only [Outcome.sat, DataC, DataF, total_iov]
        exact ⟨⟨h0, h1, h3, h4⟩, h5, h6, h7, h8⟩
      · simp only [he, if_false, show ¬ ((3 : Int) = 0) by omega, show ¬ ((3 : Int) = 1) by omega, show ¬ ((3 : Int) = 2) by omega]
        simp only [Outcome.sat, DataF, total_iov]
        exact ⟨h0, h1, h3, h4⟩
    | xfer kk =>
      simp only [doIo_iov _ _ _ hq]
      obtain ⟨P, hP⟩ := Int.eq_ofNat_of_zero_le (show 0 ≤ (cfg.chunks.flatten.length : Int) - s.nleft by omega)
      have hPt : ((cfg.chunks.flatten.length : Int) - s.nleft).toNat = P := by omega
      rw [hPt] at h4 h7
      generalize hm : min kk (iovTotal s.iov) = mm
      have hm1 : (mm : Int) ≤ s.nleft := by omega
      simp only [Spec.afterIoW, Gen.Fd.CONT, Gen.Fd.BRK]
      have hneg : ¬ ((mm : Int) < 0) := by omega
      simp only [hneg, if_false]
      have hw : wrapU64 (s.nleft - wrapU64 (mm : Int)) = s.nleft - mm := by simp only [wrapU64]; omega
      have hP' : ((cfg.chunks.flatten.length : Int) - (s.nleft - (mm : Int))).toNat = P + mm := by omega
      have hsink : s.sink ++ gather s.buf s.iov mm = List.take (P + mm) cfg.chunks.flatten := by
        rw [gather_eq_take _ _ _ h5, h7, h4, h3, take_add_drop]
      by_cases hms : m = 0
      · simp only [hms, if_true, hw]
        simp only [show ¬ ((2 : Int) = 0) by omega, show ¬ ((2 : Int) = 1) by omega, if_false]
        simp only [Outcome.sat, DataF, finish, total_iov, hP']
        exact ⟨by omega, by omega, h3, hsink⟩
      · simp only [hms, if_false, hw, if_true]
        obtain ⟨a1, a2, a3⟩ := adv_flat s.buf ((cfg.chunks.length : Nat) : Int) s.iov 0 mm h5 (by omega) (by omega) (by omega) (by omega)
        have hmt : (mm : Int).toNat = mm := by omega
        rw [hmt, h7, List.drop_drop] at a1
        simp only [Outcome.sat, DataC, DataF, total_iov, hP']
        refine ⟨⟨by omega, by omega, h3, hsink⟩, a2, by rw [a3]; exact h6, a1, ?_⟩
        have := flatAll_length s.buf _ a2
        rw [a1, List.length_drop, h3] at this
        omega

theorem data_io (k : Kind) (cfg : Cfg) (m : Int) (s : St) (hpre : Pre k cfg) (h : DataC k cfg s) :
    (ioPhase (Spec.routine k) cfg m s).sat (DataC k cfg) (fun x => DataF k cfg x.st) := by
  cases k
  · exact data_io_read cfg m s hpre h
  · exact data_io_write cfg m s hpre h
  · exact data_io_iov cfg m s hpre h

theorem DataC_congr (k : Kind) (cfg : Cfg) (s s' : St) (h1 : s'.nleft = s.nleft) (h2 : s'.p = s.p) (h3 : s'.iov = s.iov)
    (h4 : s'.src = s.src) (h5 : s'.buf = s.buf) (h6 : s'.sink = s.sink) (h : DataC k cfg s) : DataC k cfg s' := by
  unfold DataC DataF at *
  cases k <;> simp only [] at h ⊢ <;> rw [h1] <;> (try rw [h2]) <;> (try rw [h3]) <;> (try rw [h4]) <;> (try rw [h5]) <;> (try rw [h6]) <;> exact h

theorem postPoll_frame (r : Routine) (cfg : Cfg) (s : St) :
    (postPoll r cfg s).nleft = s.nleft ∧ (postPoll r cfg s).p = s.p ∧ (postPoll r cfg s).iov = s.iov ∧
    (postPoll r cfg s).src = s.src ∧ (postPoll r cfg s).buf = s.buf ∧ (postPoll r cfg s).sink = s.sink := by
  obtain ⟨-, f2, -, -, f5, f6, f7, f8, f9⟩ := prePoll_frame r cfg s
  simp [postPoll, *]

theorem data_step (k : Kind) (cfg : Cfg) (s : St) (hpre : Pre k cfg) (h : DataC k cfg s) :
    (step (Spec.routine k) cfg s).sat (DataC k cfg) (fun x => DataF k cfg x.st) := by
  obtain ⟨g1, g2, g3, g4, g5, g6⟩ := postPoll_frame (Spec.routine k) cfg s
  have hpp : DataC k cfg (postPoll (Spec.routine k) cfg s) := DataC_congr k cfg s _ g1 g2 g3 g4 g5 g6 h
  rw [step_eq]
  split
  · exact h.1
  · split
    · exact data_io k cfg _ _ hpre hpp
    · split
      · exact hpp
      · split
        · exact hpp.1
        · exact hpp.1

theorem data_init (k : Kind) (cfg : Cfg) (pq : List PollEv) (iq : List IoEv) (hpre : Pre k cfg) :
    DataC k cfg (init (Spec.routine k) cfg pq iq) := by
  obtain ⟨p0, p1, p2⟩ := hpre
  cases k
  · simp only [total, Spec.routine] at p0 p1
    simp only [DataC, DataF, init, total, Spec.routine]
    simp; omega
  · simp only [total, Spec.routine] at p0 p1
    simp only [DataC, DataF, init, total, Spec.routine]
    simp; omega
  · rw [total_iov] at p0 p1
    obtain ⟨i1, i2, i3⟩ := iovOf_spec cfg.chunks.flatten cfg.chunks [] (by simp)
    have z : ((([] : List UInt8).length : Nat) : Int) = 0 := rfl
    rw [z] at i1 i2 i3
    have hb : (init (Spec.routine .writeIov) cfg pq iq).buf = cfg.chunks.flatten := rfl
    have hi : (init (Spec.routine .writeIov) cfg pq iq).iov = iovOf cfg.chunks 0 := rfl
    have hn : (init (Spec.routine .writeIov) cfg pq iq).nleft = (cfg.chunks.flatten.length : Int) := by
      exact total_iov cfg
    have hs : (init (Spec.routine .writeIov) cfg pq iq).sink = [] := rfl
    simp only [DataC, DataF, total_iov, hb, hi, hn, hs]
    refine ⟨⟨by omega, by omega, trivial, by simp⟩, i2, by rw [i3], by simp [i1], ?_⟩
    have := flatAll_length _ _ i2
    rw [i1] at this; omega

/-- the data statement for every script -/
theorem data_run (k : Kind) (cfg : Cfg) (pq : List PollEv) (iq : List IoEv) (hpre : Pre k cfg) :
    DataF k cfg (run (Spec.routine k) cfg pq iq).st := by
  have hi := data_init k cfg pq iq hpre
  apply run_sat (P := DataC k cfg) (Q := fun x => DataF k cfg x.st)
  · exact hi
  · intro g e _ _
    exact (DataC_congr k cfg _ _ rfl rfl rfl rfl rfl rfl hi).1
  · exact fun m h => data_io k cfg m _ hpre h
  · exact fun s h => data_step k cfg s hpre h
  · exact fun s h => h.1


end Munge.Fd
