import Munge.Model.Timer
/- Helper lemmas for C18 (`Munge/Props/C18.lean`). -/
namespace Munge.Timer
open Munge.C Munge.Gen.Timer

/-! ### the generated comparator is the lexicographic order on (sec, nsec) -/

theorem le_iff (a b : TS) : le a b = true ↔ (a.1 < b.1 ∨ (a.1 = b.1 ∧ a.2 ≤ b.2)) := by
  unfold le clock_is_timespec_le
  by_cases h : a.1 = b.1
  · by_cases h2 : a.2 ≤ b.2 <;> simp [h, h2, b2i]
  · by_cases h2 : a.1 ≤ b.1 <;> simp [h, h2, b2i] <;> omega

theorem le_refl (a : TS) : le a a = true := by rw [le_iff]; omega
theorem le_total (a b : TS) : le a b = true ∨ le b a = true := by rw [le_iff, le_iff]; omega
theorem le_trans {a b c : TS} (h1 : le a b = true) (h2 : le b c = true) : le a c = true := by
  rw [le_iff] at *; omega
theorem le_antisymm {a b : TS} (h1 : le a b = true) (h2 : le b a = true) : a = b := by
  rw [le_iff] at *
  have : a.1 = b.1 ∧ a.2 = b.2 := by omega
  exact Prod.ext this.1 this.2
theorem not_le {a b : TS} (h : le a b = false) : le b a = true := by
  cases le_total a b with
  | inl h' => rw [h] at h'; cases h'
  | inr h' => exact h'

/-! ### what the generated structure says -/

theorem walk_is_le (e n : TS) : insertWalkContinues e n = le e n := by
  unfold insertWalkContinues le; rfl
theorem scan_is_le (e now : TS) : scanWalkContinues e now = le e now := by
  unfold scanWalkContinues le; rfl

theorem addMs_zero (now : TS) : addMs now 0 = now := by
  unfold addMs clock_get_timespec; simp [KOut.written]

theorem scanNow_eq (s : State) : scanNow s = s.now := by
  unfold scanNow scanOffsetMs; exact addMs_zero _

theorem bumpId_pos (id : Int) : 0 < bumpId id := by
  unfold bumpId timer_id_bump; simp only; split <;> omega

theorem bumpId_succ {id : Int} (h0 : 0 ≤ id) (h1 : id < LONG_MAX) : bumpId id = id + 1 := by
  unfold LONG_MAX at h1
  unfold bumpId timer_id_bump; simp only [wrapS64]; split <;> omega

/-! ### the sorted insert -/

theorem mem_insertAt {t x : Tm} {l : List Tm} : x ∈ insertAt t l ↔ x = t ∨ x ∈ l := by
  induction l with
  | nil => simp [insertAt]
  | cons e r ih =>
    unfold insertAt; split
    · simp only [List.mem_cons, ih]; constructor <;> (intro h; rcases h with h | h | h <;> simp [h])
    · simp [List.mem_cons]

theorem insertAt_perm (t : Tm) (l : List Tm) : (insertAt t l).Perm (t :: l) := by
  induction l with
  | nil => simp [insertAt]
  | cons e r ih =>
    unfold insertAt; split
    · exact (List.Perm.cons e ih).trans (List.Perm.swap t e r)
    · exact List.Perm.refl _

theorem sublist_insertAt (t : Tm) (l : List Tm) : l.Sublist (insertAt t l) := by
  induction l with
  | nil => simp
  | cons e r ih =>
    unfold insertAt; split
    · exact ih.cons_cons e
    · exact List.Sublist.cons t (List.Sublist.refl _)

theorem pairwise_insertAt {R : Tm → Tm → Prop} {t : Tm} {l : List Tm}
    (h : l.Pairwise R) (h1 : ∀ x ∈ l, R x t) (h2 : ∀ x ∈ l, R t x) : (insertAt t l).Pairwise R := by
  induction l with
  | nil => simp [insertAt]
  | cons e r ih =>
    rw [List.pairwise_cons] at h
    unfold insertAt; split
    · rw [List.pairwise_cons]; refine ⟨?_, ih h.2 (fun x hx => h1 x (by simp [hx])) (fun x hx => h2 x (by simp [hx]))⟩
      intro x hx; rcases mem_insertAt.1 hx with rfl | hx
      · exact h1 e (by simp)
      · exact h.1 x hx
    · rw [List.pairwise_cons]; exact ⟨h2, List.pairwise_cons.2 h⟩

theorem sorted_insertAt {t : Tm} {l : List Tm} (h : l.Pairwise before) (hs : ∀ e ∈ l, e.seq < t.seq) :
    (insertAt t l).Pairwise before := by
  induction l with
  | nil => simp [insertAt]
  | cons e r ih =>
    rw [List.pairwise_cons] at h
    unfold insertAt; split
    · rename_i hc; rw [walk_is_le] at hc
      rw [List.pairwise_cons]; refine ⟨?_, ih h.2 (fun x hx => hs x (by simp [hx]))⟩
      intro x hx; rcases mem_insertAt.1 hx with rfl | hx
      · exact ⟨hc, fun _ => hs e (by simp)⟩
      · exact h.1 x hx
    · rename_i hc; rw [walk_is_le] at hc
      have hc : le e.ts t.ts = false := by simpa using hc
      have hte := not_le hc
      rw [List.pairwise_cons]; refine ⟨?_, List.pairwise_cons.2 h⟩
      intro x hx; rcases List.mem_cons.1 hx with rfl | hx
      · exact ⟨hte, fun h' => by rw [hc] at h'; cases h'⟩
      · have hex := h.1 x hx
        refine ⟨le_trans hte hex.1, fun h' => ?_⟩
        have := le_trans hex.1 h'; rw [hc] at this; cases this

theorem insertPos_zero_or {t : Tm} {l : List Tm} :
    insertPos t.ts l = 0 ∨ ∃ h r, l = h :: r ∧ insertAt t l = h :: insertAt t r := by
  cases l with
  | nil => left; rfl
  | cons e r =>
    by_cases hc : insertWalkContinues e.ts t.ts = true
    · right; exact ⟨e, r, rfl, by simp [insertAt, hc]⟩
    · left; simp [insertPos, hc]

theorem mem_takeWhile_pred {α} {p : α → Bool} {l : List α} {x : α} (h : x ∈ l.takeWhile p) : p x = true := by
  induction l with
  | nil => simp at h
  | cons e r ih =>
    rw [List.takeWhile_cons] at h
    split at h
    · rcases List.mem_cons.1 h with rfl | h
      · assumption
      · exact ih h
    · simp at h

/-! ### single requests -/

/-- the timer created by `setAbs` -/
def newTm (s : State) (ts : TS) (cb : Nat) : Tm := { id := bumpId s.nextId, ts := ts, cb := cb, seq := s.nset }

theorem setAbs_fst (s : State) (ts : TS) (cb : Nat) :
    (setAbs s ts cb).1 = { s with active := insertAt (newTm s ts cb) s.active, nextId := bumpId s.nextId, nset := s.nset + 1 } := rfl
theorem setAbs_ret (s : State) (ts : TS) (cb : Nat) : (setAbs s ts cb).2.1 = bumpId s.nextId := rfl
theorem setAbs_sig (s : State) (ts : TS) (cb : Nat) :
    (setAbs s ts cb).2.2 = setSignals (insertPos ts s.active) s.active.length := rfl

theorem cancel_cases (s : State) (id : Int) :
    (id ≤ 0 ∧ cancel s id = (s, -1, false)) ∨
    (0 < id ∧ s.active.find? (hasId id) = none ∧ cancel s id = (s, 0, false)) ∨
    (0 < id ∧ ∃ t, s.active.find? (hasId id) = some t ∧
      cancel s id = ({ s with active := s.active.eraseP (hasId id) }, 1,
                     cancelSignals (s.active.findIdx (hasId id)) s.active.length)) := by
  unfold cancel timer_cancel_guard timer_cancel_ret
  by_cases h : id ≤ 0
  · left; simp [h]
  · right
    have h' : 0 < id := by omega
    cases hf : s.active.find? (hasId id) with
    | none => left; simp [h, h']
    | some t => right; simp [h, h']

theorem cancel_batch (s : State) (id : Int) : (cancel s id).1.batch = s.batch := by
  rcases cancel_cases s id with ⟨_, h⟩ | ⟨_, _, h⟩ | ⟨_, t, _, h⟩ <;> rw [h]
theorem cancel_log (s : State) (id : Int) : (cancel s id).1.log = s.log := by
  rcases cancel_cases s id with ⟨_, h⟩ | ⟨_, _, h⟩ | ⟨_, t, _, h⟩ <;> rw [h]
theorem cancel_now (s : State) (id : Int) : (cancel s id).1.now = s.now := by
  rcases cancel_cases s id with ⟨_, h⟩ | ⟨_, _, h⟩ | ⟨_, t, _, h⟩ <;> rw [h]
theorem cancel_nset (s : State) (id : Int) : (cancel s id).1.nset = s.nset := by
  rcases cancel_cases s id with ⟨_, h⟩ | ⟨_, _, h⟩ | ⟨_, t, _, h⟩ <;> rw [h]
theorem cancel_nextId (s : State) (id : Int) : (cancel s id).1.nextId = s.nextId := by
  rcases cancel_cases s id with ⟨_, h⟩ | ⟨_, _, h⟩ | ⟨_, t, _, h⟩ <;> rw [h]
theorem cancel_active_sublist (s : State) (id : Int) : (cancel s id).1.active.Sublist s.active := by
  rcases cancel_cases s id with ⟨_, h⟩ | ⟨_, _, h⟩ | ⟨_, t, _, h⟩ <;> rw [h]
  · exact List.Sublist.refl _
  · exact List.Sublist.refl _
  · exact List.eraseP_sublist

theorem applyAct_batch (s : State) (a : Act) : (applyAct s a).1.batch = s.batch := by
  cases a with
  | setAbs ts cb => rfl
  | setRel ms cb => rfl
  | cancel id => exact cancel_batch s id
theorem applyAct_log (s : State) (a : Act) : (applyAct s a).1.log = s.log := by
  cases a with
  | setAbs ts cb => rfl
  | setRel ms cb => rfl
  | cancel id => exact cancel_log s id
theorem applyAct_now (s : State) (a : Act) : (applyAct s a).1.now = s.now := by
  cases a with
  | setAbs ts cb => rfl
  | setRel ms cb => rfl
  | cancel id => exact cancel_now s id

theorem applyActs_cons (s : State) (a : Act) (r : List Act) :
    applyActs s (a :: r) = ((applyActs (applyAct s a).1 r).1, (applyAct s a).2.2 || (applyActs (applyAct s a).1 r).2) := rfl

theorem applyActs_batch (s : State) (acts : List Act) : (applyActs s acts).1.batch = s.batch := by
  induction acts generalizing s with
  | nil => rfl
  | cons a r ih => rw [applyActs_cons]; simp only; rw [ih, applyAct_batch]
theorem applyActs_log (s : State) (acts : List Act) : (applyActs s acts).1.log = s.log := by
  induction acts generalizing s with
  | nil => rfl
  | cons a r ih => rw [applyActs_cons]; simp only; rw [ih, applyAct_log]
theorem applyActs_now (s : State) (acts : List Act) : (applyActs s acts).1.now = s.now := by
  induction acts generalizing s with
  | nil => rfl
  | cons a r ih => rw [applyActs_cons]; simp only; rw [ih, applyAct_now]

theorem applyActs_append (s : State) (a b : List Act) :
    (applyActs s (a ++ b)).1 = (applyActs (applyActs s a).1 b).1 := by
  induction a generalizing s with
  | nil => rfl
  | cons x r ih => simp only [List.cons_append, applyActs_cons]; exact ih _

/-! ### the invariant -/

theorem line_def (s : State) : line s = s.log.map (·.1) ++ s.batch ++ s.active := rfl

theorem inv_init : TimerInv init := by
  constructor <;> simp [init, line, logged]

theorem inv_setAbs {s : State} (h : TimerInv s) (ts : TS) (cb : Nat) : TimerInv (setAbs s ts cb).1 := by
  rw [setAbs_fst]
  have hl : (line { s with active := insertAt (newTm s ts cb) s.active, nextId := bumpId s.nextId, nset := s.nset + 1 }).Perm
      (newTm s ts cb :: line s) := by
    simp only [line_def]
    exact (List.Perm.append_left _ (insertAt_perm _ _)).trans List.perm_middle
  constructor
  · exact sorted_insertAt h.sorted (fun e he => h.fresh e (by simp [line_def, he]))
  · intro t ht
    have := hl.mem_iff.1 ht
    rcases List.mem_cons.1 this with rfl | h'
    · simp [newTm]
    · have := h.fresh t h'; simp only; omega
  · have := (hl.map Tm.seq).nodup_iff.2
    apply this
    rw [List.map_cons, List.nodup_cons]
    refine ⟨?_, h.nodup⟩
    intro hm
    rcases List.mem_map.1 hm with ⟨x, hx, hxs⟩
    have := h.fresh x hx
    simp [newTm] at hxs; omega
  · exact h.batchExp
  · exact h.logOk

theorem inv_cancel {s : State} (h : TimerInv s) (id : Int) : TimerInv (cancel s id).1 := by
  have hsub := cancel_active_sublist s id
  have hl : (line (cancel s id).1).Sublist (line s) := by
    simp only [line_def, cancel_batch, cancel_log]
    exact List.Sublist.append (List.Sublist.refl _) hsub
  constructor
  · exact h.sorted.sublist hsub
  · intro t ht; rw [cancel_nset]; exact h.fresh t (hl.subset ht)
  · exact h.nodup.sublist (hl.map _)
  · rw [cancel_batch, cancel_now]; exact h.batchExp
  · rw [cancel_log]; exact h.logOk

theorem inv_applyAct {s : State} (h : TimerInv s) (a : Act) : TimerInv (applyAct s a).1 := by
  cases a with
  | setAbs ts cb => exact inv_setAbs h ts cb
  | setRel ms cb => exact inv_setAbs h _ cb
  | cancel id => exact inv_cancel h id

theorem inv_applyActs {s : State} (h : TimerInv s) (acts : List Act) : TimerInv (applyActs s acts).1 := by
  induction acts generalizing s with
  | nil => exact h
  | cons a r ih => rw [applyActs_cons]; exact ih (inv_applyAct h a)

theorem inv_tick {s : State} (h : TimerInv s) (n : TS) : TimerInv (tick s n) := by
  unfold tick; split
  · rename_i hle
    constructor
    · exact h.sorted
    · exact h.fresh
    · exact h.nodup
    · intro t ht; exact le_trans (h.batchExp t ht) hle
    · exact h.logOk
  · exact h

theorem scan_line (s : State) : line (scan s) = line s := by
  unfold scan; split
  · rename_i hb; simp [line_def, hb, List.append_assoc]
  · rfl

theorem inv_scan {s : State} (h : TimerInv s) : TimerInv (scan s) := by
  have hl := scan_line s
  unfold scan at hl ⊢; split
  · rename_i hb
    rw [hb] at hl
    constructor
    · exact h.sorted.sublist (List.dropWhile_sublist _)
    · intro t ht; rw [hl] at ht; exact h.fresh t ht
    · rw [hl]; exact h.nodup
    · intro t ht
      have := mem_takeWhile_pred ht
      unfold expired at this; rw [scan_is_le, scanNow_eq] at this; exact this
    · exact h.logOk
  · exact h

theorem dispatch_line (s : State) : line (dispatch s) = line s := by
  unfold dispatch; split
  · rfl
  · rename_i t b hb; simp [line_def, hb]

theorem inv_dispatch {s : State} (h : TimerInv s) : TimerInv (dispatch s) := by
  have hl := dispatch_line s
  unfold dispatch at hl ⊢; split
  · exact h
  · rename_i t b hb
    rw [hb] at hl
    constructor
    · exact h.sorted
    · intro x hx; rw [hl] at hx; exact h.fresh x hx
    · rw [hl]; exact h.nodup
    · intro x hx; exact h.batchExp x (by rw [hb]; simp [hx])
    · intro p hp
      rcases List.mem_append.1 hp with hp | hp
      · exact h.logOk p hp
      · simp at hp; subst hp; exact h.batchExp t (by rw [hb]; simp)

theorem run_eq (s : State) (acts : List Act) :
    run s acts = if s.batch = [] then s else (applyActs (dispatch s) acts).1 := by
  unfold run; split <;> simp_all

theorem inv_run {s : State} (h : TimerInv s) (acts : List Act) : TimerInv (run s acts) := by
  rw [run_eq]; split
  · exact h
  · exact inv_applyActs (inv_dispatch h) acts

theorem inv_step {s : State} (h : TimerInv s) (op : Op) : TimerInv (step s op) := by
  cases op with
  | ext acts => exact inv_applyActs h acts
  | tick n => exact inv_tick h n
  | scan => exact inv_scan h
  | run acts => exact inv_run h acts

theorem exec_cons (s : State) (op : Op) (ops : List Op) : exec s (op :: ops) = exec (step s op) ops := rfl

theorem inv_exec {s : State} (h : TimerInv s) (ops : List Op) : TimerInv (exec s ops) := by
  induction ops generalizing s with
  | nil => exact h
  | cons op r ih => rw [exec_cons]; exact ih (inv_step h op)

/-! ### what stays in the line -/

theorem applyAct_nset_le (s : State) (a : Act) : s.nset ≤ (applyAct s a).1.nset := by
  cases a with
  | setAbs ts cb => simp [applyAct, setAbs_fst]
  | setRel ms cb => simp [applyAct, setRel, setAbs_fst]
  | cancel id => simp [applyAct, cancel_nset]

theorem applyActs_nset_le (s : State) (acts : List Act) : s.nset ≤ (applyActs s acts).1.nset := by
  induction acts generalizing s with
  | nil => exact Nat.le_refl _
  | cons a r ih => rw [applyActs_cons]; exact Nat.le_trans (applyAct_nset_le s a) (ih _)

theorem dispatch_nset (s : State) : (dispatch s).nset = s.nset := by
  unfold dispatch; split <;> rfl

theorem step_nset_le (s : State) (op : Op) : s.nset ≤ (step s op).nset := by
  cases op with
  | ext acts => exact applyActs_nset_le s acts
  | tick n => simp only [step]; unfold tick; split <;> exact Nat.le_refl _
  | scan => simp only [step]; unfold scan; split <;> exact Nat.le_refl _
  | run acts =>
    simp only [step]; rw [run_eq]; split
    · exact Nat.le_refl _
    · have := applyActs_nset_le (dispatch s) acts; rw [dispatch_nset] at this; exact this

theorem applyAct_line_keep {s : State} {t : Tm} (a : Act) (ht : t ∈ line s) (hc : a ≠ Act.cancel t.id) :
    t ∈ line (applyAct s a).1 := by
  cases a with
  | setAbs ts cb =>
    simp only [applyAct, setAbs_fst, line_def] at ht ⊢
    rcases List.mem_append.1 ht with h | h
    · exact List.mem_append_left _ h
    · exact List.mem_append_right _ ((sublist_insertAt _ _).subset h)
  | setRel ms cb =>
    simp only [applyAct, setRel, setAbs_fst, line_def] at ht ⊢
    rcases List.mem_append.1 ht with h | h
    · exact List.mem_append_left _ h
    · exact List.mem_append_right _ ((sublist_insertAt _ _).subset h)
  | cancel id =>
    have hne : id ≠ t.id := fun h => hc (by rw [h])
    simp only [applyAct]
    rcases cancel_cases s id with ⟨_, h⟩ | ⟨_, _, h⟩ | ⟨_, x, _, h⟩ <;> rw [h]
    · exact ht
    · exact ht
    · simp only [line_def] at ht ⊢
      rcases List.mem_append.1 ht with h' | h'
      · exact List.mem_append_left _ h'
      · refine List.mem_append_right _ ((List.mem_eraseP_of_neg ?_).2 h')
        simp [hasId]; exact fun h => hne h.symm

theorem applyActs_line_keep {s : State} {t : Tm} (acts : List Act) (ht : t ∈ line s) (hc : ¬ actsCancel t.id acts) :
    t ∈ line (applyActs s acts).1 := by
  induction acts generalizing s with
  | nil => exact ht
  | cons a r ih =>
    rw [applyActs_cons]
    refine ih (applyAct_line_keep a ht ?_) ?_
    · intro h; exact hc (by simp [actsCancel, h])
    · intro h; exact hc (by simp only [actsCancel] at h ⊢; exact List.mem_cons_of_mem _ h)

theorem tick_line (s : State) (n : TS) : line (tick s n) = line s := by
  unfold tick; split <;> rfl

theorem step_line_keep {s : State} {t : Tm} (op : Op) (ht : t ∈ line s) (hc : ¬ opCancels t.id op) :
    t ∈ line (step s op) := by
  cases op with
  | ext acts => exact applyActs_line_keep acts ht hc
  | tick n => simp only [step, tick_line]; exact ht
  | scan => simp only [step, scan_line]; exact ht
  | run acts =>
    simp only [step]; rw [run_eq]; split
    · exact ht
    · exact applyActs_line_keep acts (by rw [dispatch_line]; exact ht) hc

theorem exec_line_keep {s : State} {t : Tm} (ops : List Op) (ht : t ∈ line s) (hc : ¬ traceCancels t.id ops) :
    t ∈ line (exec s ops) := by
  induction ops generalizing s with
  | nil => exact ht
  | cons op r ih =>
    rw [exec_cons]
    refine ih (step_line_keep op ht ?_) ?_
    · intro h; exact hc ⟨op, by simp, h⟩
    · intro ⟨o, ho, h⟩; exact hc ⟨o, List.mem_cons_of_mem _ ho, h⟩

/-- the log only grows, at its end -/
theorem step_log_prefix (s : State) (op : Op) : ∃ ext, (step s op).log = s.log ++ ext := by
  cases op with
  | ext acts => exact ⟨[], by simp [step, applyActs_log]⟩
  | tick n => refine ⟨[], ?_⟩; simp only [step]; unfold tick; split <;> simp
  | scan => refine ⟨[], ?_⟩; simp only [step]; unfold scan; split <;> simp
  | run acts =>
    simp only [step]; rw [run_eq]; split
    · exact ⟨[], by simp⟩
    · rw [applyActs_log]; unfold dispatch; split
      · exact ⟨[], by simp⟩
      · exact ⟨_, rfl⟩

theorem exec_log_prefix (s : State) (ops : List Op) : ∃ ext, (exec s ops).log = s.log ++ ext := by
  induction ops generalizing s with
  | nil => exact ⟨[], by simp [exec]⟩
  | cons op r ih =>
    rw [exec_cons]
    obtain ⟨e1, h1⟩ := step_log_prefix s op
    obtain ⟨e2, h2⟩ := ih (step s op)
    exact ⟨e1 ++ e2, by rw [h2, h1, List.append_assoc]⟩

theorem exec_logged_mono {s : State} {t : Tm} (ops : List Op) (h : t ∈ logged s) : t ∈ logged (exec s ops) := by
  obtain ⟨e, he⟩ := exec_log_prefix s ops
  unfold logged at *; rw [he, List.map_append]; exact List.mem_append_left _ h

/-! ### relative order in the line -/

theorem neverBefore_insert {b a t : Tm} {p l : List Tm} (h : NeverBefore b a (p ++ l)) (ha : t ≠ a) (hb : t ≠ b) :
    NeverBefore b a (p ++ insertAt t l) := by
  unfold NeverBefore at *
  rw [List.pairwise_append] at h ⊢
  refine ⟨h.1, pairwise_insertAt h.2.1 (fun x _ hx => ha hx.2) (fun x _ hx => hb hx.1), ?_⟩
  intro x hx y hy
  rcases mem_insertAt.1 hy with rfl | hy
  · exact fun hxy => ha hxy.2
  · exact h.2.2 x hx y hy

theorem applyAct_neverBefore {s : State} {a b : Tm} (x : Act) (h : NeverBefore b a (line s))
    (ha : a.seq < s.nset) (hb : b.seq < s.nset) : NeverBefore b a (line (applyAct s x).1) := by
  have key : ∀ ts cb, NeverBefore b a (line (setAbs s ts cb).1) := by
    intro ts cb
    simp only [setAbs_fst, line_def] at h ⊢
    apply neverBefore_insert h
    · intro h'; rw [← h'] at ha; simp [newTm] at ha
    · intro h'; rw [← h'] at hb; simp [newTm] at hb
  cases x with
  | setAbs ts cb => exact key ts cb
  | setRel ms cb => exact key _ cb
  | cancel id =>
    have hl : (line (cancel s id).1).Sublist (line s) := by
      simp only [line_def, cancel_batch, cancel_log]
      exact List.Sublist.append (List.Sublist.refl _) (cancel_active_sublist s id)
    exact List.Pairwise.sublist hl h

theorem applyActs_neverBefore {s : State} {a b : Tm} (acts : List Act) (h : NeverBefore b a (line s))
    (ha : a.seq < s.nset) (hb : b.seq < s.nset) : NeverBefore b a (line (applyActs s acts).1) := by
  induction acts generalizing s with
  | nil => exact h
  | cons x r ih =>
    rw [applyActs_cons]
    have := applyAct_nset_le s x
    exact ih (applyAct_neverBefore x h ha hb) (by omega) (by omega)

theorem step_neverBefore {s : State} {a b : Tm} (op : Op) (h : NeverBefore b a (line s))
    (ha : a.seq < s.nset) (hb : b.seq < s.nset) : NeverBefore b a (line (step s op)) := by
  cases op with
  | ext acts => exact applyActs_neverBefore acts h ha hb
  | tick n => simp only [step, tick_line]; exact h
  | scan => simp only [step, scan_line]; exact h
  | run acts =>
    simp only [step]; rw [run_eq]; split
    · exact h
    · exact applyActs_neverBefore acts (by rw [dispatch_line]; exact h) (by rw [dispatch_nset]; exact ha)
        (by rw [dispatch_nset]; exact hb)

theorem exec_neverBefore {s : State} {a b : Tm} (ops : List Op) (h : NeverBefore b a (line s))
    (ha : a.seq < s.nset) (hb : b.seq < s.nset) : NeverBefore b a (line (exec s ops)) := by
  induction ops generalizing s with
  | nil => exact h
  | cons op r ih =>
    rw [exec_cons]
    have := step_nset_le s op
    exact ih (step_neverBefore op h ha hb) (by omega) (by omega)

/-- in a list sorted by `before`, `b` never precedes `a` when `a` must fire first -/
theorem neverBefore_of_sorted {a b : Tm} {l : List Tm} (h : l.Pairwise before) (hab : before a b) :
    NeverBefore b a l := by
  unfold NeverBefore
  refine h.imp ?_
  intro x y hxy ⟨hx, hy⟩
  subst hx; subst hy
  have := hab.2 hxy.1
  have := hxy.2 hab.1
  omega

/-! ### scan and drain -/

theorem mem_takeWhile_sorted {now : TS} {t : Tm} {l : List Tm} (h : l.Pairwise before) (ht : t ∈ l)
    (he : le t.ts now = true) : t ∈ l.takeWhile (expired now) := by
  induction l with
  | nil => simp at ht
  | cons e r ih =>
    rw [List.pairwise_cons] at h
    have hexp : expired now e = true := by
      unfold expired; rw [scan_is_le]
      rcases List.mem_cons.1 ht with rfl | ht
      · exact he
      · exact le_trans (h.1 t ht).1 he
    rw [List.takeWhile_cons, hexp]; simp only [if_true]
    rcases List.mem_cons.1 ht with rfl | ht
    · simp
    · exact List.mem_cons_of_mem _ (ih h.2 ht)

theorem scan_moves {s : State} {t : Tm} (h : TimerInv s) (hb : s.batch = []) (ht : t ∈ s.active)
    (he : le t.ts s.now = true) : t ∈ (scan s).batch := by
  unfold scan; rw [hb]; simp only; rw [scanNow_eq]
  exact mem_takeWhile_sorted h.sorted ht he

theorem dispatch_batch (s : State) : (dispatch s).batch = s.batch.tail := by
  unfold dispatch; split <;> simp_all

theorem runCount_cons (op : Op) (r : List Op) :
    runCount (op :: r) = (match op with | .run _ => 1 | _ => 0) + runCount r := by
  cases op <;> simp [runCount] <;> omega

theorem batch_drains {s : State} {t : Tm} {pre post : List Tm} (ops : List Op)
    (hb : s.batch = pre ++ t :: post) (hr : pre.length < runCount ops) : t ∈ logged (exec s ops) := by
  induction ops generalizing s pre with
  | nil => simp [runCount] at hr
  | cons op r ih =>
    rw [exec_cons]; rw [runCount_cons] at hr
    cases op with
    | ext acts => exact ih (by simp only [step, applyActs_batch]; exact hb) (by simpa using hr)
    | tick n =>
      refine ih ?_ (by simpa using hr)
      simp only [step]; unfold tick; split <;> exact hb
    | scan =>
      refine ih ?_ (by simpa using hr)
      simp only [step]; unfold scan; split
      · rename_i h; rw [h] at hb; simp at hb
      · exact hb
    | run acts =>
      have hne : s.batch ≠ [] := by rw [hb]; simp
      cases pre with
      | nil =>
        apply exec_logged_mono
        simp only [step]; rw [run_eq, if_neg hne]
        unfold logged; rw [applyActs_log]
        unfold dispatch; rw [hb]; simp
      | cons p pre' =>
        refine ih (pre := pre') ?_ (by simp at hr; omega)
        simp only [step]; rw [run_eq, if_neg hne, applyActs_batch, dispatch_batch, hb]; simp

/-! ### cancellation -/

theorem not_mem_eraseP_of_find {p : Tm → Bool} {x : Tm} {l : List Tm} (hf : l.find? p = some x)
    (hn : (l.map Tm.seq).Nodup) : x ∉ l.eraseP p := by
  induction l with
  | nil => simp at hf
  | cons e r ih =>
    rw [List.map_cons, List.nodup_cons] at hn
    by_cases hp : p e = true
    · rw [List.find?_cons_of_pos hp] at hf
      cases hf
      rw [List.eraseP_cons_of_pos hp]
      intro hm; exact hn.1 (List.mem_map_of_mem hm)
    · rw [List.find?_cons_of_neg hp] at hf
      rw [List.eraseP_cons_of_neg hp]
      intro hm
      rcases List.mem_cons.1 hm with rfl | hm
      · exact hp (List.find?_some hf)
      · exact ih hf hn.2 hm

theorem applyAct_not_in_line {s : State} {x : Tm} (a : Act) (hs : x.seq < s.nset) (hx : x ∉ line s) :
    x ∉ line (applyAct s a).1 := by
  have key : ∀ ts cb, x ∉ line (setAbs s ts cb).1 := by
    intro ts cb hm
    simp only [setAbs_fst, line_def] at hm hx
    rcases List.mem_append.1 hm with h | h
    · exact hx (List.mem_append_left _ h)
    · rcases mem_insertAt.1 h with rfl | h
      · simp [newTm] at hs
      · exact hx (List.mem_append_right _ h)
  cases a with
  | setAbs ts cb => exact key ts cb
  | setRel ms cb => exact key _ cb
  | cancel id =>
    have hl : (line (cancel s id).1).Sublist (line s) := by
      simp only [line_def, cancel_batch, cancel_log]
      exact List.Sublist.append (List.Sublist.refl _) (cancel_active_sublist s id)
    exact fun hm => hx (hl.subset hm)

theorem applyActs_not_in_line {s : State} {x : Tm} (acts : List Act) (hs : x.seq < s.nset) (hx : x ∉ line s) :
    x ∉ line (applyActs s acts).1 := by
  induction acts generalizing s with
  | nil => exact hx
  | cons a r ih =>
    rw [applyActs_cons]
    have := applyAct_nset_le s a
    exact ih (by omega) (applyAct_not_in_line a hs hx)

theorem step_not_in_line {s : State} {x : Tm} (op : Op) (hs : x.seq < s.nset) (hx : x ∉ line s) :
    x ∉ line (step s op) := by
  cases op with
  | ext acts => exact applyActs_not_in_line acts hs hx
  | tick n => simp only [step, tick_line]; exact hx
  | scan => simp only [step, scan_line]; exact hx
  | run acts =>
    simp only [step]; rw [run_eq]; split
    · exact hx
    · exact applyActs_not_in_line acts (by rw [dispatch_nset]; exact hs) (by rw [dispatch_line]; exact hx)

theorem exec_not_in_line {s : State} {x : Tm} (ops : List Op) (hs : x.seq < s.nset) (hx : x ∉ line s) :
    x ∉ line (exec s ops) := by
  induction ops generalizing s with
  | nil => exact hx
  | cons op r ih =>
    rw [exec_cons]
    have := step_nset_le s op
    exact ih (by omega) (step_not_in_line op hs hx)

theorem logged_sub_line {s : State} {x : Tm} (h : x ∈ logged s) : x ∈ line s := by
  unfold line; simp [h]

/-! ### timer ids -/

theorem idInv_setAbs {s : State} (h : IdInv s) (hw : s.nextId < LONG_MAX) (ts : TS) (cb : Nat) :
    IdInv (setAbs s ts cb).1 ∧ (setAbs s ts cb).1.nextId = s.nextId + 1 := by
  have hb := bumpId_succ h.counter hw
  have hc := h.counter
  have hnid : (newTm s ts cb).id = s.nextId + 1 := by simp [newTm, hb]
  rw [setAbs_fst]; simp only [hb]
  refine ⟨⟨?_, ?_, ?_⟩, trivial⟩ <;> dsimp only
  · omega
  · intro t ht
    rcases List.mem_append.1 ht with ht | ht
    · have := h.range t (List.mem_append_left _ ht); omega
    · rcases mem_insertAt.1 ht with rfl | ht
      · omega
      · have := h.range t (List.mem_append_right _ ht); omega
  · have hd := h.distinct
    rw [List.pairwise_append] at hd ⊢
    have hnew : ∀ x ∈ s.batch ++ s.active, x.id ≠ (newTm s ts cb).id := by
      intro x hx; have := h.range x hx; omega
    refine ⟨hd.1, pairwise_insertAt hd.2.1 (fun x hx => hnew x (List.mem_append_right _ hx))
      (fun x hx => (hnew x (List.mem_append_right _ hx)).symm), ?_⟩
    intro x hx y hy
    rcases mem_insertAt.1 hy with rfl | hy
    · exact hnew x (List.mem_append_left _ hx)
    · exact hd.2.2 x hx y hy

theorem idInv_cancel {s : State} (h : IdInv s) (id : Int) : IdInv (cancel s id).1 := by
  have hsub : ((cancel s id).1.batch ++ (cancel s id).1.active).Sublist (s.batch ++ s.active) := by
    rw [cancel_batch]; exact List.Sublist.append (List.Sublist.refl _) (cancel_active_sublist s id)
  refine ⟨by rw [cancel_nextId]; exact h.counter, ?_, h.distinct.sublist hsub⟩
  intro t ht; rw [cancel_nextId]; exact h.range t (hsub.subset ht)

def actSets (a : Act) : Int := if isSet a then 1 else 0

theorem idInv_applyAct {s : State} (h : IdInv s) (a : Act) (hw : s.nextId + actSets a ≤ LONG_MAX) :
    IdInv (applyAct s a).1 ∧ (applyAct s a).1.nextId = s.nextId + actSets a := by
  cases a with
  | setAbs ts cb => simp only [actSets, isSet, if_true] at hw ⊢; exact idInv_setAbs h (by omega) ts cb
  | setRel ms cb => simp only [actSets, isSet, if_true] at hw ⊢; exact idInv_setAbs h (by omega) _ cb
  | cancel id => simp [actSets, isSet, applyAct, cancel_nextId]; exact idInv_cancel h id

theorem setCount_cons (a : Act) (r : List Act) : (setCount (a :: r) : Int) = actSets a + setCount r := by
  unfold setCount actSets; rw [List.filter_cons]; split <;> simp <;> omega

theorem idInv_applyActs {s : State} (h : IdInv s) (acts : List Act) (hw : s.nextId + setCount acts ≤ LONG_MAX) :
    IdInv (applyActs s acts).1 ∧ (applyActs s acts).1.nextId = s.nextId + setCount acts := by
  induction acts generalizing s with
  | nil => simp [applyActs, setCount]; exact h
  | cons a r ih =>
    rw [applyActs_cons, setCount_cons] at *
    have hs : (0 : Int) ≤ setCount r := by omega
    have ha : (0 : Int) ≤ actSets a := by unfold actSets; split <;> omega
    obtain ⟨h1, e1⟩ := idInv_applyAct h a (by omega)
    obtain ⟨h2, e2⟩ := ih h1 (by rw [e1]; omega)
    exact ⟨h2, by simp only; rw [e2, e1]; omega⟩

theorem idInv_sublist {s s' : State} (h : IdInv s) (hn : s'.nextId = s.nextId)
    (hsub : (s'.batch ++ s'.active).Sublist (s.batch ++ s.active)) : IdInv s' :=
  ⟨by rw [hn]; exact h.counter, fun t ht => by rw [hn]; exact h.range t (hsub.subset ht), h.distinct.sublist hsub⟩

theorem dispatch_active (s : State) : (dispatch s).active = s.active := by
  unfold dispatch; split <;> rfl
theorem dispatch_nextId (s : State) : (dispatch s).nextId = s.nextId := by
  unfold dispatch; split <;> rfl
theorem dispatch_now (s : State) : (dispatch s).now = s.now := by
  unfold dispatch; split <;> rfl

theorem idInv_step {s : State} (h : IdInv s) (op : Op) (hw : s.nextId + opSets op ≤ LONG_MAX) :
    IdInv (step s op) ∧ (step s op).nextId ≤ s.nextId + opSets op := by
  cases op with
  | ext acts => have := idInv_applyActs h acts hw; exact ⟨this.1, by simp only [step, opSets]; omega⟩
  | tick n =>
    simp only [step, opSets]; unfold tick; split <;> exact ⟨⟨h.counter, h.range, h.distinct⟩, by simp⟩
  | scan =>
    simp only [step, opSets]; unfold scan; split
    · rename_i hb
      refine ⟨idInv_sublist h rfl ?_, by simp⟩
      simp [hb]
    · exact ⟨h, by simp⟩
  | run acts =>
    simp only [step, opSets] at *; rw [run_eq]; split
    · exact ⟨h, by omega⟩
    · have hd : IdInv (dispatch s) := by
        refine idInv_sublist h (dispatch_nextId s) ?_
        rw [dispatch_batch, dispatch_active]
        exact List.Sublist.append (List.tail_sublist _) (List.Sublist.refl _)
      have := idInv_applyActs hd acts (by rw [dispatch_nextId]; exact hw)
      rw [dispatch_nextId] at this; exact ⟨this.1, by omega⟩

theorem traceSets_cons (op : Op) (r : List Op) : traceSets (op :: r) = opSets op + traceSets r := by
  simp [traceSets]

theorem idInv_exec {s : State} (h : IdInv s) (ops : List Op) (hw : s.nextId + traceSets ops ≤ LONG_MAX) :
    IdInv (exec s ops) := by
  induction ops generalizing s with
  | nil => exact h
  | cons op r ih =>
    rw [exec_cons]; rw [traceSets_cons] at hw
    obtain ⟨h1, e1⟩ := idInv_step h op (by omega)
    exact ih h1 (by omega)

theorem idInv_init : IdInv init := by
  constructor <;> simp [init]

/-! ### recurring services -/

theorem pending_setAbs {s : State} (c : Nat) (ts : TS) : Pending c (setAbs s ts c).1 := by
  refine ⟨newTm s ts c, ?_, rfl⟩
  rw [setAbs_fst]; exact List.mem_append_right _ (mem_insertAt.2 (Or.inl rfl))

theorem pending_mono_setAbs {s : State} {c : Nat} (h : Pending c s) (ts : TS) (cb : Nat) : Pending c (setAbs s ts cb).1 := by
  obtain ⟨t, ht, hc⟩ := h
  refine ⟨t, ?_, hc⟩
  rw [setAbs_fst]
  rcases List.mem_append.1 ht with ht | ht
  · exact List.mem_append_left _ ht
  · exact List.mem_append_right _ (mem_insertAt.2 (Or.inr ht))

theorem pending_cancel {s : State} {c : Nat} (h : Pending c s) (id : Int)
    (hh : ∀ t ∈ s.active, t.id = id → t.cb ≠ c) : Pending c (cancel s id).1 := by
  rcases cancel_cases s id with ⟨_, e⟩ | ⟨_, _, e⟩ | ⟨_, x, _, e⟩ <;> rw [e]
  · exact h
  · exact h
  · obtain ⟨t, ht, hc⟩ := h
    refine ⟨t, ?_, hc⟩
    rcases List.mem_append.1 ht with ht | ht
    · exact List.mem_append_left _ ht
    · refine List.mem_append_right _ ((List.mem_eraseP_of_neg ?_).2 ht)
      intro hp; simp [hasId] at hp
      exact hh t ht hp hc

theorem pending_harmless {s : State} {c : Nat} (acts : List Act) (h : Pending c s) (hh : Harmless c s acts) :
    Pending c (applyActs s acts).1 := by
  induction acts generalizing s with
  | nil => exact h
  | cons a r ih =>
    rw [applyActs_cons]
    obtain ⟨h1, h2⟩ := hh
    refine ih ?_ h2
    cases a with
    | setAbs ts cb => exact pending_mono_setAbs h ts cb
    | setRel ms cb => exact pending_mono_setAbs h _ cb
    | cancel id => exact pending_cancel h id h1

theorem pending_rearms {s : State} {c : Nat} {acts : List Act} (h : Rearms c s acts) :
    Pending c (applyActs s acts).1 := by
  obtain ⟨pre, a, post, rfl, hcb, hh⟩ := h
  have e : pre ++ a :: post = (pre ++ [a]) ++ post := by simp
  rw [e, applyActs_append]
  refine pending_harmless post ?_ hh
  rw [applyActs_append]
  cases a with
  | setAbs ts cb => simp [actCb] at hcb; subst hcb; exact pending_setAbs _ ts
  | setRel ms cb => simp [actCb] at hcb; subst hcb; exact pending_setAbs _ _
  | cancel id => simp [actCb] at hcb

theorem pending_keeps {s : State} {c : Nat} {acts : List Act} (h : Pending c s) (hk : Keeps c s acts) :
    Pending c (applyActs s acts).1 := by
  rcases hk with hk | hk
  · exact pending_harmless acts h hk
  · exact pending_rearms hk

theorem pending_step {s : State} {c : Nat} (op : Op) (h : Pending c s) (hk : RecursOK c s [op]) :
    Pending c (step s op) := by
  obtain ⟨hk, _⟩ := hk
  cases op with
  | ext acts => exact pending_keeps h hk
  | tick n => simp only [step]; unfold tick; split <;> exact h
  | scan =>
    simp only [step]; unfold scan; split
    · rename_i hb
      obtain ⟨t, ht, hc⟩ := h
      refine ⟨t, ?_, hc⟩
      rw [hb] at ht; simp only [List.nil_append] at ht
      simp only [List.takeWhile_append_dropWhile]; exact ht
    · exact h
  | run acts =>
    simp only [step]; rw [run_eq]; split
    · exact h
    · rename_i hb
      cases hbt : s.batch with
      | nil => exact absurd hbt hb
      | cons t b =>
        simp only [hbt] at hk
        split at hk
        · exact pending_rearms hk
        · rename_i hne
          refine pending_keeps ?_ hk
          obtain ⟨x, hx, hc⟩ := h
          refine ⟨x, ?_, hc⟩
          rw [dispatch_batch, dispatch_active, hbt]
          rw [hbt] at hx
          rcases List.mem_append.1 hx with hx | hx
          · rcases List.mem_cons.1 hx with rfl | hx
            · exact absurd hc hne
            · exact List.mem_append_left _ hx
          · exact List.mem_append_right _ hx

theorem pending_exec {s : State} {c : Nat} (ops : List Op) (h : Pending c s) (hk : RecursOK c s ops) :
    Pending c (exec s ops) := by
  induction ops generalizing s with
  | nil => exact h
  | cons op r ih =>
    rw [exec_cons]
    exact ih (pending_step op h ⟨hk.1, trivial⟩) hk.2

/-! ### the sleeping thread sees every head change -/

/-- the thread sleeps on the right thing: without deadline only if the list is empty, else on a
    deadline not later than any pending timer -/
def SleepOK (thr : Thr) (s : State) : Prop :=
  match thr with
  | .running => True
  | .waitEmpty => s.active = []
  | .timedWait dl => ∀ x ∈ s.active, le dl x.ts = true

theorem sleepOK_setAbs {thr : Thr} {s : State} (ts : TS) (cb : Nat) (h : SleepOK thr s)
    (hs : (setAbs s ts cb).2.2 = false) : SleepOK thr (setAbs s ts cb).1 := by
  rw [setAbs_sig] at hs
  have hp : insertPos ts s.active ≠ 0 := by
    intro h0; rw [h0] at hs; revert hs; unfold setSignals; simp
  rw [setAbs_fst]
  cases ha : s.active with
  | nil => rw [ha] at hp; simp [insertPos] at hp
  | cons e r =>
    have hwalk : le e.ts ts = true := by
      rw [ha] at hp; unfold insertPos at hp
      by_cases hc : insertWalkContinues e.ts ts = true
      · rw [walk_is_le] at hc; exact hc
      · simp [hc] at hp
    cases thr with
    | running => trivial
    | waitEmpty => simp only [SleepOK] at h; rw [h] at ha; cases ha
    | timedWait dl =>
      simp only [SleepOK] at h ⊢
      intro x hx
      rcases mem_insertAt.1 hx with rfl | hx
      · exact le_trans (h e (by rw [ha]; simp)) hwalk
      · exact h x (by rw [ha]; exact hx)

theorem sleepOK_cancel {thr : Thr} {s : State} (id : Int) (h : SleepOK thr s)
    (_hs : (cancel s id).2.2 = false) : SleepOK thr (cancel s id).1 := by
  have hsub := cancel_active_sublist s id
  cases thr with
  | running => trivial
  | waitEmpty =>
    simp only [SleepOK] at h ⊢
    rw [h] at hsub; exact List.eq_nil_of_sublist_nil hsub
  | timedWait dl =>
    simp only [SleepOK] at h ⊢
    intro x hx; exact h x (hsub.subset hx)

theorem sleepOK_applyAct {thr : Thr} {s : State} (a : Act) (h : SleepOK thr s)
    (hs : (applyAct s a).2.2 = false) : SleepOK thr (applyAct s a).1 := by
  cases a with
  | setAbs ts cb => exact sleepOK_setAbs ts cb h hs
  | setRel ms cb => exact sleepOK_setAbs _ cb h hs
  | cancel id => exact sleepOK_cancel id h hs

theorem sleepOK_applyActs {thr : Thr} {s : State} (acts : List Act) (h : SleepOK thr s)
    (hs : (applyActs s acts).2 = false) : SleepOK thr (applyActs s acts).1 := by
  induction acts generalizing s with
  | nil => exact h
  | cons a r ih =>
    rw [applyActs_cons] at hs ⊢
    simp only [Bool.or_eq_false_iff] at hs
    exact ih (sleepOK_applyAct a h hs.1) hs.2

theorem sInv_iff (y : Sys) : SInv y ↔
    (SleepOK y.thr y.st ∧ (blocked y.thr = true → y.st.batch = []) ∧
      ∀ dl, y.thr = .timedWait dl → le dl y.st.now = false) := by
  unfold SInv SleepOK blocked
  cases y.thr with
  | running => simp
  | waitEmpty => simp
  | timedWait dl =>
    simp only [Thr.timedWait.injEq, forall_eq', true_implies]
    constructor
    · rintro ⟨hb, ha, hl⟩; exact ⟨ha, hb, hl⟩
    · rintro ⟨ha, hb, hl⟩; exact ⟨hb, ha, hl⟩

theorem sInv_ext {y : Sys} (beh : Beh) (h : SInv y) (acts : List Act) : SInv (sysStep beh y (.ext acts)) := by
  simp only [sysStep]
  cases hs : (applyActs y.st acts).2 with
  | true => simp [SInv]
  | false =>
    rw [sInv_iff] at h ⊢
    simp only [Bool.false_eq_true, if_false]
    refine ⟨sleepOK_applyActs acts h.1 hs, ?_, ?_⟩
    · rw [applyActs_batch]; exact h.2.1
    · rw [applyActs_now]; exact h.2.2

theorem tick_active (s : State) (n : TS) : (tick s n).active = s.active := by unfold tick; split <;> rfl
theorem tick_batch (s : State) (n : TS) : (tick s n).batch = s.batch := by unfold tick; split <;> rfl

theorem sInv_tick {y : Sys} (beh : Beh) (h : SInv y) (n : TS) : SInv (sysStep beh y (.tick n)) := by
  simp only [sysStep]
  cases ht : y.thr with
  | running => simp [SInv]
  | waitEmpty =>
    simp only [SInv, ht] at h ⊢; rw [tick_active, tick_batch]; exact h
  | timedWait dl =>
    simp only [SInv, ht] at h
    by_cases hl : le dl (tick y.st n).now = true
    · simp [SInv, hl]
    · simp only [hl, if_false, SInv, Bool.false_eq_true]
      rw [tick_active, tick_batch]
      obtain ⟨hb, ha, _⟩ := h
      exact ⟨hb, ha, trivial⟩

theorem sInv_thread {y : Sys} (beh : Beh) (h : SInv y) (hi : TimerInv y.st) : SInv (sysStep beh y .thread) := by
  simp only [sysStep]
  cases ht : y.thr with
  | waitEmpty => simp only; rw [SInv, ht] at h ⊢; simpa [ht] using h
  | timedWait dl => simp only; rw [SInv, ht] at h ⊢; simpa [ht] using h
  | running =>
    simp only
    cases hb : y.st.batch with
    | cons t b => simp [SInv]
    | nil =>
      simp only
      cases ha : y.st.active with
      | nil => simp [SInv, hb, ha]
      | cons a0 r0 =>
        simp only
        have hscan : scan y.st = { y.st with batch := (a0 :: r0).takeWhile (expired y.st.now),
                                             active := (a0 :: r0).dropWhile (expired y.st.now) } := by
          unfold scan; rw [hb]; simp only; rw [scanNow_eq, ha]
        rw [hscan]; simp only
        by_cases he : expired y.st.now a0 = true
        · rw [List.takeWhile_cons_of_pos he]; simp [SInv]
        · rw [List.takeWhile_cons_of_neg he, List.dropWhile_cons_of_neg he]
          simp only [SInv]
          refine ⟨trivial, ?_, ?_⟩
          · have hs := hi.sorted; rw [ha, List.pairwise_cons] at hs
            intro x hx
            rcases List.mem_cons.1 hx with rfl | hx
            · exact le_refl _
            · exact (hs.1 x hx).1
          · unfold expired at he; rw [scan_is_le] at he; simpa using he

theorem sInv_step {y : Sys} (beh : Beh) (h : SInv y) (hi : TimerInv y.st) (op : SOp) : SInv (sysStep beh y op) := by
  cases op with
  | ext acts => exact sInv_ext beh h acts
  | tick n => exact sInv_tick beh h n
  | thread => exact sInv_thread beh h hi

theorem inv_sysStep {y : Sys} (beh : Beh) (hi : TimerInv y.st) (op : SOp) : TimerInv (sysStep beh y op).st := by
  cases op with
  | ext acts => exact inv_applyActs hi acts
  | tick n => exact inv_tick hi n
  | thread =>
    simp only [sysStep]
    cases y.thr with
    | waitEmpty => exact hi
    | timedWait dl => exact hi
    | running =>
      simp only
      cases hb : y.st.batch with
      | cons t b => exact inv_run hi _
      | nil =>
        simp only
        cases ha : y.st.active with
        | nil => exact hi
        | cons a0 r0 =>
          simp only
          have := inv_scan hi
          split <;> exact this

theorem quiescent_none_expired {y : Sys} (h : SInv y) (hb : blocked y.thr = true) :
    ∀ t ∈ y.st.active, le t.ts y.st.now = false := by
  intro t ht
  unfold SInv at h
  cases hthr : y.thr with
  | running => rw [hthr] at hb; simp [blocked] at hb
  | waitEmpty => rw [hthr] at h; simp only at h; rw [h.1] at ht; simp at ht
  | timedWait dl =>
    rw [hthr] at h; simp only at h
    obtain ⟨_, ha, hl⟩ := h
    cases hq : le t.ts y.st.now with
    | false => rfl
    | true => have := le_trans (ha t ht) hq; rw [hl] at this; cases this

end Munge.Timer
