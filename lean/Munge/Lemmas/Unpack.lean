import Munge.Lemmas.CredA
import Munge.Gen.Unpack
set_option linter.unusedSimpArgs false
/-
Refinement of the hand-written credential parsers (`Cred.unpackOuter`, `Cred.unpackInner`) to the kernels
translated from dec.c by the K+cursor translator (`Gen.Unpack.dec_unpack_outer`, `dec_unpack_inner`).
-/
namespace Munge.Unpack
open Munge.C Munge.Cred Munge.Gen.Unpack

/-! ### the buffer function of a byte list -/

theorem rdU8_bufOf {b : Bytes} {i : Nat} (h : i < b.length) : rdU8 (bufOf b) (i : Int) = (b[i].toNat : Int) := by
  unfold rdU8 bufOf
  have hb : b[i].toNat < 256 := UInt8.toNat_lt _
  simp [List.getD_eq_getElem?_getD, List.getElem?_eq_getElem h]
  omega

theorem rdU8_bufOf' {b : Bytes} {i : Nat} {j : Int} (hj : j = (i : Int)) (h : i < b.length) :
    rdU8 (bufOf b) j = (b[i].toNat : Int) := by
  subst hj; exact rdU8_bufOf h

/-- the answers of the primitive tables, as the kernel's oracle functions -/
def cme (P : Prims) (x : Int) : Int := if P.cipherValid x.toNat then 0 else -1
def civ (P : Prims) (x : Int) : Int := P.ivLen x.toNat
def mme (P : Prims) (x : Int) : Int := if P.macValid x.toNat then 0 else -1
def ms (P : Prims) (x : Int) : Int := P.macLen x.toNat
def cks (P : Prims) (x : Int) : Int := P.keyLen x.toNat
def zv (P : Prims) (x : Int) : Int := if P.zipValid x.toNat then 1 else 0

theorem cme_neg (P : Prims) (n : Nat) : cme P (n : Int) < 0 ↔ ¬ P.cipherValid n = true := by
  unfold cme; simp only [Int.toNat_natCast]; by_cases h : P.cipherValid n = true <;> simp [h]
theorem mme_neg (P : Prims) (n : Nat) : mme P (n : Int) < 0 ↔ ¬ P.macValid n = true := by
  unfold mme; simp only [Int.toNat_natCast]; by_cases h : P.macValid n = true <;> simp [h]
theorem zv_ne (P : Prims) (n : Nat) : zv P (n : Int) ≠ 0 ↔ P.zipValid n = true := by
  unfold zv; simp only [Int.toNat_natCast]; by_cases h : P.zipValid n = true <;> simp [h]
@[simp] theorem civ_nat (P : Prims) (n : Nat) : civ P (n : Int) = P.ivLen n := by simp [civ]
@[simp] theorem ms_nat (P : Prims) (n : Nat) : ms P (n : Int) = P.macLen n := by simp [ms]
@[simp] theorem cks_nat (P : Prims) (n : Nat) : cks P (n : Int) = P.keyLen n := by simp [cks]

/-- the translated `dec_unpack_outer` run on a byte list with the tables of `P` (the allocation succeeds) -/
def kOuter (P : Prims) (buf : Bytes) : KOut :=
  dec_unpack_outer buf.length 1 (bufOf buf) (cme P) (civ P) (mme P) (ms P) (cks P) (zv P)

/-- what it means for the model's result to be the kernel's result -/
def OuterRef (m : Msg) (buf : Bytes) (k : KOut) : PR (Msg × Scratch) → Prop
  | .oob => False
  | .err e => k.ret = -1 ∧ k.err = e.1
  | .ok (m', s) =>
    k.ret = 0 ∧
    k.get "c.msg.cipher" (-1) = m'.cipher ∧ k.get "c.msg.mac" (-1) = m'.mac ∧ k.get "c.msg.zip" (-1) = m'.zip ∧
    k.get "c.msg.realm_len" (-1) = m'.realmLen ∧
    k.get "c.iv_len" (-1) = s.iv.length ∧ k.get "c.mac_len" (-1) = s.macLen ∧ s.mac.length = s.macLen ∧
    s.outer = buf.take (k.get "c.outer_len" (-1)).toNat ∧
    s.iv = (buf.take (k.get "c.outer_len" (-1)).toNat).drop ((k.get "c.outer_len" (-1)).toNat - s.iv.length) ∧
    s.mac = (buf.drop (k.get "c.outer_len" (-1)).toNat).take s.macLen ∧
    s.inner = buf.drop (k.get "c.inner.off" (-1)).toNat ∧
    m'.realm = (if 0 < (buf.getD 4 0).toNat then (buf.drop 5).take (buf.getD 4 0).toNat ++ [0] else m.realm)

theorem ite_ref {α : Type} {R : KOut → PR α → Prop} {c c' : Prop} [Decidable c] [Decidable c']
    {a b : PR α} {ka kb : KOut} (hc : c ↔ c') (ha : c → R ka a) (hb : ¬ c → R kb b) :
    R (if c' then ka else kb) (if c then a else b) := by
  by_cases h : c
  · rw [if_pos h, if_pos (hc.mp h)]; exact ha h
  · rw [if_neg h, if_neg (fun h' => h (hc.mpr h'))]; exact hb h

/-- the success leaf: the model's scratch record is the slices the kernel's offsets describe -/
theorem outerRef_ok (m : Msg) (buf : Bytes) (k : KOut) (rb niv nmac : Nat) (m' : Msg)
    (h4 : 4 < buf.length) (hrb : rb = buf[4].toNat) (hfit : 5 + rb + niv + nmac ≤ buf.length)
    (hret : k.ret = 0) (hc : k.get "c.msg.cipher" (-1) = m'.cipher) (hm : k.get "c.msg.mac" (-1) = m'.mac)
    (hz : k.get "c.msg.zip" (-1) = m'.zip) (hrl : k.get "c.msg.realm_len" (-1) = m'.realmLen)
    (hiv : k.get "c.iv_len" (-1) = niv) (hml : k.get "c.mac_len" (-1) = nmac)
    (hol : k.get "c.outer_len" (-1) = ((5 + rb + niv : Nat) : Int))
    (hio : k.get "c.inner.off" (-1) = ((5 + rb + niv + nmac : Nat) : Int))
    (hrealm : m'.realm = if 0 < rb then (buf.drop 5).take rb ++ [0] else m.realm) :
    OuterRef m buf k (.ok (m',
      { outer := List.take (buf.length - (List.drop niv (List.drop rb (List.drop 5 buf))).length) buf,
        mac := List.take nmac (List.drop niv (List.drop rb (List.drop 5 buf))),
        inner := List.drop nmac (List.drop niv (List.drop rb (List.drop 5 buf))),
        iv := List.take niv (List.drop rb (List.drop 5 buf)),
        macLen := nmac })) := by
  have hg : buf.getD 4 0 = buf[4] := by simp [List.getD_eq_getElem?_getD, List.getElem?_eq_getElem h4]
  unfold OuterRef
  simp only [hol, hio, Int.toNat_natCast, List.drop_drop, List.length_drop, List.length_take, hg, ← hrb]
  refine ⟨hret, hc, hm, hz, hrl, ?_, hml, ?_, ?_, ?_, ?_, ?_, hrealm⟩
  · rw [hiv]; congr 1; omega
  · omega
  · congr 1; omega
  · rw [List.drop_take]
    have e1 : min niv (List.length buf - (5 + rb)) = niv := by omega
    rw [e1]
    have e2 : 5 + rb + niv - niv = 5 + rb := by omega
    have e3 : 5 + rb + niv - (5 + rb) = niv := by omega
    rw [e2, e3]
  · trivial
  · trivial

/-! ### inner layer -/

theorem take4_drop {b : Bytes} {k : Nat} (h : k + 4 ≤ b.length) :
    (b.drop k).take 4 = [b[k], b[k+1], b[k+2], b[k+3]] := by
  apply List.ext_getElem
  · simp; omega
  · intro i h1 h2
    simp at h1 h2
    have hi : i < 4 := by omega
    rcases i with _ | _ | _ | _ | i
    all_goals (first | omega | (simp [List.getElem_take, List.getElem_drop]))

theorem rd32_bufOf {b : Bytes} {k : Nat} {j : Int} (hj : j = (k : Int)) (h : k + 4 ≤ b.length) :
    (rd32 ((b.drop k).take 4) : Int) = rdBE32 (bufOf b) j := by
  subst hj
  rw [take4_drop h]
  unfold rdBE32
  rw [rdU8_bufOf' (i := k) rfl (by omega), rdU8_bufOf' (i := k + 1) (by omega) (by omega),
    rdU8_bufOf' (i := k + 2) (by omega) (by omega), rdU8_bufOf' (i := k + 3) (by omega) (by omega)]
  simp [rd32]

theorem take32_lt {rest : Bytes} {w : String} (h : 4 > rest.length) :
    take32 rest w = .err (Munge.Gen.Dec.EMUNGE_BAD_CRED, w) := by
  unfold take32; rw [if_pos h]

theorem take32_ge {rest : Bytes} {w : String} (h : ¬ 4 > rest.length) :
    take32 rest w = .ok (rd32 (rest.take 4), rest.drop 4) := by
  unfold take32; rw [if_neg h, takeN_some (by omega)]

theorem t32_ref {R : KOut → PR Msg → Prop} {rest : Bytes} {w : String} {c' : Prop} [Decidable c'] {kerr kcont : KOut}
    {f : Nat → Bytes → PR Msg}
    (hc : 4 > rest.length ↔ c') (herr : R kerr (.err (Munge.Gen.Dec.EMUNGE_BAD_CRED, w)))
    (hok : ¬ 4 > rest.length → R kcont (f (rd32 (rest.take 4)) (rest.drop 4))) :
    R (if c' then kerr else kcont)
      (match take32 rest w with
       | .oob => .oob
       | .err e => .err e
       | .ok (v, r) => f v r) := by
  by_cases h : 4 > rest.length
  · rw [if_pos (hc.mp h), take32_lt h]; exact herr
  · rw [if_neg (fun h' => h (hc.mpr h')), take32_ge h]; exact hok h

/-- the translated `dec_unpack_inner` run on a byte list -/
def kInner (cipher : Nat) (buf : Bytes) : KOut := dec_unpack_inner buf.length cipher (bufOf buf)

/-- what it means for the model's inner parse to be the kernel's result -/
def InnerRef (buf : Bytes) (k : KOut) : PR Msg → Prop
  | .oob => False
  | .err e => k.ret = -1 ∧ k.err = e.1
  | .ok m' =>
    k.ret = 0 ∧
    k.get "c.msg.addr_len" (-1) = m'.addrLen ∧ k.get "c.msg.time0" (-1) = m'.time0 ∧ k.get "c.msg.ttl" (-1) = m'.ttl ∧
    k.get "c.msg.cred_uid" (-1) = m'.credUid ∧ k.get "c.msg.cred_gid" (-1) = m'.credGid ∧
    k.get "c.msg.auth_uid" (-1) = m'.authUid ∧ k.get "c.msg.auth_gid" (-1) = m'.authGid ∧
    k.get "c.msg.data_len" (-1) = m'.dataLen ∧
    m'.addr = (if m'.addrLen = 4 then (buf.drop 9).take 4 else [0, 0, 0, 0]) ∧
    (if 0 < m'.dataLen then k.get "c.msg.data" (-1) = 1 ∧ m'.data = (buf.drop (k.get "c.msg.data.off" (-1)).toNat).take m'.dataLen
     else k.get "c.msg.data" (-1) = 0 ∧ m'.data = [])

open Munge.Gen.Dec (EMUNGE_BAD_CRED EMUNGE_BAD_VERSION EMUNGE_BAD_CIPHER EMUNGE_SNAFU EMUNGE_BAD_MAC EMUNGE_BAD_ZIP)

macro "errleaf" : tactic =>
  `(tactic| (intro _; simp [OuterRef, KOut.err, EMUNGE_BAD_CRED, EMUNGE_BAD_VERSION, EMUNGE_BAD_CIPHER, EMUNGE_SNAFU, EMUNGE_BAD_MAC, EMUNGE_BAD_ZIP]))

theorem unpackOuter_refines (P : Prims) (m : Msg) (buf : Bytes) (hlen : buf.length ≤ 2147483647) :
    OuterRef m buf (kOuter P buf) (unpackOuter P m buf) := by
  unfold kOuter dec_unpack_outer unpackOuter
  -- version
  refine ite_ref (by omega) (by errleaf) (fun h0 => ?_)
  rw [byteAt_some (by omega)]; simp only []
  have e0 : rdU8 (bufOf buf) 0 = (buf[0].toNat : Int) := rdU8_bufOf' (i := 0) (by rfl) (by omega)
  rw [e0]
  refine ite_ref (by simp [Gen.Dec.MUNGE_CRED_VERSION]) (by errleaf) (fun _ => ?_)
  -- cipher
  refine ite_ref (by unfold wrapS32; omega) (by errleaf) (fun h1 => ?_)
  rw [byteAt_some (by omega)]; simp only []
  have e1 : rdU8 (bufOf buf) 1 = (buf[1].toNat : Int) := rdU8_bufOf' (i := 1) (by rfl) (by omega)
  rw [e1]
  refine ite_ref (by simp [cme_neg]) (by errleaf) (fun hcv => ?_)
  refine ite_ref (by
    by_cases hc0 : buf[1].toNat = 0
    · simp [hc0]
    · have hv : P.cipherValid buf[1].toNat = true := by
        by_cases hv : P.cipherValid buf[1].toNat = true
        · exact hv
        · exact absurd ⟨hc0, hv⟩ hcv
      simp [hc0, cme_neg, hv]) (by errleaf) (fun hivn => ?_)
  -- mac
  refine ite_ref (by simp only [wrapS32]; omega) (by errleaf) (fun h2 => ?_)
  rw [byteAt_some (by omega)]; simp only []
  have e2 : rdU8 (bufOf buf) 2 = (buf[2].toNat : Int) := rdU8_bufOf' (i := 2) (by rfl) (by omega)
  rw [e2]
  refine ite_ref (by simp [mme_neg]) (by errleaf) (fun hmv => ?_)
  refine ite_ref (by simp [ms]) (by errleaf) (fun hml => ?_)
  refine ite_ref (by simp [ms, cks]) (by errleaf) (fun hmk => ?_)
  -- zip
  refine ite_ref (by simp only [wrapS32]; omega) (by errleaf) (fun h3 => ?_)
  rw [byteAt_some (by omega)]; simp only []
  have e3 : rdU8 (bufOf buf) 3 = (buf[3].toNat : Int) := rdU8_bufOf' (i := 3) (by rfl) (by omega)
  rw [e3]
  refine ite_ref (by simp [zv_ne]) (by errleaf) (fun hz => ?_)
  -- realm
  refine ite_ref (by simp only [wrapS32]; omega) (by errleaf) (fun h4 => ?_)
  rw [byteAt_some (by omega)]; simp only []
  have e4 : rdU8 (bufOf buf) 4 = (buf[4].toNat : Int) := rdU8_bufOf' (i := 4) (by rfl) (by omega)
  rw [e4]
  have hd5 : (List.drop 5 buf).length = buf.length - 5 := List.length_drop
  by_cases hr : buf[4].toNat > 0
  · rw [if_pos (by omega : (buf[4].toNat : Int) > 0)]
    refine ite_ref (by simp only [wrapS32]; omega) (by errleaf) (fun h5 => ?_)
    rw [if_neg (by decide : ¬ ¬ ((1 : Int) ≠ 0))]
    rw [takeN_some (by omega)]; simp only []
    simp only [civ_nat, ms_nat, Int.natCast_eq_zero]
    generalize hivl : (if buf[1].toNat = 0 then 0 else P.ivLen buf[1].toNat) = ivl at *
    by_cases hi : ivl > 0
    · rw [if_pos hi]
      refine ite_ref (by simp only [wrapS32, List.length_drop] at *; omega) (by errleaf) (fun h6 => ?_)
      rw [takeN_some (by simp only [List.length_drop] at *; omega)]; simp only []
      refine ite_ref (by simp only [wrapS32, List.length_drop] at *; omega) (by errleaf) (fun h7 => ?_)
      rw [takeN_some (by simp only [List.length_drop] at *; omega)]; simp only []
      simp only [List.length_drop] at h5 h6 h7
      refine outerRef_ok m buf _ buf[4].toNat ivl.toNat (P.macLen buf[2].toNat).toNat _ (by omega) rfl (by omega)
        ?_ ?_ ?_ ?_ ?_ ?_ ?_ ?_ ?_ ?_
      all_goals (simp [KOut.get, KOut.written, hr, wrapU8, wrapS32]; try omega)
    · rw [if_neg hi]
      rw [if_neg (fun hh : ivl > 0 ∧ _ => hi hh.1)]
      rw [takeN_some (by simp only [List.length_drop] at *; omega)]; simp only []
      refine ite_ref (by simp only [wrapS32, List.length_drop] at *; omega) (by errleaf) (fun h7 => ?_)
      rw [takeN_some (by simp only [List.length_drop] at *; omega)]; simp only []
      simp only [List.length_drop] at h5 h7
      refine outerRef_ok m buf _ buf[4].toNat ivl.toNat (P.macLen buf[2].toNat).toNat _ (by omega) rfl (by omega)
        ?_ ?_ ?_ ?_ ?_ ?_ ?_ ?_ ?_ ?_
      all_goals (simp [KOut.get, KOut.written, hr, wrapU8, wrapS32]; try omega)
  · rw [if_neg (by omega : ¬ (buf[4].toNat : Int) > 0)]
    have h5 : ¬ (buf[4].toNat > 0 ∧ buf[4].toNat > (List.drop 5 buf).length) := fun hh => hr hh.1
    rw [if_neg h5]
    rw [takeN_some (by omega)]; simp only []
    simp only [civ_nat, ms_nat, Int.natCast_eq_zero]
    generalize hivl : (if buf[1].toNat = 0 then 0 else P.ivLen buf[1].toNat) = ivl at *
    by_cases hi : ivl > 0
    · rw [if_pos hi]
      refine ite_ref (by simp only [wrapS32, List.length_drop] at *; omega) (by errleaf) (fun h6 => ?_)
      rw [takeN_some (by simp only [List.length_drop] at *; omega)]; simp only []
      refine ite_ref (by simp only [wrapS32, List.length_drop] at *; omega) (by errleaf) (fun h7 => ?_)
      rw [takeN_some (by simp only [List.length_drop] at *; omega)]; simp only []
      simp only [List.length_drop] at h5 h6 h7
      refine outerRef_ok m buf _ buf[4].toNat ivl.toNat (P.macLen buf[2].toNat).toNat _ (by omega) rfl (by omega)
        ?_ ?_ ?_ ?_ ?_ ?_ ?_ ?_ ?_ ?_
      all_goals (simp [KOut.get, KOut.written, hr, wrapU8, wrapS32]; try omega)
    · rw [if_neg hi]
      rw [if_neg (fun hh : ivl > 0 ∧ _ => hi hh.1)]
      rw [takeN_some (by simp only [List.length_drop] at *; omega)]; simp only []
      refine ite_ref (by simp only [wrapS32, List.length_drop] at *; omega) (by errleaf) (fun h7 => ?_)
      rw [takeN_some (by simp only [List.length_drop] at *; omega)]; simp only []
      simp only [List.length_drop] at h5 h7
      refine outerRef_ok m buf _ buf[4].toNat ivl.toNat (P.macLen buf[2].toNat).toNat _ (by omega) rfl (by omega)
        ?_ ?_ ?_ ?_ ?_ ?_ ?_ ?_ ?_ ?_
      all_goals (simp [KOut.get, KOut.written, hr, wrapU8, wrapS32]; try omega)


macro "ierr" : tactic => `(tactic| (intro _; simp [InnerRef, KOut.err, EMUNGE_BAD_CRED]))

theorem unpackInner_refines (m : Msg) (cipher : Nat) (buf : Bytes) (hlen : buf.length ≤ 2147483647) :
    InnerRef buf (kInner cipher buf) (unpackInner m buf) := by
  unfold kInner dec_unpack_inner unpackInner
  simp only [show Gen.Dec.MUNGE_CRED_SALT_LEN.toNat = 8 from rfl]
  refine ite_ref (by omega) (by ierr) (fun h0 => ?_)
  rw [takeN_some (by omega)]; simp only []
  refine ite_ref (by simp only [wrapS32, List.length_drop]; omega) (by ierr) (fun h1 => ?_)
  simp only [List.length_drop] at h1
  rw [byteAt_some (by simp only [List.length_drop]; omega)]; simp only []
  have e8 : rdU8 (bufOf buf) 8 = (buf[8].toNat : Int) := rdU8_bufOf' (i := 8) (by rfl) (by omega)
  have g8 : (List.drop 8 buf)[0]'(by simp only [List.length_drop]; omega) = buf[8] := by simp
  rw [e8, g8]
  refine ite_ref (by simp only [wrapS32, List.length_drop]; omega) (by ierr) (fun h2 => ?_)
  simp only [List.length_drop] at h2
  by_cases ha4 : buf[8].toNat = 4
  · rw [if_pos (by omega : (buf[8].toNat : Int) = 4)]
    rw [if_neg (by omega : ¬ (buf[8].toNat ≠ 4 ∧ buf[8].toNat ≠ 0))]
    rw [takeN_some (by simp only [List.length_drop]; omega)]; simp only [List.drop_drop]
    refine t32_ref (by simp only [wrapS32, List.length_drop] at *; omega) (by simp [InnerRef, KOut.err, EMUNGE_BAD_CRED]) (fun h3 => ?_)
    simp only [List.drop_drop]
    refine t32_ref (by simp only [wrapS32, List.length_drop] at *; omega) (by simp [InnerRef, KOut.err, EMUNGE_BAD_CRED]) (fun h4 => ?_)
    simp only [List.drop_drop]
    refine t32_ref (by simp only [wrapS32, List.length_drop] at *; omega) (by simp [InnerRef, KOut.err, EMUNGE_BAD_CRED]) (fun h5 => ?_)
    simp only [List.drop_drop]
    refine t32_ref (by simp only [wrapS32, List.length_drop] at *; omega) (by simp [InnerRef, KOut.err, EMUNGE_BAD_CRED]) (fun h6 => ?_)
    simp only [List.drop_drop]
    refine t32_ref (by simp only [wrapS32, List.length_drop] at *; omega) (by simp [InnerRef, KOut.err, EMUNGE_BAD_CRED]) (fun h7 => ?_)
    simp only [List.drop_drop]
    refine t32_ref (by simp only [wrapS32, List.length_drop] at *; omega) (by simp [InnerRef, KOut.err, EMUNGE_BAD_CRED]) (fun h8 => ?_)
    simp only [List.drop_drop]
    refine t32_ref (by simp only [wrapS32, List.length_drop] at *; omega) (by simp [InnerRef, KOut.err, EMUNGE_BAD_CRED]) (fun h9 => ?_)
    simp only [List.drop_drop]
    simp only [List.length_drop] at h3 h4 h5 h6 h7 h8 h9
    have f0 := rd32_bufOf (b := buf) (k := 8 + 1 + buf[8].toNat) (j := 9 + ↑buf[8].toNat) (by push_cast; omega) (by omega)
    have f1 := rd32_bufOf (b := buf) (k := 8 + 1 + buf[8].toNat + 4) (j := 9 + ↑buf[8].toNat + 4) (by push_cast; omega) (by omega)
    have f2 := rd32_bufOf (b := buf) (k := 8 + 1 + buf[8].toNat + 4 + 4) (j := 9 + ↑buf[8].toNat + 4 + 4) (by push_cast; omega) (by omega)
    have f3 := rd32_bufOf (b := buf) (k := 8 + 1 + buf[8].toNat + 4 + 4 + 4) (j := 9 + ↑buf[8].toNat + 4 + 4 + 4) (by push_cast; omega) (by omega)
    have f4 := rd32_bufOf (b := buf) (k := 8 + 1 + buf[8].toNat + 4 + 4 + 4 + 4) (j := 9 + ↑buf[8].toNat + 4 + 4 + 4 + 4) (by push_cast; omega) (by omega)
    have f5 := rd32_bufOf (b := buf) (k := 8 + 1 + buf[8].toNat + 4 + 4 + 4 + 4 + 4) (j := 9 + ↑buf[8].toNat + 4 + 4 + 4 + 4 + 4) (by push_cast; omega) (by omega)
    have f6 := rd32_bufOf (b := buf) (k := 8 + 1 + buf[8].toNat + 4 + 4 + 4 + 4 + 4 + 4) (j := 9 + ↑buf[8].toNat + 4 + 4 + 4 + 4 + 4 + 4) (by push_cast; omega) (by omega)
    rw [← f0, ← f1, ← f2, ← f3, ← f4, ← f5, ← f6]
    generalize hdl : rd32 (List.take 4 (List.drop (8 + 1 + buf[8].toNat + 4 + 4 + 4 + 4 + 4 + 4) buf)) = dl at *
    by_cases hd : dl > 0
    · rw [if_pos (by omega : (dl : Int) > 0)]
      refine ite_ref (by simp only [wrapS32, wrapU32, List.length_drop] at *; omega) (by ierr) (fun h10 => ?_)
      rw [takeN_some (by simp only [List.length_drop] at *; omega)]; simp only []
      simp only [InnerRef, KOut.get, KOut.written]
      simp [ha4, hd]
    · rw [if_neg (by omega : ¬ (dl : Int) > 0)]
      rw [if_neg (fun hh : dl > 0 ∧ _ => hd hh.1)]
      rw [takeN_some (by omega)]; simp only []
      have hd0 : dl = 0 := by omega
      simp only [InnerRef, KOut.get, KOut.written]
      simp [ha4, hd0]
  · rw [if_neg (by omega : ¬ (buf[8].toNat : Int) = 4)]
    by_cases ha0 : buf[8].toNat = 0
    · rw [if_neg (by omega : ¬ ¬ (buf[8].toNat : Int) = 0)]
      rw [if_neg (by omega : ¬ (buf[8].toNat ≠ 4 ∧ buf[8].toNat ≠ 0))]
      rw [takeN_some (by simp only [List.length_drop]; omega)]; simp only [List.drop_drop]
      refine t32_ref (by simp only [wrapS32, List.length_drop] at *; omega) (by simp [InnerRef, KOut.err, EMUNGE_BAD_CRED]) (fun h3 => ?_)
      simp only [List.drop_drop]
      refine t32_ref (by simp only [wrapS32, List.length_drop] at *; omega) (by simp [InnerRef, KOut.err, EMUNGE_BAD_CRED]) (fun h4 => ?_)
      simp only [List.drop_drop]
      refine t32_ref (by simp only [wrapS32, List.length_drop] at *; omega) (by simp [InnerRef, KOut.err, EMUNGE_BAD_CRED]) (fun h5 => ?_)
      simp only [List.drop_drop]
      refine t32_ref (by simp only [wrapS32, List.length_drop] at *; omega) (by simp [InnerRef, KOut.err, EMUNGE_BAD_CRED]) (fun h6 => ?_)
      simp only [List.drop_drop]
      refine t32_ref (by simp only [wrapS32, List.length_drop] at *; omega) (by simp [InnerRef, KOut.err, EMUNGE_BAD_CRED]) (fun h7 => ?_)
      simp only [List.drop_drop]
      refine t32_ref (by simp only [wrapS32, List.length_drop] at *; omega) (by simp [InnerRef, KOut.err, EMUNGE_BAD_CRED]) (fun h8 => ?_)
      simp only [List.drop_drop]
      refine t32_ref (by simp only [wrapS32, List.length_drop] at *; omega) (by simp [InnerRef, KOut.err, EMUNGE_BAD_CRED]) (fun h9 => ?_)
      simp only [List.drop_drop]
      simp only [List.length_drop] at h3 h4 h5 h6 h7 h8 h9
      have f0 := rd32_bufOf (b := buf) (k := 8 + 1 + buf[8].toNat) (j := 9 + ↑buf[8].toNat) (by push_cast; omega) (by omega)
      have f1 := rd32_bufOf (b := buf) (k := 8 + 1 + buf[8].toNat + 4) (j := 9 + ↑buf[8].toNat + 4) (by push_cast; omega) (by omega)
      have f2 := rd32_bufOf (b := buf) (k := 8 + 1 + buf[8].toNat + 4 + 4) (j := 9 + ↑buf[8].toNat + 4 + 4) (by push_cast; omega) (by omega)
      have f3 := rd32_bufOf (b := buf) (k := 8 + 1 + buf[8].toNat + 4 + 4 + 4) (j := 9 + ↑buf[8].toNat + 4 + 4 + 4) (by push_cast; omega) (by omega)
      have f4 := rd32_bufOf (b := buf) (k := 8 + 1 + buf[8].toNat + 4 + 4 + 4 + 4) (j := 9 + ↑buf[8].toNat + 4 + 4 + 4 + 4) (by push_cast; omega) (by omega)
      have f5 := rd32_bufOf (b := buf) (k := 8 + 1 + buf[8].toNat + 4 + 4 + 4 + 4 + 4) (j := 9 + ↑buf[8].toNat + 4 + 4 + 4 + 4 + 4) (by push_cast; omega) (by omega)
      have f6 := rd32_bufOf (b := buf) (k := 8 + 1 + buf[8].toNat + 4 + 4 + 4 + 4 + 4 + 4) (j := 9 + ↑buf[8].toNat + 4 + 4 + 4 + 4 + 4 + 4) (by push_cast; omega) (by omega)
      rw [← f0, ← f1, ← f2, ← f3, ← f4, ← f5, ← f6]
      generalize hdl : rd32 (List.take 4 (List.drop (8 + 1 + buf[8].toNat + 4 + 4 + 4 + 4 + 4 + 4) buf)) = dl at *
      by_cases hd : dl > 0
      · rw [if_pos (by omega : (dl : Int) > 0)]
        refine ite_ref (by simp only [wrapS32, wrapU32, List.length_drop] at *; omega) (by ierr) (fun h10 => ?_)
        rw [takeN_some (by simp only [List.length_drop] at *; omega)]; simp only []
        simp only [InnerRef, KOut.get, KOut.written]
        simp [ha0, hd]
      · rw [if_neg (by omega : ¬ (dl : Int) > 0)]
        rw [if_neg (fun hh : dl > 0 ∧ _ => hd hh.1)]
        rw [takeN_some (by omega)]; simp only []
        have hd0 : dl = 0 := by omega
        simp only [InnerRef, KOut.get, KOut.written]
        simp [ha0, hd0]
    · rw [if_pos (by omega : ¬ (buf[8].toNat : Int) = 0)]
      rw [if_pos (by omega : (buf[8].toNat ≠ 4 ∧ buf[8].toNat ≠ 0))]
      simp [InnerRef, KOut.err, EMUNGE_BAD_CRED]

end Munge.Unpack
