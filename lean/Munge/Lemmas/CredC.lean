import Munge.Model.Cred
import Munge.Model.PrimLaws
import Munge.Model.SpecV3
import Munge.Lemmas.Base64
/- Helper lemmas about the credential model (group C). -/
namespace Munge.Cred.C
open Munge.Gen.Dec Munge.C

/-! ### generic case-analysis helpers (the `split` tactic is unreliable on the big parser terms) -/

theorem ite_eq_cases {α : Sort _} {c : Prop} [Decidable c] {a b y : α} (h : (if c then a else b) = y) :
    (c ∧ a = y) ∨ (¬ c ∧ b = y) := by
  by_cases hc : c
  · rw [if_pos hc] at h; exact .inl ⟨hc, h⟩
  · rw [if_neg hc] at h; exact .inr ⟨hc, h⟩

theorem PR.ite_err_ok {α : Type} {c : Prop} [Decidable c] {e : Int × String} {x : PR α} {y : α}
    (h : (if c then PR.err e else x) = PR.ok y) : ¬ c ∧ x = PR.ok y := by
  by_cases hc : c
  · rw [if_pos hc] at h; cases h
  · rw [if_neg hc] at h; exact ⟨hc, h⟩

theorem PR.ite_err_oob {α : Type} {c : Prop} [Decidable c] {e : Int × String} {x : PR α}
    (h : (if c then PR.err e else x) = PR.oob) : ¬ c ∧ x = PR.oob := by
  by_cases hc : c
  · rw [if_pos hc] at h; cases h
  · rw [if_neg hc] at h; exact ⟨hc, h⟩

theorem PR.ite_err_err {α : Type} {c : Prop} [Decidable c] {e e' : Int × String} {x : PR α}
    (h : (if c then PR.err e else x) = PR.err e') : e = e' ∨ x = PR.err e' := by
  by_cases hc : c
  · rw [if_pos hc] at h; cases h; exact .inl rfl
  · rw [if_neg hc] at h; exact .inr h

theorem Except.ite_error {α ε : Type} {c : Prop} [Decidable c] {e e' : ε} {x : Except ε α}
    (h : (if c then Except.error e else x) = Except.error e') : e = e' ∨ x = Except.error e' := by
  by_cases hc : c
  · rw [if_pos hc] at h; cases h; exact .inl rfl
  · rw [if_neg hc] at h; exact .inr h

@[simp] theorem be32_length (n : Nat) : (be32 n).length = 4 := rfl

theorem byteAt_none {b : Bytes} {i : Nat} (h : byteAt b i = none) : b.length ≤ i := by
  simpa [byteAt] using h

theorem takeN_none {b : Bytes} {n : Nat} (h : takeN b n = none) : b.length < n := by
  unfold takeN at h; split at h
  · cases h
  · omega

/-! ### `setErr` -/

theorem setErr_fields (m : Msg) (e : Int) (s : Option String) :
    (setErr m e s).clientUid = m.clientUid ∧ (setErr m e s).clientGid = m.clientGid ∧
    (setErr m e s).mac = m.mac ∧ (setErr m e s).cipher = m.cipher ∧ (setErr m e s).zip = m.zip := by
  unfold setErr; split <;> exact ⟨rfl, rfl, rfl, rfl, rfl⟩

theorem setErr_errorNum (m : Msg) (e : Int) (s : Option String) (h0 : m.errorNum = 0) (he : e ≠ 0) :
    (setErr m e s).errorNum = e.toNat := by
  unfold setErr; rw [if_pos ⟨h0, he⟩]

theorem setErr_errorNum_keep (m : Msg) (e : Int) (s : Option String) (h0 : m.errorNum ≠ 0) :
    (setErr m e s).errorNum = m.errorNum := by
  unfold setErr; rw [if_neg (fun h => h0 h.1)]

theorem setErr_zero (m : Msg) (s : Option String) : setErr m 0 s = m := by
  unfold setErr; rw [if_neg (fun h => h.2 rfl)]

theorem setErr_ne18 (m : Msg) (e : Int) (s : Option String) (h0 : m.errorNum = 0)
    (he : e = 0 ∨ e = 15 ∨ e = 16 ∨ e = 17 ∨ e = 5 ∨ e = 1) : (setErr m e s).errorNum ≠ 18 := by
  by_cases hz : e = 0
  · rw [hz, setErr_zero, h0]; decide
  · rw [setErr_errorNum m e s h0 hz]; omega

/-! ### encode: the identity-looking fields of the request are never read -/

/-- the request with its identity-looking fields overwritten -/
def withId (m : Msg) (a b c d : Nat) : Msg :=
  { m with clientUid := a, clientGid := b, credUid := c, credGid := d }

theorem setErr_withId (m : Msg) (a b c d : Nat) (e : Int) (s : Option String) :
    setErr (withId m a b c d) e s = withId (setErr m e s) a b c d := by
  unfold setErr
  by_cases h : m.errorNum = 0 ∧ e ≠ 0
  · rw [if_pos h, if_pos (show (withId m a b c d).errorNum = 0 ∧ e ≠ 0 from h)]; rfl
  · rw [if_neg h, if_neg (show ¬ ((withId m a b c d).errorNum = 0 ∧ e ≠ 0) from h)]

/-- the encode reply and return code do not depend on the identity-looking fields of the request -/
theorem encProcess_withId (P : Prims) (cf : Conf) (env : Env) (m : Msg) (a b c d : Nat) :
    encRsp (encProcess P cf env (withId m a b c d)).1 = encRsp (encProcess P cf env m).1 ∧
    (encProcess P cf env (withId m a b c d)).2 = (encProcess P cf env m).2 := by
  unfold encProcess
  simp only [show encValidate P cf (withId m a b c d) = encValidate P cf m from rfl,
    show ∀ v p, applyWrites (withId m a b c d) v p = withId (applyWrites m v p) a b c d from fun _ _ => rfl,
    show ∀ m' e, encValidateText P (withId m a b c d) (withId m' a b c d) e = encValidateText P m m' e
      from fun _ _ => rfl]
  generalize encValidate P cf m = v
  generalize applyWrites m v "m." = mw
  by_cases h1 : v.ret < 0
  · simp only [h1, if_true, setErr_withId]; and_intros <;> first | rfl | trivial
  · simp only [h1, if_false]
    generalize env.peer = pr
    rcases pr with _ | ⟨uid, gid⟩
    · simp only [setErr_withId]; and_intros <;> first | rfl | trivial
    · simp only []
      have e0 : ({ withId mw a b c d with clientUid := uid, clientGid := gid } : Msg) =
           withId mw uid gid c d := rfl
      have e0' : ({ mw with clientUid := uid, clientGid := gid } : Msg) =
           withId mw uid gid mw.credUid mw.credGid := rfl
      by_cases h2 : (enc_check_retry ↑(withId mw a b c d).retry ↑uid ↑gid).ret < 0
      · have h2' : (enc_check_retry ↑mw.retry ↑uid ↑gid).ret < 0 := h2
        simp only [h2, h2', if_true]
        rw [e0, e0']
        simp only [setErr_withId]; and_intros <;> first | rfl | trivial
      · have h2' : ¬ (enc_check_retry ↑mw.retry ↑uid ↑gid).ret < 0 := h2
        simp only [h2, h2', if_false]
        by_cases h3 : env.now = -1
        · simp only [h3, if_true]
          rw [e0, e0']
          simp only [setErr_withId]; and_intros <;> first | rfl | trivial
        · simp only [h3, if_false]
          simp only [encRsp, errWire, hdrBytes, withId, packInner, packOuter]
          clear e0 e0' h2 h2'
          by_cases hz : mw.zip = 0
          · simp only [hz, ne_eq, not_true_eq_false, false_and, if_false, if_true]
            and_intros <;> first | rfl | trivial
          · simp only [hz, ne_eq, not_false_eq_true, true_and, if_false]
            split <;> (and_intros <;> first | rfl | trivial)

/-! ### decode, front part -/

/-- the error codes the front part of the decoder can raise: none of them is 0 or a "soft" code -/
def HardCode (e : Int) : Prop := e = 1 ∨ e = 2 ∨ e = 6 ∨ e = 8 ∨ e = 9 ∨ e = 10 ∨ e = 11 ∨ e = 12

theorem unarmor_err (m : Msg) (e : Int × String) (h : unarmor m = .error e) : HardCode e.1 := by
  unfold unarmor at h
  dsimp only at h
  rcases Except.ite_error h with h' | h'
  · cases h'; simp [HardCode, EMUNGE_BAD_ARG]
  clear h
  rcases Except.ite_error h' with h | h
  · cases h; simp [HardCode, EMUNGE_BAD_CRED]
  clear h'
  split at h
  · cases h; simp [HardCode, EMUNGE_BAD_CRED]
  · rcases Except.ite_error h with h' | h'
    · cases h'; simp [HardCode, EMUNGE_BAD_CRED]
    · cases h'

theorem PR.hard_step {α : Type} {c : Prop} [Decidable c] {e e' : Int × String} {x : PR α}
    (h : (if c then PR.err e else x) = PR.err e') (he : HardCode e.1) (hx : x = PR.err e' → HardCode e'.1) :
    HardCode e'.1 := by
  rcases PR.ite_err_err h with h' | h'
  · exact h' ▸ he
  · exact hx h'

theorem unpackOuter_err (P : Prims) (m : Msg) (buf : Bytes) (e : Int × String)
    (h : unpackOuter P m buf = .err e) : HardCode e.1 := by
  unfold unpackOuter at h
  dsimp only at h
  repeat (first
    | (refine PR.hard_step h (by simp [HardCode, EMUNGE_BAD_CRED, EMUNGE_BAD_VERSION, EMUNGE_BAD_CIPHER,
          EMUNGE_SNAFU, EMUNGE_BAD_MAC, EMUNGE_BAD_ZIP]) (fun h => ?_))
    | (split at h <;> try (cases h; done)))

/-- every read of `dec_unpack_outer` is covered by the bound test before it -/
theorem unpackOuter_no_oob (P : Prims) (m : Msg) (buf : Bytes) : unpackOuter P m buf ≠ .oob := by
  intro h
  unfold unpackOuter at h
  dsimp only at h
  repeat (first
    | (have hc := (PR.ite_err_oob h).1; replace h := (PR.ite_err_oob h).2)
    | (split at h; · first | (cases h; done) | (have := byteAt_none ‹_›; omega) | skip))
  split at h
  · have := takeN_none ‹_›; simp only [List.length_drop] at *; omega
  have hc := (PR.ite_err_oob h).1; replace h := (PR.ite_err_oob h).2
  split at h
  · have := takeN_none ‹_›; omega
  have hc := (PR.ite_err_oob h).1; replace h := (PR.ite_err_oob h).2
  split at h
  · have := takeN_none ‹_›; omega
  cases h

theorem unpackOuter_ok (P : Prims) (m m' : Msg) (buf : Bytes) (s : Scratch)
    (h : unpackOuter P m buf = .ok (m', s)) :
    m'.clientUid = m.clientUid ∧ m'.clientGid = m.clientGid ∧ m'.errorNum = m.errorNum ∧
    P.macValid m'.mac = true := by
  unfold unpackOuter at h
  dsimp only at h
  repeat (first
    | (have hc := (PR.ite_err_ok h).1; replace h := (PR.ite_err_ok h).2)
    | (split at h <;> try (cases h; done)))
  all_goals (cases h; refine ⟨rfl, rfl, rfl, ?_⟩; apply Decidable.not_not.mp; assumption)

theorem dec_validate_msg_err (a b : Int) (h : (dec_validate_msg a b).ret < 0) :
    (dec_validate_msg a b).err = 1 := by
  revert h
  unfold dec_validate_msg
  simp only [apply_ite KOut.ret, apply_ite KOut.err]
  simp only [KOut.err, List.find?, String.reduceBEq]
  split <;> simp

theorem dec_check_retry_err (a b c : Int) (h : (dec_check_retry a b c).ret < 0) :
    (dec_check_retry a b c).err = 6 := by
  revert h
  unfold dec_check_retry
  simp only [apply_ite KOut.ret, apply_ite KOut.err]
  simp only [KOut.err, List.find?, String.reduceBEq]
  split <;> simp

/-- a failure of the front part is `decErr` with a hard code on a message that had no error -/
theorem decFront_inl (P : Prims) (env : Env) (rs : ReplaySet) (m0 : Msg) (o : DecOut)
    (h0 : m0.errorNum = 0) (hf : decFront P env rs m0 = .inl o) :
    ∃ m e, o = decErr rs m e ∧ m.errorNum = 0 ∧ HardCode e.1 := by
  unfold decFront at hf
  dsimp only at hf
  rcases ite_eq_cases hf with ⟨hv, h⟩ | ⟨hv, h⟩
  · cases h
    exact ⟨_, _, rfl, h0, by rw [dec_validate_msg_err _ _ hv]; simp [HardCode]⟩
  clear hf
  rcases ite_eq_cases h with ⟨hv, hf⟩ | ⟨hv, hf⟩
  · cases hf; exact ⟨_, _, rfl, h0, by simp [HardCode, EMUNGE_SNAFU]⟩
  clear h
  split at hf
  · cases hf; exact ⟨_, _, rfl, h0, by simp [HardCode, EMUNGE_SNAFU]⟩
  rcases ite_eq_cases hf with ⟨hv, h⟩ | ⟨hv, h⟩
  · cases h
    exact ⟨_, _, rfl, h0, by rw [dec_check_retry_err _ _ _ hv]; simp [HardCode]⟩
  clear hf
  split at h
  · rename_i e he
    cases h; exact ⟨_, _, rfl, h0, unarmor_err _ _ he⟩
  split at h
  · rename_i he; exact absurd he (unpackOuter_no_oob _ _ _)
  · rename_i e he
    cases h; exact ⟨_, _, rfl, h0, unpackOuter_err _ _ _ _ he⟩
  · cases h

/-- a success of the front part: the client identity is the peer's, no error was raised, the MAC type is valid -/
theorem decFront_inr (P : Prims) (env : Env) (rs : ReplaySet) (m0 m : Msg) (s : Scratch)
    (hf : decFront P env rs m0 = .inr (m, s)) :
    ∃ uid gid, env.peer = some (uid, gid) ∧ m.clientUid = uid ∧ m.clientGid = gid ∧
      m.errorNum = m0.errorNum ∧ P.macValid m.mac = true := by
  unfold decFront at hf
  dsimp only at hf
  rcases ite_eq_cases hf with ⟨hv, h⟩ | ⟨hv, h⟩
  · cases h
  clear hf
  rcases ite_eq_cases h with ⟨hv, hf⟩ | ⟨hv, hf⟩
  · cases hf
  clear h
  split at hf
  · cases hf
  rename_i _ uid gid hp
  rcases ite_eq_cases hf with ⟨hv, h⟩ | ⟨hv, h⟩
  · cases h
  clear hf
  split at h
  · cases h
  split at h
  · cases h
  · cases h
  · rename_i m' s' hu
    cases h
    obtain ⟨h1, h2, h3, h4⟩ := unpackOuter_ok _ _ _ _ _ hu
    exact ⟨uid, gid, hp, h1, h2, h3, h4⟩

/-- what a `decErr` exit with a hard code sends -/
theorem decErr_hard (rs : ReplaySet) (m : Msg) (e : Int × String) (h0 : m.errorNum = 0) (he : HardCode e.1) :
    (decErr rs m e).rc = -1 ∧ (decErr rs m e).msg.errorNum = e.1.toNat ∧ (decErr rs m e).msg.dataLen = 0 ∧
    (decErr rs m e).msg.data = [] ∧ (decErr rs m e).msg.credUid = UID_ANY ∧
    (decErr rs m e).msg.credGid = GID_ANY ∧ (decErr rs m e).replay = rs := by
  have hne : e.1 ≠ 0 := by unfold HardCode at he; omega
  refine ⟨rfl, ?_, rfl, rfl, rfl, rfl, rfl⟩
  show (setErr m e.1 (some e.2)).errorNum = _
  exact setErr_errorNum m _ _ h0 hne

/-! ### decode, middle part -/

theorem decDecrypt_facts (P : Prims) (cf : Conf) (m : Msg) (s : Scratch) :
    (decDecrypt P cf m s).1.mac = m.mac ∧ (decDecrypt P cf m s).1.cipher = m.cipher ∧
    (decDecrypt P cf m s).1.clientUid = m.clientUid ∧ (decDecrypt P cf m s).1.clientGid = m.clientGid ∧
    (decDecrypt P cf m s).2.outer = s.outer ∧ (decDecrypt P cf m s).2.mac = s.mac ∧
    (decDecrypt P cf m s).2.macLen = s.macLen ∧
    (m.errorNum = 0 →
      ((decDecrypt P cf m s).1.errorNum = 0 ∧
        (m.cipher ≠ 0 → (P.decrypt m.cipher (P.mac m.mac cf.dekKey s.mac) s.iv s.inner).2 = true)) ∨
      (decDecrypt P cf m s).1.errorNum = 14) := by
  unfold decDecrypt
  by_cases hc : m.cipher = 0
  · rw [if_pos hc]
    exact ⟨rfl, rfl, rfl, rfl, rfl, rfl, rfl, fun h0 => .inl ⟨h0, fun h => absurd hc h⟩⟩
  · rw [if_neg hc]
    dsimp only
    by_cases hr : (P.decrypt m.cipher (P.mac m.mac cf.dekKey s.mac) s.iv s.inner).2 = true
    · rw [if_pos hr]
      exact ⟨rfl, rfl, rfl, rfl, rfl, rfl, rfl, fun h0 => .inl ⟨h0, fun _ => hr⟩⟩
    · rw [if_neg hr]
      obtain ⟨h1, h2, h3, h4, _⟩ := setErr_fields m EMUNGE_CRED_INVALID none
      exact ⟨h3, h4, h1, h2, rfl, rfl, rfl, fun h0 => .inr (setErr_errorNum m _ _ h0 (by decide))⟩

theorem decValidateMac_ok (P : Prims) (cf : Conf) (m m' : Msg) (s : Scratch)
    (h : decValidateMac P cf m s = .ok m') :
    m' = m ∧ P.mac m.mac cf.macKey (s.outer ++ s.inner) = s.mac ∧ m.errorNum = 0 := by
  unfold decValidateMac at h
  dsimp only at h
  split at h
  · cases h
  split at h
  · cases h
  · rename_i h1 h2
    cases h
    refine ⟨rfl, ?_, Decidable.not_not.mp h2⟩
    apply Decidable.not_not.mp; intro hne; exact h1 (.inr hne)

theorem decValidateMac_error (P : Prims) (cf : Conf) (m m' : Msg) (s : Scratch)
    (h : decValidateMac P cf m s = .error m') (h0 : m.errorNum = 0 ∨ m.errorNum = 14) :
    m'.errorNum = 14 := by
  unfold decValidateMac at h
  dsimp only at h
  split at h
  · cases h
    rcases h0 with h0 | h0
    · exact setErr_errorNum m _ _ h0 (by decide)
    · rw [setErr_errorNum_keep m _ _ (by omega)]; exact h0
  split at h
  · rename_i h2
    cases h
    rcases h0 with h0 | h0
    · exact absurd h0 h2
    · exact h0
  · cases h

theorem unpackInner_ok (m m' : Msg) (buf : Bytes) (h : unpackInner m buf = .ok m') :
    m'.clientUid = m.clientUid ∧ m'.clientGid = m.clientGid ∧ m'.errorNum = m.errorNum := by
  unfold unpackInner take32 at h
  dsimp only at h
  repeat (first
    | (have hc := (PR.ite_err_ok h).1; replace h := (PR.ite_err_ok h).2)
    | (split at h <;> try (cases h; done)))
  all_goals (cases h; exact ⟨rfl, rfl, rfl⟩)

/-- the middle part never touches the client identity -/
theorem decMid_inr (P : Prims) (cf : Conf) (rs : ReplaySet) (m m' : Msg) (s s' : Scratch)
    (h : decMid P cf rs m s = .inr (m', s')) : m'.clientUid = m.clientUid ∧ m'.clientGid = m.clientGid := by
  unfold decMid at h
  obtain ⟨_, _, d3, d4, _⟩ := decDecrypt_facts P cf m s
  generalize decDecrypt P cf m s = p at h d3 d4
  obtain ⟨m1, s1⟩ := p
  dsimp only at h d3 d4
  split at h
  · cases h
  rename_i m2 hv
  obtain ⟨rfl, _, _⟩ := decValidateMac_ok _ _ _ _ _ hv
  split at h
  · cases h
  split at h
  · cases h
  · cases h
  · rename_i m3 hu
    cases h
    obtain ⟨u1, u2, _⟩ := unpackInner_ok _ _ _ hu
    exact ⟨u1.trans d3, u2.trans d4⟩

/-- the middle part either fails with CRED_INVALID, or the MAC matched and padding removal succeeded -/
theorem decMid_cases (P : Prims) (cf : Conf) (rs : ReplaySet) (m : Msg) (s : Scratch) (h0 : m.errorNum = 0) :
    (∃ m2, decMid P cf rs m s = .inl (decFail rs m2) ∧ m2.errorNum = 14) ∨
    (P.mac m.mac cf.macKey (s.outer ++ (decDecrypt P cf m s).2.inner) = s.mac ∧
      (m.cipher ≠ 0 → (P.decrypt m.cipher (P.mac m.mac cf.dekKey s.mac) s.iv s.inner).2 = true)) := by
  unfold decMid
  obtain ⟨d1, _, _, _, d5, d6, _, d8⟩ := decDecrypt_facts P cf m s
  replace d8 := d8 h0
  generalize decDecrypt P cf m s = p at d1 d5 d6 d8 ⊢
  obtain ⟨m1, s1⟩ := p
  dsimp only at d1 d5 d6 d8 ⊢
  cases hv : decValidateMac P cf m1 s1 with
  | error m2 =>
    left
    refine ⟨m2, rfl, decValidateMac_error _ _ _ _ _ hv ?_⟩
    rcases d8 with ⟨h, _⟩ | h
    · exact .inl h
    · exact .inr h
  | ok m2 =>
    right
    obtain ⟨_, hm, he⟩ := decValidateMac_ok _ _ _ _ _ hv
    rw [d1, d5, d6] at hm
    refine ⟨hm, ?_⟩
    rcases d8 with ⟨_, h⟩ | h
    · exact h
    · omega

/-- what a `decFail` exit on a message with CRED_INVALID sends -/
theorem decFail_invalid (rs : ReplaySet) (m : Msg) (h : m.errorNum = 14) :
    (decFail rs m).rc = -1 ∧ ((decFail rs m).msg.errorNum : Int) = EMUNGE_CRED_INVALID ∧
    (decFail rs m).msg.dataLen = 0 ∧ (decFail rs m).msg.data = [] ∧ (decFail rs m).msg.credUid = UID_ANY ∧
    (decFail rs m).msg.credGid = GID_ANY ∧ (decFail rs m).msg.ttl = 0 ∧ (decFail rs m).msg.time0 = 0 ∧
    (decFail rs m).replay = rs := by
  refine ⟨rfl, ?_, rfl, rfl, rfl, rfl, rfl, rfl, rfl⟩
  show ((m.errorNum : Nat) : Int) = 14
  rw [h]; rfl

/-! ### decode, tail: the error codes of the three kernels -/

theorem dec_validate_auth_err (a b c d e : Int) (f : Int → Int → Int) :
    ((dec_validate_auth a b c d e f).ret < 0 → (dec_validate_auth a b c d e f).err = 18) ∧
    (¬ (dec_validate_auth a b c d e f).ret < 0 → (dec_validate_auth a b c d e f).ret = 0) := by
  unfold dec_validate_auth
  simp only [apply_ite KOut.ret, apply_ite KOut.err]
  simp only [KOut.err, List.find?, String.reduceBEq]
  repeat' split
  all_goals simp

theorem dec_validate_time_err (a b c d e : Int) :
    (dec_validate_time a b c d e).err = 0 ∨ (dec_validate_time a b c d e).err = 15 ∨
    (dec_validate_time a b c d e).err = 16 := by
  unfold dec_validate_time
  simp only [apply_ite KOut.err]
  simp only [KOut.err, List.find?, String.reduceBEq]
  have key : ∀ (p q : Prop) [Decidable p] [Decidable q],
      (if p then (16 : Int) else if q then 15 else 0) = 0 ∨ (if p then (16 : Int) else if q then 15 else 0) = 15 ∨
      (if p then (16 : Int) else if q then 15 else 0) = 16 := by
    intro p q _ _
    by_cases hp : p <;> by_cases hq : q <;> simp [hp, hq]
  exact key _ _

theorem dec_validate_replay_err (a b c d e f : Int) :
    (dec_validate_replay a b c d e f).err = 0 ∨ (dec_validate_replay a b c d e f).err = 17 ∨
    (dec_validate_replay a b c d e f).err = 5 ∨ (dec_validate_replay a b c d e f).err = 1 := by
  unfold dec_validate_replay
  simp only [apply_ite KOut.err]
  simp only [KOut.err, List.find?, String.reduceBEq]
  repeat' split
  all_goals simp

end Munge.Cred.C
