import Munge.Model.Gids
/-
Helper lemmas for C17 (`Munge/Props/C17.lean`).

Section A characterises the generated fragments (`Munge.Gen.Gids.*`) as plain case
distinctions; these are the only proofs that look inside generated code, and they are what
breaks when the C source changes its meaning.  Everything after section A is proved from
those characterisations alone.
-/
set_option linter.unusedSimpArgs false
set_option linter.unusedVariables false
namespace Munge.Gids
open Munge.C Munge.Gen.Gids

/-- `UID_SENTINEL`, the value `_gids_user_to_uid` treats as "no such user" -/
def SENT : Int := UID_SENTINEL

/-! ## A. What the generated fragments say -/

theorem keyEq_iff (a b : Int) : keyEq a b = true ↔ a = b := by
  unfold keyEq gid_head_cmp
  split
  · simp; omega
  · split
    · simp; omega
    · simp; omega

theorem skip_iff (n gid : Int) : insert_walk_skip P_NODE n gid ↔ n < gid := by
  simp [insert_walk_skip, P_NODE]

theorem insertAt_nil (gid : Int) : insertAt gid [] = (1, [gid]) := by
  simp [insertAt, insert_tail, KOut.written, P_NODE, P_NEW]

/-- (the tail only runs where the walk stopped, i.e. at a node that is not smaller) -/
theorem insertAt_cons (gid n : Int) (l : List Int) (hge : ¬ n < gid) :
    insertAt gid (n :: l) = if n = gid then (0, n :: l) else (1, gid :: n :: l) := by
  by_cases h : n = gid
  · simp [insertAt, insert_tail, KOut.written, P_NODE, P_NEW, h]
  · have h2 : ¬ n ≤ gid := by omega
    have h3 : ¬ gid ≥ n := by omega
    simp [insertAt, insert_tail, KOut.written, P_NODE, P_NEW, h, h2, h3]

theorem cont_iff (n gid : Int) : member_walk_cont P_NODE n gid ↔ n ≤ gid := by
  simp [member_walk_cont, P_NODE]

theorem walk_body_eq (n gid : Int) (h : n = gid) :
    (member_walk_body n gid 0).ret = K_BREAK ∧ (member_walk_body n gid 0).written "is_member" = some 1 := by
  simp [member_walk_body, KOut.written, K_BREAK, h]

/-- (the body only runs when the loop condition holds, so only `n < gid` is left besides `n = gid`) -/
theorem walk_body_lt (n gid : Int) (h : n < gid) :
    (member_walk_body n gid 0).ret ≠ K_BREAK ∧ (member_walk_body n gid 0).written "is_member" = none := by
  have h1 : n ≠ gid := by omega
  have h2 : ¬ n ≥ gid := by omega
  have h3 : ¬ gid ≤ n := by omega
  simp [member_walk_body, KOut.written, K_BREAK, h1, h2, h3]

theorem member_init_zero : member_init = 0 := rfl

theorem userToUid_hit (O : PwOracle σ) (s : σ) (c : Cache) (user : String) (u : Int)
    (h : c.lookup user = some u) :
    userToUid O s c user = (s, c, if u = SENT then none else some u) := by
  unfold userToUid
  simp only [h]
  by_cases hu : u = SENT
  · subst hu
    simp [user_to_uid, KOut.calls, KOut.written, SENT, UID_SENTINEL]
  · have : u ≠ 4294967295 := hu
    simp [user_to_uid, KOut.calls, KOut.written, SENT, UID_SENTINEL, this]

theorem userToUid_miss (O : PwOracle σ) (s : σ) (c : Cache) (user : String)
    (h : c.lookup user = none) :
    userToUid O s c user =
      match O.ask s user with
      | (.found u, s') => (s', uidAdd c user u, if u = SENT then none else some u)
      | (.fail e, s') => if e = ENOENT then (s', uidAdd c user SENT, none) else (s', c, none) := by
  unfold userToUid
  simp only [h]
  rcases hq : O.ask s user with ⟨r, s'⟩
  have hq1 : (O.ask s user).1 = r := by rw [hq]
  have hq2 : (O.ask s user).2 = s' := by rw [hq]
  cases r with
  | found u =>
    by_cases hu : u = SENT
    · subst hu
      simp [user_to_uid, KOut.calls, KOut.written, SENT, UID_SENTINEL, hq1, hq2]
    · have : u ≠ 4294967295 := hu
      simp [user_to_uid, KOut.calls, KOut.written, SENT, UID_SENTINEL, this, hq1, hq2]
  | fail e =>
    by_cases he : e = ENOENT
    · subst he
      simp [user_to_uid, KOut.calls, KOut.written, SENT, UID_SENTINEL, ENOENT, hq1, hq2]
    · have : e ≠ 2 := he
      simp [user_to_uid, KOut.calls, KOut.written, SENT, UID_SENTINEL, ENOENT, this, hq1, hq2]

/-- the member-loop body: the insert happens exactly when the lookup succeeded, and only a negative
    return of `_gids_gid_add` aborts the build -/
theorem addMember_eq (O : PwOracle σ) (st : BSt σ) (gid : Int) (user : String) :
    addMember O st gid user =
      match userToUid O st.pw st.cache user with
      | (s', c', none) => some { st with pw := s', cache := c' }
      | (s', c', some uid) =>
        if (gidAdd st.map uid gid).1 < 0 then none
        else some { pw := s', cache := c', map := (gidAdd st.map uid gid).2, inits := st.inits } := by
  unfold addMember
  rcases userToUid O st.pw st.cache user with ⟨s', c', r⟩
  cases r with
  | none => simp [scan_member, KOut.calls, K_ERR]
  | some uid =>
    by_cases h : (gidAdd st.map uid gid).1 < 0
    · simp [scan_member, KOut.calls, K_ERR, h]
    · simp [scan_member, KOut.calls, K_ERR, h]

theorem create_flags : create_ok_returns_map = true ∧ create_err_returns_null = true := ⟨rfl, rfl⟩

theorem scanBegin_eq (st : BSt σ) (h : -2147483649 ≤ st.inits ∧ st.inits < 2147483647) :
    scanBegin st = { st with inits := st.inits + 1 } := by
  unfold scanBegin
  have : (st.inits + 1 + 2147483648) % 4294967296 - 2147483648 = st.inits + 1 := by omega
  simp [scan_begin, KOut.written, wrapS32, this]

/-- what the scan loop does on a failed `xgetgrent`, by errno -/
theorem scanItem_fail (O : PwOracle σ) (st : BSt σ) (e : Int) :
    scanItem O st (.fail e) =
      if e = ENOENT then .done (some st.map) st.pw
      else if e = EINTR then .cont st false
      else if e = ERANGE ∧ st.inits < max_inits then .cont (scanBegin { st with map := [] }) true
      else .done none st.pw := by
  unfold scanItem
  by_cases h1 : e = ENOENT
  · have : e = 2 := h1
    simp [scan_err, K_BREAK, finishOk, create_ok_returns_map, ENOENT, this]
  · have h1' : e ≠ 2 := h1
    by_cases h2 : e = EINTR
    · have : e = 4 := h2
      simp [scan_err, K_BREAK, K_CONTINUE, ENOENT, EINTR, this]
    · have h2' : e ≠ 4 := h2
      by_cases h3 : e = ERANGE ∧ st.inits < max_inits
      · have h3a : e = 34 := h3.1
        have h3b : st.inits < 16 := h3.2
        simp [scan_err, K_BREAK, K_CONTINUE, K_RESTART, ENOENT, EINTR, ERANGE, max_inits, KOut.calls, h3a, h3b]
      · have h3' : ¬ (e = 34 ∧ st.inits < 16) := h3
        simp [scan_err, K_BREAK, K_CONTINUE, K_RESTART, K_ERR, ENOENT, EINTR, ERANGE, max_inits, KOut.calls,
          finishErr, create_err_returns_null, h1', h2', h3']

theorem scanItem_ent (O : PwOracle σ) (st : BSt σ) (gid : Int) (ms : List String) :
    scanItem O st (.ent gid ms) =
      match addMembers O st gid ms with
      | some st' => .cont st' false
      | none => .done none st.pw := by
  unfold scanItem
  rcases h : addMembers O st gid ms with _ | st' <;> simp [h, finishErr, create_err_returns_null]

theorem initBSt_eq (pw : σ) : initBSt pw = { pw := pw, cache := [], map := [], inits := 1 } := by
  unfold initBSt
  rw [scanBegin_eq _ (by simp [num_inits_init])]
  simp [num_inits_init]

theorem max_inits_val : max_inits = 16 := rfl

/-! ### the refresh kernel -/

/-- `_gids_map_update` skips the scan exactly when the check is on, `stat` worked and the file is not newer -/
theorem wantsBuild_iff (d t : Int) (sh : Shared) (env : UpdEnv) :
    wantsBuild d t sh env = true ↔ ¬ (d > 0 ∧ env.statrv ≥ 0 ∧ env.mtime ≤ t) := by
  unfold wantsBuild updKernel map_update
  by_cases hd : d > 0 <;> by_cases hs : env.statrv < 0 <;> by_cases hm : env.mtime ≤ t <;>
    by_cases hi : sh.interval > 0 <;> by_cases ho : sh.installed.isSome <;>
    simp [KOut.calls, ptrOf, P_OLD, P_NEW, hd, hs, hm, hi, ho] <;> omega

/-- the second locked section when there is no new map: nothing about the installed map changes -/
theorem commit_none (d t : Int) (sh : Shared) (env : UpdEnv) (nt : Int) :
    (commit d t sh env none nt).installed = sh.installed ∧ (commit d t sh env none nt).tLast = sh.tLast := by
  unfold commit updKernel map_update
  by_cases hd : d > 0 <;> by_cases hs : env.statrv < 0 <;> by_cases hm : env.mtime ≤ t <;>
    by_cases hi : sh.interval > 0 <;> by_cases ho : sh.installed.isSome <;>
    simp [KOut.written, ptrOf, P_OLD, P_NEW, hd, hs, hm, hi, ho]

/-- the second locked section with a new map, on a run that did call `_gids_map_create` -/
theorem commit_some (d t : Int) (sh : Shared) (env : UpdEnv) (m : GidMap) (nt : Int)
    (hw : wantsBuild d t sh env = true) :
    (commit d t sh env (some m) nt).installed = some m ∧ (commit d t sh env (some m) nt).tLast = env.now := by
  rw [wantsBuild_iff] at hw
  unfold commit updKernel map_update
  by_cases hd : d > 0 <;> by_cases hs : env.statrv < 0 <;> by_cases hm : env.mtime ≤ t <;>
    by_cases hi : sh.interval > 0 <;> by_cases ho : sh.installed.isSome <;>
    simp [KOut.written, ptrOf, P_OLD, P_NEW, hd, hs, hm, hi, ho] <;> omega

/-- whatever the inputs, the second section installs the complete new map or keeps the installed one -/
theorem commit_installed (d t : Int) (sh : Shared) (env : UpdEnv) (res : Option GidMap) (nt : Int) :
    (commit d t sh env res nt).installed = sh.installed ∨
      ((commit d t sh env res nt).installed = res ∧ res.isSome = true) := by
  cases res with
  | none => exact Or.inl (commit_none d t sh env nt).1
  | some m =>
    unfold commit updKernel map_update
    by_cases hd : d > 0 <;> by_cases hs : env.statrv < 0 <;> by_cases hm : env.mtime ≤ t <;>
      by_cases hi : sh.interval > 0 <;> by_cases ho : sh.installed.isSome <;>
      simp [KOut.written, ptrOf, P_OLD, P_NEW, hd, hs, hm, hi, ho]

/-- the only map `_gids_map_update` ever hands to `hash_destroy` is the one it has just unlinked -/
theorem destroyed_spec (d t : Int) (sh : Shared) (env : UpdEnv) (res : Option GidMap) :
    ∀ p ∈ destroyed d t sh env res, p ≠ 0 → p = ptrOf sh.installed P_OLD ∧ res.isSome = true := by
  unfold destroyed updKernel map_update
  cases res <;>
  by_cases hd : d > 0 <;> by_cases hs : env.statrv < 0 <;> by_cases hm : env.mtime ≤ t <;>
    by_cases hi : sh.interval > 0 <;> by_cases ho : sh.installed.isSome <;>
    simp [ptrOf, P_OLD, P_NEW, hd, hs, hm, hi, ho]

/-- a failing `stat` turns the mtime check off (−1) in the second section; otherwise the flag is left as it is -/
theorem commit_doStat (d t : Int) (sh : Shared) (env : UpdEnv) (res : Option GidMap) (nt : Int) :
    (commit d t sh env res nt).doStat = if d > 0 ∧ env.statrv < 0 then -1 else if d < -1 then -1 else sh.doStat := by
  unfold commit updKernel map_update
  cases res <;>
  by_cases hd : d > 0 <;> by_cases hs : env.statrv < 0 <;> by_cases hm : env.mtime ≤ t <;>
    by_cases hi : sh.interval > 0 <;> by_cases ho : sh.installed.isSome <;> by_cases hd2 : d < -1 <;>
    simp [KOut.written, ptrOf, P_OLD, P_NEW, hd, hs, hm, hi, ho, hd2] <;> omega

/-- SIGHUP re-enables a check that a failing `stat` had turned off, and touches nothing else but the timer -/
theorem hup_spec (sh : Shared) (nt : Int) :
    (hup sh nt).doStat = (if sh.doStat = 0 then 0 else 1) ∧ (hup sh nt).installed = sh.installed ∧
      (hup sh nt).tLast = sh.tLast := by
  unfold hup hupKernel gids_update
  by_cases h0 : sh.doStat = 0 <;> by_cases ht : sh.timer > 0 <;> simp [KOut.written, h0, ht]

/-! ## B. Sorted node lists and the map -/

/-- strictly increasing: "sorted in increasing order of GIDs without duplicates" -/
abbrev Sorted (l : List Int) : Prop := l.Pairwise (· < ·)

theorem insertGid_rc (gid : Int) (l : List Int) : (insertGid gid l).1 = 0 ∨ (insertGid gid l).1 = 1 := by
  induction l with
  | nil => simp [insertGid, insertAt_nil]
  | cons n rest ih =>
    simp only [insertGid, skip_iff]
    by_cases h : n < gid
    · simp [h, ih]
    · simp only [h, if_false, insertAt_cons _ _ _ h]
      by_cases h2 : n = gid <;> simp [h2]

theorem mem_insertGid (gid : Int) (l : List Int) (x : Int) : x ∈ (insertGid gid l).2 ↔ x = gid ∨ x ∈ l := by
  induction l with
  | nil => simp [insertGid, insertAt_nil]
  | cons n rest ih =>
    simp only [insertGid, skip_iff]
    by_cases h : n < gid
    · simp only [h, if_true, List.mem_cons, ih]
      constructor
      · rintro (h1 | h1 | h1) <;> simp [h1]
      · rintro (h1 | h1 | h1) <;> simp [h1]
    · simp only [h, if_false, insertAt_cons _ _ _ h]
      by_cases h2 : n = gid
      · subst h2; simp
      · simp [h2]

theorem sorted_insertGid (gid : Int) (l : List Int) (hs : Sorted l) : Sorted (insertGid gid l).2 := by
  induction l with
  | nil => simp [insertGid, insertAt_nil, Sorted]
  | cons n rest ih =>
    have hs' := List.pairwise_cons.mp hs
    simp only [insertGid, skip_iff]
    by_cases h : n < gid
    · simp only [h, if_true]
      apply List.pairwise_cons.mpr
      refine ⟨?_, ih hs'.2⟩
      intro x hx
      rcases (mem_insertGid gid rest x).mp hx with h1 | h1
      · omega
      · exact hs'.1 x h1
    · simp only [h, if_false, insertAt_cons _ _ _ h]
      by_cases h2 : n = gid
      · subst h2; simp only [if_true]; exact hs
      · simp only [h2, if_false]
        apply List.pairwise_cons.mpr
        refine ⟨?_, hs⟩
        intro x hx
        rcases List.mem_cons.mp hx with h1 | h1
        · omega
        · have := hs'.1 x h1; omega

/-- the walk of `gids_is_member` decides membership in a sorted list -/
theorem walkMember_spec (gid : Int) (l : List Int) (hs : Sorted l) : walkMember gid l 0 ≠ 0 ↔ gid ∈ l := by
  induction l with
  | nil => simp [walkMember]
  | cons n rest ih =>
    have hs' := List.pairwise_cons.mp hs
    simp only [walkMember, cont_iff]
    by_cases h : n ≤ gid
    · simp only [h, if_true]
      by_cases h2 : n = gid
      · subst h2
        have hb := walk_body_eq n n rfl
        simp [hb.1, hb.2]
      · have hb := walk_body_lt n gid (by omega)
        simp only [hb.1, hb.2, if_false, Option.getD_none]
        rw [ih hs'.2]
        simp [List.mem_cons, Ne.symm h2]
    · simp only [h, if_false]
      constructor
      · intro h0; exact absurd rfl h0
      · intro hm
        rcases List.mem_cons.mp hm with h1 | h1
        · omega
        · have := hs'.1 gid h1; omega

/-- `uid` has `gid` in its node list -/
def Mem (m : GidMap) (u g : Int) : Prop := ∃ l, findHead m u = some l ∧ g ∈ l
def AllSorted (m : GidMap) : Prop := ∀ e ∈ m, Sorted e.2

theorem findHead_nil (u : Int) : findHead [] u = none := rfl

theorem findHead_cons (e : Int × List Int) (r : GidMap) (u : Int) :
    findHead (e :: r) u = if e.1 = u then some e.2 else findHead r u := by
  unfold findHead
  by_cases h : e.1 = u
  · subst h
    have : keyEq e.1 e.1 = true := (keyEq_iff _ _).mpr rfl
    simp [List.find?, this]
  · have : keyEq e.1 u = false := by
      cases hk : keyEq e.1 u
      · rfl
      · exact absurd ((keyEq_iff _ _).mp hk) h
    simp [List.find?, this, h]

theorem findHead_setHead (m : GidMap) (u : Int) (l : List Int) (u' : Int) :
    findHead (setHead m u l) u' = if u' = u then (findHead m u).map (fun _ => l) else findHead m u' := by
  induction m with
  | nil => simp [setHead, findHead_nil]
  | cons e r ih =>
    simp only [setHead, keyEq_iff]
    by_cases h : e.1 = u
    · simp only [h, if_true, findHead_cons]
      by_cases h2 : u' = u
      · simp [h2]
      · have : ¬ u = u' := fun h3 => h2 h3.symm
        simp [h2, this, h]
    · simp only [h, if_false, findHead_cons, ih]
      by_cases h2 : u' = u
      · subst h2; simp [h]
      · by_cases h3 : e.1 = u' <;> simp [h2, h3]

theorem findHead_append (m : GidMap) (u : Int) (l : List Int) (u' : Int) (hn : findHead m u = none) :
    findHead (m ++ [(u, l)]) u' = if u' = u then some l else findHead m u' := by
  induction m with
  | nil =>
    simp only [List.nil_append, findHead_cons, findHead_nil]
    by_cases h : u = u'
    · simp [h]
    · have : ¬ u' = u := fun h3 => h h3.symm
      simp [h, this]
  | cons e r ih =>
    rw [findHead_cons] at hn
    by_cases h : e.1 = u
    · simp [h] at hn
    · simp only [h, if_false] at hn
      simp only [List.cons_append, findHead_cons, ih hn]
      by_cases h2 : e.1 = u'
      · have : ¬ u' = u := fun h3 => h (h2.trans h3)
        simp [h2, this]
      · simp [h2]

theorem allSorted_setHead (m : GidMap) (u : Int) (l : List Int) (hm : AllSorted m) (hl : Sorted l) :
    AllSorted (setHead m u l) := by
  induction m with
  | nil => intro e he; simp [setHead] at he
  | cons e r ih =>
    have hr : AllSorted r := fun x hx => hm x (List.mem_cons_of_mem _ hx)
    simp only [setHead]
    by_cases h : keyEq e.1 u = true
    · simp only [h, if_true]
      intro x hx
      rcases List.mem_cons.mp hx with h1 | h1
      · subst h1; exact hl
      · exact hr x h1
    · simp only [h]
      intro x hx
      rcases List.mem_cons.mp hx with h1 | h1
      · subst h1; exact hm _ (List.mem_cons_self ..)
      · exact ih hr x h1

theorem findHead_sorted (m : GidMap) (u : Int) (l : List Int) (hm : AllSorted m) (h : findHead m u = some l) :
    Sorted l := by
  induction m with
  | nil => simp [findHead_nil] at h
  | cons e r ih =>
    rw [findHead_cons] at h
    by_cases h1 : e.1 = u
    · simp only [h1, if_true, Option.some.injEq] at h
      subst h; exact hm e (List.mem_cons_self ..)
    · simp only [h1, if_false] at h
      exact ih (fun x hx => hm x (List.mem_cons_of_mem _ hx)) h

theorem gidAdd_rc (m : GidMap) (u g : Int) : (gidAdd m u g).1 = 0 ∨ (gidAdd m u g).1 = 1 := by
  unfold gidAdd
  cases findHead m u <;> simp [insertGid_rc]

theorem allSorted_gidAdd (m : GidMap) (u g : Int) (hm : AllSorted m) : AllSorted (gidAdd m u g).2 := by
  unfold gidAdd
  cases h : findHead m u with
  | none =>
    simp only
    intro e he
    rcases List.mem_append.mp he with h1 | h1
    · exact hm e h1
    · simp at h1; subst h1; exact sorted_insertGid g [] (by simp [Sorted])
  | some l =>
    simp only
    exact allSorted_setHead m u _ hm (sorted_insertGid g l (findHead_sorted m u l hm h))

theorem mem_gidAdd (m : GidMap) (u g u' g' : Int) :
    Mem (gidAdd m u g).2 u' g' ↔ Mem m u' g' ∨ (u' = u ∧ g' = g) := by
  unfold gidAdd Mem
  cases h : findHead m u with
  | none =>
    simp only [findHead_append m u _ u' h]
    by_cases h2 : u' = u
    · subst h2
      simp [h, mem_insertGid]
    · simp [h2]
  | some l =>
    simp only [findHead_setHead]
    by_cases h2 : u' = u
    · subst h2
      simp [h, mem_insertGid]
      constructor
      · rintro (h3 | h3) <;> simp [h3]
      · rintro (h3 | h3) <;> simp [h3]
    · simp [h2]

theorem isMember_none (u g : Int) : isMember none u g = false := by
  simp [isMember, member_init_zero]

theorem isMember_some (m : GidMap) (u g : Int) (hm : AllSorted m) : isMember (some m) u g = true ↔ Mem m u g := by
  unfold isMember Mem
  cases h : findHead m u with
  | none => simp [h, member_init_zero]
  | some l =>
    have := walkMember_spec g l (findHead_sorted m u l hm h)
    simp only [member_init_zero, bne_iff_ne, ne_eq] at *
    simp [h, this]

/-! ## C. One build -/

/-- what a user database says about a name: the uid, unless it is the sentinel -/
def resolve (p : String → PwRes) (n : String) : Option Int :=
  match p n with
  | .found u => if u = SENT then none else some u
  | .fail _ => none

theorem resolve_eq_some (p : String → PwRes) (n : String) (u : Int) :
    resolve p n = some u ↔ p n = .found u ∧ u ≠ SENT := by
  unfold resolve
  cases h : p n with
  | found v =>
    by_cases hv : v = SENT
    · simp [hv]; intro h1; exact h1.symm
    · simp [hv]; intro h1; subst h1; exact hv
  | fail e => simp

/-- the map after the member loop of one entry, for a database that always answers alike -/
def addAll (p : String → PwRes) (gid : Int) : List String → GidMap → GidMap
  | [], m => m
  | n :: ns, m =>
    match resolve p n with
    | some u => addAll p gid ns (gidAdd m u gid).2
    | none => addAll p gid ns m

def foldEnts (p : String → PwRes) (m : GidMap) (g : List GrEnt) : GidMap :=
  g.foldl (fun m e => addAll p e.gid e.members m) m

/-- the map one clean scan of `g` builds -/
def buildMap (p : String → PwRes) (g : List GrEnt) : GidMap := foldEnts p [] g

theorem mem_addAll (p : String → PwRes) (gid : Int) (ms : List String) (m : GidMap) (u g : Int) :
    Mem (addAll p gid ms m) u g ↔ Mem m u g ∨ (g = gid ∧ ∃ n ∈ ms, resolve p n = some u) := by
  induction ms generalizing m with
  | nil => simp [addAll]
  | cons n ns ih =>
    simp only [addAll]
    cases h : resolve p n with
    | none =>
      simp only [ih, List.mem_cons]
      constructor
      · rintro (h1 | ⟨h1, n', h2, h3⟩)
        · exact Or.inl h1
        · exact Or.inr ⟨h1, n', Or.inr h2, h3⟩
      · rintro (h1 | ⟨h1, n', h2 | h2, h3⟩)
        · exact Or.inl h1
        · subst h2; rw [h] at h3; exact absurd h3 (by simp)
        · exact Or.inr ⟨h1, n', h2, h3⟩
    | some v =>
      simp only [ih, mem_gidAdd, List.mem_cons]
      constructor
      · rintro ((h1 | ⟨h1, h2⟩) | ⟨h1, n', h2, h3⟩)
        · exact Or.inl h1
        · subst h1; exact Or.inr ⟨h2, n, Or.inl rfl, h⟩
        · exact Or.inr ⟨h1, n', Or.inr h2, h3⟩
      · rintro (h1 | ⟨h1, n', h2 | h2, h3⟩)
        · exact Or.inl (Or.inl h1)
        · subst h2; rw [h] at h3; cases h3; exact Or.inl (Or.inr ⟨rfl, h1⟩)
        · exact Or.inr ⟨h1, n', h2, h3⟩

theorem allSorted_addAll (p : String → PwRes) (gid : Int) (ms : List String) (m : GidMap) (hm : AllSorted m) :
    AllSorted (addAll p gid ms m) := by
  induction ms generalizing m with
  | nil => simpa [addAll] using hm
  | cons n ns ih =>
    simp only [addAll]
    cases resolve p n with
    | none => exact ih m hm
    | some v => exact ih _ (allSorted_gidAdd m v gid hm)

theorem mem_foldEnts (p : String → PwRes) (g : List GrEnt) (m : GidMap) (u gid : Int) :
    Mem (foldEnts p m g) u gid ↔
      Mem m u gid ∨ ∃ e ∈ g, e.gid = gid ∧ ∃ n ∈ e.members, resolve p n = some u := by
  induction g generalizing m with
  | nil => simp [foldEnts]
  | cons e es ih =>
    have : foldEnts p m (e :: es) = foldEnts p (addAll p e.gid e.members m) es := by simp [foldEnts]
    rw [this, ih, mem_addAll]
    constructor
    · rintro ((h1 | ⟨h1, h2⟩) | ⟨e', h1, h2⟩)
      · exact Or.inl h1
      · exact Or.inr ⟨e, List.mem_cons_self .., h1.symm, h2⟩
      · exact Or.inr ⟨e', List.mem_cons_of_mem _ h1, h2⟩
    · rintro (h1 | ⟨e', h1, h2, h3⟩)
      · exact Or.inl (Or.inl h1)
      · rcases List.mem_cons.mp h1 with h4 | h4
        · subst h4; exact Or.inl (Or.inr ⟨h2.symm, h3⟩)
        · exact Or.inr ⟨e', h4, h2, h3⟩

theorem allSorted_foldEnts (p : String → PwRes) (g : List GrEnt) (m : GidMap) (hm : AllSorted m) :
    AllSorted (foldEnts p m g) := by
  induction g generalizing m with
  | nil => simpa [foldEnts] using hm
  | cons e es ih =>
    have : foldEnts p m (e :: es) = foldEnts p (addAll p e.gid e.members m) es := by simp [foldEnts]
    rw [this]; exact ih _ (allSorted_addAll p _ _ m hm)

theorem allSorted_nil : AllSorted [] := by intro e he; simp at he

/-- the cache of a build agrees with database `p`: positive entries carry `p`'s uid, negative ones
    (the sentinel) stand for names `p` does not know -/
def CacheOK (p : String → PwRes) (c : Cache) : Prop :=
  ∀ n u, c.lookup n = some u → p n = .found u ∨ (u = SENT ∧ p n = .fail ENOENT)

theorem cacheOK_nil (p : String → PwRes) : CacheOK p [] := by intro n u h; simp at h

theorem lookup_uidAdd (c : Cache) (n : String) (u : Int) (n' : String) (v : Int)
    (h : (uidAdd c n u).lookup n' = some v) : c.lookup n' = some v ∨ (n' = n ∧ v = u) := by
  unfold uidAdd at h
  by_cases he : n = ""
  · simp [he] at h; exact Or.inl h
  · simp only [he, if_false] at h
    rw [List.lookup_append] at h
    cases hc : c.lookup n' with
    | some w => simp [hc] at h; exact Or.inl (by rw [h])
    | none =>
      simp [hc, List.lookup] at h
      by_cases hn : n' = n
      · subst hn; simp at h; exact Or.inr ⟨rfl, h.symm⟩
      · have : (n' == n) = false := by simp [hn]
        simp [this] at h

theorem cacheOK_uidAdd_found (p : String → PwRes) (c : Cache) (n : String) (u : Int)
    (hc : CacheOK p c) (hp : p n = .found u) : CacheOK p (uidAdd c n u) := by
  intro n' v h
  rcases lookup_uidAdd c n u n' v h with h1 | ⟨h1, h2⟩
  · exact hc n' v h1
  · subst h1; subst h2; exact Or.inl hp

theorem cacheOK_uidAdd_neg (p : String → PwRes) (c : Cache) (n : String)
    (hc : CacheOK p c) (hp : p n = .fail ENOENT) : CacheOK p (uidAdd c n SENT) := by
  intro n' v h
  rcases lookup_uidAdd c n SENT n' v h with h1 | ⟨h1, h2⟩
  · exact hc n' v h1
  · subst h1; subst h2; exact Or.inr ⟨rfl, hp⟩

/-- with a database that always answers alike, the cache is invisible: the lookup returns `resolve p` -/
theorem userToUid_const (p : String → PwRes) (c : Cache) (n : String) (hc : CacheOK p c) :
    ∃ c', userToUid (constOracle p) () c n = ((), c', resolve p n) ∧ CacheOK p c' := by
  cases hl : c.lookup n with
  | some u =>
    refine ⟨c, ?_, hc⟩
    rw [userToUid_hit _ _ _ _ u hl]
    rcases hc n u hl with h1 | ⟨h1, h2⟩
    · simp [resolve, h1]
    · subst h1; simp [resolve, h2]
  | none =>
    rw [userToUid_miss _ _ _ _ hl]
    simp only [constOracle]
    cases hp : p n with
    | found u =>
      refine ⟨uidAdd c n u, ?_, cacheOK_uidAdd_found p c n u hc hp⟩
      simp [resolve, hp]
    | fail e =>
      by_cases he : e = ENOENT
      · subst he
        refine ⟨uidAdd c n SENT, ?_, cacheOK_uidAdd_neg p c n hc hp⟩
        simp [resolve, hp]
      · refine ⟨c, ?_, hc⟩
        simp [resolve, hp, he]

theorem addMembers_const (p : String → PwRes) (st : BSt Unit) (gid : Int) (ms : List String)
    (hc : CacheOK p st.cache) :
    ∃ c', addMembers (constOracle p) st gid ms =
        some { pw := (), cache := c', map := addAll p gid ms st.map, inits := st.inits } ∧ CacheOK p c' := by
  induction ms generalizing st with
  | nil => exact ⟨st.cache, by simp [addMembers, addAll], hc⟩
  | cons n ns ih =>
    obtain ⟨c1, h1, hc1⟩ := userToUid_const p st.cache n hc
    simp only [addMembers, addMember_eq, h1, addAll]
    cases hr : resolve p n with
    | none =>
      simp only
      obtain ⟨c2, h2, hc2⟩ := ih { st with pw := (), cache := c1 } hc1
      exact ⟨c2, by simpa using h2, hc2⟩
    | some u =>
      have hrc : ¬ (gidAdd st.map u gid).1 < 0 := by
        rcases gidAdd_rc st.map u gid with h | h <;> omega
      simp only [hrc, if_false]
      obtain ⟨c2, h2, hc2⟩ := ih { pw := (), cache := c1, map := (gidAdd st.map u gid).2, inits := st.inits } hc1
      exact ⟨c2, by simpa using h2, hc2⟩

theorem scanLoop_nil (O : PwOracle σ) (st : BSt σ) : scanLoop O st [] = (some st.map, st.pw) := by
  simp [scanLoop, scanItem_fail]

/-- a clean scan of `g` (entries only, then ENOENT) against a database that always answers alike -/
theorem scanLoop_const_ents (p : String → PwRes) (g : List GrEnt) (st : BSt Unit) (hc : CacheOK p st.cache) :
    scanLoop (constOracle p) st (entItems g) = (some (foldEnts p st.map g), ()) := by
  induction g generalizing st with
  | nil => simp [entItems, scanLoop_nil, foldEnts]
  | cons e es ih =>
    obtain ⟨c', h1, hc'⟩ := addMembers_const p st e.gid e.members hc
    have : entItems (e :: es) = .ent e.gid e.members :: entItems es := by simp [entItems]
    rw [this]
    simp only [scanLoop, scanItem_ent, h1]
    rw [ih _ hc']
    simp [foldEnts]

theorem build_eq (g : List GrEnt) (p : String → PwRes) : build g p = some (buildMap p g) := by
  unfold build mapCreate
  rw [initBSt_eq, scanLoop_const_ents p g _ (cacheOK_nil p)]
  rfl

theorem allSorted_buildMap (p : String → PwRes) (g : List GrEnt) : AllSorted (buildMap p g) :=
  allSorted_foldEnts p g [] allSorted_nil

theorem mem_nil (u g : Int) : ¬ Mem [] u g := by
  rintro ⟨l, h, _⟩; simp [findHead_nil] at h

theorem mem_buildMap (p : String → PwRes) (g : List GrEnt) (u gid : Int) :
    Mem (buildMap p g) u gid ↔ ∃ e ∈ g, e.gid = gid ∧ ∃ n ∈ e.members, p n = .found u ∧ u ≠ SENT := by
  unfold buildMap
  rw [mem_foldEnts]
  simp only [resolve_eq_some]
  constructor
  · rintro (h | h)
    · exact absurd h (mem_nil u gid)
    · exact h
  · intro h; exact Or.inr h

/-! ### any oracle: soundness (lookup errors fail closed) -/

/-- every answer of the oracle is what database `p` says, or a lookup error (any errno but ENOENT) -/
def Cons (O : PwOracle σ) (p : String → PwRes) : Prop :=
  ∀ s n, (O.ask s n).1 = p n ∨ ∃ e, (O.ask s n).1 = .fail e ∧ e ≠ ENOENT

theorem userToUid_sound (O : PwOracle σ) (p : String → PwRes) (hO : Cons O p) (s : σ) (c : Cache) (n : String)
    (hc : CacheOK p c) :
    CacheOK p (userToUid O s c n).2.1 ∧ ∀ u, (userToUid O s c n).2.2 = some u → resolve p n = some u := by
  cases hl : c.lookup n with
  | some v =>
    rw [userToUid_hit _ _ _ _ v hl]
    refine ⟨hc, ?_⟩
    intro u hu
    by_cases hv : v = SENT
    · simp [hv] at hu
    · simp only [hv, if_false, Option.some.injEq] at hu
      subst hu
      rcases hc n v hl with h1 | ⟨h1, _⟩
      · exact (resolve_eq_some p n v).mpr ⟨h1, hv⟩
      · exact absurd h1 hv
  | none =>
    rw [userToUid_miss _ _ _ _ hl]
    rcases hq : O.ask s n with ⟨r, s'⟩
    have hcons := hO s n
    rw [hq] at hcons
    cases r with
    | found v =>
      have hp : p n = .found v := by
        rcases hcons with h | ⟨e, h, _⟩
        · exact h.symm
        · cases h
      refine ⟨cacheOK_uidAdd_found p c n v hc hp, ?_⟩
      intro u hu
      by_cases hv : v = SENT
      · simp [hv] at hu
      · simp only [hv, if_false, Option.some.injEq] at hu
        subst hu
        exact (resolve_eq_some p n v).mpr ⟨hp, hv⟩
    | fail e =>
      by_cases he : e = ENOENT
      · subst he
        have hp : p n = .fail ENOENT := by
          rcases hcons with h | ⟨e, h, hne⟩
          · exact h.symm
          · cases h; exact absurd rfl hne
        simp only [if_true]
        exact ⟨cacheOK_uidAdd_neg p c n hc hp, by intro u hu; simp at hu⟩
      · simp only [he, if_false]
        exact ⟨hc, by intro u hu; simp at hu⟩

theorem addMembers_sound (O : PwOracle σ) (p : String → PwRes) (hO : Cons O p) (gid : Int) (ms : List String)
    (st st' : BSt σ) (hc : CacheOK p st.cache) (hm : AllSorted st.map) (h : addMembers O st gid ms = some st') :
    CacheOK p st'.cache ∧ AllSorted st'.map ∧ st'.inits = st.inits ∧
      ∀ u g, Mem st'.map u g → Mem st.map u g ∨ (g = gid ∧ ∃ n ∈ ms, resolve p n = some u) := by
  induction ms generalizing st with
  | nil =>
    simp only [addMembers, Option.some.injEq] at h
    subst h
    exact ⟨hc, hm, rfl, fun u g hmem => Or.inl hmem⟩
  | cons n ns ih =>
    simp only [addMembers, addMember_eq] at h
    have hs := userToUid_sound O p hO st.pw st.cache n hc
    rcases hu : userToUid O st.pw st.cache n with ⟨s1, c1, r⟩
    rw [hu] at hs h
    cases r with
    | none =>
      simp only at h
      obtain ⟨h1, h2, h3, h4⟩ := ih { st with pw := s1, cache := c1 } hs.1 hm h
      refine ⟨h1, h2, h3, ?_⟩
      intro u g hmem
      rcases h4 u g hmem with h5 | ⟨h5, n', h6, h7⟩
      · exact Or.inl h5
      · exact Or.inr ⟨h5, n', List.mem_cons_of_mem _ h6, h7⟩
    | some uid =>
      have hrc : ¬ (gidAdd st.map uid gid).1 < 0 := by
        rcases gidAdd_rc st.map uid gid with h | h <;> omega
      simp only [hrc, if_false] at h
      obtain ⟨h1, h2, h3, h4⟩ :=
        ih { pw := s1, cache := c1, map := (gidAdd st.map uid gid).2, inits := st.inits } hs.1
          (allSorted_gidAdd st.map uid gid hm) h
      refine ⟨h1, h2, h3, ?_⟩
      intro u g hmem
      rcases h4 u g hmem with h5 | ⟨h5, n', h6, h7⟩
      · rcases (mem_gidAdd st.map uid gid u g).mp h5 with h8 | ⟨h8, h9⟩
        · exact Or.inl h8
        · subst h8
          exact Or.inr ⟨h9, n, List.mem_cons_self .., hs.2 u rfl⟩
      · exact Or.inr ⟨h5, n', List.mem_cons_of_mem _ h6, h7⟩

/-- the member loop never aborts the build (only a failed allocation could) -/
theorem addMembers_isSome (O : PwOracle σ) (st : BSt σ) (gid : Int) (ms : List String) :
    ∃ st', addMembers O st gid ms = some st' := by
  induction ms generalizing st with
  | nil => exact ⟨st, rfl⟩
  | cons n ns ih =>
    simp only [addMembers, addMember_eq]
    rcases userToUid O st.pw st.cache n with ⟨s1, c1, r⟩
    cases r with
    | none => exact ih _
    | some uid =>
      have hrc : ¬ (gidAdd st.map uid gid).1 < 0 := by
        rcases gidAdd_rc st.map uid gid with h | h <;> omega
      simp only [hrc, if_false]
      exact ih _

/-- `uid` is listed under `gid` by some entry among `items`, according to database `p` -/
def SpecItems (p : String → PwRes) (items : List GrItem) (u g : Int) : Prop :=
  ∃ gid ms, GrItem.ent gid ms ∈ items ∧ gid = g ∧ ∃ n ∈ ms, resolve p n = some u

theorem scanBegin_fields (st : BSt σ) :
    (scanBegin st).map = st.map ∧ (scanBegin st).cache = st.cache ∧ (scanBegin st).pw = st.pw := by
  simp [scanBegin]

theorem scanLoop_sound (O : PwOracle σ) (p : String → PwRes) (hO : Cons O p) (all items : List GrItem)
    (hsub : ∀ it ∈ items, it ∈ all) (st : BSt σ) (hc : CacheOK p st.cache) (hm : AllSorted st.map)
    (hinv : ∀ u g, Mem st.map u g → SpecItems p all u g) (m : GidMap) (s' : σ)
    (h : scanLoop O st items = (some m, s')) :
    AllSorted m ∧ ∀ u g, Mem m u g → SpecItems p all u g := by
  induction items generalizing st with
  | nil =>
    rw [scanLoop_nil] at h
    simp only [Prod.mk.injEq, Option.some.injEq] at h
    rw [← h.1]; exact ⟨hm, hinv⟩
  | cons it rest ih =>
    have hsub' : ∀ it' ∈ rest, it' ∈ all := fun x hx => hsub x (List.mem_cons_of_mem _ hx)
    cases it with
    | ent gid ms =>
      simp only [scanLoop, scanItem_ent] at h
      obtain ⟨st1, h1⟩ := addMembers_isSome O st gid ms
      rw [h1] at h
      simp only at h
      obtain ⟨a1, a2, a3, a4⟩ := addMembers_sound O p hO gid ms st st1 hc hm h1
      refine ih hsub' st1 a1 a2 ?_ h
      intro u g hmem
      rcases a4 u g hmem with h5 | ⟨h5, h6⟩
      · exact hinv u g h5
      · exact ⟨gid, ms, hsub _ (List.mem_cons_self ..), h5.symm, h6⟩
    | fail e =>
      simp only [scanLoop, scanItem_fail] at h
      by_cases h1 : e = ENOENT
      · simp only [h1, if_true, Prod.mk.injEq, Option.some.injEq] at h
        rw [← h.1]; exact ⟨hm, hinv⟩
      · by_cases h2 : e = EINTR
        · simp only [h1, h2, if_true, if_false] at h
          exact ih hsub' st hc hm hinv h
        · by_cases h3 : e = ERANGE ∧ st.inits < max_inits
          · simp only [h1, h2, h3, if_true, if_false, and_self] at h
            have hf := scanBegin_fields { st with map := [] }
            refine ih hsub' _ (by rw [hf.2.1]; exact hc) (by rw [hf.1]; exact allSorted_nil) ?_ h
            intro u g hmem
            rw [hf.1] at hmem
            exact absurd hmem (mem_nil u g)
          · simp only [h1, h2, h3, if_false] at h
            simp at h

theorem specItems_ents (p : String → PwRes) (g : List GrEnt) (u gid : Int) (h : SpecItems p (entItems g) u gid) :
    ∃ e ∈ g, e.gid = gid ∧ ∃ n ∈ e.members, p n = .found u ∧ u ≠ SENT := by
  obtain ⟨gid', ms, h1, h2, n, h3, h4⟩ := h
  unfold entItems at h1
  obtain ⟨e, he, heq⟩ := List.mem_map.mp h1
  cases heq
  exact ⟨e, he, h2, n, h3, (resolve_eq_some p n u).mp h4⟩

theorem scanLoop_ents_isSome (O : PwOracle σ) (g : List GrEnt) (st : BSt σ) :
    ∃ m, (scanLoop O st (entItems g)).1 = some m := by
  induction g generalizing st with
  | nil => exact ⟨st.map, by simp [entItems, scanLoop_nil]⟩
  | cons e es ih =>
    have : entItems (e :: es) = .ent e.gid e.members :: entItems es := by simp [entItems]
    rw [this]
    obtain ⟨st1, h1⟩ := addMembers_isSome O st e.gid e.members
    simp only [scanLoop, scanItem_ent, h1]
    exact ih st1

/-! ### restarts -/

/-- items that neither end nor restart the scan: entries and EINTR -/
def Benign (l : List GrItem) : Prop := ∀ it ∈ l, (∃ gid ms, it = GrItem.ent gid ms) ∨ it = GrItem.fail EINTR

/-- the entries among the `xgetgrent` results -/
def entsOf : List GrItem → List GrEnt
  | [] => []
  | .ent gid ms :: r => ⟨gid, ms⟩ :: entsOf r
  | .fail _ :: r => entsOf r

/-- the `xgetgrent` results of scans that each end in ERANGE -/
def restartPrefix (pre : List (List GrItem)) : List GrItem :=
  (pre.map (· ++ [GrItem.fail ERANGE])).flatten

theorem scan_benign (p : String → PwRes) (b rest : List GrItem) (st : BSt Unit) (hb : Benign b)
    (hc : CacheOK p st.cache) :
    ∃ c', scanLoop (constOracle p) st (b ++ rest) =
        scanLoop (constOracle p) { pw := (), cache := c', map := foldEnts p st.map (entsOf b), inits := st.inits } rest ∧
      CacheOK p c' := by
  induction b generalizing st with
  | nil => exact ⟨st.cache, by simp [entsOf, foldEnts], hc⟩
  | cons it b' ih =>
    have hb' : Benign b' := fun x hx => hb x (List.mem_cons_of_mem _ hx)
    rcases hb it (List.mem_cons_self ..) with ⟨gid, ms, h⟩ | h
    · subst h
      obtain ⟨c1, h1, hc1⟩ := addMembers_const p st gid ms hc
      obtain ⟨c2, h2, hc2⟩ := ih { pw := (), cache := c1, map := addAll p gid ms st.map, inits := st.inits } hb' hc1
      refine ⟨c2, ?_, hc2⟩
      simp only [List.cons_append, scanLoop, scanItem_ent, h1]
      rw [h2]
      simp [entsOf, foldEnts]
    · subst h
      obtain ⟨c2, h2, hc2⟩ := ih st hb' hc
      refine ⟨c2, ?_, hc2⟩
      have e1 : ¬ (EINTR = ENOENT) := by decide
      simp only [List.cons_append, scanLoop, scanItem_fail, e1, if_false, if_true]
      rw [h2]
      simp [entsOf]

theorem scan_restart (O : PwOracle σ) (st : BSt σ) (rest : List GrItem) (h1 : 1 ≤ st.inits) (h2 : st.inits < 16) :
    scanLoop O st (.fail ERANGE :: rest) = scanLoop O { st with map := [], inits := st.inits + 1 } rest := by
  have e1 : ¬ (ERANGE = ENOENT) := by decide
  have e2 : ¬ (ERANGE = EINTR) := by decide
  have e3 : st.inits < max_inits := by rw [max_inits_val]; exact h2
  simp only [scanLoop, scanItem_fail, e1, e2, e3, if_false, if_true, and_self]
  rw [scanBegin_eq _ (by constructor <;> simp <;> omega)]

theorem restartPrefix_cons (b : List GrItem) (pre : List (List GrItem)) (fin : List GrItem) :
    restartPrefix (b :: pre) ++ fin = b ++ (GrItem.fail ERANGE :: (restartPrefix pre ++ fin)) := by
  simp [restartPrefix]

theorem restart_lemma (p : String → PwRes) (pre : List (List GrItem)) (fin : List GrItem) (st : BSt Unit)
    (hpre : ∀ b ∈ pre, Benign b) (hfin : Benign fin) (hc : CacheOK p st.cache)
    (hi : 1 ≤ st.inits) (hlen : st.inits + pre.length ≤ 16) (hmap : pre = [] → st.map = []) :
    (scanLoop (constOracle p) st (restartPrefix pre ++ fin)).1 = some (buildMap p (entsOf fin)) := by
  induction pre generalizing st with
  | nil =>
    obtain ⟨c', h, _⟩ := scan_benign p fin [] st hfin hc
    simp only [restartPrefix, List.map_nil, List.flatten_nil, List.nil_append]
    rw [List.append_nil] at h
    rw [h, scanLoop_nil, hmap rfl]
    rfl
  | cons b pre' ih =>
    have hb : Benign b := hpre b (List.mem_cons_self ..)
    have hpre' : ∀ b ∈ pre', Benign b := fun x hx => hpre x (List.mem_cons_of_mem _ hx)
    rw [restartPrefix_cons]
    obtain ⟨c', h, hc'⟩ := scan_benign p b (GrItem.fail ERANGE :: (restartPrefix pre' ++ fin)) st hb hc
    rw [h]
    simp only [List.length_cons] at hlen
    rw [scan_restart _ _ _ (by simpa using hi) (by simp; omega)]
    exact ih _ hpre' hc' (by simp; omega) (by simp; omega) (fun _ => rfl)

theorem restart_giveup_lemma (p : String → PwRes) (pre : List (List GrItem)) (rest : List GrItem) (st : BSt Unit)
    (hpre : ∀ b ∈ pre, Benign b) (hc : CacheOK p st.cache)
    (hi : 1 ≤ st.inits) (hle : st.inits ≤ 16) (hlen : st.inits + pre.length ≥ 17) :
    (scanLoop (constOracle p) st (restartPrefix pre ++ rest)).1 = none := by
  induction pre generalizing st with
  | nil => simp at hlen; omega
  | cons b pre' ih =>
    have hb : Benign b := hpre b (List.mem_cons_self ..)
    have hpre' : ∀ b ∈ pre', Benign b := fun x hx => hpre x (List.mem_cons_of_mem _ hx)
    rw [restartPrefix_cons]
    obtain ⟨c', h, hc'⟩ := scan_benign p b (GrItem.fail ERANGE :: (restartPrefix pre' ++ rest)) st hb hc
    rw [h]
    simp only [List.length_cons] at hlen
    by_cases h16 : st.inits < 16
    · rw [scan_restart _ _ _ (by simpa using hi) (by simpa using h16)]
      exact ih _ hpre' hc' (by simp; omega) (by simp; omega) (by simp; omega)
    · have e1 : ¬ (ERANGE = ENOENT) := by decide
      have e2 : ¬ (ERANGE = EINTR) := by decide
      have e3 : ¬ (st.inits < max_inits) := by rw [max_inits_val]; exact h16
      simp [scanLoop, scanItem_fail, e1, e2, e3]

/-! ## D. The refresh thread interleaved with lookups and SIGHUPs -/

/-- the private state of the refresh thread is on its way to the result of one whole `_gids_map_create` -/
def PhaseOK (O : PwOracle σ) : Phase σ → Prop
  | .idle => True
  | .sec1 _ _ => True
  | .building _ _ _ st todo => ∃ pw items, (scanLoop O st todo).1 = (mapCreate O pw items).1
  | .built _ _ _ res => res = none ∨ ∃ pw items, (mapCreate O pw items).1 = res

/-- is this step the second locked section of `_gids_map_update` (the swap)? -/
def isCommit (s : Sys σ) : Act σ → Bool
  | .upd => match s.phase with
    | .built .. => true
    | _ => false
  | _ => false

theorem step_phaseOK (O : PwOracle σ) (s : Sys σ) (a : Act σ) (h : PhaseOK O s.phase) :
    PhaseOK O (sysStep O s a).1.phase := by
  cases a with
  | lookup u g => simpa [sysStep] using h
  | hup => simpa [sysStep] using h
  | setEnv env db pw =>
    simp only [sysStep]
    cases hp : s.phase <;> simp [hp] <;> rw [hp] at h <;> exact h
  | upd =>
    simp only [sysStep]
    cases hp : s.phase with
    | idle => simp [PhaseOK]
    | sec1 d t =>
      simp only
      by_cases hw : wantsBuild d t s.sh s.env = true
      · simp only [hw, if_true, PhaseOK]
        exact ⟨s.pw, s.db, rfl⟩
      · simp [hw, PhaseOK]
    | building d t env st todo =>
      rw [hp] at h
      obtain ⟨pw, items, hb⟩ := h
      cases todo with
      | nil =>
        simp only
        cases hsi : scanItem O st (.fail ENOENT) with
        | done r p0 =>
          simp only [PhaseOK]
          by_cases hr : r = none
          · exact Or.inl hr
          · right; refine ⟨pw, items, ?_⟩
            rw [← hb]; simp [scanLoop, hsi]
        | cont st' b => simp [PhaseOK]
      | cons it rest =>
        simp only
        cases hsi : scanItem O st it with
        | done r p0 =>
          simp only [PhaseOK]
          right; refine ⟨pw, items, ?_⟩
          rw [← hb]; simp [scanLoop, hsi]
        | cont st' b =>
          simp only [PhaseOK]
          refine ⟨pw, items, ?_⟩
          rw [← hb]; simp [scanLoop, hsi]
    | built d t env res => simp [PhaseOK]

/-- a step that is not the swap changes neither the installed map nor the epoch -/
theorem step_noncommit (O : PwOracle σ) (s : Sys σ) (a : Act σ) (h : isCommit s a = false) :
    (sysStep O s a).1.sh.installed = s.sh.installed ∧ (sysStep O s a).1.commits = s.commits := by
  cases a with
  | lookup u g => simp [sysStep]
  | hup => simp [sysStep, (hup_spec s.sh s.timerSeq).2.1]
  | setEnv env db pw =>
    simp only [sysStep]
    cases hp : s.phase <;> simp
  | upd =>
    simp only [sysStep]
    cases hp : s.phase with
    | idle => simp
    | sec1 d t => by_cases hw : wantsBuild d t s.sh s.env = true <;> simp [hw]
    | building d t env st todo =>
      cases todo with
      | nil => cases hsi : scanItem O st (.fail ENOENT) <;> simp [hsi]
      | cons it rest => cases hsi : scanItem O st it <;> simp [hsi]
    | built d t env res => simp [isCommit, hp] at h

/-- the swap installs the complete result of one `_gids_map_create`, or leaves the installed map alone -/
theorem step_commit (O : PwOracle σ) (s : Sys σ) (a : Act σ) (h : isCommit s a = true) (hok : PhaseOK O s.phase) :
    (sysStep O s a).1.commits = s.commits + 1 ∧
      ((sysStep O s a).1.sh.installed = s.sh.installed ∨
        ∃ pw items, (mapCreate O pw items).1 = (sysStep O s a).1.sh.installed ∧
          (sysStep O s a).1.sh.installed.isSome = true) := by
  cases a with
  | lookup u g => simp [isCommit] at h
  | hup => simp [isCommit] at h
  | setEnv env db pw => simp [isCommit] at h
  | upd =>
    cases hp : s.phase with
    | idle => simp [isCommit, hp] at h
    | sec1 d t => simp [isCommit, hp] at h
    | building d t env st todo => simp [isCommit, hp] at h
    | built d t env res =>
      rw [hp] at hok
      simp only [sysStep, hp, true_and]
      rcases commit_installed d t s.sh env res s.timerSeq with h1 | ⟨h1, h2⟩
      · exact Or.inl h1
      · right
        rcases hok with h3 | ⟨pw, items, h3⟩
        · rw [h3] at h2; simp at h2
        · exact ⟨pw, items, by rw [h1]; exact h3, by rw [h1]; exact h2⟩

theorem step_upd_out (O : PwOracle σ) (s : Sys σ) : (sysStep O s .upd).2 = none := by
  simp only [sysStep]
  cases hp : s.phase with
  | idle => simp
  | sec1 d t => by_cases hw : wantsBuild d t s.sh s.env = true <;> simp [hw]
  | building d t env st todo =>
    cases todo with
    | nil => cases hsi : scanItem O st (.fail ENOENT) <;> simp [hsi]
    | cons it rest => cases hsi : scanItem O st it <;> simp [hsi]
  | built d t env res => simp

theorem run_lookup (O : PwOracle σ) (s : Sys σ) (u g : Int) (rest : List (Act σ)) :
    run O s (.lookup u g :: rest) =
      ((run O s rest).1, ⟨u, g, isMember s.sh.installed u g, s.commits⟩ :: (run O s rest).2) := by
  simp [run, sysStep]

theorem run_other (O : PwOracle σ) (s : Sys σ) (a : Act σ) (rest : List (Act σ)) (h : ∀ u g, a ≠ .lookup u g) :
    run O s (a :: rest) = run O (sysStep O s a).1 rest := by
  cases a with
  | lookup u g => exact absurd rfl (h u g)
  | hup => simp [run, sysStep]
  | setEnv env db pw => simp only [run]
  | upd => simp only [run]

/-- in every interleaving, all lookups of one epoch (between two swaps) are answered from one and the same whole map,
    and the map of the next epoch is the previous one or the complete result of one `_gids_map_create` -/
theorem run_whole (O : PwOracle σ) (acts : List (Act σ)) (s : Sys σ) (hok : PhaseOK O s.phase) :
    ∃ Ms : Nat → Option GidMap,
      Ms s.commits = s.sh.installed ∧
      (∀ r ∈ (run O s acts).2, s.commits ≤ r.epoch ∧ r.ans = isMember (Ms r.epoch) r.uid r.gid) ∧
      (∀ k, s.commits ≤ k → Ms (k + 1) = Ms k ∨
        ∃ pw items, (mapCreate O pw items).1 = Ms (k + 1) ∧ (Ms (k + 1)).isSome = true) := by
  induction acts generalizing s with
  | nil =>
    refine ⟨fun _ => s.sh.installed, rfl, ?_, fun k _ => Or.inl rfl⟩
    intro r hr; simp [run] at hr
  | cons a rest ih =>
    have hok' := step_phaseOK O s a hok
    obtain ⟨Ms', m1, m2, m3⟩ := ih (sysStep O s a).1 hok'
    by_cases hcm : isCommit s a = true
    · -- the swap
      obtain ⟨c1, c2⟩ := step_commit O s a hcm hok
      have hnl : ∀ u g, a ≠ .lookup u g := by
        intro u g h; subst h; simp [isCommit] at hcm
      rw [run_other O s a rest hnl]
      refine ⟨fun k => if k ≤ s.commits then s.sh.installed else Ms' k, by simp, ?_, ?_⟩
      · intro r hr
        obtain ⟨r1, r2⟩ := m2 r hr
        rw [c1] at r1
        have : ¬ r.epoch ≤ s.commits := by omega
        exact ⟨by omega, by simp only [this, if_false]; exact r2⟩
      · intro k hk
        by_cases hk2 : k = s.commits
        · subst hk2
          have e1 : ¬ (s.commits + 1 ≤ s.commits) := by omega
          simp only [e1, if_false, Nat.le_refl, if_true]
          rw [← c1, m1]
          rcases c2 with h | h
          · exact Or.inl h
          · exact Or.inr h
        · have e1 : ¬ (k + 1 ≤ s.commits) := by omega
          have e2 : ¬ (k ≤ s.commits) := by omega
          simp only [e1, e2, if_false]
          exact m3 k (by rw [c1]; omega)
    · -- any other step
      have hcm' : isCommit s a = false := by simpa using hcm
      obtain ⟨n1, n2⟩ := step_noncommit O s a hcm'
      refine ⟨Ms', by rw [← n2, m1, n1], ?_, fun k hk => m3 k (by rw [n2]; exact hk)⟩
      intro r hr
      cases a with
      | lookup u g =>
        rw [run_lookup] at hr
        rcases List.mem_cons.mp hr with h | h
        · subst h
          refine ⟨Nat.le_refl _, ?_⟩
          have : Ms' s.commits = s.sh.installed := by
            have := m1; simp [sysStep] at this; exact this
          simp [this]
        · have := m2 r (by simpa [sysStep] using h)
          simpa [sysStep] using this
      | hup =>
        rw [run_other O s _ rest (by intro u g h; cases h)] at hr
        have := m2 r hr; rw [n2] at this; exact this
      | setEnv env db pw =>
        rw [run_other O s _ rest (by intro u g h; cases h)] at hr
        have := m2 r hr; rw [n2] at this; exact this
      | upd =>
        rw [run_other O s _ rest (by intro u g h; cases h)] at hr
        have := m2 r hr; rw [n2] at this; exact this

end Munge.Gids
