import Munge.Model.Wire
import Munge.Gen.Wire
import Munge.Model.Cred
import Munge.Lemmas.Wire
import Munge.Lemmas.CredA
import Munge.Lemmas.CredC
/-
Helper definitions and lemmas tying the two hand-written models of the client–daemon wire format:
`Munge.Wire` (generic interpreters over the descriptor lists generated from `m_msg.c`) and the
request path of `Munge.Cred` (`recvMsg`, `hdrBytes`, `errWire`, `encRsp`, `decRsp`).
The property theorems are in `Munge/Props/WireCred.lean`.
-/
namespace Munge.WireCred
open Munge.Wire Munge.Gen.Wire Munge.C

abbrev Bytes := List UInt8

/-! ### the correspondence between the two message objects -/

/-- `malloc` never fails (the credential model has no allocation failures) -/
def mallocOk : Nat → Bool := fun _ => true

/-- the credential model's view of a received `struct m_msg` (a request carries no error text:
    `error_str` is NULL, see `recvMsg_enc_is_wire` / `recvMsg_dec_is_wire`) -/
def reqOf (w : Wire.Msg) : Cred.Msg :=
  { type := w.int "type", retry := w.int "retry", cipher := w.int "cipher", mac := w.int "mac",
    zip := w.int "zip", realmLen := w.int "realm_len", realm := w.bytesOf "realm_str" .heap,
    ttl := w.int "ttl", addrLen := w.int "addr_len", addr := w.fix "addr",
    time0 := w.int "time0", time1 := w.int "time1",
    clientUid := w.int "client_uid", clientGid := w.int "client_gid",
    credUid := w.int "cred_uid", credGid := w.int "cred_gid",
    authUid := w.int "auth_uid", authGid := w.int "auth_gid",
    dataLen := w.int "data_len", data := w.bytesOf "data" .heap,
    errorNum := w.int "error_num", errorStr := "" }

/-- `error_len` as `m_msg_set_err` leaves it: `strlen + 1` in a `uint8_t`; 0 without an error -/
def errLen (m : Cred.Msg) : Nat :=
  if m.errorNum = 0 then 0 else ((Cred.strBytes m.errorStr).length + 1) % 256

/-- the `struct m_msg` a credential-model message stands for (`sd`, `pkt_len`, `pkt`, the `auth_*`
    members play no part in a reply and are 0 / NULL) -/
def wireOf (m : Cred.Msg) : Wire.Msg :=
  { int := fun k =>
      if k = "type" then m.type else if k = "retry" then m.retry
      else if k = "cipher" then m.cipher else if k = "mac" then m.mac else if k = "zip" then m.zip
      else if k = "realm_len" then m.realmLen else if k = "ttl" then m.ttl
      else if k = "addr_len" then m.addrLen
      else if k = "time0" then m.time0 else if k = "time1" then m.time1
      else if k = "client_uid" then m.clientUid else if k = "client_gid" then m.clientGid
      else if k = "cred_uid" then m.credUid else if k = "cred_gid" then m.credGid
      else if k = "auth_uid" then m.authUid else if k = "auth_gid" then m.authGid
      else if k = "data_len" then m.dataLen
      else if k = "error_num" then m.errorNum else if k = "error_len" then errLen m
      else 0
    buf := fun k =>
      if k = "realm_str" then some m.realm else if k = "data" then some m.data
      else if k = "error_str" then (if m.errorNum = 0 then none else some (Cred.strBytes m.errorStr ++ [0]))
      else none
    fix := fun k => if k = "addr" then m.addr else [] }

/-! ### integers on the wire -/

theorem beVal4 (a b c d : UInt8) : beVal [a, b, c, d] = Cred.rd32 [a, b, c, d] := by
  simp only [beVal, List.foldl, Cred.rd32]
  omega

theorem beVal_eq_rd32 (b : Bytes) (h : b.length = 4) : beVal b = Cred.rd32 b := by
  match b, h with
  | [a, b, c, d], _ => exact beVal4 a b c d

theorem beVal1 (a : UInt8) : beVal [a] = a.toNat := by
  simp [beVal]

theorem rd32_lt (b : Bytes) : Cred.rd32 b < 4294967296 := by
  unfold Cred.rd32
  split
  · rename_i a b c d
    have := a.toNat_lt; have := b.toNat_lt; have := c.toNat_lt; have := d.toNat_lt
    omega
  · omega

theorem beBytes1 (n : Nat) : beBytes 1 n = [UInt8.ofNat n] := by
  simp only [beBytes, List.nil_append, List.cons.injEq, and_true]
  apply UInt8.toNat_inj.mp
  simp

theorem beBytes4 (n : Nat) : beBytes 4 n = Cred.be32 n := by
  simp only [beBytes, List.nil_append, List.cons_append, Cred.be32, List.cons.injEq, and_true]
  have h1 : n / 256 / 256 / 256 % 256 = n / 16777216 % 256 := by omega
  have h2 : n / 256 / 256 % 256 = n / 65536 % 256 := by omega
  rw [h1, h2]
  exact ⟨rfl, rfl⟩

/-! ### generic facts about unpack chains -/

theorem urun_append (mok : Nat → Bool) (src : Bytes) (srclen : Int) (a b : List Fld) (st : USt) :
    urun mok src srclen (a ++ b) st =
      match urun mok src srclen a st with
      | (.ok, st') => urun mok src srclen b st'
      | r => r := by
  induction a generalizing st with
  | nil => simp [urun]
  | cons f fs ih =>
    simp only [List.cons_append, urun]
    cases h : ustep mok src srclen st f with
    | mk rc st1 => cases rc <;> simp [ih]

/-- the message after a run of `_unpack`s of the integer fields `fs` starting at offset `p` -/
def readInts (src : Bytes) : List (String × Nat) → Wire.Msg → Nat → Wire.Msg
  | [], m, _ => m
  | (f, w) :: fs, m, p => readInts src fs (m.setInt f (beVal ((src.drop p).take w))) (p + w)

def widths : List (String × Nat) → Nat
  | [] => 0
  | (_, w) :: fs => w + widths fs

def intLinks (fs : List (String × Nat)) : List Fld := fs.map (fun e => .int e.1 e.2)

theorem urun_ints_ok (mok : Nat → Bool) (src : Bytes) :
    ∀ (fs : List (String × Nat)) (st : USt), (∀ e ∈ fs, okWidth e.2 = true) →
      st.p + widths fs ≤ src.length →
      ∃ st', urun mok src (src.length : Int) (intLinks fs) st = (.ok, st') ∧
        st'.m = readInts src fs st.m st.p ∧ st'.p = st.p + widths fs := by
  intro fs
  induction fs with
  | nil => intro st _ _; exact ⟨st, by simp [intLinks, urun], rfl, rfl⟩
  | cons e fs ih =>
    intro st hw hlen
    obtain ⟨f, w⟩ := e
    simp only [widths] at hlen
    have hok : okWidth w = true := hw (f, w) List.mem_cons_self
    have h1 : ¬ ((st.p : Int) + (w : Int) > (src.length : Int)) := by omega
    obtain ⟨st', hrun, hm, hp⟩ := ih
      { st with m := st.m.setInt f (beVal ((src.drop st.p).take w)), p := st.p + w,
                reads := st.reads ++ [(st.p, w)] }
      (fun e he => hw e (List.mem_cons_of_mem _ he)) (by simp only; omega)
    refine ⟨st', ?_, ?_, ?_⟩
    · simp only [intLinks, List.map_cons, urun, ustep, if_neg h1, hok, Bool.not_true, Bool.false_eq_true, if_false]
      exact hrun
    · rw [hm]; rfl
    · rw [hp]; simp only [widths]; omega

theorem urun_ints_short (mok : Nat → Bool) (src : Bytes) :
    ∀ (fs : List (String × Nat)) (st : USt), (∀ e ∈ fs, okWidth e.2 = true) →
      st.p ≤ src.length → src.length < st.p + widths fs →
      (urun mok src (src.length : Int) (intLinks fs) st).1 = .err := by
  intro fs
  induction fs with
  | nil => intro st _ h0 h; simp only [widths] at h; omega
  | cons e fs ih =>
    intro st hw hp0 hlen
    obtain ⟨f, w⟩ := e
    simp only [widths] at hlen
    have hok : okWidth w = true := hw (f, w) List.mem_cons_self
    by_cases h1 : (st.p : Int) + (w : Int) > (src.length : Int)
    · simp only [intLinks, List.map_cons, urun, ustep, if_pos h1]
    · simp only [intLinks, List.map_cons, urun, ustep, if_neg h1, hok, Bool.not_true, Bool.false_eq_true, if_false]
      exact ih _ (fun e he => hw e (List.mem_cons_of_mem _ he)) (by simp only; omega) (by simp only; omega)

theorem setBuf_setBuf (m : Wire.Msg) (f : String) (a b : Option (List UInt8)) :
    (m.setBuf f a).setBuf f b = m.setBuf f b := by
  cases m
  simp only [Msg.setBuf, Msg.mk.injEq, true_and, and_true]
  funext k
  by_cases hk : k = f <;> simp [hk]

theorem cInt_neg {v : Nat} (h1 : 2147483648 ≤ v) (h2 : v < 4294967296) : cInt v < 0 := by
  unfold cInt wrapS32; omega

/-- `_alloc` + `_copy` of a variable-length member whose length fits: the member holds exactly the
    `len` bytes at the cursor (and is left alone when `len` is 0) -/
theorem urun_var_ok (mok : Nat → Bool) (hmok : ∀ n, mok n = true) (src : Bytes) (f l : String) (st : USt)
    (hv : st.m.int l < 2147483648) (hfit : st.p + st.m.int l ≤ src.length) :
    ∃ st', urun mok src (src.length : Int) [.alloc f l, .bytes f l .heap] st = (.ok, st') ∧
      st'.m = (if st.m.int l = 0 then st.m
               else st.m.setBuf f (some ((src.drop st.p).take (st.m.int l)))) ∧
      st'.p = st.p + st.m.int l := by
  have hc := cInt_small hv
  by_cases h0 : st.m.int l = 0
  · have hc0 : cInt (st.m.int l) = 0 := by rw [hc]; omega
    have hs1 : ustep mok src (src.length : Int) st (.alloc f l) = (.ok, st) := by simp [ustep, hc0]
    have hs2 : ustep mok src (src.length : Int) st (.bytes f l .heap) = (.ok, st) := by simp [ustep, hc0]
    refine ⟨st, ?_, by simp [h0], by omega⟩
    rw [urun, hs1]; simp only; rw [urun, hs2]; simp only [urun]
  · have h2 : ¬ ((st.p : Int) + (st.m.int l : Int) > (src.length : Int)) := by omega
    have h3 : ¬ ((st.m.int l : Int) < 0) := by omega
    have h4 : ¬ ((st.m.int l : Int) = 0) := by omega
    have hs1 : ustep mok src (src.length : Int) st (.alloc f l) =
        (.ok, { st with m := st.m.setBuf f (some []),
                        caps := fun k => if k = f then st.m.int l + 1 else st.caps k,
                        allocs := st.allocs ++ [(f, st.m.int l + 1)] }) := by
      simp only [ustep, hc, if_neg h3, if_neg h4, Int.toNat_natCast, hmok, Bool.not_true, Bool.false_eq_true,
        if_false]
    obtain ⟨st1, hs1, hm1, hp1⟩ : ∃ st1, ustep mok src (src.length : Int) st (.alloc f l) = (.ok, st1) ∧
        st1.m = st.m.setBuf f (some []) ∧ st1.p = st.p := ⟨_, hs1, rfl, rfl⟩
    have hi : st1.m.int l = st.m.int l := by rw [hm1]; rfl
    have hs2 : ustep mok src (src.length : Int) st1 (.bytes f l .heap) =
        (.ok, { st1 with m := st1.m.setBuf f (some ((src.drop st1.p).take (st.m.int l))), p := st1.p + st.m.int l,
                         reads := st1.reads ++ [(st1.p, st.m.int l)],
                         writes := st1.writes ++ [(f, st.m.int l, st1.caps f)] }) := by
      simp only [ustep, hi, hp1, hc, if_neg h3, if_neg h4, if_neg h2, Int.toNat_natCast]
    obtain ⟨st2, hs2, hm2, hp2⟩ : ∃ st2, ustep mok src (src.length : Int) st1 (.bytes f l .heap) = (.ok, st2) ∧
        st2.m = st1.m.setBuf f (some ((src.drop st1.p).take (st.m.int l))) ∧ st2.p = st1.p + st.m.int l :=
      ⟨_, hs2, rfl, rfl⟩
    refine ⟨st2, ?_, ?_, ?_⟩
    · rw [urun, hs1]; simp only; rw [urun, hs2]; simp only [urun]
    · simp only [if_neg h0, hm2, hm1, hp1, setBuf_setBuf]
    · simp only [hp2, hp1]

/-- … whose length does not fit an `int`, or exceeds what is left of the packet: the chain is left
    through `nomem` (negative length) or `err` -/
theorem urun_var_bad (mok : Nat → Bool) (hmok : ∀ n, mok n = true) (src : Bytes) (f l : String) (st : USt)
    (hv : st.m.int l < 4294967296) (hp : st.p ≤ src.length)
    (hbad : ¬ (st.m.int l < 2147483648 ∧ st.p + st.m.int l ≤ src.length)) :
    (urun mok src (src.length : Int) [.alloc f l, .bytes f l .heap] st).1 ≠ .ok := by
  by_cases hbig : 2147483648 ≤ st.m.int l
  · have hneg := cInt_neg hbig hv
    have h0 : ¬ (cInt (st.m.int l) = 0) := by omega
    have hs1 : ustep mok src (src.length : Int) st (.alloc f l) = (.nomem, st) := by
      simp only [ustep, if_neg h0, if_pos hneg]
    rw [urun, hs1]; simp
  · have hlt : st.m.int l < 2147483648 := by omega
    have hc := cInt_small hlt
    have h2 : (st.p : Int) + (st.m.int l : Int) > (src.length : Int) := by omega
    have h3 : ¬ ((st.m.int l : Int) < 0) := by omega
    have h4 : ¬ ((st.m.int l : Int) = 0) := by omega
    have hs1 : ustep mok src (src.length : Int) st (.alloc f l) =
        (.ok, { st with m := st.m.setBuf f (some []),
                        caps := fun k => if k = f then st.m.int l + 1 else st.caps k,
                        allocs := st.allocs ++ [(f, st.m.int l + 1)] }) := by
      simp only [ustep, hc, if_neg h3, if_neg h4, Int.toNat_natCast, hmok, Bool.not_true, Bool.false_eq_true,
        if_false]
    obtain ⟨st1, hs1, hm1, hp1⟩ : ∃ st1, ustep mok src (src.length : Int) st (.alloc f l) = (.ok, st1) ∧
        st1.m = st.m.setBuf f (some []) ∧ st1.p = st.p := ⟨_, hs1, rfl, rfl⟩
    have hi : st1.m.int l = st.m.int l := by rw [hm1]; rfl
    have hs2 : ustep mok src (src.length : Int) st1 (.bytes f l .heap) = (.err, st1) := by
      simp only [ustep, hi, hp1, hc, if_neg h3, if_neg h4, if_pos h2]
    rw [urun, hs1]; simp only; rw [urun, hs2]; simp

theorem urun_seq_ok (mok : Nat → Bool) (src : Bytes) (srclen : Int) (a b : List Fld) (st st1 : USt)
    (h : urun mok src srclen a st = (.ok, st1)) :
    urun mok src srclen (a ++ b) st = urun mok src srclen b st1 := by
  rw [urun_append, h]

theorem urun_seq_bad (mok : Nat → Bool) (src : Bytes) (srclen : Int) (a b : List Fld) (st : USt)
    (h : (urun mok src srclen a st).1 ≠ .ok) : (urun mok src srclen (a ++ b) st).1 ≠ .ok := by
  rw [urun_append]
  cases hu : urun mok src srclen a st with
  | mk rc st1 =>
    rw [hu] at h
    cases rc
    · exact absurd rfl h
    · simp
    · simp

/-! ### `_msg_unpack` from its chain -/

theorem unpack_of_urun_ok (mok : Nat → Bool) (t : Nat) (m : Wire.Msg) (src : Bytes) (srclen : Int)
    (fl : List Fld) (st : USt) (ht : t ≠ postCheckType) (hl : lookup unpackTable t = some fl)
    (h : urun mok src srclen fl (USt.init m) = (.ok, st)) :
    unpack mok t m src srclen = (unpackOk, st) := by
  unfold unpack
  simp only [hl, h, if_neg ht]

theorem unpack_of_urun_bad (mok : Nat → Bool) (t : Nat) (m : Wire.Msg) (src : Bytes) (srclen : Int)
    (fl : List Fld) (hl : lookup unpackTable t = some fl)
    (h : (urun mok src srclen fl (USt.init m)).1 ≠ .ok) :
    (unpack mok t m src srclen).1 ≠ EMUNGE_SUCCESS := by
  unfold unpack
  simp only [hl]
  cases hu : urun mok src srclen fl (USt.init m) with
  | mk rc st =>
    rw [hu] at h
    cases rc
    · exact absurd rfl h
    · simp only; decide
    · simp only; decide

/-! ### the request bodies -/

/-- the message `m_msg_recv` holds once the header is unpacked into a fresh `struct m_msg` -/
def hdrMsg (mg ver t r n : Nat) : Wire.Msg :=
  ((((Msg.fresh.setInt "local.magic" mg).setInt "local.version" ver).setInt "type" t).setInt "retry" r).setInt
    "pkt_len" n

theorem fresh_int (k : String) : Msg.fresh.int k = if k = "sd" then 4294967295 else 0 := rfl
theorem fresh_buf (k : String) : Msg.fresh.buf k = none := rfl
theorem fresh_addr : Msg.fresh.fix "addr" = [0, 0, 0, 0] := by decide

/-- the DEC_REQ branch of `Cred.recvMsg` -/
def decBody (retry : Nat) (body : Bytes) : Cred.Recv :=
  if body.length < 4 then .drop "unpack" else
  let dl := Cred.rd32 (body.take 4)
  match Cred.takeField (body.drop 4) dl with
  | none => .drop "unpack"
  | some (data, _) => .dec { type := 4, retry := retry, dataLen := dl, data := data }

theorem unpack_dec (mok : Nat → Bool) (hmok : ∀ n, mok n = true) (mg ver r n : Nat) (body : Bytes) :
    ((unpack mok 4 (hdrMsg mg ver 4 r n) body (body.length : Int)).1 = EMUNGE_SUCCESS ∧
      decBody r body = .dec (reqOf (unpack mok 4 (hdrMsg mg ver 4 r n) body (body.length : Int)).2.m) ∧
      (unpack mok 4 (hdrMsg mg ver 4 r n) body (body.length : Int)).2.m.buf "error_str" = none) ∨
    ((unpack mok 4 (hdrMsg mg ver 4 r n) body (body.length : Int)).1 ≠ EMUNGE_SUCCESS ∧
      decBody r body = .drop "unpack") := by
  have hl : lookup unpackTable 4 =
      some (intLinks [("data_len", 4)] ++ [.alloc "data" "data_len", .bytes "data" "data_len" .heap]) := by decide
  by_cases h4 : 4 ≤ body.length
  · obtain ⟨st1, h1, hm1, hp1⟩ := urun_ints_ok mok body [("data_len", 4)] (USt.init (hdrMsg mg ver 4 r n))
      (by decide) (by simp only [widths, USt.init]; omega)
    have hdl : st1.m.int "data_len" = Cred.rd32 (body.take 4) := by
      rw [hm1]
      simp only [readInts, USt.init, List.drop_zero, Msg.setInt, if_true]
      exact beVal_eq_rd32 _ (by simp only [List.length_take]; omega)
    have hp1' : st1.p = 4 := by rw [hp1]; rfl
    have hlt := rd32_lt (body.take 4)
    by_cases hV : Cred.rd32 (body.take 4) < 2147483648 ∧ 4 + Cred.rd32 (body.take 4) ≤ body.length
    · left
      obtain ⟨st2, h2, hm2, hp2⟩ := urun_var_ok mok hmok body "data" "data_len" st1 (by rw [hdl]; exact hV.1)
        (by rw [hdl, hp1']; exact hV.2)
      have hu := unpack_of_urun_ok mok 4 (hdrMsg mg ver 4 r n) body (body.length : Int) _ st2 (by decide) hl
        (by rw [urun_seq_ok _ _ _ _ _ _ _ h1]; exact h2)
      rw [hu]
      have htf : Cred.takeField (body.drop 4) (Cred.rd32 (body.take 4)) =
          some ((body.drop 4).take (Cred.rd32 (body.take 4)), (body.drop 4).drop (Cred.rd32 (body.take 4))) := by
        unfold Cred.takeField
        rw [if_neg (by omega), if_neg (by simp only [List.length_drop]; omega)]
      have hm1' : st1.m = (hdrMsg mg ver 4 r n).setInt "data_len" (Cred.rd32 (body.take 4)) := by
        rw [hm1]
        simp only [readInts, USt.init, List.drop_zero]
        rw [beVal_eq_rd32 _ (by simp only [List.length_take]; omega)]
      refine ⟨rfl, ?_, ?_⟩
      · simp only [decBody, if_neg (by omega : ¬ body.length < 4), htf]
        simp only [hm2, hdl, hp1']
        split
        · rename_i h0
          simp [reqOf, hm1', hdrMsg, Msg.setInt, fresh_int, fresh_buf, fresh_addr, Msg.bytesOf, h0]
        · simp [reqOf, hm1', hdrMsg, Msg.setInt, Msg.setBuf, fresh_int, fresh_buf, fresh_addr, Msg.bytesOf]
      · simp only [hm2, hdl, hp1']
        split <;> simp [hm1', hdrMsg, Msg.setInt, Msg.setBuf, fresh_buf]
    · right
      refine ⟨unpack_of_urun_bad mok 4 _ body _ _ hl ?_, ?_⟩
      · rw [urun_seq_ok _ _ _ _ _ _ _ h1]
        exact urun_var_bad mok hmok body "data" "data_len" st1 (by rw [hdl]; exact hlt) (by omega)
          (by rw [hdl, hp1']; exact hV)
      · simp only [decBody, if_neg (by omega : ¬ body.length < 4)]
        unfold Cred.takeField
        by_cases hbig : Cred.rd32 (body.take 4) ≥ 2147483648
        · rw [if_pos hbig]
        · rw [if_neg hbig, if_pos (by simp only [List.length_drop]; omega)]
  · right
    refine ⟨unpack_of_urun_bad mok 4 _ body _ _ hl ?_, ?_⟩
    · apply urun_seq_bad
      rw [urun_ints_short mok body [("data_len", 4)] _ (by decide) (by simp [USt.init])
        (by simp only [widths, USt.init]; omega)]
      decide
    · simp only [decBody, if_pos (by omega : body.length < 4)]

/-- the ENC_REQ branch of `Cred.recvMsg` -/
def encBody (retry : Nat) (body : Bytes) : Cred.Recv :=
  match body with
  | c :: mc :: z :: rl :: rest =>
    match Cred.takeField rest rl.toNat with
    | none => .drop "unpack"
    | some (realm, rest) =>
      if rest.length < 12 then .drop "unpack" else
      let ttl := Cred.rd32 (rest.take 4)
      let au := Cred.rd32 ((rest.drop 4).take 4)
      let ag := Cred.rd32 ((rest.drop 8).take 4)
      let rest := rest.drop 12
      if rest.length < 4 then .drop "unpack" else
      let dl := Cred.rd32 (rest.take 4)
      match Cred.takeField (rest.drop 4) dl with
      | none => .drop "unpack"
      | some (data, _) =>
        .enc { type := 2, retry := retry, cipher := c.toNat, mac := mc.toNat, zip := z.toNat,
               realmLen := rl.toNat, realm := realm, ttl := ttl, authUid := au, authGid := ag,
               dataLen := dl, data := data }
  | _ => .drop "unpack"

def encLinksA : List (String × Nat) := [("cipher", 1), ("mac", 1), ("zip", 1), ("realm_len", 1)]
def encLinksB : List (String × Nat) := [("ttl", 4), ("auth_uid", 4), ("auth_gid", 4), ("data_len", 4)]

theorem enc_lookup : lookup unpackTable 2 =
    some (intLinks encLinksA ++ ([.alloc "realm_str" "realm_len", .bytes "realm_str" "realm_len" .heap] ++
      (intLinks encLinksB ++ [.alloc "data" "data_len", .bytes "data" "data_len" .heap]))) := by decide

theorem unpack_enc_short (mok : Nat → Bool) (m0 : Wire.Msg) (r : Nat) (body : Bytes) (h : body.length < 4) :
    (unpack mok 2 m0 body (body.length : Int)).1 ≠ EMUNGE_SUCCESS ∧ encBody r body = .drop "unpack" := by
  refine ⟨unpack_of_urun_bad mok 2 _ body _ _ enc_lookup ?_, ?_⟩
  · apply urun_seq_bad
    rw [urun_ints_short mok body encLinksA _ (by decide) (by simp [USt.init])
      (by simp only [widths, encLinksA, USt.init]; omega)]
    decide
  · match body, h with
    | [], _ => rfl
    | [_], _ => rfl
    | [_, _], _ => rfl
    | [_, _, _], _ => rfl

theorem drop4 {α : Type} (a b c d : α) (l : List α) (k : Nat) : (a :: b :: c :: d :: l).drop (4 + k) = l.drop k := by
  rw [Nat.add_comm]; rfl

theorem unpack_enc_main (mok : Nat → Bool) (hmok : ∀ n, mok n = true) (mg ver r n : Nat)
    (c mc z rl : UInt8) (rest body : Bytes) (hbody : body = c :: mc :: z :: rl :: rest) :
    ((unpack mok 2 (hdrMsg mg ver 2 r n) body (body.length : Int)).1 = EMUNGE_SUCCESS ∧
      encBody r body = .enc (reqOf (unpack mok 2 (hdrMsg mg ver 2 r n) body (body.length : Int)).2.m) ∧
      (unpack mok 2 (hdrMsg mg ver 2 r n) body (body.length : Int)).2.m.buf "error_str" = none) ∨
    ((unpack mok 2 (hdrMsg mg ver 2 r n) body (body.length : Int)).1 ≠ EMUNGE_SUCCESS ∧
      encBody r body = .drop "unpack") := by
  have hlen : body.length = rest.length + 4 := by rw [hbody]; rfl
  have hd4 : body.drop 4 = rest := by rw [hbody]; rfl
  have hdk : ∀ k, body.drop (4 + k) = rest.drop k := fun k => by rw [hbody]; exact drop4 _ _ _ _ _ _
  have hrl := rl.toNat_lt
  -- the four one-byte fields
  obtain ⟨st1, h1, hm1, hp1⟩ := urun_ints_ok mok body encLinksA (USt.init (hdrMsg mg ver 2 r n))
    (by decide) (by simp only [widths, encLinksA, USt.init]; omega)
  have hm1' : st1.m = ((((hdrMsg mg ver 2 r n).setInt "cipher" c.toNat).setInt "mac" mc.toNat).setInt "zip"
      z.toNat).setInt "realm_len" rl.toNat := by
    rw [hm1, hbody]
    simp [readInts, encLinksA, USt.init, beVal1]
  have hp1' : st1.p = 4 := by rw [hp1]; rfl
  have hrl1 : st1.m.int "realm_len" = rl.toNat := by rw [hm1']; simp [Msg.setInt]
  by_cases hV1 : rl.toNat ≤ rest.length
  · -- the realm
    obtain ⟨st2, h2, hm2, hp2⟩ := urun_var_ok mok hmok body "realm_str" "realm_len" st1
      (by rw [hrl1]; omega) (by rw [hrl1, hp1']; omega)
    rw [hrl1, hp1', hd4] at hm2
    rw [hrl1, hp1'] at hp2
    have htf1 : Cred.takeField rest rl.toNat = some (rest.take rl.toNat, rest.drop rl.toNat) := by
      unfold Cred.takeField
      rw [if_neg (by omega), if_neg (by omega)]
    by_cases hB : 16 ≤ (rest.drop rl.toNat).length
    · -- ttl, auth_uid, auth_gid, data_len
      have hB' := hB
      simp only [List.length_drop] at hB'
      obtain ⟨st3, h3, hm3, hp3⟩ := urun_ints_ok mok body encLinksB st2 (by decide)
        (by rw [hp2]; simp only [widths, encLinksB]; omega)
      have hp3' : st3.p = 4 + rl.toNat + 16 := by rw [hp3, hp2]; simp only [widths, encLinksB]
      generalize hR : rest.drop rl.toNat = R at hB htf1
      have hRlen : R.length = rest.length - rl.toNat := by rw [← hR, List.length_drop]
      have hRk : ∀ k, body.drop (4 + rl.toNat + k) = R.drop k := fun k => by
        rw [Nat.add_assoc, hdk, ← hR, List.drop_drop]
      have hR0 : body.drop (4 + rl.toNat) = R := by rw [hdk, hR]
      have e8 : 4 + rl.toNat + 4 + 4 = 4 + rl.toNat + 8 := by omega
      have e12 : 4 + rl.toNat + 4 + 4 + 4 = 4 + rl.toNat + 12 := by omega
      have hm3' : st3.m = (((st2.m.setInt "ttl" (Cred.rd32 (R.take 4))).setInt "auth_uid"
          (Cred.rd32 ((R.drop 4).take 4))).setInt "auth_gid" (Cred.rd32 ((R.drop 8).take 4))).setInt "data_len"
          (Cred.rd32 ((R.drop 12).take 4)) := by
        rw [hm3, hp2]
        simp only [readInts, encLinksB]
        rw [e12, e8, hR0, hRk 4, hRk 8, hRk 12]
        rw [beVal_eq_rd32 (R.take 4) (by simp only [List.length_take]; omega),
          beVal_eq_rd32 ((R.drop 4).take 4) (by simp only [List.length_take, List.length_drop]; omega),
          beVal_eq_rd32 ((R.drop 8).take 4) (by simp only [List.length_take, List.length_drop]; omega),
          beVal_eq_rd32 ((R.drop 12).take 4) (by simp only [List.length_take, List.length_drop]; omega)]
      generalize hdl : Cred.rd32 ((R.drop 12).take 4) = dl at hm3'
      have hdlt : dl < 4294967296 := by rw [← hdl]; exact rd32_lt _
      have hdl3 : st3.m.int "data_len" = dl := by rw [hm3']; simp [Msg.setInt]
      have h123 : urun mok body (body.length : Int) (intLinks encLinksA ++
            ([.alloc "realm_str" "realm_len", .bytes "realm_str" "realm_len" .heap] ++
              (intLinks encLinksB ++ [.alloc "data" "data_len", .bytes "data" "data_len" .heap])))
            (USt.init (hdrMsg mg ver 2 r n)) =
          urun mok body (body.length : Int) [.alloc "data" "data_len", .bytes "data" "data_len" .heap] st3 := by
        rw [urun_seq_ok _ _ _ _ _ _ _ h1, urun_seq_ok _ _ _ _ _ _ _ h2, urun_seq_ok _ _ _ _ _ _ _ h3]
      by_cases hV2 : dl < 2147483648 ∧ dl + 16 ≤ R.length
      · left
        obtain ⟨st4, h4, hm4, hp4⟩ := urun_var_ok mok hmok body "data" "data_len" st3
          (by rw [hdl3]; exact hV2.1) (by rw [hdl3, hp3']; omega)
        rw [hdl3, hp3', hRk 16] at hm4
        have hu := unpack_of_urun_ok mok 2 (hdrMsg mg ver 2 r n) body (body.length : Int) _ st4 (by decide)
          enc_lookup (by rw [h123]; exact h4)
        rw [hu]
        have htf2 : Cred.takeField ((R.drop 12).drop 4) dl = some ((R.drop 16).take dl, (R.drop 16).drop dl) := by
          unfold Cred.takeField
          rw [List.drop_drop, if_neg (by omega), if_neg (by simp only [List.length_drop]; omega)]
        have hE : encBody r body = .enc
            { type := 2, retry := r, cipher := c.toNat, mac := mc.toNat, zip := z.toNat,
              realmLen := rl.toNat, realm := rest.take rl.toNat, ttl := Cred.rd32 (R.take 4),
              authUid := Cred.rd32 ((R.drop 4).take 4), authGid := Cred.rd32 ((R.drop 8).take 4),
              dataLen := dl, data := (R.drop 16).take dl } := by
          rw [hbody]
          simp only [encBody, htf1]
          rw [if_neg (by omega), if_neg (by simp only [List.length_drop]; omega)]
          simp only [hdl, htf2]
        refine ⟨rfl, ?_, ?_⟩
        · rw [hE]
          simp only [hm4, hm3', hm2, hm1']
          by_cases hd0 : dl = 0 <;> by_cases hr0 : rl.toNat = 0 <;>
            simp [reqOf, hd0, hr0, hdrMsg, Msg.setInt, Msg.setBuf, fresh_int, fresh_buf, fresh_addr, Msg.bytesOf]
        · simp only [hm4, hm3', hm2, hm1']
          by_cases hd0 : dl = 0 <;> by_cases hr0 : rl.toNat = 0 <;>
            simp [hd0, hr0, hdrMsg, Msg.setInt, Msg.setBuf, fresh_buf]
      · right
        refine ⟨unpack_of_urun_bad mok 2 _ body _ _ enc_lookup ?_, ?_⟩
        · rw [h123]
          exact urun_var_bad mok hmok body "data" "data_len" st3 (by rw [hdl3]; exact hdlt) (by rw [hp3']; omega)
            (by rw [hdl3, hp3']; omega)
        · rw [hbody]
          simp only [encBody, htf1]
          rw [if_neg (by omega), if_neg (by simp only [List.length_drop]; omega)]
          simp only [hdl]
          unfold Cred.takeField
          by_cases hbig : dl ≥ 2147483648
          · rw [if_pos hbig]
          · rw [if_neg hbig, if_pos (by simp only [List.length_drop]; omega)]
    · right
      have hB' := hB
      simp only [List.length_drop] at hB'
      refine ⟨unpack_of_urun_bad mok 2 _ body _ _ enc_lookup ?_, ?_⟩
      · rw [urun_seq_ok _ _ _ _ _ _ _ h1, urun_seq_ok _ _ _ _ _ _ _ h2]
        apply urun_seq_bad
        rw [urun_ints_short mok body encLinksB st2 (by decide) (by rw [hp2]; omega)
          (by rw [hp2]; simp only [widths, encLinksB]; omega)]
        decide
      · rw [hbody]
        simp only [encBody, htf1]
        by_cases h12 : (rest.drop rl.toNat).length < 12
        · rw [if_pos h12]
        · rw [if_neg h12, if_pos (by simp only [List.length_drop] at h12 ⊢; omega)]
  · right
    refine ⟨unpack_of_urun_bad mok 2 _ body _ _ enc_lookup ?_, ?_⟩
    · rw [urun_seq_ok _ _ _ _ _ _ _ h1]
      apply urun_seq_bad
      exact urun_var_bad mok hmok body "realm_str" "realm_len" st1 (by rw [hrl1]; omega) (by rw [hp1']; omega)
        (by rw [hrl1, hp1']; omega)
    · have htf1 : Cred.takeField rest rl.toNat = none := by
        unfold Cred.takeField
        rw [if_neg (by omega), if_pos (by omega)]
      rw [hbody]
      simp only [encBody, htf1]

/-- ENC_REQ: the credential model's body parser and `_msg_unpack` on the generated list succeed
    together and then hold the same message; otherwise both fail -/
theorem unpack_enc (mok : Nat → Bool) (hmok : ∀ n, mok n = true) (mg ver r n : Nat) (body : Bytes) :
    ((unpack mok 2 (hdrMsg mg ver 2 r n) body (body.length : Int)).1 = EMUNGE_SUCCESS ∧
      encBody r body = .enc (reqOf (unpack mok 2 (hdrMsg mg ver 2 r n) body (body.length : Int)).2.m) ∧
      (unpack mok 2 (hdrMsg mg ver 2 r n) body (body.length : Int)).2.m.buf "error_str" = none) ∨
    ((unpack mok 2 (hdrMsg mg ver 2 r n) body (body.length : Int)).1 ≠ EMUNGE_SUCCESS ∧
      encBody r body = .drop "unpack") := by
  by_cases h : body.length < 4
  · exact .inr (unpack_enc_short mok _ r body h)
  · match body, h with
    | c :: mc :: z :: rl :: rest, _ => exact unpack_enc_main mok hmok mg ver r n c mc z rl rest _ rfl
    | [], h => exact absurd (by simp) h
    | [_], h => exact absurd (by simp) h
    | [_, _], h => exact absurd (by simp) h
    | [_, _, _], h => exact absurd (by simp) h

/-! ### the header -/

def hdrLinks : List (String × Nat) :=
  [("local.magic", 4), ("local.version", 1), ("type", 1), ("retry", 1), ("pkt_len", 4)]

theorem hdr_lookup : lookup unpackTable 1 = some (intLinks hdrLinks) := by decide

/-- the header fields as the credential model reads them -/
def hMagic (req : Bytes) : Nat := Cred.rd32 (req.take 4)
def hVer (req : Bytes) : Nat := (req.getD 4 0).toNat
def hType (req : Bytes) : Nat := (req.getD 5 0).toNat
def hRetry (req : Bytes) : Nat := (req.getD 6 0).toNat
def hLen (req : Bytes) : Nat := Cred.rd32 ((req.drop 7).take 4)

/-- the message after the five header fields have been unpacked into `m0` -/
def hdrOn (m0 : Wire.Msg) (mg ver t r n : Nat) : Wire.Msg :=
  ((((m0.setInt "local.magic" mg).setInt "local.version" ver).setInt "type" t).setInt "retry" r).setInt "pkt_len" n

theorem hdrMsg_eq (mg ver t r n : Nat) : hdrMsg mg ver t r n = hdrOn Msg.fresh mg ver t r n := rfl

/-- `_msg_unpack (m, MUNGE_MSG_HDR, src, |src|)` on a packet of at least 11 bytes: succeeds iff the
    magic and version are right; the five fields are the ones the credential model reads -/
theorem unpack_hdr (mok : Nat → Bool) (m0 : Wire.Msg) (src : Bytes) (h : 11 ≤ src.length) :
    ((unpack mok 1 m0 src (src.length : Int)).1 = EMUNGE_SUCCESS ↔ hMagic src = MAGIC ∧ hVer src = VERSION) ∧
    ((unpack mok 1 m0 src (src.length : Int)).1 = EMUNGE_SUCCESS →
      (unpack mok 1 m0 src (src.length : Int)).2.m =
        hdrOn m0 (hMagic src) (hVer src) (hType src) (hRetry src) (hLen src)) := by
  match src, h with
  | a0 :: a1 :: a2 :: a3 :: a4 :: a5 :: a6 :: a7 :: a8 :: a9 :: a10 :: rest, hlen =>
    obtain ⟨st, h1, hm, hp⟩ := urun_ints_ok mok (a0 :: a1 :: a2 :: a3 :: a4 :: a5 :: a6 :: a7 :: a8 :: a9 :: a10 :: rest)
      hdrLinks (USt.init m0) (by decide) (by simp only [USt.init, widths, hdrLinks]; omega)
    have hm' : st.m = hdrOn m0 (Cred.rd32 [a0, a1, a2, a3]) a4.toNat a5.toNat a6.toNat (Cred.rd32 [a7, a8, a9, a10]) := by
      rw [hm]
      simp [readInts, hdrLinks, USt.init, beVal1, beVal4, hdrOn]
    have hmg : hMagic (a0 :: a1 :: a2 :: a3 :: a4 :: a5 :: a6 :: a7 :: a8 :: a9 :: a10 :: rest) =
        Cred.rd32 [a0, a1, a2, a3] := rfl
    have hv : hVer (a0 :: a1 :: a2 :: a3 :: a4 :: a5 :: a6 :: a7 :: a8 :: a9 :: a10 :: rest) = a4.toNat := rfl
    have hty : hType (a0 :: a1 :: a2 :: a3 :: a4 :: a5 :: a6 :: a7 :: a8 :: a9 :: a10 :: rest) = a5.toNat := rfl
    have hre : hRetry (a0 :: a1 :: a2 :: a3 :: a4 :: a5 :: a6 :: a7 :: a8 :: a9 :: a10 :: rest) = a6.toNat := rfl
    have hle : hLen (a0 :: a1 :: a2 :: a3 :: a4 :: a5 :: a6 :: a7 :: a8 :: a9 :: a10 :: rest) =
        Cred.rd32 [a7, a8, a9, a10] := rfl
    rw [hmg, hv, hty, hre, hle]
    generalize Cred.rd32 [a0, a1, a2, a3] = mg at hm'
    generalize Cred.rd32 [a7, a8, a9, a10] = n at hm'
    have hpf : postFail st.m postChecks =
        if mg ≠ 6319435 then some (6, 6) else if a4.toNat ≠ 4 then some (6, 6) else none := by
      rw [hm']
      simp [postFail, postChecks, hdrOn, Msg.setInt]
    unfold unpack
    simp only [hdr_lookup, h1]
    rw [if_pos (by decide), hpf]
    by_cases h1 : mg ≠ 6319435
    · rw [if_pos h1]
      simp only
      have e6 : ¬ (6 = EMUNGE_SUCCESS) := by decide
      exact ⟨⟨fun h => absurd h e6, fun h => absurd h.1 h1⟩, fun h => absurd h e6⟩
    · rw [if_neg h1]
      have h1' : mg = MAGIC := Decidable.not_not.mp h1
      by_cases h2 : a4.toNat ≠ 4
      · rw [if_pos h2]
        simp only
        have e6 : ¬ (6 = EMUNGE_SUCCESS) := by decide
        exact ⟨⟨fun h => absurd h e6, fun h => absurd h.2 h2⟩, fun h => absurd h e6⟩
      · rw [if_neg h2]
        simp only
        have h2' : a4.toNat = VERSION := Decidable.not_not.mp h2
        exact ⟨⟨fun _ => ⟨h1', h2'⟩, fun _ => by decide⟩, fun _ => hm'⟩

theorem unpack_hdr_short (mok : Nat → Bool) (m0 : Wire.Msg) (src : Bytes) (h : src.length < 11) :
    (unpack mok 1 m0 src (src.length : Int)).1 ≠ EMUNGE_SUCCESS := by
  refine unpack_of_urun_bad mok 1 _ src _ _ hdr_lookup ?_
  rw [urun_ints_short mok src hdrLinks _ (by decide) (by simp [USt.init])
    (by simp only [widths, hdrLinks, USt.init]; omega)]
  decide

/-- the header fields of a request are those of its first 11 bytes -/
theorem hfields_take (req : Bytes) (h : 11 ≤ req.length) :
    hMagic (req.take 11) = hMagic req ∧ hVer (req.take 11) = hVer req ∧ hType (req.take 11) = hType req ∧
    hRetry (req.take 11) = hRetry req ∧ hLen (req.take 11) = hLen req := by
  match req, h with
  | a0 :: a1 :: a2 :: a3 :: a4 :: a5 :: a6 :: a7 :: a8 :: a9 :: a10 :: rest, _ => exact ⟨rfl, rfl, rfl, rfl, rfl⟩

/-- `Cred.recvMsg`, with the header fields and the two body parsers named -/
theorem recvMsg_eq (req : Bytes) : Cred.recvMsg req =
    if req.length < 11 then .drop "incomplete header" else
    if hMagic req ≠ 6319435 then .drop "magic" else
    if hVer req ≠ 4 then .drop "version" else
    if (hLen req : Int) > Munge.Gen.Dec.MUNGE_MAXIMUM_REQ_LEN then .drop "length" else
    if ((req.drop 11).take (hLen req)).length < hLen req then .drop "incomplete body" else
    if hType req = 2 then encBody (hRetry req) ((req.drop 11).take (hLen req))
    else if hType req = 4 then decBody (hRetry req) ((req.drop 11).take (hLen req))
    else if hType req = 1 then Cred.recvHdrBody ((req.drop 11).take (hLen req))
    else .drop "type" := rfl

/-! ### `_msg_pack` / `m_msg_send` -/

/-- side condition of a pack link: a length fits an `int` and does not exceed what the member
    holds; an interposed test does not fire.  (No condition on integer members: `_pack` truncates.) -/
def pOk (m : Wire.Msg) : Fld → Prop
  | .bytes f l d => m.int l < 2147483648 ∧ m.int l ≤ (m.bytesOf f d).length
  | .guard l c k => c.eval (m.int l) k = false
  | _ => True

theorem prun_ok' (dstlen : Int) (m : Wire.Msg) :
    ∀ (P : List Fld) (out : List UInt8), packable P = true → (∀ fld ∈ P, pOk m fld) →
      ((out.length + (chunks m P).length : Nat) : Int) ≤ dstlen →
      prun dstlen m P out = (.ok, out ++ chunks m P) := by
  intro P
  induction P with
  | nil => intro out _ _ _; simp [prun, chunks]
  | cons fld fs ih =>
    intro out hp hok hlen
    have hfs : ∀ f ∈ fs, pOk m f := fun f hf => hok f (List.mem_cons_of_mem _ hf)
    have hfld := hok fld List.mem_cons_self
    cases fld with
    | int f w =>
      simp only [packable, Bool.and_eq_true] at hp
      simp only [chunks, chunk, List.length_append, beBytes_length] at hlen
      have h1 : ¬ ((out.length : Int) + (w : Int) > dstlen) := by omega
      have hstep : pstep dstlen m out (.int f w) = (.ok, out ++ beBytes w (m.int f)) := by
        simp [pstep, h1, hp.1]
      rw [prun, hstep]
      simp only
      rw [ih (out ++ beBytes w (m.int f)) hp.2 hfs (by simp [beBytes_length]; omega)]
      simp [chunks, chunk]
    | bytes f l d =>
      simp only [packable] at hp
      simp only [pOk] at hfld
      have hc := cInt_small hfld.1
      have htl : ((m.bytesOf f d).take (m.int l)).length = m.int l := by
        simp [List.length_take]; omega
      simp only [chunks, chunk, List.length_append, htl] at hlen
      by_cases h0 : m.int l = 0
      · have hstep : pstep dstlen m out (.bytes f l d) = (.ok, out) := by
          have hc0 : cInt (m.int l) = 0 := by rw [hc]; omega
          simp [pstep, hc0]
        rw [prun, hstep]
        simp only
        rw [ih out hp hfs (by omega)]
        simp [chunks, chunk, h0]
      · have hstep : pstep dstlen m out (.bytes f l d) = (.ok, out ++ (m.bytesOf f d).take (m.int l)) := by
          have h2 : ¬ ((out.length : Int) + (m.int l : Int) > dstlen) := by omega
          have h3 : ¬ ((m.int l : Int) < 0) := by omega
          have h4 : ¬ ((m.int l : Int) = 0) := by omega
          simp only [pstep, hc, if_neg h3, if_neg h4, if_neg h2, Int.toNat_natCast]
        rw [prun, hstep]
        simp only
        rw [ih _ hp hfs (by simp [htl]; omega)]
        simp [chunks, chunk]
    | guard l c k =>
      simp only [packable] at hp
      simp only [pOk] at hfld
      have hstep : pstep dstlen m out (.guard l c k) = (.ok, out) := by simp [pstep, hfld]
      simp only [chunks, chunk, List.nil_append] at hlen
      rw [prun, hstep]
      simp only
      rw [ih out hp hfs hlen]
      simp [chunks, chunk]
    | alloc f l => simp [packable] at hp
    | var l => simp [packable] at hp

theorem chunks_length' (m : Wire.Msg) : ∀ (P : List Fld), packable P = true → (∀ fld ∈ P, pOk m fld) →
    (chunks m P).length = shapeSum m (P.filterMap lenShape) := by
  intro P
  induction P with
  | nil => intro _ _; rfl
  | cons fld fs ih =>
    intro hp hok
    have hfld := hok fld List.mem_cons_self
    have hok' : ∀ f ∈ fs, pOk m f := fun f hf => hok f (List.mem_cons_of_mem _ hf)
    cases fld with
    | int f w =>
      simp only [packable, Bool.and_eq_true] at hp
      simp [chunks, chunk, lenShape, shapeSum, beBytes_length, ih hp.2 hok']
    | bytes f l d =>
      simp only [packable] at hp
      simp only [pOk] at hfld
      simp [chunks, chunk, lenShape, shapeSum, ih hp hok', List.length_take]; omega
    | guard l c k =>
      simp only [packable] at hp
      simp [chunks, chunk, lenShape, List.filterMap_cons, ih hp hok']
    | alloc f l => simp [packable] at hp
    | var l => simp [packable] at hp

/-- `m_msg_send (m, t, 0)` of a message whose links are all satisfiable and whose size `N` is a
    positive `int`: succeeds, and writes the packed header followed by the packed body -/
theorem send_ok (mok : Nat → Bool) (hmok : ∀ n, mok n = true) (w : Wire.Msg) (t : Nat) (L P H : List Fld)
    (hL : lookup lengthTable t = some L) (hP : lookup packTable t = some P)
    (hH : lookup packTable MUNGE_MSG_HDR = some H)
    (hLL : lengthList L = true) (hPk : packable P = true) (hHk : packable H = true)
    (hshape : L.filterMap lenShape = P.filterMap lenShape)
    (N : Nat) (hN : shapeSum w (P.filterMap lenShape) = N) (hpos : 0 < N) (hsz : N < 2147483648)
    (w' : Wire.Msg) (hw' : w' = withLocals ((w.setInt "pkt_len" N).setInt "type" t))
    (hPok : ∀ fld ∈ P, pOk w' fld) (hHok : ∀ fld ∈ H, pOk w' fld)
    (hN' : shapeSum w' (P.filterMap lenShape) = N) (hHlen : (chunks w' H).length ≤ HDR_SIZE) :
    length t w = (N : Int) ∧
    pack t ((w.setInt "pkt_len" N).setInt "type" t) (N : Int) =
      (EMUNGE_SUCCESS, (w.setInt "pkt_len" N).setInt "type" t, chunks w' P) ∧
    pack MUNGE_MSG_HDR ((w.setInt "pkt_len" N).setInt "type" t) (HDR_SIZE : Int) =
      (EMUNGE_SUCCESS, (w.setInt "pkt_len" N).setInt "type" t, chunks w' H) ∧
    send mok w t 0 = (EMUNGE_SUCCESS, (w.setInt "pkt_len" N).setInt "type" t, chunks w' H ++ chunks w' P) := by
  have hlen : length t w = (N : Int) := by
    unfold length
    rw [hL]
    simp only
    rw [lengthRun_eq w L 0 hLL (Int.le_refl 0) (by rw [hshape, hN]; omega), hshape, hN]
    omega
  have hpack : pack t ((w.setInt "pkt_len" N).setInt "type" t) (N : Int) =
      (packOk, (w.setInt "pkt_len" N).setInt "type" t, chunks w' P) := by
    unfold pack
    rw [hP]
    simp only
    rw [← hw', prun_ok' (N : Int) w' P [] hPk hPok (by
      rw [chunks_length' w' P hPk hPok, hN']; simp)]
    simp
  have hpackH : pack MUNGE_MSG_HDR ((w.setInt "pkt_len" N).setInt "type" t) (HDR_SIZE : Int) =
      (packOk, (w.setInt "pkt_len" N).setInt "type" t, chunks w' H) := by
    unfold pack
    rw [hH]
    simp only
    rw [← hw', prun_ok' (HDR_SIZE : Int) w' H [] hHk hHok (by simp; omega)]
    simp
  refine ⟨hlen, hpack, hpackH, ?_⟩
  unfold send
  simp only [hlen, Int.toNat_natCast, hmok, hpack, hpackH]
  have h1 : Cmp.evalInt sendLenTest.1 (N : Int) (sendLenTest.2 : Int) = false := by
    simp [sendLenTest, Cmp.evalInt]; omega
  have h2 : ¬ sendGate 0 (((w.setInt "pkt_len" N).setInt "type" t).int "pkt_len" : Int) := by
    simp [sendGate]
  simp [h1, h2, packOk, EMUNGE_SUCCESS]

/-! ### the replies -/

def hdrP : List Fld :=
  [.int "local.magic" 4, .int "local.version" 1, .int "type" 1, .int "retry" 1, .int "pkt_len" 4]
def encRspL : List Fld :=
  [.int "error_num" 1, .int "error_len" 1, .var "error_len", .int "data_len" 4, .var "data_len"]
def encRspP : List Fld :=
  [.int "error_num" 1, .int "error_len" 1, .bytes "error_str" "error_len" .heap, .int "data_len" 4,
   .bytes "data" "data_len" .heap]

theorem hdr_pack_lookup : lookup packTable MUNGE_MSG_HDR = some hdrP := by decide
theorem encRsp_length_lookup : lookup lengthTable 3 = some encRspL := by decide
theorem encRsp_pack_lookup : lookup packTable 3 = some encRspP := by decide

/-- the error string as it sits behind `m->error_str` -/
def errBytes (m : Cred.Msg) : Bytes := if m.errorNum = 0 then [] else Cred.strBytes m.errorStr ++ [0]

theorem errLen_le (m : Cred.Msg) : errLen m ≤ (errBytes m).length := by
  unfold errLen errBytes
  split
  · simp
  · simp only [List.length_append, List.length_singleton]
    exact Nat.mod_le _ _

theorem errLen_lt (m : Cred.Msg) : errLen m < 256 := by
  unfold errLen
  split
  · omega
  · exact Nat.mod_lt _ (by omega)

theorem errWire_eq (m : Cred.Msg) : Cred.errWire m = [UInt8.ofNat (errLen m)] ++ (errBytes m).take (errLen m) := by
  unfold Cred.errWire errLen errBytes
  split
  · simp
  · simp

theorem wireOf_errBytes (m : Cred.Msg) : (wireOf m).bytesOf "error_str" .heap = errBytes m := by
  unfold errBytes
  by_cases h : m.errorNum = 0 <;> simp [Msg.bytesOf, wireOf, h]

/-- the message `m_msg_send` packs: `pkt_len` and `type` set, header locals initialised -/
def sendMsg (m : Cred.Msg) (t N : Nat) : Wire.Msg := withLocals (((wireOf m).setInt "pkt_len" N).setInt "type" t)

theorem sendMsg_int (m : Cred.Msg) (t N : Nat) (k : String) : (sendMsg m t N).int k =
    if k = "local.version" then 4 else if k = "local.magic" then 6319435 else if k = "type" then t
    else if k = "pkt_len" then N else (wireOf m).int k := rfl

theorem sendMsg_bytesOf (m : Cred.Msg) (t N : Nat) (f : String) (d : Dest) :
    (sendMsg m t N).bytesOf f d = (wireOf m).bytesOf f d := by
  cases d <;> rfl

theorem wireOf_data (m : Cred.Msg) : (wireOf m).bytesOf "data" .heap = m.data := by
  simp [Msg.bytesOf, wireOf]
theorem wireOf_realm (m : Cred.Msg) : (wireOf m).bytesOf "realm_str" .heap = m.realm := by
  simp [Msg.bytesOf, wireOf]
theorem wireOf_addr (m : Cred.Msg) (c : Nat) : (wireOf m).bytesOf "addr" (.fixed c) = m.addr := by
  simp [Msg.bytesOf, wireOf]

theorem wireOf_type (m : Cred.Msg) : (wireOf m).int "type" = m.type := by simp [wireOf]
theorem wireOf_retry (m : Cred.Msg) : (wireOf m).int "retry" = m.retry := by simp [wireOf]
theorem wireOf_cipher (m : Cred.Msg) : (wireOf m).int "cipher" = m.cipher := by simp [wireOf]
theorem wireOf_mac (m : Cred.Msg) : (wireOf m).int "mac" = m.mac := by simp [wireOf]
theorem wireOf_zip (m : Cred.Msg) : (wireOf m).int "zip" = m.zip := by simp [wireOf]
theorem wireOf_realm_len (m : Cred.Msg) : (wireOf m).int "realm_len" = m.realmLen := by simp [wireOf]
theorem wireOf_ttl (m : Cred.Msg) : (wireOf m).int "ttl" = m.ttl := by simp [wireOf]
theorem wireOf_addr_len (m : Cred.Msg) : (wireOf m).int "addr_len" = m.addrLen := by simp [wireOf]
theorem wireOf_time0 (m : Cred.Msg) : (wireOf m).int "time0" = m.time0 := by simp [wireOf]
theorem wireOf_time1 (m : Cred.Msg) : (wireOf m).int "time1" = m.time1 := by simp [wireOf]
theorem wireOf_cred_uid (m : Cred.Msg) : (wireOf m).int "cred_uid" = m.credUid := by simp [wireOf]
theorem wireOf_cred_gid (m : Cred.Msg) : (wireOf m).int "cred_gid" = m.credGid := by simp [wireOf]
theorem wireOf_auth_uid (m : Cred.Msg) : (wireOf m).int "auth_uid" = m.authUid := by simp [wireOf]
theorem wireOf_auth_gid (m : Cred.Msg) : (wireOf m).int "auth_gid" = m.authGid := by simp [wireOf]
theorem wireOf_data_len (m : Cred.Msg) : (wireOf m).int "data_len" = m.dataLen := by simp [wireOf]
theorem wireOf_error_num (m : Cred.Msg) : (wireOf m).int "error_num" = m.errorNum := by simp [wireOf]
theorem wireOf_error_len (m : Cred.Msg) : (wireOf m).int "error_len" = errLen m := by simp [wireOf]

/-- size of the ENC_RSP body of a message -/
def encRspLen (m : Cred.Msg) : Nat := 6 + errLen m + m.dataLen

theorem encRsp_send (mok : Nat → Bool) (hmok : ∀ n, mok n = true) (m : Cred.Msg)
    (hd : m.dataLen ≤ m.data.length) (hsz : encRspLen m < 2147483648) :
    length 3 (wireOf m) = (encRspLen m : Int) ∧
    pack 3 (((wireOf m).setInt "pkt_len" (encRspLen m)).setInt "type" 3) (encRspLen m : Int) =
      (EMUNGE_SUCCESS, ((wireOf m).setInt "pkt_len" (encRspLen m)).setInt "type" 3,
        chunks (sendMsg m 3 (encRspLen m)) encRspP) ∧
    pack MUNGE_MSG_HDR (((wireOf m).setInt "pkt_len" (encRspLen m)).setInt "type" 3) (HDR_SIZE : Int) =
      (EMUNGE_SUCCESS, ((wireOf m).setInt "pkt_len" (encRspLen m)).setInt "type" 3,
        chunks (sendMsg m 3 (encRspLen m)) hdrP) ∧
    chunks (sendMsg m 3 (encRspLen m)) hdrP ++ chunks (sendMsg m 3 (encRspLen m)) encRspP = Cred.encRsp m ∧
    send mok (wireOf m) 3 0 =
      (EMUNGE_SUCCESS, ((wireOf m).setInt "pkt_len" (encRspLen m)).setInt "type" 3, Cred.encRsp m) := by
  unfold encRspLen at hsz ⊢
  have hel := errLen_le m
  have hbytes : chunks (sendMsg m 3 (6 + errLen m + m.dataLen)) hdrP ++
      chunks (sendMsg m 3 (6 + errLen m + m.dataLen)) encRspP = Cred.encRsp m := by
    simp only [chunks, chunk, hdrP, encRspP, sendMsg_int, sendMsg_bytesOf, wireOf_data, wireOf_errBytes]
    simp only [wireOf, beBytes1, beBytes4]
    have hbl : ([UInt8.ofNat m.errorNum] ++ Cred.errWire m ++ Cred.be32 m.dataLen ++ m.data.take m.dataLen).length =
        6 + errLen m + m.dataLen := by
      rw [errWire_eq]
      simp only [List.length_append, List.length_cons, List.length_nil, List.length_take, Cred.be32]
      omega
    unfold Cred.encRsp Cred.hdrBytes
    simp only [hbl]
    rw [errWire_eq]
    simp
  have e1 : shapeSum (wireOf m) (encRspP.filterMap lenShape) = 6 + errLen m + m.dataLen := by
    simp [shapeSum, lenShape, encRspP, wireOf]; omega
  have e2 : ∀ fld ∈ encRspP, pOk (sendMsg m 3 (6 + errLen m + m.dataLen)) fld := by
    intro fld hf
    simp only [encRspP, List.mem_cons, List.not_mem_nil, or_false] at hf
    rcases hf with rfl | rfl | rfl | rfl | rfl <;> simp only [pOk]
    · rw [sendMsg_bytesOf, wireOf_errBytes, sendMsg_int]
      simp [wireOf]
      exact ⟨by have := errLen_lt m; omega, hel⟩
    · rw [sendMsg_bytesOf, wireOf_data, sendMsg_int]
      simp [wireOf]
      exact ⟨by omega, hd⟩
  have e3 : ∀ fld ∈ hdrP, pOk (sendMsg m 3 (6 + errLen m + m.dataLen)) fld := by
    intro fld hf
    simp only [hdrP, List.mem_cons, List.not_mem_nil, or_false] at hf
    rcases hf with rfl | rfl | rfl | rfl | rfl <;> simp only [pOk]
  have e4 : shapeSum (sendMsg m 3 (6 + errLen m + m.dataLen)) (encRspP.filterMap lenShape) =
      6 + errLen m + m.dataLen := by
    simp [shapeSum, lenShape, encRspP, sendMsg_int, wireOf]; omega
  have e5 : (chunks (sendMsg m 3 (6 + errLen m + m.dataLen)) hdrP).length ≤ HDR_SIZE := by
    simp [chunks, chunk, hdrP, beBytes_length, HDR_SIZE]
  obtain ⟨k1, k2, k3, k4⟩ := send_ok mok hmok (wireOf m) 3 encRspL encRspP hdrP encRsp_length_lookup
    encRsp_pack_lookup hdr_pack_lookup (by decide) (by decide) (by decide) (by decide) (6 + errLen m + m.dataLen)
    e1 (by omega) hsz (sendMsg m 3 (6 + errLen m + m.dataLen)) rfl e2 e3 e4 e5
  exact ⟨k1, k2, k3, hbytes, by rw [← hbytes]; exact k4⟩

def decRspL : List Fld :=
  [.int "error_num" 1, .int "error_len" 1, .var "error_len", .int "cipher" 1, .int "mac" 1, .int "zip" 1,
   .int "realm_len" 1, .var "realm_len", .int "ttl" 4, .int "addr_len" 1, .var "addr_len", .int "time0" 4,
   .int "time1" 4, .int "cred_uid" 4, .int "cred_gid" 4, .int "auth_uid" 4, .int "auth_gid" 4,
   .int "data_len" 4, .var "data_len"]
def decRspP : List Fld :=
  [.int "error_num" 1, .int "error_len" 1, .bytes "error_str" "error_len" .heap, .int "cipher" 1, .int "mac" 1,
   .int "zip" 1, .int "realm_len" 1, .bytes "realm_str" "realm_len" .heap, .int "ttl" 4, .int "addr_len" 1,
   .bytes "addr" "addr_len" (.fixed 4), .int "time0" 4, .int "time1" 4, .int "cred_uid" 4, .int "cred_gid" 4,
   .int "auth_uid" 4, .int "auth_gid" 4, .int "data_len" 4, .bytes "data" "data_len" .heap]

theorem decRsp_length_lookup : lookup lengthTable 5 = some decRspL := by decide
theorem decRsp_pack_lookup : lookup packTable 5 = some decRspP := by decide

theorem decRsp_shape : decRspP.filterMap lenShape =
    [.inl 1, .inl 1, .inr "error_len", .inl 1, .inl 1, .inl 1, .inl 1, .inr "realm_len", .inl 4, .inl 1,
     .inr "addr_len", .inl 4, .inl 4, .inl 4, .inl 4, .inl 4, .inl 4, .inl 4, .inr "data_len"] := by decide

/-- size of the DEC_RSP body of a message -/
def decRspLen (m : Cred.Msg) : Nat := 39 + errLen m + m.realmLen + m.addrLen + m.dataLen

theorem decRsp_bytes (m : Cred.Msg)
    (hr : m.realmLen ≤ m.realm.length) (ha : m.addrLen ≤ m.addr.length) (hd : m.dataLen ≤ m.data.length) :
    chunks (sendMsg m 5 (decRspLen m)) hdrP ++ chunks (sendMsg m 5 (decRspLen m)) decRspP = Cred.decRsp m := by
  have hel := errLen_le m
  simp only [chunks, chunk, hdrP, decRspP, sendMsg_int, sendMsg_bytesOf, wireOf_data, wireOf_errBytes,
    wireOf_realm, wireOf_addr]
  simp only [String.reduceEq, if_false, if_true, beBytes1, beBytes4, wireOf_type, wireOf_retry, wireOf_cipher, wireOf_mac, wireOf_zip, wireOf_realm_len, wireOf_ttl, wireOf_addr_len, wireOf_time0, wireOf_time1, wireOf_cred_uid, wireOf_cred_gid, wireOf_auth_uid, wireOf_auth_gid, wireOf_data_len, wireOf_error_num, wireOf_error_len]
  have hbl : ([UInt8.ofNat m.errorNum] ++ Cred.errWire m ++
      [UInt8.ofNat m.cipher, UInt8.ofNat m.mac, UInt8.ofNat m.zip, UInt8.ofNat m.realmLen] ++
      m.realm.take m.realmLen ++ Cred.be32 m.ttl ++ [UInt8.ofNat m.addrLen] ++ m.addr.take m.addrLen ++
      Cred.be32 m.time0 ++ Cred.be32 m.time1 ++ Cred.be32 m.credUid ++ Cred.be32 m.credGid ++
      Cred.be32 m.authUid ++ Cred.be32 m.authGid ++ Cred.be32 m.dataLen ++ m.data.take m.dataLen).length =
      decRspLen m := by
    rw [errWire_eq]
    simp only [List.length_append, List.length_cons, List.length_nil, List.length_take, Cred.be32, decRspLen]
    omega
  unfold Cred.decRsp Cred.hdrBytes
  simp only [hbl]
  rw [errWire_eq]
  simp

theorem decRsp_pOk (m : Cred.Msg) (N : Nat)
    (hr : m.realmLen ≤ m.realm.length) (ha : m.addrLen ≤ m.addr.length) (hd : m.dataLen ≤ m.data.length)
    (hsz : decRspLen m < 2147483648) : ∀ fld ∈ decRspP, pOk (sendMsg m 5 N) fld := by
  have hel := errLen_le m
  intro fld hf
  simp only [decRspP, List.mem_cons, List.not_mem_nil, or_false] at hf
  unfold decRspLen at hsz
  rcases hf with rfl | rfl | rfl | rfl | rfl | rfl | rfl | rfl | rfl | rfl | rfl | rfl | rfl | rfl | rfl | rfl |
    rfl | rfl | rfl <;> simp only [pOk]
  · rw [sendMsg_bytesOf, wireOf_errBytes, sendMsg_int]
    simp only [String.reduceEq, if_false, wireOf_error_len]
    exact ⟨by omega, hel⟩
  · rw [sendMsg_bytesOf, wireOf_realm, sendMsg_int]
    simp only [String.reduceEq, if_false, wireOf_realm_len]
    exact ⟨by omega, hr⟩
  · rw [sendMsg_bytesOf, wireOf_addr, sendMsg_int]
    simp only [String.reduceEq, if_false, wireOf_addr_len]
    exact ⟨by omega, ha⟩
  · rw [sendMsg_bytesOf, wireOf_data, sendMsg_int]
    simp only [String.reduceEq, if_false, wireOf_data_len]
    exact ⟨by omega, hd⟩

theorem hdrP_pOk (w : Wire.Msg) : ∀ fld ∈ hdrP, pOk w fld := by
  intro fld hf
  simp only [hdrP, List.mem_cons, List.not_mem_nil, or_false] at hf
  rcases hf with rfl | rfl | rfl | rfl | rfl <;> simp only [pOk]

theorem decRsp_sum (m : Cred.Msg) : shapeSum (wireOf m) (decRspP.filterMap lenShape) = decRspLen m := by
  simp only [decRsp_shape, shapeSum, decRspLen, wireOf_error_len, wireOf_realm_len, wireOf_addr_len,
    wireOf_data_len]
  omega

theorem decRsp_sum' (m : Cred.Msg) (N : Nat) :
    shapeSum (sendMsg m 5 N) (decRspP.filterMap lenShape) = decRspLen m := by
  simp only [decRsp_shape, shapeSum, decRspLen, sendMsg_int, String.reduceEq, if_false, wireOf_error_len,
    wireOf_realm_len, wireOf_addr_len, wireOf_data_len]
  omega

theorem decRsp_send (mok : Nat → Bool) (hmok : ∀ n, mok n = true) (m : Cred.Msg)
    (hr : m.realmLen ≤ m.realm.length) (ha : m.addrLen ≤ m.addr.length) (hd : m.dataLen ≤ m.data.length)
    (hsz : decRspLen m < 2147483648) :
    length 5 (wireOf m) = (decRspLen m : Int) ∧
    pack 5 (((wireOf m).setInt "pkt_len" (decRspLen m)).setInt "type" 5) (decRspLen m : Int) =
      (EMUNGE_SUCCESS, ((wireOf m).setInt "pkt_len" (decRspLen m)).setInt "type" 5,
        chunks (sendMsg m 5 (decRspLen m)) decRspP) ∧
    pack MUNGE_MSG_HDR (((wireOf m).setInt "pkt_len" (decRspLen m)).setInt "type" 5) (HDR_SIZE : Int) =
      (EMUNGE_SUCCESS, ((wireOf m).setInt "pkt_len" (decRspLen m)).setInt "type" 5,
        chunks (sendMsg m 5 (decRspLen m)) hdrP) ∧
    chunks (sendMsg m 5 (decRspLen m)) hdrP ++ chunks (sendMsg m 5 (decRspLen m)) decRspP = Cred.decRsp m ∧
    send mok (wireOf m) 5 0 =
      (EMUNGE_SUCCESS, ((wireOf m).setInt "pkt_len" (decRspLen m)).setInt "type" 5, Cred.decRsp m) := by
  have hbytes := decRsp_bytes m hr ha hd
  obtain ⟨k1, k2, k3, k4⟩ := send_ok mok hmok (wireOf m) 5 decRspL decRspP hdrP decRsp_length_lookup
    decRsp_pack_lookup hdr_pack_lookup (by decide) (by decide) (by decide) (by decide) (decRspLen m) (decRsp_sum m)
    (by unfold decRspLen; omega) hsz (sendMsg m 5 (decRspLen m)) rfl (decRsp_pOk m _ hr ha hd hsz) (hdrP_pOk _)
    (decRsp_sum' m _) (by simp [chunks, chunk, hdrP, beBytes_length, HDR_SIZE])
  exact ⟨k1, k2, k3, hbytes, by rw [← hbytes]; exact k4⟩

/-! ### members an unpack chain does not touch -/

theorem ustep_int_frame (mok : Nat → Bool) (src : Bytes) (srclen : Int) (f : String) (fld : Fld)
    (st st' : USt) (rc : Rc) (ht : isIntNamed f fld = false)
    (hr : ustep mok src srclen st fld = (rc, st')) : st'.m.int f = st.m.int f := by
  cases fld with
  | int g w =>
    simp only [isIntNamed, beq_eq_false_iff_ne, ne_eq] at ht
    have hne : ¬ f = g := fun h => ht h.symm
    simp only [ustep] at hr
    split at hr
    · simp only [Prod.mk.injEq] at hr; obtain ⟨_, rfl⟩ := hr; rfl
    · split at hr <;> (simp only [Prod.mk.injEq] at hr; obtain ⟨_, rfl⟩ := hr) <;> simp [Msg.setInt, hne]
  | alloc g l =>
    simp only [ustep] at hr
    split at hr
    · simp only [Prod.mk.injEq] at hr; obtain ⟨_, rfl⟩ := hr; rfl
    · split at hr
      · simp only [Prod.mk.injEq] at hr; obtain ⟨_, rfl⟩ := hr; rfl
      · split at hr <;> (simp only [Prod.mk.injEq] at hr; obtain ⟨_, rfl⟩ := hr) <;> rfl
  | bytes g l d =>
    simp only [ustep] at hr
    split at hr
    · simp only [Prod.mk.injEq] at hr; obtain ⟨_, rfl⟩ := hr; rfl
    · split at hr
      · simp only [Prod.mk.injEq] at hr; obtain ⟨_, rfl⟩ := hr; rfl
      · split at hr
        · simp only [Prod.mk.injEq] at hr; obtain ⟨_, rfl⟩ := hr; rfl
        · cases d <;> (simp only [Prod.mk.injEq] at hr; obtain ⟨_, rfl⟩ := hr) <;> rfl
  | guard l c k =>
    simp only [ustep] at hr
    split at hr <;> (simp only [Prod.mk.injEq] at hr; obtain ⟨_, rfl⟩ := hr) <;> rfl
  | var l =>
    simp only [ustep, Prod.mk.injEq] at hr; obtain ⟨_, rfl⟩ := hr; rfl

theorem urun_int_frame (mok : Nat → Bool) (src : Bytes) (srclen : Int) (f : String) :
    ∀ (fs : List Fld) (st st' : USt) (rc : Rc), fs.any (isIntNamed f) = false →
      urun mok src srclen fs st = (rc, st') → st'.m.int f = st.m.int f := by
  intro fs
  induction fs with
  | nil =>
    intro st st' rc _ hr
    simp only [urun, Prod.mk.injEq] at hr; obtain ⟨_, rfl⟩ := hr; rfl
  | cons fld fs ih =>
    intro st st' rc ht hr
    simp only [List.any_cons, Bool.or_eq_false_iff] at ht
    simp only [urun] at hr
    cases hu : ustep mok src srclen st fld with
    | mk rc1 st1 =>
      have h1 := ustep_int_frame mok src srclen f fld st st1 rc1 ht.1 hu
      rw [hu] at hr
      cases rc1 with
      | ok => exact (ih st1 st' rc ht.2 hr).trans h1
      | err => simp only [Prod.mk.injEq] at hr; obtain ⟨_, rfl⟩ := hr; exact h1
      | nomem => simp only [Prod.mk.injEq] at hr; obtain ⟨_, rfl⟩ := hr; exact h1

theorem setErr_int_frame (m : Wire.Msg) (e : Nat) (s : Option (List UInt8)) (f : String)
    (h1 : f ≠ "error_num") (h2 : f ≠ "error_len") : (Wire.setErr m e s).1.int f = m.int f := by
  unfold Wire.setErr
  split
  · simp [Msg.setInt, Msg.setBuf, h1, h2]
  · rfl

theorem lookup_entry {tab : List (Nat × List Fld)} {t : Nat} {fl : List Fld}
    (h : lookup tab t = some fl) : (t, fl) ∈ tab := by
  unfold lookup at h
  cases hf : tab.find? (fun e => e.1 == t) with
  | none => simp [hf] at h
  | some e =>
    simp only [hf, Option.map_some, Option.some.injEq] at h
    have hmem := List.mem_of_find?_eq_some hf
    have hkey : e.1 = t := by simpa using List.find?_some hf
    obtain ⟨a, b⟩ := e
    simp only at h hkey
    subst h; subst hkey
    exact hmem

/-- a member that no link of the chain of type `t` unpacks into is left alone by `_msg_unpack` -/
theorem unpack_int_frame (mok : Nat → Bool) (t : Nat) (f : String)
    (htab : unpackTable.all (fun e => !(e.1 == t) || !(e.2.any (isIntNamed f))) = true)
    (hpc : t ≠ postCheckType) (h1 : f ≠ "error_num") (h2 : f ≠ "error_len")
    (m : Wire.Msg) (src : Bytes) (srclen : Int) :
    (unpack mok t m src srclen).2.m.int f = m.int f := by
  unfold unpack
  cases hl : lookup unpackTable t with
  | none => exact setErr_int_frame _ _ _ _ h1 h2
  | some fl =>
    have hfl : fl.any (isIntNamed f) = false := by
      have := (List.all_eq_true.mp htab) _ (lookup_entry hl)
      simpa using this
    simp only
    cases hu : urun mok src srclen fl (USt.init m) with
    | mk rc st =>
      have hfr := urun_int_frame mok src srclen f fl _ st rc hfl hu
      cases rc with
      | ok => simp only [if_neg hpc]; exact hfr
      | err => exact (setErr_int_frame _ _ _ _ h1 h2).trans hfr
      | nomem => exact (setErr_int_frame _ _ _ _ h1 h2).trans hfr

/-- only the header chain unpacks into `m->type` -/
theorem unpack_type_frame (mok : Nat → Bool) (t : Nat) (ht : t ≠ 1) (m : Wire.Msg) (src : Bytes) (srclen : Int) :
    (unpack mok t m src srclen).2.m.int "type" = m.int "type" := by
  have htab : unpackTable.all (fun e => e.1 == 1 || !(e.2.any (isIntNamed "type"))) = true := by decide
  refine unpack_int_frame mok t "type" ?_ ht (by decide) (by decide) m src srclen
  refine List.all_eq_true.mpr (fun e he => ?_)
  have := (List.all_eq_true.mp htab) e he
  simp only [Bool.or_eq_true, beq_iff_eq, Bool.not_eq_true'] at this ⊢
  rcases this with h | h
  · left; simp [h]; exact fun h' => ht h'.symm
  · right; exact h

set_option maxRecDepth 100000 in
/-- the ENC_REQ and DEC_REQ chains leave the header's type and retry alone -/
theorem unpack_keeps_hdr (mok : Nat → Bool) (t : Nat) (ht : t = 2 ∨ t = 4) (m : Wire.Msg) (src : Bytes)
    (srclen : Int) :
    (unpack mok t m src srclen).2.m.int "type" = m.int "type" ∧
    (unpack mok t m src srclen).2.m.int "retry" = m.int "retry" := by
  refine ⟨unpack_type_frame mok t (by omega) m src srclen, ?_⟩
  rcases ht with rfl | rfl
  · exact unpack_int_frame mok 2 "retry" (by decide) (by decide) (by decide) (by decide) m src srclen
  · exact unpack_int_frame mok 4 "retry" (by decide) (by decide) (by decide) (by decide) m src srclen

/-! ### `m_msg_recv` in pieces -/

/-- `_msg_unpack (m, MUNGE_MSG_HDR, hdr, sizeof (hdr))` as `m_msg_recv` calls it on a fresh message -/
def wireHdr (mok : Nat → Bool) (req : Bytes) : Nat × USt :=
  unpack mok MUNGE_MSG_HDR Msg.fresh (req.take recvHdrLen) (recvHdrLen : Nat)

/-- the `pkt_len` bytes `m_msg_recv` reads after the header -/
def wireBody (mok : Nat → Bool) (req : Bytes) : Bytes :=
  (req.drop recvHdrLen).take ((wireHdr mok req).2.m.int "pkt_len")

/-- the request gets as far as the body unpack of `m_msg_recv (m, MUNGE_MSG_UNDEF, MUNGE_MAXIMUM_REQ_LEN)`:
    complete header, header unpack succeeds, length gate passed, complete body -/
def HdrPass (mok : Nat → Bool) (req : Bytes) : Prop :=
  (req.take recvHdrLen).length = recvHdrLen ∧ (wireHdr mok req).1 = EMUNGE_SUCCESS ∧
  ¬ recvGate (MAXIMUM_REQ_LEN : Nat) ((wireHdr mok req).2.m.int "pkt_len" : Nat) ∧
  (wireBody mok req).length = (wireHdr mok req).2.m.int "pkt_len"

/-- `_msg_unpack (m, m->type, m->pkt, m->pkt_len)` as `m_msg_recv` calls it after the header -/
def wireBodyUnpack (mok : Nat → Bool) (req : Bytes) : Nat × USt :=
  unpack mok ((wireHdr mok req).2.m.int "type") (wireHdr mok req).2.m (wireBody mok req)
    (cInt ((wireHdr mok req).2.m.int "pkt_len"))

theorem take_hdr_len (req : Bytes) : (req.take recvHdrLen).length = recvHdrLen ↔ 11 ≤ req.length := by
  simp only [List.length_take, recvHdrLen]; omega

theorem wireHdr_eq (mok : Nat → Bool) (req : Bytes) (h : 11 ≤ req.length) :
    wireHdr mok req = unpack mok 1 Msg.fresh (req.take 11) ((req.take 11).length : Int) := by
  have : (req.take 11).length = 11 := by simp only [List.length_take]; omega
  unfold wireHdr
  rw [this]
  rfl

theorem wireHdr_ok_iff (mok : Nat → Bool) (req : Bytes) (h : 11 ≤ req.length) :
    (wireHdr mok req).1 = EMUNGE_SUCCESS ↔ hMagic req = MAGIC ∧ hVer req = VERSION := by
  obtain ⟨f1, f2, _, _, _⟩ := hfields_take req h
  rw [wireHdr_eq mok req h, (unpack_hdr mok Msg.fresh (req.take 11) (by simp only [List.length_take]; omega)).1, f1, f2]

theorem wireHdr_msg (mok : Nat → Bool) (req : Bytes) (h : 11 ≤ req.length)
    (hok : (wireHdr mok req).1 = EMUNGE_SUCCESS) :
    (wireHdr mok req).2.m = hdrMsg (hMagic req) (hVer req) (hType req) (hRetry req) (hLen req) := by
  obtain ⟨f1, f2, f3, f4, f5⟩ := hfields_take req h
  rw [wireHdr_eq mok req h] at hok ⊢
  rw [(unpack_hdr mok Msg.fresh (req.take 11) (by simp only [List.length_take]; omega)).2 hok, f1, f2, f3, f4, f5]
  rfl

theorem hdrMsg_ints (mg ver t r n : Nat) :
    (hdrMsg mg ver t r n).int "type" = t ∧ (hdrMsg mg ver t r n).int "retry" = r ∧
    (hdrMsg mg ver t r n).int "pkt_len" = n ∧ (hdrMsg mg ver t r n).int "local.magic" = mg ∧
    (hdrMsg mg ver t r n).int "local.version" = ver := by
  simp [hdrMsg, Msg.setInt]

theorem gate_iff (n : Nat) :
    recvGate (MAXIMUM_REQ_LEN : Nat) (n : Nat) ↔ (n : Int) > Munge.Gen.Dec.MUNGE_MAXIMUM_REQ_LEN := by
  simp only [recvGate, MAXIMUM_REQ_LEN, Munge.Gen.Dec.MUNGE_MAXIMUM_REQ_LEN, wrapU32]
  omega

/-- `HdrPass` in the credential model's terms -/
theorem hdrPass_iff (mok : Nat → Bool) (req : Bytes) :
    HdrPass mok req ↔ 11 ≤ req.length ∧ hMagic req = MAGIC ∧ hVer req = VERSION ∧
      ¬ ((hLen req : Int) > Munge.Gen.Dec.MUNGE_MAXIMUM_REQ_LEN) ∧
      ((req.drop 11).take (hLen req)).length = hLen req := by
  unfold HdrPass
  rw [take_hdr_len]
  constructor
  · rintro ⟨h11, hok, hg, hb⟩
    have hm := wireHdr_msg mok req h11 hok
    have hn : (wireHdr mok req).2.m.int "pkt_len" = hLen req := by rw [hm]; exact (hdrMsg_ints _ _ _ _ _).2.2.1
    unfold wireBody at hb
    rw [hn] at hg hb
    exact ⟨h11, ((wireHdr_ok_iff mok req h11).mp hok).1, ((wireHdr_ok_iff mok req h11).mp hok).2,
      fun h => hg ((gate_iff _).mpr h), hb⟩
  · rintro ⟨h11, hmg, hv, hg, hb⟩
    have hok := (wireHdr_ok_iff mok req h11).mpr ⟨hmg, hv⟩
    have hm := wireHdr_msg mok req h11 hok
    have hn : (wireHdr mok req).2.m.int "pkt_len" = hLen req := by rw [hm]; exact (hdrMsg_ints _ _ _ _ _).2.2.1
    unfold wireBody
    rw [hn]
    exact ⟨h11, hok, fun h => hg ((gate_iff _).mp h), hb⟩

/-- past the header, `Cred.recvMsg` dispatches on the type byte -/
theorem recvMsg_of_pass (mok : Nat → Bool) (req : Bytes) (hp : HdrPass mok req) :
    Cred.recvMsg req =
      if hType req = 2 then encBody (hRetry req) (wireBody mok req)
      else if hType req = 4 then decBody (hRetry req) (wireBody mok req)
      else if hType req = 1 then Cred.recvHdrBody (wireBody mok req)
      else .drop "type" := by
  have hp' := (hdrPass_iff mok req).mp hp
  obtain ⟨h11, hmg, hv, hg, hb⟩ := hp'
  have hm := wireHdr_msg mok req h11 hp.2.1
  have hn : (wireHdr mok req).2.m.int "pkt_len" = hLen req := by rw [hm]; exact (hdrMsg_ints _ _ _ _ _).2.2.1
  have hbody : wireBody mok req = (req.drop 11).take (hLen req) := by unfold wireBody; rw [hn]; rfl
  rw [recvMsg_eq, if_neg (by omega), if_neg (by rw [hmg]; decide), if_neg (by rw [hv]; decide), if_neg hg,
    if_neg (by omega), hbody]

/-- past the header, the body unpack of `m_msg_recv` in the credential model's terms -/
theorem wireBodyUnpack_of_pass (mok : Nat → Bool) (req : Bytes) (hp : HdrPass mok req) :
    wireBodyUnpack mok req =
      unpack mok (hType req) (hdrMsg (hMagic req) (hVer req) (hType req) (hRetry req) (hLen req))
        (wireBody mok req) ((wireBody mok req).length : Int) := by
  have hp' := (hdrPass_iff mok req).mp hp
  obtain ⟨h11, hmg, hv, hg, hb⟩ := hp'
  have hm := wireHdr_msg mok req h11 hp.2.1
  have hi := hdrMsg_ints (hMagic req) (hVer req) (hType req) (hRetry req) (hLen req)
  have hn : (wireHdr mok req).2.m.int "pkt_len" = hLen req := by rw [hm]; exact hi.2.2.1
  have hlen : (wireBody mok req).length = hLen req := by rw [← hn]; exact hp.2.2.2
  have hsmall : hLen req < 2147483648 := by
    simp only [Munge.Gen.Dec.MUNGE_MAXIMUM_REQ_LEN] at hg; omega
  unfold wireBodyUnpack
  rw [hm, hi.1, hi.2.2.1, cInt_small hsmall, hlen]

/-- `m_msg_recv (m, MUNGE_MSG_UNDEF, MUNGE_MAXIMUM_REQ_LEN)` on a fresh message, from its pieces -/
theorem recv_pieces (mok : Nat → Bool) (hmok : ∀ n, mok n = true) (req : Bytes) :
    (¬ HdrPass mok req → (recv mok Msg.fresh MUNGE_MSG_UNDEF (MAXIMUM_REQ_LEN : Nat) req).rc ≠ EMUNGE_SUCCESS) ∧
    (HdrPass mok req → (wireBodyUnpack mok req).1 ≠ EMUNGE_SUCCESS →
      (recv mok Msg.fresh MUNGE_MSG_UNDEF (MAXIMUM_REQ_LEN : Nat) req).rc ≠ EMUNGE_SUCCESS) ∧
    (HdrPass mok req → (wireBodyUnpack mok req).1 = EMUNGE_SUCCESS →
      (recv mok Msg.fresh MUNGE_MSG_UNDEF (MAXIMUM_REQ_LEN : Nat) req).rc = EMUNGE_SUCCESS ∧
      (recv mok Msg.fresh MUNGE_MSG_UNDEF (MAXIMUM_REQ_LEN : Nat) req).m =
        (wireBodyUnpack mok req).2.m.setInt "pkt_len" 0) := by
  unfold HdrPass wireBodyUnpack wireBody wireHdr recv
  simp only []
  generalize List.take recvHdrLen req = hdr
  generalize unpack mok MUNGE_MSG_HDR Msg.fresh hdr (recvHdrLen : Nat) = H
  generalize H.2.m.int "pkt_len" = n
  generalize List.take n (List.drop recvHdrLen req) = body
  generalize unpack mok (H.2.m.int "type") H.2.m body (cInt n) = B
  have c1 : (chainExit "short_hdr").2 ≠ EMUNGE_SUCCESS := by decide
  have c2 : (chainExit "unpack_hdr").2 ≠ EMUNGE_SUCCESS := by decide
  have c3 : (chainExit "gate").2 ≠ EMUNGE_SUCCESS := by decide
  have c4 : (chainExit "short_body").2 ≠ EMUNGE_SUCCESS := by decide
  have c5 : (chainExit "unpack_body").2 ≠ EMUNGE_SUCCESS := by decide
  have c6 : recvOk = EMUNGE_SUCCESS := by decide
  have hmk : ¬ ((!mok n) = true) := by simp [hmok]
  by_cases h1 : hdr.length = recvHdrLen
  · by_cases h2 : H.1 = EMUNGE_SUCCESS
    · by_cases h3 : recvGate (MAXIMUM_REQ_LEN : Nat) (n : Nat)
      · simp [h1, h2, h3, c3]
      · by_cases h4 : body.length = n
        · by_cases h5 : B.1 = EMUNGE_SUCCESS
          · simp [h1, h2, h3, h4, h5, hmk, c6]
          · simp [h1, h2, h3, h4, h5, hmk, c5]
        · simp [h1, h2, h3, h4, hmk, c4]
    · simp [h1, h2, c2]
  · simp [h1, c1]

/-- a request whose header says MUNGE_MSG_HDR: the body is unpacked with the header chain, which
    overwrites `type` and `retry`; both models then dispatch on the second type -/
theorem unpack_hdrbody (mok : Nat → Bool) (mg ver r n : Nat) (body : Bytes) :
    ((unpack mok 1 (hdrMsg mg ver 1 r n) body (body.length : Int)).1 ≠ EMUNGE_SUCCESS ∧
      ∃ why, Cred.recvHdrBody body = .drop why) ∨
    ((unpack mok 1 (hdrMsg mg ver 1 r n) body (body.length : Int)).1 = EMUNGE_SUCCESS ∧
      (unpack mok 1 (hdrMsg mg ver 1 r n) body (body.length : Int)).2.m.int "type" = hType body ∧
      ((hType body = 2 ∧
          Cred.recvHdrBody body = .enc (reqOf (unpack mok 1 (hdrMsg mg ver 1 r n) body (body.length : Int)).2.m)) ∨
       (hType body = 4 ∧
          Cred.recvHdrBody body = .dec (reqOf (unpack mok 1 (hdrMsg mg ver 1 r n) body (body.length : Int)).2.m)) ∨
       (hType body ≠ 2 ∧ hType body ≠ 4 ∧ Cred.recvHdrBody body = .drop "type"))) := by
  have hR : Cred.recvHdrBody body =
      if body.length < 11 then .drop "unpack" else
      if hMagic body ≠ 6319435 then .drop "magic" else
      if hVer body ≠ 4 then .drop "version" else
      if hType body = 2 then .enc { type := 2, retry := hRetry body }
      else if hType body = 4 then .dec { type := 4, retry := hRetry body }
      else .drop "type" := rfl
  by_cases h11 : 11 ≤ body.length
  · obtain ⟨hiff, hmsg⟩ := unpack_hdr mok (hdrMsg mg ver 1 r n) body h11
    by_cases hok : (unpack mok 1 (hdrMsg mg ver 1 r n) body (body.length : Int)).1 = EMUNGE_SUCCESS
    · right
      obtain ⟨hmg, hv⟩ := hiff.mp hok
      have hm := hmsg hok
      have hreq : reqOf (hdrOn (hdrMsg mg ver 1 r n) (hMagic body) (hVer body) (hType body) (hRetry body) (hLen body)) =
          { type := hType body, retry := hRetry body } := by
        simp [reqOf, hdrOn, hdrMsg, Msg.setInt, fresh_int, fresh_buf, fresh_addr, Msg.bytesOf]
      refine ⟨hok, by rw [hm]; simp [hdrOn, Msg.setInt], ?_⟩
      rw [hm, hreq, hR, if_neg (by omega), if_neg (by rw [hmg]; decide), if_neg (by rw [hv]; decide)]
      by_cases h2 : hType body = 2
      · left; rw [if_pos h2, h2]; exact ⟨rfl, rfl⟩
      · by_cases h4 : hType body = 4
        · right; left; rw [if_neg h2, if_pos h4, h4]; exact ⟨rfl, rfl⟩
        · right; right; rw [if_neg h2, if_neg h4]; exact ⟨h2, h4, rfl⟩
    · left
      refine ⟨hok, ?_⟩
      have hbad : ¬ (hMagic body = MAGIC ∧ hVer body = VERSION) := fun h => hok (hiff.mpr h)
      rw [hR, if_neg (by omega)]
      by_cases hmg : hMagic body ≠ 6319435
      · exact ⟨_, by rw [if_pos hmg]⟩
      · rw [if_neg hmg]
        have hv : hVer body ≠ 4 := fun hv => hbad ⟨Decidable.not_not.mp hmg, hv⟩
        exact ⟨_, by rw [if_pos hv]⟩
  · left
    exact ⟨unpack_hdr_short mok _ body (by omega), ⟨_, by rw [hR, if_pos (by omega)]⟩⟩

/-- a request that does not reach the body unpack is dropped by the credential model -/
theorem recvMsg_not_pass (mok : Nat → Bool) (req : Bytes) (hp : ¬ HdrPass mok req) :
    ∃ why, Cred.recvMsg req = .drop why := by
  rw [hdrPass_iff] at hp
  rw [recvMsg_eq]
  by_cases h1 : req.length < 11
  · exact ⟨_, by rw [if_pos h1]⟩
  rw [if_neg h1]
  by_cases h2 : hMagic req ≠ 6319435
  · exact ⟨_, by rw [if_pos h2]⟩
  rw [if_neg h2]
  by_cases h3 : hVer req ≠ 4
  · exact ⟨_, by rw [if_pos h3]⟩
  rw [if_neg h3]
  by_cases h4 : (hLen req : Int) > Munge.Gen.Dec.MUNGE_MAXIMUM_REQ_LEN
  · exact ⟨_, by rw [if_pos h4]⟩
  rw [if_neg h4]
  by_cases h5 : ((req.drop 11).take (hLen req)).length < hLen req
  · exact ⟨_, by rw [if_pos h5]⟩
  exfalso
  apply hp
  have hle : ((req.drop 11).take (hLen req)).length ≤ hLen req := by
    simp only [List.length_take]; omega
  exact ⟨by omega, Decidable.not_not.mp h2, Decidable.not_not.mp h3, h4, by omega⟩

theorem reqOf_setInt_pkt_len (m : Wire.Msg) (v : Nat) : reqOf (m.setInt "pkt_len" v) = reqOf m := by
  simp [reqOf, Msg.setInt, Msg.bytesOf]

end Munge.WireCred

/-! ### what the request path guarantees about the lengths of a reply message -/
namespace Munge.WireCred
open Munge.Cred Munge.Cred.C Munge.Gen.Dec Munge.C

/-- every declared length of a variable-length member is covered by the member -/
def LenOk (m : Cred.Msg) : Prop :=
  m.realmLen ≤ m.realm.length ∧ m.addrLen ≤ m.addr.length ∧ m.dataLen ≤ m.data.length

theorem lenOk_reset (m : Cred.Msg) : LenOk (Cred.reset m) := by
  simp [LenOk, Cred.reset]

theorem lenOk_setErr (m : Cred.Msg) (e : Int) (s : Option String) (h : LenOk m) : LenOk (Cred.setErr m e s) := by
  unfold Cred.setErr
  split
  · exact h
  · exact h

theorem unpackOuter_realm (P : Prims) (m : Cred.Msg) (buf : Bytes) :
    (unpackOuter P m buf).sat (fun r => r.1.realmLen ≤ r.1.realm.length) := by
  unfold unpackOuter
  refine ite_sat (fun _ => sat_mk_err (by pos_code)) (fun h0 => ?_)
  rw [byteAt_some (by omega)]; simp only []
  refine ite_sat (fun _ => sat_mk_err (by pos_code)) (fun _ => ?_)
  refine ite_sat (fun _ => sat_mk_err (by pos_code)) (fun h1 => ?_)
  rw [byteAt_some (by omega)]; simp only []
  refine ite_sat (fun _ => sat_mk_err (by pos_code)) (fun _ => ?_)
  refine ite_sat (fun _ => sat_mk_err (by pos_code)) (fun hiv => ?_)
  refine ite_sat (fun _ => sat_mk_err (by pos_code)) (fun h2 => ?_)
  rw [byteAt_some (by omega)]; simp only []
  refine ite_sat (fun _ => sat_mk_err (by pos_code)) (fun _ => ?_)
  refine ite_sat (fun _ => sat_mk_err (by pos_code)) (fun hml => ?_)
  refine ite_sat (fun _ => sat_mk_err (by pos_code)) (fun _ => ?_)
  refine ite_sat (fun _ => sat_mk_err (by pos_code)) (fun h3 => ?_)
  rw [byteAt_some (by omega)]; simp only []
  refine ite_sat (fun _ => sat_mk_err (by pos_code)) (fun _ => ?_)
  refine ite_sat (fun _ => sat_mk_err (by pos_code)) (fun h4 => ?_)
  rw [byteAt_some (by omega)]; simp only []
  refine ite_sat (fun _ => sat_mk_err (by pos_code)) (fun hr => ?_)
  rw [takeN_some (by omega)]; simp only []
  refine ite_sat (fun _ => sat_mk_err (by pos_code)) (fun hi => ?_)
  rw [takeN_some (by omega)]; simp only []
  refine ite_sat (fun _ => sat_mk_err (by pos_code)) (fun hm => ?_)
  rw [takeN_some (by omega)]; simp only []
  show _ ≤ _
  split
  · simp only [List.length_append, List.length_take, List.length_singleton]
    omega
  · simp only []
    omega

/-- what `dec_unpack_inner` leaves alone (the realm) and what it guarantees about its own fields -/
theorem unpackInner_lens (m : Cred.Msg) (buf : Bytes) :
    (unpackInner m buf).sat (fun r => r.realm = m.realm ∧ r.realmLen = m.realmLen ∧
      r.addrLen ≤ r.addr.length ∧ r.dataLen ≤ r.data.length) := by
  unfold unpackInner
  simp only []
  refine ite_sat (fun _ => sat_mk_err (by pos_code)) (fun h0 => ?_)
  rw [takeN_some (by omega)]; simp only []
  refine ite_sat (fun _ => sat_mk_err (by pos_code)) (fun h1 => ?_)
  rw [byteAt_some (by omega)]; simp only []
  refine ite_sat (fun _ => sat_mk_err (by pos_code)) (fun h2 => ?_)
  refine ite_sat (fun _ => sat_mk_err (by pos_code)) (fun h3 => ?_)
  rw [takeN_some (by omega)]; simp only []
  generalize h : take32 _ "Truncated encode time" = t
  rcases t with ⟨v, r⟩ | e | _
  rotate_left
  · exact sat_mk_err (take32_err h)
  · exact absurd h (take32_ne_oob _ _)
  have l1 := take32_len h
  simp only [List.length_drop] at l1
  clear h
  simp only []
  generalize h : take32 _ "Truncated time-to-live" = t
  rcases t with ⟨v, r⟩ | e | _
  rotate_left
  · exact sat_mk_err (take32_err h)
  · exact absurd h (take32_ne_oob _ _)
  have l2 := take32_len h
  clear h
  simp only []
  generalize h : take32 _ "Truncated UID" = t
  rcases t with ⟨v, r⟩ | e | _
  rotate_left
  · exact sat_mk_err (take32_err h)
  · exact absurd h (take32_ne_oob _ _)
  have l3 := take32_len h
  clear h
  simp only []
  generalize h : take32 _ "Truncated GID" = t
  rcases t with ⟨v, r⟩ | e | _
  rotate_left
  · exact sat_mk_err (take32_err h)
  · exact absurd h (take32_ne_oob _ _)
  have l4 := take32_len h
  clear h
  simp only []
  generalize h : take32 _ "Truncated UID restriction" = t
  rcases t with ⟨v, r⟩ | e | _
  rotate_left
  · exact sat_mk_err (take32_err h)
  · exact absurd h (take32_ne_oob _ _)
  have l5 := take32_len h
  clear h
  simp only []
  generalize h : take32 _ "Truncated GID restriction" = t
  rcases t with ⟨v, r⟩ | e | _
  rotate_left
  · exact sat_mk_err (take32_err h)
  · exact absurd h (take32_ne_oob _ _)
  have l6 := take32_len h
  clear h
  simp only []
  generalize h : take32 _ "Truncated data length" = t
  rcases t with ⟨v, r⟩ | e | _
  rotate_left
  · exact sat_mk_err (take32_err h)
  · exact absurd h (take32_ne_oob _ _)
  have l7 := take32_len h
  clear h
  simp only []
  refine ite_sat (fun _ => sat_mk_err (by pos_code)) (fun hd => ?_)
  rw [takeN_some (by omega)]; simp only []
  show _ ∧ _ ∧ _ ∧ _
  refine ⟨rfl, rfl, ?_, ?_⟩
  · simp only []
    split
    · simp only [List.length_take]; omega
    · simp only [List.length_cons, List.length_nil]; omega
  · simp only [List.length_take]; omega

theorem decFront_realm (P : Prims) (env : Env) (rs : ReplaySet) (m0 m : Cred.Msg) (s : Scratch)
    (hf : decFront P env rs m0 = .inr (m, s)) : m.realmLen ≤ m.realm.length := by
  unfold decFront at hf
  dsimp only at hf
  rcases ite_eq_cases hf with ⟨hv, h⟩ | ⟨hv, h⟩
  · cases h
  clear hf
  rcases ite_eq_cases h with ⟨hv, hf⟩ | ⟨hv, hf⟩
  · cases hf
  clear h
  split at hf
  · cases hf
  rename_i _ uid gid hp
  rcases ite_eq_cases hf with ⟨hv, h⟩ | ⟨hv, h⟩
  · cases h
  clear hf
  split at h
  · cases h
  split at h
  · cases h
  · cases h
  · rename_i m' s' hu
    cases h
    exact PR.sat_ok (p := fun r : Cred.Msg × Scratch => r.1.realmLen ≤ r.1.realm.length)
      (unpackOuter_realm P _ _) hu

theorem setErr_lens (m : Cred.Msg) (e : Int) (s : Option String) :
    (Cred.setErr m e s).realm = m.realm ∧ (Cred.setErr m e s).realmLen = m.realmLen := by
  unfold Cred.setErr; split <;> exact ⟨rfl, rfl⟩

theorem decDecrypt_realm (P : Prims) (cf : Conf) (m : Cred.Msg) (s : Scratch) :
    (decDecrypt P cf m s).1.realm = m.realm ∧ (decDecrypt P cf m s).1.realmLen = m.realmLen := by
  unfold decDecrypt
  split
  · exact ⟨rfl, rfl⟩
  · dsimp only
    split
    · exact ⟨rfl, rfl⟩
    · exact setErr_lens _ _ _

theorem decMid_lens (P : Prims) (cf : Conf) (rs : ReplaySet) (m m' : Cred.Msg) (s s' : Scratch)
    (hm : m.realmLen ≤ m.realm.length) (h : decMid P cf rs m s = .inr (m', s')) : LenOk m' := by
  unfold decMid at h
  obtain ⟨d1, d2⟩ := decDecrypt_realm P cf m s
  generalize decDecrypt P cf m s = p at h d1 d2
  obtain ⟨m1, s1⟩ := p
  dsimp only at h d1 d2
  split at h
  · cases h
  rename_i m2 hv
  obtain ⟨rfl, _⟩ := Cred.decValidateMac_ok _ _ _ _ _ hv
  split at h
  · cases h
  split at h
  · cases h
  · cases h
  · rename_i m3 hu
    cases h
    obtain ⟨u1, u2, u3, u4⟩ := PR.sat_ok (p := fun r : Cred.Msg => r.realm = m2.realm ∧ r.realmLen = m2.realmLen ∧
      r.addrLen ≤ r.addr.length ∧ r.dataLen ≤ r.data.length) (unpackInner_lens _ _) hu
    exact ⟨by rw [u1, u2, d1, d2]; exact hm, u3, u4⟩

theorem decTail_lens (cf : Conf) (env : Env) (rs : ReplaySet) (m : Cred.Msg) (s : Scratch) (h : LenOk m) :
    LenOk (decTail cf env rs m s).msg := by
  unfold decTail
  simp only []
  refine ite_pred (fun o : DecOut => LenOk o.msg) (fun _ => ?_) (fun _ => ?_)
  · exact lenOk_reset _
  refine ite_pred (fun o : DecOut => LenOk o.msg) (fun _ => ?_) (fun _ => ?_)
  · exact lenOk_setErr _ _ _ h
  refine ite_pred (fun o : DecOut => LenOk o.msg) (fun _ => ?_) (fun _ => ?_)
  · exact lenOk_setErr _ _ _ h
  · exact h

/-- every message `dec_process_msg` hands to `m_msg_send` has consistent lengths -/
theorem decProcess_lens (P : Prims) (cf : Conf) (env : Env) (rs : ReplaySet) (m0 : Cred.Msg) :
    LenOk (decProcess P cf env rs m0).msg := by
  unfold decProcess
  have hf := decFront_spec P env rs m0
  cases hfe : decFront P env rs m0 with
  | inl o =>
    rw [hfe] at hf
    obtain ⟨m', rfl, _, _⟩ := hf
    exact lenOk_reset _
  | inr p =>
    obtain ⟨m1, s1⟩ := p
    have hr := decFront_realm P env rs m0 m1 s1 hfe
    simp only []
    have hm := decMid_spec P cf rs m1 s1
    cases hme : decMid P cf rs m1 s1 with
    | inl o =>
      rw [hme] at hm
      obtain ⟨m', rfl, _, _⟩ := hm
      exact lenOk_reset _
    | inr p2 =>
      obtain ⟨m2, s2⟩ := p2
      simp only []
      exact decTail_lens cf env rs m2 s2 (decMid_lens P cf rs m1 m2 s1 s2 hr hme)

/-- every message `enc_process_msg` hands to `m_msg_send` has a consistent data length -/
theorem encProcess_lens (P : Prims) (cf : Conf) (env : Env) (m : Cred.Msg) :
    (encProcess P cf env m).1.dataLen ≤ (encProcess P cf env m).1.data.length := by
  unfold encProcess
  simp only []
  refine ite_pred (fun r : Cred.Msg × Int => r.1.dataLen ≤ r.1.data.length) (fun _ => ?_) (fun _ => ?_)
  · exact Nat.zero_le _
  generalize env.peer = pr
  rcases pr with _ | ⟨uid, gid⟩
  · exact Nat.zero_le _
  simp only []
  refine ite_pred (fun r : Cred.Msg × Int => r.1.dataLen ≤ r.1.data.length) (fun _ => ?_) (fun _ => ?_)
  · exact Nat.zero_le _
  refine ite_pred (fun r : Cred.Msg × Int => r.1.dataLen ≤ r.1.data.length) (fun _ => ?_) (fun _ => ?_)
  · exact Nat.zero_le _
  exact Nat.le_refl _

end Munge.WireCred
