import Munge.Model.Replay
import Munge.Lemmas.Hash
/-
Helper lemmas for `Munge.Replay`: the comparator is a total order on keys, set-level
specification of insert / remove / purge, facts about the two translated kernels, and the
lemmas about `attempt`, `run` and the interleaved system used by Props/C05 and Props/C07.
-/
set_option linter.unusedSimpArgs false
set_option linter.unusedSectionVars false
set_option linter.unnecessarySimpa false
namespace Munge.Replay
open Munge.C Munge.Hash Munge.Gen.Hash

/-! ### the comparator -/

theorem memcmp_self : ∀ a : List UInt8, memcmp a a = 0
  | [] => rfl
  | a :: as => by simp [memcmp, memcmp_self as]

theorem memcmp_eq_zero : ∀ a b : List UInt8, memcmp a b = 0 → a = b
  | [], [] => fun _ => rfl
  | [], _ :: _ => by simp [memcmp]
  | _ :: _, [] => by simp [memcmp]
  | a :: as, b :: bs => by
    unfold memcmp
    by_cases h : a = b
    · subst h; simp only [if_true]; intro h; rw [memcmp_eq_zero as bs h]
    · simp only [h, if_false]
      intro h0
      exfalso; apply h; apply UInt8.toNat_inj.1; omega

theorem memcmp_lt_gt : ∀ a b : List UInt8, memcmp a b < 0 ↔ 0 < memcmp b a
  | [], [] => by simp [memcmp]
  | [], _ :: _ => by simp [memcmp]
  | _ :: _, [] => by simp [memcmp]
  | a :: as, b :: bs => by
    unfold memcmp
    by_cases h : a = b
    · subst h; simp only [if_true]; exact memcmp_lt_gt as bs
    · have h' : ¬ b = a := fun e => h e.symm
      simp only [h, h', if_false]; omega

theorem memcmp_trans : ∀ a b c : List UInt8, memcmp a b < 0 → memcmp b c < 0 → memcmp a c < 0
  | [], [], _ => by simp [memcmp]
  | [], _ :: _, [] => by simp [memcmp]
  | [], _ :: _, _ :: _ => by simp [memcmp]
  | _ :: _, [], _ => by simp [memcmp]
  | _ :: _, _ :: _, [] => by simp [memcmp]
  | a :: as, b :: bs, c :: cs => by
    unfold memcmp
    by_cases hab : a = b
    · subst hab
      by_cases hac : a = c
      · subst hac; simp only [if_true]; exact memcmp_trans as bs cs
      · simp only [hac, if_false, if_true]; intro _ h; exact h
    · by_cases hbc : b = c
      · subst hbc; simp only [hab, if_false, if_true]; intro h _; exact h
      · simp only [hab, hbc, if_false]
        intro h1 h2
        have hac : ¬ a = c := by
          intro e; subst e; omega
        simp only [hac, if_false]; omega

theorem memcmp_zero_iff (a b : List UInt8) : memcmp a b = 0 ↔ a = b :=
  ⟨memcmp_eq_zero a b, fun h => h ▸ memcmp_self a⟩

/-- sign of the kernel `replay_cmp_f` on two keys: lexicographic on (MAC bytes, expiry) -/
theorem cmp_sign (a b : Key) :
    (cmp a b < 0 ↔ memcmp a.mac b.mac < 0 ∨ (memcmp a.mac b.mac = 0 ∧ a.exp < b.exp)) ∧
    (cmp a b = 0 ↔ memcmp a.mac b.mac = 0 ∧ a.exp = b.exp) ∧
    (0 < cmp a b ↔ 0 < memcmp a.mac b.mac ∨ (memcmp a.mac b.mac = 0 ∧ b.exp < a.exp)) := by
  have hsw : memcmpSwapped = false := rfl
  unfold cmp replay_cmp_f
  rw [hsw]
  simp only [Bool.false_eq_true, if_false]
  by_cases h0 : memcmp a.mac b.mac ≠ 0
  · rw [if_pos h0]; dsimp only; omega
  · rw [if_neg h0]
    by_cases h1 : a.exp < b.exp
    · rw [if_pos h1]; dsimp only; omega
    · rw [if_neg h1]
      by_cases h2 : a.exp > b.exp
      · rw [if_pos h2]; dsimp only; omega
      · rw [if_neg h2]; dsimp only; omega

/-- the kernel `replay_cmp_f` applied to the model's `memcmp` is a total order on keys -/
theorem cmpOrder : CmpOrder cmp := by
  refine ⟨fun a b => ?_, fun a b => ?_, fun a b c => ?_⟩
  · rw [(cmp_sign a b).2.1, memcmp_zero_iff]
    constructor
    · rintro ⟨h1, h2⟩; cases a; cases b; simp_all
    · rintro rfl; exact ⟨rfl, rfl⟩
  · rw [(cmp_sign a b).1, (cmp_sign b a).2.2]
    have h1 := memcmp_lt_gt a.mac b.mac
    have h2 := memcmp_zero_iff a.mac b.mac
    have h3 := memcmp_zero_iff b.mac a.mac
    have h4 : a.mac = b.mac ↔ b.mac = a.mac := ⟨Eq.symm, Eq.symm⟩
    rw [← h2, ← h3] at h4
    omega
  · rw [(cmp_sign a b).1, (cmp_sign b c).1, (cmp_sign a c).1]
    have t1 := memcmp_trans a.mac b.mac c.mac
    rintro (h1 | ⟨h1, e1⟩) (h2 | ⟨h2, e2⟩)
    · exact Or.inl (t1 h1 h2)
    · rw [memcmp_eq_zero _ _ h2] at h1; exact Or.inl h1
    · rw [memcmp_eq_zero _ _ h1]; exact Or.inl h2
    · right
      rw [memcmp_eq_zero _ _ h1]
      exact ⟨h2, by omega⟩

/-! ### replay.c at the level of sets of keys -/

/-- the table, when there is one, satisfies the hash-table invariant -/
def State.WF (st : State) : Prop := ∀ t, st.table = some t → Inv cmp keyf t

/-- `replay_remove` rebuilds exactly the key `replay_insert` built (same expiry expression) -/
theorem removeKey_eq (c : Cred) : removeKey c = insertKey c := by
  simp [removeKey, insertKey, removeExpiry, insertExpiry]

theorem has_iff {st : State} {t : Table Key} (h : st.table = some t) (k : Key) : st.has k ↔ k ∈ t.toList := by
  simp [State.has, State.items, h]

theorem wf_initSized (st : State) (hwf : st.WF) {n : Nat} (hn : 0 < n) : (initSized n st).WF := by
  unfold initSized
  cases h : st.table with
  | some t => simpa [h] using hwf
  | none =>
    by_cases hb : st.benchmark
    · simpa [hb] using hwf
    · simp only [hb]
      intro t ht
      simp at ht
      subst ht
      exact inv_empty _ _ hn

theorem insert_present {st : State} {t : Table Key} (hwf : st.WF) (h : st.table = some t) {c : Cred}
    (hk : st.has (insertKey c)) : insert st c = (st, 1, EEXIST) := by
  have := insert_dup cmpOrder (hwf t h) _ ((has_iff h _).1 hk)
  simp [insert, h, this]

theorem insert_absent {st : State} {t : Table Key} (hwf : st.WF) (h : st.table = some t) {c : Cred}
    (hk : ¬ st.has (insertKey c)) :
    ∃ st', insert st c = (st', 0, 0) ∧ st'.WF ∧ (∃ t', st'.table = some t') ∧ st'.benchmark = st.benchmark ∧
      ∀ x, st'.has x ↔ x = insertKey c ∨ st.has x := by
  obtain ⟨t', he, hi, hm⟩ := insert_new cmpOrder (hwf t h) _ (fun hc => hk ((has_iff h _).2 hc))
  refine ⟨{ st with table := some t' }, by simp [insert, h, he], ?_, ⟨t', rfl⟩, rfl, fun x => ?_⟩
  · intro t2 ht2; simp at ht2; subst ht2; exact hi
  · rw [has_iff (st := { st with table := some t' }) rfl, has_iff h, hm]

theorem remove_absent {st : State} {t : Table Key} (hwf : st.WF) (h : st.table = some t) {c : Cred}
    (hk : ¬ st.has (insertKey c)) : remove st c = (st, -1) := by
  have := Hash.remove_absent cmpOrder (hwf t h) (removeKey c) (by rw [removeKey_eq]; exact fun hc => hk ((has_iff h _).2 hc))
  simp [remove, h, this]

theorem remove_present {st : State} {t : Table Key} (hwf : st.WF) (h : st.table = some t) {c : Cred}
    (hk : st.has (insertKey c)) :
    ∃ st', remove st c = (st', 0) ∧ st'.WF ∧ (∃ t', st'.table = some t') ∧ st'.benchmark = st.benchmark ∧
      ∀ x, st'.has x ↔ st.has x ∧ x ≠ insertKey c := by
  obtain ⟨t', he, hi, hm⟩ := Hash.remove_present cmpOrder (hwf t h) (removeKey c) (by rw [removeKey_eq]; exact (has_iff h _).1 hk)
  refine ⟨{ st with table := some t' }, by simp [remove, h, he], ?_, ⟨t', rfl⟩, rfl, fun x => ?_⟩
  · intro t2 ht2; simp at ht2; subst ht2; exact hi
  · rw [has_iff (st := { st with table := some t' }) rfl, has_iff h, hm, removeKey_eq]

/-- the purge predicate as read from `replay_is_expired`: strictly before `now` -/
theorem isExpired_pos (now : Int) (k : Key) : isExpired now k > 0 ↔ k.exp < now := by
  unfold isExpired replay_is_expired
  by_cases h : k.exp < now
  · rw [if_pos h]; simp [h]
  · rw [if_neg h]; simp [h]

theorem items_purge (st : State) (now : Int) :
    (purge st now).1.items = st.items.filter (fun k => !decide (k.exp < now)) := by
  unfold purge State.items
  cases h : st.table with
  | none => simp [h]
  | some t =>
    simp only [toList_deleteIf]
    congr 1
    funext k
    have := isExpired_pos now k
    have h2 := delete_sel_std (isExpired now k)
    by_cases hk : k.exp < now
    · have : delete_sel (isExpired now k) := by rw [h2]; omega
      simp [hk, this]
    · have : ¬ delete_sel (isExpired now k) := by rw [h2]; omega
      simp [hk, this]

theorem has_purge (st : State) (now : Int) (k : Key) : (purge st now).1.has k ↔ st.has k ∧ ¬ k.exp < now := by
  simp [State.has, items_purge, List.mem_filter]

theorem wf_purge {st : State} (hwf : st.WF) (now : Int) : (purge st now).1.WF := by
  unfold purge
  cases h : st.table with
  | none => simpa [h] using hwf
  | some t =>
    intro t2 ht2; simp at ht2; subst ht2
    exact inv_deleteIf (hwf t h) _

theorem table_purge (st : State) (now : Int) : (purge st now).1.table.isSome = st.table.isSome := by
  unfold purge; cases h : st.table <;> simp [h]

theorem benchmark_purge (st : State) (now : Int) : (purge st now).1.benchmark = st.benchmark := by
  unfold purge; cases h : st.table <;> simp [h]

/-! ### the two kernels of dec.c -/

/-- C ranges of the configuration fields (`got_*` are 1-bit fields, `max_ttl` a positive `int`) -/
structure Cfg.Valid (cfg : Cfg) : Prop where
  retry01 : 0 ≤ cfg.got_socket_retry ∧ cfg.got_socket_retry ≤ 1
  skew01 : 0 ≤ cfg.got_clock_skew ∧ cfg.got_clock_skew ≤ 1
  maxttl : 0 ≤ cfg.max_ttl ∧ cfg.max_ttl ≤ 2147483647

/-- `ttl' = min ttl max_ttl`: the value `dec_validate_time` leaves in `m->ttl` -/
def capTtl (cfg : Cfg) (ttl : Int) : Int := if ttl > cfg.max_ttl then cfg.max_ttl else ttl

/-- replay key of a request: kept MAC bytes and `(time0 + ttl') mod 2^32` -/
def keyOf (cfg : Cfg) (r : Req) : Key := ⟨r.mac.take MAC_KEEP, wrapU32 (r.time0 + capTtl cfg r.ttl)⟩

/-- the request passes `dec_validate_time` when the daemon's clock shows `now` -/
def timeOk (cfg : Cfg) (now : Int) (r : Req) : Prop :=
  ¬ (dec_validate_time r.time0 r.ttl (wrapU32 now) cfg.max_ttl cfg.got_clock_skew).ret < 0

/-- the documented exception: retries are enabled and the header carries a retry count in `1..RETRY_ATTEMPTS` -/
def Exempt (cfg : Cfg) (retry : Int) : Prop :=
  cfg.got_socket_retry ≠ 0 ∧ 0 < retry ∧ retry ≤ RETRY_ATTEMPTS

/-- A roll-back decision is sound when it fires only for a request whose own `replay_insert`
    returned 0, whatever the replay stage (`dec_validate_replay`) saw. -/
def RollbackSound (rb : RollbackPred) : Prop :=
  ∀ retry gsr errno ins : Int,
    rb (if (dec_validate_replay retry gsr errno ins).ret < 0 then -1 else 0)
       (fieldsOf (dec_validate_replay retry gsr errno ins)) = true → ins = 0

theorem ttlAfter_dvt (cfg : Cfg) (hv : cfg.Valid) (t0 ttl t1 : Int) :
    ttlAfter (dec_validate_time t0 ttl t1 cfg.max_ttl cfg.got_clock_skew) ttl = capTtl cfg ttl := by
  have hm : wrapU32 cfg.max_ttl = cfg.max_ttl := by have := hv.maxttl; unfold wrapU32; omega
  unfold dec_validate_time capTtl
  rw [hm]
  by_cases hc : ttl > cfg.max_ttl <;> simp only [hc, if_true, if_false] <;>
    (repeat' split) <;> simp [ttlAfter, KOut.written]

theorem insertKey_credOf (cfg : Cfg) (hv : cfg.Valid) (now : Int) (r : Req) :
    insertKey (credOf cfg now r) = keyOf cfg r := by
  simp [insertKey, credOf, keyOf, ttlAfter_dvt cfg hv, insertExpiry]

/-- passing the time check at `now` means `now ≤ t_expired` (inclusive `≤` against the key's expiry) -/
theorem timeOk_le_exp (cfg : Cfg) (hv : cfg.Valid) (now : Int) (r : Req) (h : timeOk cfg now r) :
    wrapU32 now ≤ (keyOf cfg r).exp := by
  have hm : wrapU32 cfg.max_ttl = cfg.max_ttl := by have := hv.maxttl; unfold wrapU32; omega
  unfold timeOk dec_validate_time at h
  unfold keyOf capTtl
  rw [hm] at h
  by_cases hc : r.ttl > cfg.max_ttl <;> simp only [hc, if_true, if_false] at h ⊢ <;>
    (revert h; (repeat' split) <;> simp <;> omega)

/-- a failed time check reports an error code other than SUCCESS -/
theorem dvt_err_ne (t0 ttl t1 mx sk : Int) (h : (dec_validate_time t0 ttl t1 mx sk).ret < 0) :
    errOf (dec_validate_time t0 ttl t1 mx sk) ≠ EMUNGE_SUCCESS := by
  revert h
  unfold dec_validate_time
  (repeat' split) <;> simp [errOf, EMUNGE_SUCCESS]

theorem dvr_spec (retry gsr errno ins : Int) (hg : 0 ≤ gsr ∧ gsr ≤ 1) :
    (ins = 0 → (dec_validate_replay retry gsr errno ins).ret = 0) ∧
    (ins > 0 → (gsr ≠ 0 ∧ 0 < retry ∧ retry ≤ RETRY_ATTEMPTS) → (dec_validate_replay retry gsr errno ins).ret = 0) ∧
    (ins > 0 → ¬ (gsr ≠ 0 ∧ 0 < retry ∧ retry ≤ RETRY_ATTEMPTS) →
      (dec_validate_replay retry gsr errno ins).ret = -1 ∧
      errOf (dec_validate_replay retry gsr errno ins) = EMUNGE_CRED_REPLAYED) := by
  have hw : wrapS32 gsr ≠ 0 ↔ gsr ≠ 0 := by unfold wrapS32; omega
  unfold dec_validate_replay
  refine ⟨fun h => ?_, fun h1 h2 => ?_, fun h1 h2 => ?_⟩
  · (repeat' split) <;> first | rfl | omega
  · unfold RETRY_ATTEMPTS at h2
    (repeat' split) <;> first | rfl | (exfalso; omega)
  · unfold RETRY_ATTEMPTS at h2
    (repeat' split) <;> first | (exfalso; omega) | simp [errOf, EMUNGE_CRED_REPLAYED]

/-! ### one decode request -/

/-- a daemon state the theorems speak about: `replay_init` has run and the table is well-formed -/
structure Daemon.Ok (d : Daemon) : Prop where
  wf : d.replay.WF
  tbl : ∃ t, d.replay.table = some t

/-- the replay stage's kernel on the result `(state, return value, errno)` of `replay_insert` -/
def rvOf (cfg : Cfg) (r : Req) (res : State × Int × Int) : KOut :=
  dec_validate_replay r.retry cfg.got_socket_retry res.2.2 res.2.1
def rcOf (rv : KOut) : Int := if rv.ret < 0 then -1 else 0
def codeOf (rv : KOut) : Int := if rv.ret < 0 then errOf rv else EMUNGE_SUCCESS

/-- everything after `replay_insert` returned `res` -/
def tailOf (rb : RollbackPred) (cfg : Cfg) (d : Daemon) (r : Req) (res : State × Int × Int) : Daemon × Outcome :=
  if r.sendOk then ({ d with replay := res.1 }, ⟨codeOf (rvOf cfg r res), true, some res.2.1, false⟩)
  else if rb (rcOf (rvOf cfg r res)) (fieldsOf (rvOf cfg r res)) then
    ({ d with replay := (remove res.1 (credOf cfg d.now r)).1 }, ⟨codeOf (rvOf cfg r res), false, some res.2.1, true⟩)
  else ({ d with replay := res.1 }, ⟨codeOf (rvOf cfg r res), false, some res.2.1, false⟩)

theorem attempt_pass (rb : RollbackPred) (cfg : Cfg) (d : Daemon) (r : Req)
    (hpre : r.preErr = 0) (hauth : r.authOk = true) (ht : timeOk cfg d.now r) :
    attempt rb cfg d r = tailOf rb cfg d r (insert d.replay (credOf cfg d.now r)) := by
  unfold timeOk at ht
  unfold attempt tailOf rvOf rcOf codeOf
  simp only [hpre, hauth, ne_eq, not_true, if_false, Bool.not_true, Bool.false_eq_true, ht]
  rfl

/-- a request that fails before the replay stage changes nothing -/
theorem attempt_fail (rb : RollbackPred) (cfg : Cfg) (d : Daemon) (r : Req)
    (h : r.preErr ≠ 0 ∨ r.authOk = false ∨ ¬ timeOk cfg d.now r) :
    (attempt rb cfg d r).1 = d ∧ (attempt rb cfg d r).2.insertRet = none ∧
    (attempt rb cfg d r).2.withdrew = false := by
  unfold attempt
  by_cases h1 : r.preErr ≠ 0
  · simp [h1]
  · by_cases h2 : r.authOk = false
    · simp [h1, h2]
    · have h3 : (dec_validate_time r.time0 r.ttl (wrapU32 d.now) cfg.max_ttl cfg.got_clock_skew).ret < 0 := by
        rcases h with h | h | h
        · exact absurd h h1
        · exact absurd h h2
        · unfold timeOk at h; exact Classical.not_not.1 h
      simp [h1, h2, h3]

section pass
variable (rb : RollbackPred) (cfg : Cfg) (hv : cfg.Valid) (d : Daemon) (hok : d.Ok) (r : Req)
  (hpre : r.preErr = 0) (hauth : r.authOk = true) (ht : timeOk cfg d.now r)
include hv hok hpre hauth ht

/-- the entry is present: `replay_insert` returns 1; the reply is SUCCESS exactly for the
    documented exception and REPLAYED otherwise; a sound roll-back leaves the table alone -/
theorem attempt_present (hk : d.replay.has (keyOf cfg r)) :
    (attempt rb cfg d r).2.insertRet = some 1 ∧
    (Exempt cfg r.retry → (attempt rb cfg d r).2.code = EMUNGE_SUCCESS) ∧
    (¬ Exempt cfg r.retry → (attempt rb cfg d r).2.code = EMUNGE_CRED_REPLAYED) ∧
    (attempt rb cfg d r).2.delivered = r.sendOk ∧
    ((RollbackSound rb ∨ r.sendOk = true) → (attempt rb cfg d r).1 = d ∧ (attempt rb cfg d r).2.withdrew = false) := by
  obtain ⟨t, htb⟩ := hok.tbl
  have hk' : d.replay.has (insertKey (credOf cfg d.now r)) := by rw [insertKey_credOf cfg hv]; exact hk
  rw [attempt_pass rb cfg d r hpre hauth ht, insert_present hok.wf htb hk']
  have hs := dvr_spec r.retry cfg.got_socket_retry EEXIST 1 hv.retry01
  have hcode1 : Exempt cfg r.retry → codeOf (rvOf cfg r (d.replay, 1, EEXIST)) = EMUNGE_SUCCESS := by
    intro he; have := hs.2.1 (by omega) he
    simp [codeOf, rvOf, this]
  have hcode2 : ¬ Exempt cfg r.retry → codeOf (rvOf cfg r (d.replay, 1, EEXIST)) = EMUNGE_CRED_REPLAYED := by
    intro he; have := hs.2.2 (by omega) he
    simp [codeOf, rvOf, this.1, this.2]
  unfold tailOf
  by_cases hsend : r.sendOk = true
  · rw [if_pos hsend]
    exact ⟨rfl, hcode1, hcode2, hsend.symm, fun _ => ⟨rfl, rfl⟩⟩
  · have hsf : r.sendOk = false := by simpa using hsend
    by_cases hrb : rb (rcOf (rvOf cfg r (d.replay, 1, EEXIST))) (fieldsOf (rvOf cfg r (d.replay, 1, EEXIST))) = true
    · rw [if_neg hsend, if_pos hrb]
      refine ⟨rfl, hcode1, hcode2, hsf.symm, fun hs' => ?_⟩
      rcases hs' with h | h
      · have h10 : (1 : Int) = 0 := h _ _ _ _ hrb
        omega
      · exact absurd h hsend
    · rw [if_neg hsend, if_neg hrb]
      exact ⟨rfl, hcode1, hcode2, hsf.symm, fun _ => ⟨rfl, rfl⟩⟩

/-- the entry is absent: `replay_insert` returns 0 and the reply is SUCCESS; the key is in the
    table afterwards unless this request rolled its own insertion back -/
theorem attempt_absent (hk : ¬ d.replay.has (keyOf cfg r)) :
    (attempt rb cfg d r).2.insertRet = some 0 ∧ (attempt rb cfg d r).2.code = EMUNGE_SUCCESS ∧
    (attempt rb cfg d r).2.delivered = r.sendOk ∧
    (attempt rb cfg d r).1.Ok ∧ (attempt rb cfg d r).1.now = d.now ∧
    (r.sendOk = true → (attempt rb cfg d r).2.withdrew = false) ∧
    ((attempt rb cfg d r).2.withdrew = false → ∀ x, (attempt rb cfg d r).1.replay.has x ↔ x = keyOf cfg r ∨ d.replay.has x) ∧
    ((attempt rb cfg d r).2.withdrew = true → ∀ x, (attempt rb cfg d r).1.replay.has x ↔ d.replay.has x) := by
  obtain ⟨t, htb⟩ := hok.tbl
  have hkey := insertKey_credOf cfg hv d.now r
  have hk' : ¬ d.replay.has (insertKey (credOf cfg d.now r)) := by rw [hkey]; exact hk
  obtain ⟨st', he, hwf', ⟨t', ht'⟩, _, hm⟩ := insert_absent hok.wf htb hk'
  rw [attempt_pass rb cfg d r hpre hauth ht, he]
  have hs := (dvr_spec r.retry cfg.got_socket_retry 0 0 hv.retry01).1 rfl
  have hcode : codeOf (rvOf cfg r (st', 0, 0)) = EMUNGE_SUCCESS := by simp [codeOf, rvOf, hs]
  have hin : st'.has (insertKey (credOf cfg d.now r)) := (hm _).2 (Or.inl rfl)
  obtain ⟨st2, he2, hwf2, ⟨t2, ht2⟩, _, hm2⟩ := remove_present hwf' ht' hin
  have hm' : ∀ x, st'.has x ↔ x = keyOf cfg r ∨ d.replay.has x := by intro x; rw [← hkey]; exact hm x
  unfold tailOf
  by_cases hsend : r.sendOk = true
  · rw [if_pos hsend]
    exact ⟨rfl, hcode, hsend.symm, ⟨hwf', ⟨t', ht'⟩⟩, rfl, fun _ => rfl, fun _ => hm', fun h => by simp at h⟩
  · have hsf : r.sendOk = false := by simpa using hsend
    by_cases hrb : rb (rcOf (rvOf cfg r (st', 0, 0))) (fieldsOf (rvOf cfg r (st', 0, 0))) = true
    · rw [if_neg hsend, if_pos hrb, he2]
      refine ⟨rfl, hcode, hsf.symm, ⟨hwf2, ⟨t2, ht2⟩⟩, rfl, fun h => absurd h hsend, fun h => by simp at h, fun _ x => ?_⟩
      show st2.has x ↔ _
      rw [hm2, hm]
      constructor
      · rintro ⟨h1 | h1, h2⟩
        · exact absurd h1 h2
        · exact h1
      · intro h1
        refine ⟨Or.inr h1, ?_⟩
        rintro rfl; exact hk' h1
    · rw [if_neg hsend, if_neg hrb]
      exact ⟨rfl, hcode, hsf.symm, ⟨hwf', ⟨t', ht'⟩⟩, rfl, fun _ => rfl, fun _ => hm', fun h => by simp at h⟩

end pass

/-! ### insert / remove on arbitrary keys, preservation of well-formedness -/

/-- a replay state with a well-formed table -/
structure State.Ok (st : State) : Prop where
  wf : st.WF
  tbl : ∃ t, st.table = some t

theorem insert_cases {st : State} (hok : st.Ok) (c : Cred) :
    (st.has (insertKey c) ∧ insert st c = (st, 1, EEXIST)) ∨
    (¬ st.has (insertKey c) ∧ ∃ st', insert st c = (st', 0, 0) ∧ st'.Ok ∧
      ∀ x, st'.has x ↔ x = insertKey c ∨ st.has x) := by
  obtain ⟨t, ht⟩ := hok.tbl
  by_cases hk : st.has (insertKey c)
  · exact Or.inl ⟨hk, insert_present hok.wf ht hk⟩
  · obtain ⟨st', he, hwf, htb, _, hm⟩ := insert_absent hok.wf ht hk
    exact Or.inr ⟨hk, st', he, ⟨hwf, htb⟩, hm⟩

theorem remove_cases {st : State} (hok : st.Ok) (c : Cred) :
    (¬ st.has (insertKey c) ∧ remove st c = (st, -1)) ∨
    (st.has (insertKey c) ∧ ∃ st', remove st c = (st', 0) ∧ st'.Ok ∧
      ∀ x, st'.has x ↔ st.has x ∧ x ≠ insertKey c) := by
  obtain ⟨t, ht⟩ := hok.tbl
  by_cases hk : st.has (insertKey c)
  · obtain ⟨st', he, hwf, htb, _, hm⟩ := remove_present hok.wf ht hk
    exact Or.inr ⟨hk, st', he, ⟨hwf, htb⟩, hm⟩
  · exact Or.inl ⟨hk, remove_absent hok.wf ht hk⟩

theorem insert_ok {st : State} (hok : st.Ok) (c : Cred) : (insert st c).1.Ok := by
  rcases insert_cases hok c with ⟨_, he⟩ | ⟨_, st', he, hok', _⟩ <;> rw [he] <;> assumption

theorem remove_ok {st : State} (hok : st.Ok) (c : Cred) : (remove st c).1.Ok := by
  rcases remove_cases hok c with ⟨_, he⟩ | ⟨_, st', he, hok', _⟩ <;> rw [he] <;> assumption

theorem insert_other {st : State} (hok : st.Ok) (c : Cred) {x : Key} (hx : x ≠ insertKey c) :
    (insert st c).1.has x ↔ st.has x := by
  rcases insert_cases hok c with ⟨_, he⟩ | ⟨_, st', he, _, hm⟩ <;> rw [he]
  show st'.has x ↔ _
  rw [hm]; simp [hx]

theorem remove_other {st : State} (hok : st.Ok) (c : Cred) {x : Key} (hx : x ≠ insertKey c) :
    (remove st c).1.has x ↔ st.has x := by
  rcases remove_cases hok c with ⟨_, he⟩ | ⟨_, st', he, _, hm⟩ <;> rw [he]
  show st'.has x ↔ _
  rw [hm]; simp [hx]

theorem purge_ok {st : State} (hok : st.Ok) (now : Int) : (purge st now).1.Ok := by
  refine ⟨wf_purge hok.wf now, ?_⟩
  obtain ⟨t, ht⟩ := hok.tbl
  have := table_purge st now
  rw [ht] at this
  cases h : (purge st now).1.table with
  | none => simp [h] at this
  | some t' => exact ⟨t', rfl⟩

theorem Daemon.Ok.st {d : Daemon} (h : d.Ok) : d.replay.Ok := ⟨h.wf, h.tbl⟩

/-- outcome of a request that reached the replay stage, as a function of what `replay_insert` returned -/
def outcomeOf (rb : RollbackPred) (cfg : Cfg) (r : Req) (ins errno : Int) : Outcome :=
  let rv := dec_validate_replay r.retry cfg.got_socket_retry errno ins
  ⟨codeOf rv, r.sendOk, some ins, !r.sendOk && rb (rcOf rv) (fieldsOf rv)⟩

theorem tailOf_snd (rb : RollbackPred) (cfg : Cfg) (d : Daemon) (r : Req) (res : State × Int × Int) :
    (tailOf rb cfg d r res).2 = outcomeOf rb cfg r res.2.1 res.2.2 := by
  unfold tailOf outcomeOf rvOf
  by_cases hs : r.sendOk = true
  · rw [if_pos hs]; simp [hs]
  · have hsf : r.sendOk = false := by simpa using hs
    rw [if_neg hs]
    split <;> simp_all

theorem tailOf_ok (rb : RollbackPred) (cfg : Cfg) (d : Daemon) (r : Req) (res : State × Int × Int)
    (hres : res.1.Ok) : (tailOf rb cfg d r res).1.Ok ∧ (tailOf rb cfg d r res).1.now = d.now := by
  unfold tailOf
  split
  · exact ⟨⟨hres.wf, hres.tbl⟩, rfl⟩
  · split
    · have := remove_ok hres (credOf cfg d.now r)
      exact ⟨⟨this.wf, this.tbl⟩, rfl⟩
    · exact ⟨⟨hres.wf, hres.tbl⟩, rfl⟩

theorem tailOf_other (rb : RollbackPred) (cfg : Cfg) (d : Daemon) (r : Req) (res : State × Int × Int)
    (hres : res.1.Ok) {x : Key} (hx : x ≠ insertKey (credOf cfg d.now r)) :
    (tailOf rb cfg d r res).1.replay.has x ↔ res.1.has x := by
  unfold tailOf
  split
  · exact Iff.rfl
  · split
    · exact remove_other hres _ hx
    · exact Iff.rfl

/-- whether a request gets as far as `dec_validate_replay` -/
def passes (cfg : Cfg) (now : Int) (r : Req) : Prop := r.preErr = 0 ∧ r.authOk = true ∧ timeOk cfg now r

theorem passes_or_fails (cfg : Cfg) (now : Int) (r : Req) :
    passes cfg now r ∨ (r.preErr ≠ 0 ∨ r.authOk = false ∨ ¬ timeOk cfg now r) := by
  unfold passes
  by_cases h1 : r.preErr = 0 <;> by_cases h2 : r.authOk = true <;> by_cases h3 : timeOk cfg now r <;> simp_all

section any
variable (rb : RollbackPred) (cfg : Cfg) (hv : cfg.Valid) (d : Daemon) (hok : d.Ok) (r : Req)
include hv hok

/-- every request leaves the table well-formed and the clock alone -/
theorem attempt_ok : (attempt rb cfg d r).1.Ok ∧ (attempt rb cfg d r).1.now = d.now := by
  rcases passes_or_fails cfg d.now r with ⟨h1, h2, h3⟩ | h
  · rw [attempt_pass rb cfg d r h1 h2 h3]
    exact tailOf_ok rb cfg d r _ (insert_ok hok.st _)
  · rw [(attempt_fail rb cfg d r h).1]; exact ⟨hok, rfl⟩

/-- a request never touches the entries of other credentials -/
theorem attempt_other {x : Key} (hx : x ≠ keyOf cfg r) : (attempt rb cfg d r).1.replay.has x ↔ d.replay.has x := by
  rcases passes_or_fails cfg d.now r with ⟨h1, h2, h3⟩ | h
  · have hx' : x ≠ insertKey (credOf cfg d.now r) := by rw [insertKey_credOf cfg hv]; exact hx
    rw [attempt_pass rb cfg d r h1 h2 h3, tailOf_other rb cfg d r _ (insert_ok hok.st _) hx']
    exact insert_other hok.st _ hx'
  · rw [(attempt_fail rb cfg d r h).1]

/-- no request removes an entry that was there before it, provided the roll-back is sound or,
    failing that, the request's reply is delivered when it is about that very entry -/
theorem attempt_keeps {k : Key} (hrb : RollbackSound rb ∨ (keyOf cfg r = k → r.sendOk = true))
    (hk : d.replay.has k) : (attempt rb cfg d r).1.replay.has k := by
  by_cases hx : k = keyOf cfg r
  · rcases passes_or_fails cfg d.now r with ⟨h1, h2, h3⟩ | h
    · have hc : RollbackSound rb ∨ r.sendOk = true := by
        rcases hrb with h | h
        · exact Or.inl h
        · exact Or.inr (h hx.symm)
      rw [((attempt_present rb cfg hv d hok r h1 h2 h3 (hx ▸ hk)).2.2.2.2 hc).1]; exact hk
    · rw [(attempt_fail rb cfg d r h).1]; exact hk
  · exact (attempt_other rb cfg hv d hok r hx).2 hk

/-- the outcome of a request depends on the table only through the presence of its own key -/
theorem attempt_outcome (d' : Daemon) (hok' : d'.Ok) (hnow : d'.now = d.now)
    (hkey : d'.replay.has (keyOf cfg r) ↔ d.replay.has (keyOf cfg r)) :
    (attempt rb cfg d' r).2 = (attempt rb cfg d r).2 := by
  rcases passes_or_fails cfg d.now r with ⟨h1, h2, h3⟩ | h
  · have h3' : timeOk cfg d'.now r := hnow ▸ h3
    rw [attempt_pass rb cfg d r h1 h2 h3, attempt_pass rb cfg d' r h1 h2 h3', tailOf_snd, tailOf_snd]
    have hkd := insertKey_credOf cfg hv d.now r
    have hkd' := insertKey_credOf cfg hv d'.now r
    rcases insert_cases hok.st (credOf cfg d.now r) with ⟨hp, he⟩ | ⟨hp, st1, he, _, _⟩ <;>
    rcases insert_cases hok'.st (credOf cfg d'.now r) with ⟨hp', he'⟩ | ⟨hp', st2, he', _, _⟩ <;>
    rw [he, he'] <;> first | rfl | (exfalso; rw [hkd] at hp; rw [hkd'] at hp'; simp_all)
  · unfold attempt
    unfold timeOk at h
    rw [hnow]
    by_cases h1 : r.preErr ≠ 0
    · simp [h1]
    · by_cases h2 : r.authOk = false
      · simp [h1, h2]
      · have h3 : (dec_validate_time r.time0 r.ttl (wrapU32 d.now) cfg.max_ttl cfg.got_clock_skew).ret < 0 := by
          rcases h with h | h | h
          · exact absurd h h1
          · exact absurd h h2
          · exact Classical.not_not.1 h
        simp [h1, h2, h3]

end any

/-! ### histories -/

/-- the entry `k` outlives the events `evs` as far as purging goes: every purge tick among them
    comes at a clock value not after `k.exp` (`now` is the clock before the first event) -/
def keptBy (k : Key) : Int → List Ev → Prop
  | _, [] => True
  | now, .tick δ :: es => keptBy k (now + δ) es
  | now, .purge :: es => now ≤ k.exp ∧ keptBy k now es
  | now, .req _ :: es => keptBy k now es

theorem stepEv_ok (rb : RollbackPred) (cfg : Cfg) (hv : cfg.Valid) (d : Daemon) (hok : d.Ok) (e : Ev) :
    (stepEv rb cfg d e).1.Ok ∧ d.now ≤ (stepEv rb cfg d e).1.now := by
  cases e with
  | req r =>
    have := attempt_ok rb cfg hv d hok r
    simp only [stepEv]
    exact ⟨this.1, by rw [this.2]; exact Int.le_refl _⟩
  | tick δ => exact ⟨⟨hok.wf, hok.tbl⟩, by simp [stepEv]; omega⟩
  | purge =>
    have := purge_ok hok.st d.now
    exact ⟨⟨this.wf, this.tbl⟩, by simp [stepEv]⟩

theorem run_cons (rb : RollbackPred) (cfg : Cfg) (d : Daemon) (e : Ev) (es : List Ev) :
    (run rb cfg d (e :: es)).1 = (run rb cfg (stepEv rb cfg d e).1 es).1 := by
  simp [run]

theorem run_ok (rb : RollbackPred) (cfg : Cfg) (hv : cfg.Valid) : ∀ (evs : List Ev) (d : Daemon), d.Ok →
    (run rb cfg d evs).1.Ok ∧ d.now ≤ (run rb cfg d evs).1.now
  | [], d, hok => ⟨hok, Int.le_refl _⟩
  | e :: es, d, hok => by
    rw [run_cons]
    have h1 := stepEv_ok rb cfg hv d hok e
    have h2 := run_ok rb cfg hv es _ h1.1
    exact ⟨h2.1, Int.le_trans h1.2 h2.2⟩

/-- every request about `k` among the events has its reply delivered -/
def repliesDelivered (cfg : Cfg) (k : Key) : List Ev → Prop
  | [] => True
  | .req r :: es => (keyOf cfg r = k → r.sendOk = true) ∧ repliesDelivered cfg k es
  | _ :: es => repliesDelivered cfg k es

/-- an entry stays in the table through any history whose purge ticks all come at clock values
    `≤` its expiry, if the roll-back is sound (or no request about it loses its reply) -/
theorem run_keeps (rb : RollbackPred) (cfg : Cfg) (hv : cfg.Valid) (k : Key) :
    ∀ (evs : List Ev) (d : Daemon), (RollbackSound rb ∨ repliesDelivered cfg k evs) → d.Ok → d.replay.has k →
      keptBy k d.now evs → (run rb cfg d evs).1.replay.has k
  | [], _, _, _, hk, _ => hk
  | e :: es, d, hrb, hok, hk, hkept => by
    rw [run_cons]
    have h1 := stepEv_ok rb cfg hv d hok e
    cases e with
    | req r =>
      have hrb1 : RollbackSound rb ∨ (keyOf cfg r = k → r.sendOk = true) := by
        rcases hrb with h | h
        · exact Or.inl h
        · exact Or.inr h.1
      have hrb2 : RollbackSound rb ∨ repliesDelivered cfg k es := by
        rcases hrb with h | h
        · exact Or.inl h
        · exact Or.inr h.2
      exact run_keeps rb cfg hv k es _ hrb2 h1.1 (attempt_keeps rb cfg hv d hok r hrb1 hk)
        (by have := (attempt_ok rb cfg hv d hok r).2; simp only [stepEv]; rw [this]; exact hkept)
    | tick δ => exact run_keeps rb cfg hv k es _ hrb h1.1 hk hkept
    | purge =>
      refine run_keeps rb cfg hv k es _ hrb h1.1 ?_ hkept.2
      simp only [stepEv]
      rw [has_purge]
      exact ⟨hk, by have := hkept.1; omega⟩

/-! ### clocks, purge periods and provenance (C07) -/

/-- if the clock at the end of a history is still `≤ k.exp`, every purge tick in it came at a
    clock value `≤ k.exp` (the clock never goes back) -/
theorem keptBy_of_final_le (rb : RollbackPred) (cfg : Cfg) (hv : cfg.Valid) (k : Key) :
    ∀ (evs : List Ev) (d : Daemon), d.Ok → (run rb cfg d evs).1.now ≤ k.exp → keptBy k d.now evs
  | [], _, _, _ => trivial
  | e :: es, d, hok, hfin => by
    rw [run_cons] at hfin
    have h1 := stepEv_ok rb cfg hv d hok e
    have h2 := run_ok rb cfg hv es _ h1.1
    have ih := keptBy_of_final_le rb cfg hv k es _ h1.1 hfin
    cases e with
    | req r =>
      have := (attempt_ok rb cfg hv d hok r).2
      simp only [stepEv] at ih
      rw [this] at ih
      exact ih
    | tick δ => exact ih
    | purge =>
      refine ⟨?_, ih⟩
      have h3 : d.now ≤ (stepEv rb cfg d Ev.purge).1.now := h1.2
      exact Int.le_trans (Int.le_trans h3 h2.2) hfin

/-- clock value of the last purge tick of a history (`lo` if there is none; `now` is the clock before the first event) -/
def lastPurge : Int → Int → List Ev → Int
  | lo, _, [] => lo
  | lo, now, .tick δ :: es => lastPurge lo (now + δ) es
  | _, now, .purge :: es => lastPurge now now es
  | lo, now, .req _ :: es => lastPurge lo now es

/-- what a request can add to the table is its own key, and only if it got through the time check -/
theorem attempt_has_sub (rb : RollbackPred) (cfg : Cfg) (hv : cfg.Valid) (d : Daemon) (hok : d.Ok) (r : Req)
    {x : Key} (hx : (attempt rb cfg d r).1.replay.has x) : d.replay.has x ∨ (x = keyOf cfg r ∧ passes cfg d.now r) := by
  by_cases he : x = keyOf cfg r
  · rcases passes_or_fails cfg d.now r with hp | hf
    · exact Or.inr ⟨he, hp⟩
    · rw [(attempt_fail rb cfg d r hf).1] at hx; exact Or.inl hx
  · exact Or.inl ((attempt_other rb cfg hv d hok r he).1 hx)

/-- provenance of the entries: each present key satisfies `P`, if those present at the start do and
    every request that passes the time check at clock `t` (within the history's clock range) has a key satisfying it -/
theorem run_provenance (rb : RollbackPred) (cfg : Cfg) (hv : cfg.Valid) (P : Int → Key → Prop)
    (hmono : ∀ k t t', t ≤ t' → P t k → P t' k) :
    ∀ (evs : List Ev) (d : Daemon), d.Ok → (∀ k, d.replay.has k → P d.now k) →
      (∀ r t, d.now ≤ t → t ≤ (run rb cfg d evs).1.now → passes cfg t r → P t (keyOf cfg r)) →
      ∀ k, (run rb cfg d evs).1.replay.has k → P (run rb cfg d evs).1.now k
  | [], _, _, h0, _ => h0
  | e :: es, d, hok, h0, hreq => by
    rw [run_cons] at hreq ⊢
    have h1 := stepEv_ok rb cfg hv d hok e
    have h2 := run_ok rb cfg hv es _ h1.1
    refine run_provenance rb cfg hv P hmono es _ h1.1 ?_ (fun r t ht1 ht2 hp => hreq r t (Int.le_trans h1.2 ht1) ht2 hp)
    cases e with
    | req r =>
      have hnow := (attempt_ok rb cfg hv d hok r).2
      intro k hk
      simp only [stepEv] at hk ⊢
      rw [hnow]
      rcases attempt_has_sub rb cfg hv d hok r hk with h | ⟨rfl, hp⟩
      · exact h0 k h
      · refine hreq r d.now (Int.le_refl _) ?_ hp
        have : d.now ≤ (stepEv rb cfg d (Ev.req r)).1.now := h1.2
        exact Int.le_trans this h2.2
    | tick δ =>
      intro k hk
      exact hmono k d.now _ (by simp [stepEv]; omega) (h0 k hk)
    | purge =>
      intro k hk
      simp only [stepEv] at hk ⊢
      exact h0 k ((has_purge _ _ _).1 hk).1

/-- no entry older than the last purge tick survives, in any history: every present key has
    `t_expired ≥` the clock value of the last purge tick (or `lo`, a lower bound at the start) -/
theorem run_discards (rb : RollbackPred) (cfg : Cfg) (hv : cfg.Valid) :
    ∀ (evs : List Ev) (d : Daemon) (lo : Int), d.Ok → 0 ≤ d.now → (run rb cfg d evs).1.now < 4294967296 →
      lo ≤ d.now → (∀ k, d.replay.has k → lo ≤ k.exp) →
      lastPurge lo d.now evs ≤ (run rb cfg d evs).1.now ∧
      ∀ k, (run rb cfg d evs).1.replay.has k → lastPurge lo d.now evs ≤ k.exp
  | [], _, _, _, _, _, hlo, h0 => ⟨hlo, h0⟩
  | e :: es, d, lo, hok, hnn, hfin, hlo, h0 => by
    rw [run_cons] at hfin ⊢
    have h1 := stepEv_ok rb cfg hv d hok e
    have h2 := run_ok rb cfg hv es _ h1.1
    cases e with
    | req r =>
      have hnow := (attempt_ok rb cfg hv d hok r).2
      have hnow' : (stepEv rb cfg d (Ev.req r)).1.now = d.now := hnow
      have := run_discards rb cfg hv es (stepEv rb cfg d (Ev.req r)).1 lo h1.1 (by rw [hnow']; exact hnn) hfin
        (by rw [hnow']; exact hlo) (fun k hk => by
          rcases attempt_has_sub rb cfg hv d hok r hk with h | ⟨rfl, hp⟩
          · exact h0 k h
          · have hle := timeOk_le_exp cfg hv d.now r hp.2.2
            have hfin' : d.now < 4294967296 := by
              have : d.now ≤ (run rb cfg (stepEv rb cfg d (Ev.req r)).1 es).1.now := by rw [← hnow']; exact h2.2
              omega
            have : wrapU32 d.now = d.now := by unfold wrapU32; omega
            omega)
      rw [hnow'] at this
      exact this
    | tick δ =>
      exact run_discards rb cfg hv es (stepEv rb cfg d (Ev.tick δ)).1 lo h1.1 (by simp [stepEv]; omega) hfin
        (by simp [stepEv]; omega) h0
    | purge =>
      exact run_discards rb cfg hv es (stepEv rb cfg d Ev.purge).1 d.now h1.1 (by simpa [stepEv] using hnn) hfin
        (by simp [stepEv]) (fun k hk => by
          have := ((has_purge _ _ _).1 hk).2
          omega)

/-- negative clock skew the time check allows: `ttl'` when clock skew is configured, else 1 second -/
def skewOf (cfg : Cfg) (ttl : Int) : Int := if cfg.got_clock_skew ≠ 0 then capTtl cfg ttl else 1

/-- the time window does not wrap around 0 or 2^32 for this request -/
def Req.NoWrap (cfg : Cfg) (r : Req) : Prop :=
  0 ≤ r.ttl ∧ skewOf cfg r.ttl ≤ r.time0 ∧ r.time0 + capTtl cfg r.ttl < 4294967296

/-- a request accepted at clock `t` lies in its window `[time0 - skew, time0 + ttl']`, and its key's expiry is `time0 + ttl'` -/
theorem accepted_window (cfg : Cfg) (hv : cfg.Valid) (t : Int) (ht : 0 ≤ t ∧ t < 4294967296) (r : Req)
    (hnw : r.NoWrap cfg) (h : timeOk cfg t r) :
    r.time0 - skewOf cfg r.ttl ≤ t ∧ t ≤ r.time0 + capTtl cfg r.ttl ∧
    (keyOf cfg r).exp = r.time0 + capTtl cfg r.ttl := by
  have hm : wrapU32 cfg.max_ttl = cfg.max_ttl := by have := hv.maxttl; unfold wrapU32; omega
  have hw : wrapU32 t = t := by unfold wrapU32; omega
  have hsk : wrapS32 cfg.got_clock_skew ≠ 0 ↔ cfg.got_clock_skew ≠ 0 := by have := hv.skew01; unfold wrapS32; omega
  obtain ⟨h0, h1, h2⟩ := hnw
  have hmx := hv.maxttl
  unfold timeOk dec_validate_time at h
  unfold skewOf capTtl at h1 ⊢
  unfold capTtl at h2
  unfold keyOf capTtl
  rw [hm, hw] at h
  dsimp only
  by_cases hc : r.ttl > cfg.max_ttl <;> by_cases hs : cfg.got_clock_skew ≠ 0 <;>
    simp only [hc, hs, hsk, if_true, if_false, ne_eq, not_true, not_false_eq_true] at h h1 h2 ⊢ <;>
    (revert h; (repeat' split) <;> simp <;> (unfold wrapU32 wrapS32 at *; omega))

/-! ### interleavings -/

/-- replay key of concurrent request `i` -/
def ckey (reqs : Nat → CReq) (i : Nat) : Key := insertKey (reqs i).cred

/-- request `i` currently "holds" its entry: its `replay_insert` returned 0 and it has not rolled back -/
def holder (s : Sys) (i : Nat) : Prop := (s.loc i).pc ≥ 1 ∧ (s.loc i).ins = 0 ∧ (s.loc i).withdrew = false

/-- the reply of request `i` was SUCCESS and reached the client -/
def deliveredSuccess (reqs : Nat → CReq) (s : Sys) (i : Nat) : Prop :=
  (s.loc i).pc ≥ 2 ∧ (reqs i).sendOk = true ∧ (s.loc i).code = EMUNGE_SUCCESS

/-- invariant of the interleaved system; `base` is the set of keys present before any of the requests ran -/
structure ConcInv (cfg : Cfg) (reqs : Nat → CReq) (base : Key → Prop) (s : Sys) : Prop where
  ok : s.replay.Ok
  held : ∀ i, holder s i → s.replay.has (ckey reqs i)
  uniq : ∀ i j, i ≠ j → ckey reqs i = ckey reqs j → ¬ (holder s i ∧ holder s j)
  owned : ∀ k, s.replay.has k → base k ∨ ∃ i, holder s i ∧ ckey reqs i = k
  basek : ∀ k, base k → s.replay.has k
  hbase : ∀ i, holder s i → ¬ base (ckey reqs i)
  cons : ∀ i, (s.loc i).pc ≥ 1 → ((s.loc i).ins = 0 ∨ (s.loc i).ins = 1) ∧ ∃ errno,
    (s.loc i).rc = rcOf (dec_validate_replay (reqs i).retry cfg.got_socket_retry errno (s.loc i).ins) ∧
    (s.loc i).fld = fieldsOf (dec_validate_replay (reqs i).retry cfg.got_socket_retry errno (s.loc i).ins) ∧
    (s.loc i).code = codeOf (dec_validate_replay (reqs i).retry cfg.got_socket_retry errno (s.loc i).ins)
  wd : ∀ i, (s.loc i).withdrew = true → (s.loc i).pc = 3 ∧ (reqs i).sendOk = false

theorem holder_congr {s s' : Sys} {i : Nat} (h : s'.loc i = s.loc i) : holder s' i ↔ holder s i := by
  unfold holder; rw [h]

theorem concInv_step (rb : RollbackPred) (hrb : RollbackSound rb) (cfg : Cfg) (reqs : Nat → CReq)
    (base : Key → Prop) (s : Sys) (hinv : ConcInv cfg reqs base s) (i : Nat) :
    ConcInv cfg reqs base (Sys.step rb cfg reqs s i) := by
  unfold Sys.step
  dsimp only
  split
  · -- pc 0: the replay stage
    rename_i hpc
    have hnh : ¬ holder s i := by unfold holder; omega
    have hwf : (s.loc i).withdrew = false := by
      cases h : (s.loc i).withdrew with
      | false => rfl
      | true => have := (hinv.wd i h).1; omega
    rcases insert_cases hinv.ok (reqs i).cred with ⟨hp, he⟩ | ⟨hp, st', he, hok', hm⟩
    · -- already present: returns 1
      rw [he]
      refine ⟨hinv.ok, fun j hj => ?_, fun j k hjk hkey hh => ?_, fun k hk => ?_, hinv.basek, fun j hj => ?_, fun j hj => ?_, fun j hj => ?_⟩
      · by_cases hji : j = i
        · subst hji; simp [holder] at hj
        · exact hinv.held j (by simpa [holder, hji] using hj)
      · by_cases hji : j = i
        · subst hji; simp [holder] at hh
        · by_cases hki : k = i
          · subst hki; simp [holder] at hh
          · exact hinv.uniq j k hjk hkey (by simpa [holder, hji, hki] using hh)
      · rcases hinv.owned k hk with hb | ⟨j, hj, hjk⟩
        · exact Or.inl hb
        · refine Or.inr ⟨j, ?_, hjk⟩
          have hji : j ≠ i := by rintro rfl; exact hnh hj
          simpa [holder, hji] using hj
      · by_cases hji : j = i
        · subst hji; simp [holder] at hj
        · exact hinv.hbase j (by simpa [holder, hji] using hj)
      · by_cases hji : j = i
        · subst hji
          simp only [if_true]
          exact ⟨by simp, EEXIST, rfl, rfl, rfl⟩
        · simp only [hji, if_false] at hj ⊢
          exact hinv.cons j hj
      · by_cases hji : j = i
        · subst hji; simp [hwf] at hj
        · simp only [hji, if_false] at hj ⊢
          exact hinv.wd j hj
    · -- absent: inserted
      rw [he]
      have hkeyi : st'.has (ckey reqs i) := (hm _).2 (Or.inl rfl)
      refine ⟨hok', fun j hj => ?_, fun j k hjk hkey hh => ?_, fun k hk => ?_, fun k hk => (hm k).2 (Or.inr (hinv.basek k hk)),
        fun j hj => ?_, fun j hj => ?_, fun j hj => ?_⟩
      · by_cases hji : j = i
        · subst hji; exact hkeyi
        · exact (hm _).2 (Or.inr (hinv.held j (by simpa [holder, hji] using hj)))
      · -- a second holder of the same key would have made the key present before
        by_cases hji : j = i
        · subst hji
          have hkj : k ≠ j := fun h => hjk h.symm
          have : holder s k := by simpa [holder, hkj] using hh.2
          exact hp (by have := hinv.held k this; rw [← hkey] at this; exact this)
        · by_cases hki : k = i
          · subst hki
            have : holder s j := by simpa [holder, hji] using hh.1
            exact hp (by have := hinv.held j this; rw [hkey] at this; exact this)
          · exact hinv.uniq j k hjk hkey (by simpa [holder, hji, hki] using hh)
      · rcases (hm k).1 hk with rfl | hk'
        · exact Or.inr ⟨i, by simp [holder, hwf], rfl⟩
        · rcases hinv.owned k hk' with hb | ⟨j, hj, hjk⟩
          · exact Or.inl hb
          · refine Or.inr ⟨j, ?_, hjk⟩
            have hji : j ≠ i := by rintro rfl; exact hnh hj
            simpa [holder, hji] using hj
      · by_cases hji : j = i
        · subst hji; exact fun hb => hp (hinv.basek _ hb)
        · exact hinv.hbase j (by simpa [holder, hji] using hj)
      · by_cases hji : j = i
        · subst hji
          simp only [if_true]
          exact ⟨by simp, 0, rfl, rfl, rfl⟩
        · simp only [hji, if_false] at hj ⊢
          exact hinv.cons j hj
      · by_cases hji : j = i
        · subst hji; simp [hwf] at hj
        · simp only [hji, if_false] at hj ⊢
          exact hinv.wd j hj
  · -- pc 1: the send
    rename_i hpc
    have hh : ∀ j, holder ⟨s.replay, fun j => if j = i then { s.loc i with pc := 2 } else s.loc j⟩ j ↔ holder s j := by
      intro j
      by_cases hji : j = i
      · subst hji; simp [holder, hpc]
      · simp [holder, hji]
    refine ⟨hinv.ok, fun j hj => hinv.held j ((hh j).1 hj), fun j k hjk hkey h => hinv.uniq j k hjk hkey ⟨(hh j).1 h.1, (hh k).1 h.2⟩,
      fun k hk => ?_, hinv.basek, fun j hj => hinv.hbase j ((hh j).1 hj), fun j hj => ?_, fun j hj => ?_⟩
    · rcases hinv.owned k hk with hb | ⟨j, hj, hjk⟩
      · exact Or.inl hb
      · exact Or.inr ⟨j, (hh j).2 hj, hjk⟩
    · by_cases hji : j = i
      · subst hji; simp only [if_true]; exact hinv.cons j (by omega)
      · simp only [hji, if_false] at hj ⊢; exact hinv.cons j hj
    · by_cases hji : j = i
      · subst hji
        simp only [if_true] at hj
        have := (hinv.wd j hj).1; omega
      · simp only [hji, if_false] at hj ⊢; exact hinv.wd j hj
  · -- pc 2: after the send
    rename_i hpc
    have hnw : (s.loc i).withdrew = false := by
      cases h : (s.loc i).withdrew with
      | false => rfl
      | true => have := (hinv.wd i h).1; omega
    split
    · -- the send failed and the roll-back condition holds
      rename_i hcond
      have hsend : (reqs i).sendOk = false := by
        cases h : (reqs i).sendOk <;> simp_all
      have hrbv : rb (s.loc i).rc (s.loc i).fld = true := by
        cases h : rb (s.loc i).rc (s.loc i).fld <;> simp_all
      obtain ⟨_, errno, h1, h2, _⟩ := hinv.cons i (by omega)
      have hins : (s.loc i).ins = 0 := by
        rw [h1, h2] at hrbv; exact hrb _ _ _ _ hrbv
      have hhold : holder s i := ⟨by omega, hins, hnw⟩
      have hpres := hinv.held i hhold
      rcases remove_cases hinv.ok (reqs i).cred with ⟨hp, _⟩ | ⟨_, st', he, hok', hm⟩
      · exact absurd hpres hp
      · rw [he]
        have hh : ∀ j, j ≠ i → (holder ⟨st', fun j => if j = i then { s.loc i with pc := 3, withdrew := true } else s.loc j⟩ j ↔ holder s j) := by
          intro j hji; simp [holder, hji]
        have hni : ¬ holder ⟨st', fun j => if j = i then { s.loc i with pc := 3, withdrew := true } else s.loc j⟩ i := by
          simp [holder]
        refine ⟨hok', fun j hj => ?_, fun j k hjk hkey h => ?_, fun k hk => ?_, fun k hk => ?_, fun j hj => ?_, fun j hj => ?_, fun j hj => ?_⟩
        · have hji : j ≠ i := by rintro rfl; exact hni hj
          have hj' := (hh j hji).1 hj
          refine (hm _).2 ⟨hinv.held j hj', fun hkey => ?_⟩
          exact hinv.uniq j i hji hkey ⟨hj', hhold⟩
        · have hji : j ≠ i := by rintro rfl; exact hni h.1
          have hki : k ≠ i := by rintro rfl; exact hni h.2
          exact hinv.uniq j k hjk hkey ⟨(hh j hji).1 h.1, (hh k hki).1 h.2⟩
        · obtain ⟨hk1, hk2⟩ := (hm k).1 hk
          rcases hinv.owned k hk1 with hb | ⟨j, hj, hjk⟩
          · exact Or.inl hb
          · have hji : j ≠ i := by rintro rfl; exact hk2 hjk.symm
            exact Or.inr ⟨j, (hh j hji).2 hj, hjk⟩
        · refine (hm k).2 ⟨hinv.basek k hk, ?_⟩
          rintro rfl; exact hinv.hbase i hhold hk
        · have hji : j ≠ i := by rintro rfl; exact hni hj
          exact hinv.hbase j ((hh j hji).1 hj)
        · by_cases hji : j = i
          · subst hji; simp only [if_true]; exact hinv.cons j (by omega)
          · simp only [hji, if_false] at hj ⊢; exact hinv.cons j hj
        · by_cases hji : j = i
          · subst hji; simp only [if_true]; exact ⟨by simp, hsend⟩
          · simp only [hji, if_false] at hj ⊢; exact hinv.wd j hj
    · have hh : ∀ j, holder ⟨s.replay, fun j => if j = i then { s.loc i with pc := 3 } else s.loc j⟩ j ↔ holder s j := by
        intro j
        by_cases hji : j = i
        · subst hji; simp [holder, hpc]
        · simp [holder, hji]
      refine ⟨hinv.ok, fun j hj => hinv.held j ((hh j).1 hj), fun j k hjk hkey h => hinv.uniq j k hjk hkey ⟨(hh j).1 h.1, (hh k).1 h.2⟩,
        fun k hk => ?_, hinv.basek, fun j hj => hinv.hbase j ((hh j).1 hj), fun j hj => ?_, fun j hj => ?_⟩
      · rcases hinv.owned k hk with hb | ⟨j, hj, hjk⟩
        · exact Or.inl hb
        · exact Or.inr ⟨j, (hh j).2 hj, hjk⟩
      · by_cases hji : j = i
        · subst hji; simp only [if_true]; exact hinv.cons j (by omega)
        · simp only [hji, if_false] at hj ⊢; exact hinv.cons j hj
      · by_cases hji : j = i
        · subst hji
          simp only [if_true] at hj
          rw [hnw] at hj; exact absurd hj (by simp)
        · simp only [hji, if_false] at hj ⊢; exact hinv.wd j hj
  · exact hinv

theorem concInv_run (rb : RollbackPred) (hrb : RollbackSound rb) (cfg : Cfg) (reqs : Nat → CReq)
    (base : Key → Prop) : ∀ (sched : List Nat) (s : Sys), ConcInv cfg reqs base s →
    ConcInv cfg reqs base (Sys.run rb cfg reqs s sched)
  | [], _, h => h
  | i :: rest, s, h => by
    simp only [Sys.run, List.foldl_cons]
    exact concInv_run rb hrb cfg reqs base rest _ (concInv_step rb hrb cfg reqs base s h i)

/-- the initial system state: nobody has started -/
theorem concInv_init (cfg : Cfg) (reqs : Nat → CReq) (st : State) (hok : st.Ok) :
    ConcInv cfg reqs (fun k => st.has k) ⟨st, fun _ => {}⟩ := by
  refine ⟨hok, fun i hi => ?_, fun i j _ _ h => ?_, fun k hk => Or.inl hk, fun k hk => hk, fun i hi => ?_, fun i hi => ?_, fun i hi => ?_⟩
  · simp [holder] at hi
  · simp [holder] at h
  · simp [holder] at hi
  · simp at hi
  · simp at hi

end Munge.Replay
