import Munge.Model.ToyPrims
import Munge.Model.PrimLaws
/- The toy primitives satisfy `PrimLaws`: the hypotheses of the credential theorems are satisfiable. -/
namespace Munge.ToyPrims
open Munge.Cred

/-! ### MAC: the state array never changes size -/
theorem absorb_size (s : MacSt) (b : UInt8) : (absorb s b).h.size = s.h.size := by
  simp [absorb]

theorem foldl_size {α : Type} (f : MacSt → α → MacSt) (hf : ∀ s a, (f s a).h.size = s.h.size)
    (l : List α) (s : MacSt) : (l.foldl f s).h.size = s.h.size := by
  induction l generalizing s with
  | nil => rfl
  | cons a l ih => rw [List.foldl_cons, ih, hf]

theorem macFinal_length (s : MacSt) : (macFinal s).length = s.h.size := by
  unfold macFinal
  simp only [Array.length_toList]
  exact foldl_size _ (fun st r => absorb_size st _) _ s

theorem macInit_size (t : Nat) (key : Bytes) : (macInit t key).h.size = (macLen t).toNat := by
  unfold macInit
  simp only [absorb_size]
  rw [foldl_size _ absorb_size]
  simp

theorem mac_length' (t : Nat) (k x : Bytes) (h : macLen t > 0) : ((mac t k x).length : Int) = macLen t := by
  unfold mac
  rw [if_neg (by omega), macFinal_length, foldl_size _ absorb_size, macInit_size]
  omega

theorem macLen_cases (t : Nat) : macLen t = -1 ∨ macLen t = 16 ∨ macLen t = 20 ∨ macLen t = 32 ∨ macLen t = 64 := by
  unfold macLen; split <;> simp
theorem blk_cases (c : Nat) : (blk c = -1 ∧ klen c = -1) ∨ (blk c = 8 ∧ klen c = 16) ∨ (blk c = 16 ∧ klen c = 16) ∨ (blk c = 16 ∧ klen c = 32) := by
  unfold blk klen; split <;> simp

/-! ### cipher: CBC over whole blocks, PKCS padding -/

theorem ite_eq_cases' {α : Sort _} {c : Prop} [Decidable c] {a b y : α} (h : (if c then a else b) = y) :
    (c ∧ a = y) ∨ (¬ c ∧ b = y) := by
  by_cases hc : c
  · rw [if_pos hc] at h; exact .inl ⟨hc, h⟩
  · rw [if_neg hc] at h; exact .inr ⟨hc, h⟩

theorem map_range_eq {a : Bytes} {f : Nat → UInt8} (h : ∀ i, i < a.length → f i = a.getD i 0) :
    (List.range a.length).map f = a := by
  apply List.ext_getElem
  · simp
  · intro i h1 h2
    simp only [List.getElem_map, List.getElem_range]
    rw [h i h2, List.getD_eq_getElem?_getD, List.getElem?_eq_getElem h2]; rfl

theorem getD_map_range {n i : Nat} {f : Nat → UInt8} (h : i < n) : ((List.range n).map f).getD i 0 = f i := by
  rw [List.getD_eq_getElem?_getD, List.getElem?_map, List.getElem?_range h]; rfl

@[simp] theorem xorB_length (a b : Bytes) : (xorB a b).length = a.length := by simp [xorB]
@[simp] theorem blkE_length (k : Bytes) (kl : Nat) (b : Bytes) : (blkE k kl b).length = b.length := by simp [blkE]
@[simp] theorem blkD_length (k : Bytes) (kl : Nat) (b : Bytes) : (blkD k kl b).length = b.length := by simp [blkD]

theorem xorB_xorB (a b : Bytes) : xorB (xorB a b) b = a := by
  unfold xorB
  simp only [List.length_map, List.length_range]
  apply map_range_eq
  intro i hi
  rw [getD_map_range hi, UInt8.xor_assoc, UInt8.xor_self, UInt8.xor_zero]

theorem blkD_blkE (k : Bytes) (kl : Nat) (b : Bytes) : blkD k kl (blkE k kl b) = b := by
  unfold blkD blkE
  simp only [List.length_map, List.length_range]
  apply map_range_eq
  intro i hi
  rw [getD_map_range hi, UInt8.add_sub_cancel, UInt8.xor_assoc, UInt8.xor_self, UInt8.xor_zero]

theorem blkE_blkD (k : Bytes) (kl : Nat) (b : Bytes) : blkE k kl (blkD k kl b) = b := by
  unfold blkD blkE
  simp only [List.length_map, List.length_range]
  apply map_range_eq
  intro i hi
  rw [getD_map_range hi, UInt8.xor_assoc, UInt8.xor_self, UInt8.xor_zero, UInt8.sub_add_cancel]

/-- CBC over whole blocks -/
theorem cbcEnc_length (key : Bytes) (kl bl : Nat) (hbl : 0 < bl) (n : Nat) :
    ∀ (prev : Bytes) (fuel : Nat) (p : Bytes), p.length = n * bl → n ≤ fuel →
      (cbcEnc key kl bl prev fuel p).length = p.length := by
  induction n with
  | zero =>
    intro prev fuel p hp _
    have : p = [] := List.eq_nil_of_length_eq_zero (by omega)
    subst this
    cases fuel <;> simp [cbcEnc]
  | succ n ih =>
    intro prev fuel p hp hf
    obtain ⟨fuel, rfl⟩ : ∃ f, fuel = f + 1 := ⟨fuel - 1, by omega⟩
    have hpl : bl ≤ p.length := by rw [hp, Nat.succ_mul]; omega
    have hne : p.isEmpty = false := by
      cases p with
      | nil => simp at hpl; omega
      | cons _ _ => rfl
    unfold cbcEnc
    simp only [hne]
    simp only [Bool.false_eq_true, if_false, List.length_append, blkE_length, xorB_length, List.length_take]
    rw [ih _ fuel (p.drop bl) (by rw [List.length_drop, hp, Nat.succ_mul]; omega) (by omega)]
    rw [List.length_drop]; omega


theorem isEmpty_false_of_le {p : Bytes} {bl : Nat} (hbl : 0 < bl) (h : bl ≤ p.length) : p.isEmpty = false := by
  cases p with
  | nil => simp at h; omega
  | cons _ _ => rfl

theorem cbcDec_length (key : Bytes) (kl bl : Nat) (hbl : 0 < bl) (n : Nat) :
    ∀ (prev : Bytes) (fuel : Nat) (c : Bytes), c.length = n * bl → n ≤ fuel →
      (cbcDec key kl bl prev fuel c).length = c.length := by
  induction n with
  | zero =>
    intro prev fuel p hp _
    have : p = [] := List.eq_nil_of_length_eq_zero (by omega)
    subst this
    cases fuel <;> simp [cbcDec]
  | succ n ih =>
    intro prev fuel p hp hf
    obtain ⟨fuel, rfl⟩ : ∃ f, fuel = f + 1 := ⟨fuel - 1, by omega⟩
    have hpl : bl ≤ p.length := by rw [hp, Nat.succ_mul]; omega
    unfold cbcDec
    simp only [isEmpty_false_of_le hbl hpl]
    simp only [Bool.false_eq_true, if_false, List.length_append, blkD_length, xorB_length, List.length_take]
    rw [ih _ fuel (p.drop bl) (by rw [List.length_drop, hp, Nat.succ_mul]; omega) (by omega)]
    rw [List.length_drop]; omega

theorem cbcDec_cbcEnc (key : Bytes) (kl bl : Nat) (hbl : 0 < bl) (n : Nat) :
    ∀ (prev : Bytes) (f1 f2 : Nat) (p : Bytes), p.length = n * bl → n ≤ f1 → n ≤ f2 →
      cbcDec key kl bl prev f2 (cbcEnc key kl bl prev f1 p) = p := by
  induction n with
  | zero =>
    intro prev f1 f2 p hp _ _
    have : p = [] := List.eq_nil_of_length_eq_zero (by omega)
    subst this
    cases f1 <;> cases f2 <;> simp [cbcDec, cbcEnc]
  | succ n ih =>
    intro prev f1 f2 p hp h1 h2
    obtain ⟨f1, rfl⟩ : ∃ f, f1 = f + 1 := ⟨f1 - 1, by omega⟩
    obtain ⟨f2, rfl⟩ : ∃ f, f2 = f + 1 := ⟨f2 - 1, by omega⟩
    have hpl : bl ≤ p.length := by rw [hp, Nat.succ_mul]; omega
    have hd : (p.drop bl).length = n * bl := by rw [List.length_drop, hp, Nat.succ_mul]; omega
    rw [cbcEnc]
    simp only [isEmpty_false_of_le hbl hpl, Bool.false_eq_true, if_false]
    generalize hc : blkE key kl (xorB (List.take bl p) prev) = c
    have hcl : c.length = bl := by rw [← hc]; simp; omega
    rw [cbcDec]
    have hne : (c ++ cbcEnc key kl bl c f1 (List.drop bl p)).isEmpty = false :=
      isEmpty_false_of_le hbl (by simp; omega)
    simp only [hne, Bool.false_eq_true, if_false]
    rw [← hcl, List.take_left, List.drop_left, hcl, ih c f1 f2 _ hd (by omega) (by omega)]
    rw [← hc, blkD_blkE, xorB_xorB, List.take_append_drop]

theorem cbcEnc_cbcDec (key : Bytes) (kl bl : Nat) (hbl : 0 < bl) (n : Nat) :
    ∀ (prev : Bytes) (f1 f2 : Nat) (c : Bytes), c.length = n * bl → n ≤ f1 → n ≤ f2 →
      cbcEnc key kl bl prev f2 (cbcDec key kl bl prev f1 c) = c := by
  induction n with
  | zero =>
    intro prev f1 f2 p hp _ _
    have : p = [] := List.eq_nil_of_length_eq_zero (by omega)
    subst this
    cases f1 <;> cases f2 <;> simp [cbcDec, cbcEnc]
  | succ n ih =>
    intro prev f1 f2 p hp h1 h2
    obtain ⟨f1, rfl⟩ : ∃ f, f1 = f + 1 := ⟨f1 - 1, by omega⟩
    obtain ⟨f2, rfl⟩ : ∃ f, f2 = f + 1 := ⟨f2 - 1, by omega⟩
    have hpl : bl ≤ p.length := by rw [hp, Nat.succ_mul]; omega
    have hd : (p.drop bl).length = n * bl := by rw [List.length_drop, hp, Nat.succ_mul]; omega
    rw [cbcDec]
    simp only [isEmpty_false_of_le hbl hpl, Bool.false_eq_true, if_false]
    generalize hc : xorB (blkD key kl (List.take bl p)) prev = c
    have hcl : c.length = bl := by rw [← hc]; simp; omega
    rw [cbcEnc]
    have hne : (c ++ cbcDec key kl bl (List.take bl p) f1 (List.drop bl p)).isEmpty = false :=
      isEmpty_false_of_le hbl (by simp; omega)
    simp only [hne, Bool.false_eq_true, if_false]
    rw [← hcl, List.take_left, List.drop_left, hcl]
    have e1 : blkE key kl (xorB c prev) = List.take bl p := by rw [← hc, xorB_xorB, blkE_blkD]
    rw [e1, ih (List.take bl p) f1 f2 _ hd (by omega) (by omega), List.take_append_drop]


/-- `decrypt` with the block and key lengths as parameters -/
def decryptG (bl kl : Nat) (key iv ct : Bytes) : Bytes × Bool :=
  let nblk := ct.length / bl
  let release := if ct.length % bl = 0 then nblk - 1 else nblk
  let all := cbcDec (key.take kl) kl bl (iv.take bl) (nblk + 1) (ct.take (nblk * bl))
  let head := all.take (release * bl)
  if ct.length = 0 ∨ ct.length % bl ≠ 0 then (head, false) else
  let last := (all.drop (release * bl)).take bl
  let pad := (last.getD (bl - 1) 0).toNat
  if pad < 1 ∨ pad > bl then (head, false) else
  if (last.drop (bl - pad)).all (fun x => x.toNat = pad) then (head ++ last.take (bl - pad), true)
  else (head, false)

theorem decrypt_eq (c : Nat) (key iv ct : Bytes) :
    decrypt c key iv ct = decryptG (blk c).toNat (klen c).toNat key iv ct := rfl

def encryptG (bl kl : Nat) (key iv pt : Bytes) : Bytes :=
  let pad := bl - pt.length % bl
  let p := pt ++ List.replicate pad (UInt8.ofNat pad)
  cbcEnc (key.take kl) kl bl (iv.take bl) (p.length / bl + 1) p

theorem encrypt_eq (c : Nat) (key iv pt : Bytes) :
    encrypt c key iv pt = encryptG (blk c).toNat (klen c).toNat key iv pt := rfl

theorem decryptG_spec (bl kl : Nat) (key iv ct H T : Bytes) (pad n : Nat)
    (hbl : bl < 256) (hn : 1 ≤ n) (hpad : 1 ≤ pad ∧ pad ≤ bl)
    (hH : H.length = (n - 1) * bl) (hT : T.length = bl - pad) (hct : ct.length = n * bl)
    (hall : cbcDec (key.take kl) kl bl (iv.take bl) (n + 1) ct = H ++ (T ++ List.replicate pad (UInt8.ofNat pad))) :
    decryptG bl kl key iv ct = (H ++ T, true) := by
  have hbl0 : 0 < bl := by omega
  have hdiv : ct.length / bl = n := by rw [hct]; exact Nat.mul_div_cancel _ hbl0
  have hmod : ct.length % bl = 0 := by rw [hct]; exact Nat.mul_mod_left _ _
  have hnb : bl ≤ n * bl := by
    have := Nat.mul_le_mul_right bl hn; omega
  have hlen0 : ct.length ≠ 0 := by omega
  unfold decryptG
  simp only [hdiv, hmod, if_true, ne_eq, not_true_eq_false, or_false, hlen0, if_false]
  rw [List.take_of_length_le (l := ct) (i := n * bl) (by omega), hall]
  have e1 : List.take ((n - 1) * bl) (H ++ (T ++ List.replicate pad (UInt8.ofNat pad))) = H := by
    rw [← hH, List.take_left]
  have e2 : List.take bl (List.drop ((n - 1) * bl) (H ++ (T ++ List.replicate pad (UInt8.ofNat pad)))) =
      T ++ List.replicate pad (UInt8.ofNat pad) := by
    rw [← hH, List.drop_left, List.take_of_length_le (by simp; omega)]
  rw [e1, e2]
  have e3 : (T ++ List.replicate pad (UInt8.ofNat pad)).getD (bl - 1) 0 = UInt8.ofNat pad := by
    rw [List.getD_eq_getElem?_getD, List.getElem?_append_right (by omega), List.getElem?_replicate]
    rw [if_pos (by omega)]; rfl
  have e4 : (UInt8.ofNat pad).toNat = pad := by
    rw [UInt8.toNat_ofNat']; omega
  rw [e3, e4]
  rw [if_neg (by omega)]
  have e5 : List.drop (bl - pad) (T ++ List.replicate pad (UInt8.ofNat pad)) = List.replicate pad (UInt8.ofNat pad) := by
    rw [← hT, List.drop_left]
  have e6 : List.take (bl - pad) (T ++ List.replicate pad (UInt8.ofNat pad)) = T := by
    rw [← hT, List.take_left]
  rw [e5, e6, if_pos]
  simp [e4]


theorem decryptG_inv (bl kl : Nat) (key iv ct pt : Bytes) (hbl0 : 0 < bl)
    (h : decryptG bl kl key iv ct = (pt, true)) :
    ∃ n pad, 1 ≤ n ∧ ct.length = n * bl ∧ 1 ≤ pad ∧ pad ≤ bl ∧
      cbcDec (key.take kl) kl bl (iv.take bl) (n + 1) ct = pt ++ List.replicate pad (UInt8.ofNat pad) := by
  unfold decryptG at h
  dsimp only at h
  rcases ite_eq_cases' h with ⟨_, h'⟩ | ⟨hc1, h'⟩
  · cases h'
  clear h
  have hlen0 : ct.length ≠ 0 := fun e => hc1 (.inl e)
  have hmod : ct.length % bl = 0 := Decidable.not_not.mp (fun e => hc1 (.inr e))
  rw [if_pos hmod] at h'
  generalize hn : ct.length / bl = n at h'
  have hct : ct.length = n * bl := by
    have := Nat.div_add_mod ct.length bl
    rw [hmod, hn, Nat.mul_comm] at this; omega
  have hn1 : 1 ≤ n := by
    rcases n with _ | n
    · rw [Nat.zero_mul] at hct; omega
    · omega
  rw [List.take_of_length_le (l := ct) (i := n * bl) (by omega)] at h'
  have hal := cbcDec_length (key.take kl) kl bl hbl0 n (iv.take bl) (n + 1) ct hct (by omega)
  generalize hall : cbcDec (key.take kl) kl bl (iv.take bl) (n + 1) ct = all at h' hal
  have hnb : (n - 1) * bl + bl = n * bl := by
    rw [← Nat.succ_mul]; congr 1; omega
  have hlast : List.take bl (List.drop ((n - 1) * bl) all) = List.drop ((n - 1) * bl) all := by
    rw [List.take_of_length_le (by rw [List.length_drop]; omega)]
  rw [hlast] at h'
  generalize hl : List.drop ((n - 1) * bl) all = last at h'
  have hll : last.length = bl := by rw [← hl, List.length_drop]; omega
  generalize hp : (last.getD (bl - 1) 0).toNat = pad at h'
  rcases ite_eq_cases' h' with ⟨_, h⟩ | ⟨hc2, h⟩
  · cases h
  clear h'
  rcases ite_eq_cases' h with ⟨hc3, h'⟩ | ⟨_, h'⟩
  · clear h
    have hpt : List.take ((n - 1) * bl) all ++ List.take (bl - pad) last = pt := by
      have := congrArg Prod.fst h'; exact this
    refine ⟨n, pad, hn1, hct, by omega, by omega, ?_⟩
    have hrep : List.drop (bl - pad) last = List.replicate pad (UInt8.ofNat pad) := by
      rw [List.eq_replicate_iff]
      refine ⟨by rw [List.length_drop]; omega, fun b hb => ?_⟩
      have := List.all_eq_true.mp hc3 b hb
      have hb' : b.toNat = pad := by simpa using this
      rw [← hb']; simp
    rw [hall, ← hpt, List.append_assoc, ← hrep, List.take_append_drop, ← hl, List.take_append_drop]
  · cases h'

theorem pad_arith (bl len : Nat) (hbl0 : 0 < bl) :
    len + (bl - len % bl) = (len / bl + 1) * bl ∧ len / bl * bl ≤ len ∧ len - len / bl * bl = len % bl := by
  have h1 := Nat.div_add_mod len bl
  have h2 := Nat.mod_lt len hbl0
  rw [Nat.succ_mul, Nat.mul_comm (len / bl) bl]
  omega

theorem decryptG_encryptG (bl kl : Nat) (key iv pt : Bytes) (hbl0 : 0 < bl) (hbl : bl < 256) :
    decryptG bl kl key iv (encryptG bl kl key iv pt) = (pt, true) := by
  obtain ⟨a1, a2, a3⟩ := pad_arith bl pt.length hbl0
  have hm := Nat.mod_lt pt.length hbl0
  unfold encryptG
  dsimp only
  generalize pt.length / bl = q at *
  generalize pt.length % bl = r at *
  generalize hpad : bl - r = pad at *
  generalize hp : pt ++ List.replicate pad (UInt8.ofNat pad) = p
  have hpl : p.length = (q + 1) * bl := by rw [← hp]; simp; omega
  have hdiv : p.length / bl = q + 1 := by rw [hpl]; exact Nat.mul_div_cancel _ hbl0
  rw [hdiv]
  have hcl := cbcEnc_length (key.take kl) kl bl hbl0 (q + 1) (iv.take bl) (q + 1 + 1) p hpl (by omega)
  have key' := decryptG_spec bl kl key iv
    (cbcEnc (key.take kl) kl bl (iv.take bl) (q + 1 + 1) p)
    (pt.take (q * bl)) (pt.drop (q * bl)) pad (q + 1) hbl (by omega)
    (by omega) (by rw [List.length_take]; simp; omega) (by rw [List.length_drop]; omega) (by rw [hcl, hpl])
    (by rw [cbcDec_cbcEnc _ _ _ hbl0 _ _ _ _ _ hpl (by omega) (by omega), ← List.append_assoc,
          List.take_append_drop, hp])
  rw [key', List.take_append_drop]

theorem decryptG_inj (bl kl : Nat) (key iv c1 c2 pt : Bytes) (hbl0 : 0 < bl)
    (h1 : decryptG bl kl key iv c1 = (pt, true)) (h2 : decryptG bl kl key iv c2 = (pt, true)) : c1 = c2 := by
  obtain ⟨n1, p1, hn1, hc1, hp1, hp1', ha1⟩ := decryptG_inv bl kl key iv c1 pt hbl0 h1
  obtain ⟨n2, p2, hn2, hc2, hp2, hp2', ha2⟩ := decryptG_inv bl kl key iv c2 pt hbl0 h2
  have l1 := cbcDec_length (key.take kl) kl bl hbl0 n1 (iv.take bl) (n1 + 1) c1 hc1 (by omega)
  have l2 := cbcDec_length (key.take kl) kl bl hbl0 n2 (iv.take bl) (n2 + 1) c2 hc2 (by omega)
  rw [ha1, hc1] at l1
  rw [ha2, hc2] at l2
  simp only [List.length_append, List.length_replicate] at l1 l2
  have hn : n1 = n2 := by
    rcases Nat.lt_trichotomy n1 n2 with h | h | h
    · have := Nat.mul_le_mul_right bl (show n1 + 1 ≤ n2 from h)
      rw [Nat.succ_mul] at this; omega
    · exact h
    · have := Nat.mul_le_mul_right bl (show n2 + 1 ≤ n1 from h)
      rw [Nat.succ_mul] at this; omega
  subst hn
  have hp : p1 = p2 := by omega
  subst hp
  have e1 := cbcEnc_cbcDec (key.take kl) kl bl hbl0 n1 (iv.take bl) (n1 + 1) (n1 + 1) c1 hc1 (by omega) (by omega)
  have e2 := cbcEnc_cbcDec (key.take kl) kl bl hbl0 n1 (iv.take bl) (n1 + 1) (n1 + 1) c2 hc2 (by omega) (by omega)
  rw [← e1, ← e2, ha1, ha2]

/-! ### compression: tagged run-length pairs -/

theorem rle_even (fuel : Nat) : ∀ src : Bytes, (rle fuel src).length % 2 = 0 := by
  induction fuel with
  | zero => intro src; simp [rle]
  | succ f ih =>
    intro src
    cases src with
    | nil => simp [rle]
    | cons b rest =>
      simp only [rle, List.length_cons]
      have := ih (List.drop (if (List.takeWhile (fun x => x == b) rest).length > 254 then 254
        else (List.takeWhile (fun x => x == b) rest).length) rest)
      omega

theorem take_of_le_takeWhile (b : UInt8) : ∀ (l : Bytes) (k : Nat), k ≤ (l.takeWhile (· == b)).length →
    l.take k = List.replicate k b ∧ k ≤ l.length := by
  intro l
  induction l with
  | nil => intro k hk; simp at hk; subst hk; simp
  | cons x xs ih =>
    intro k hk
    cases k with
    | zero => simp
    | succ k =>
      by_cases hx : (x == b) = true
      · rw [List.takeWhile_cons, if_pos hx] at hk
        simp only [List.length_cons] at hk
        obtain ⟨h1, h2⟩ := ih k (by omega)
        have : x = b := by simpa using hx
        simp [List.replicate_succ, h1, this]; omega
      · rw [List.takeWhile_cons, if_neg hx] at hk
        simp at hk

theorem unrle_rle (f : Nat) : ∀ (src : Bytes) (fuel cap acc : Nat), src.length ≤ f →
    (rle f src).length ≤ 2 * fuel → acc + src.length ≤ cap → unrle fuel (rle f src) cap acc = some src := by
  induction f with
  | zero =>
    intro src fuel cap acc h1 _ _
    have : src = [] := List.eq_nil_of_length_eq_zero (by omega)
    subst this
    cases fuel <;> simp [rle, unrle]
  | succ f ih =>
    intro src fuel cap acc h1 h2 h3
    cases src with
    | nil => cases fuel <;> simp [rle, unrle]
    | cons b rest =>
      simp only [rle] at h2 ⊢
      generalize hr0 : (List.takeWhile (fun x => x == b) rest).length = run0 at h2 ⊢
      generalize hr : (if run0 > 254 then 254 else run0) = run at h2 ⊢
      have hrun : run ≤ 254 ∧ run ≤ run0 := by rw [← hr]; split <;> omega
      obtain ⟨ht, hl⟩ := take_of_le_takeWhile b rest run (by rw [hr0]; omega)
      simp only [List.length_cons] at h1 h2 h3
      obtain ⟨fuel, rfl⟩ : ∃ k, fuel = k + 1 := ⟨fuel - 1, by omega⟩
      have hn : (UInt8.ofNat (run + 1)).toNat = run + 1 := by rw [UInt8.toNat_ofNat']; omega
      have hn0 : UInt8.ofNat (run + 1) ≠ 0 := by
        intro h; have := congrArg UInt8.toNat h; rw [hn] at this; simp at this
      simp only [unrle]
      rw [if_neg hn0, hn, if_neg (by omega)]
      rw [ih (rest.drop run) fuel cap (acc + (run + 1)) (by rw [List.length_drop]; omega) (by omega)
        (by rw [List.length_drop]; omega)]
      simp only [Option.map_some, List.replicate_succ, List.cons_append]
      rw [← ht, List.take_append_drop]

theorem tag_ne (z : Nat) : tag0 z + 1 ≠ tag0 z := by
  unfold tag0; split <;> decide

theorem inflate_deflate' (z : Nat) (x : Bytes) : inflate z (deflate z x) x.length = some x := by
  unfold deflate
  dsimp only
  by_cases h : (rle x.length x).length < x.length
  · rw [if_pos h]
    simp only [inflate]
    rw [if_neg (tag_ne z), if_pos trivial, if_neg (by have := rle_even x.length x; omega)]
    exact unrle_rle x.length x _ _ 0 (Nat.le_refl _) (by omega) (by omega)
  · rw [if_neg h]
    simp only [inflate]
    rw [if_pos trivial, if_neg (by omega)]

/-- the toy instance satisfies every structural law the credential theorems assume -/
theorem toy_laws : PrimLaws prims := by
  refine
    { mac_low := by decide
      cipher_low := by decide
      zip_low := by decide
      macLen_range := ?_
      mac_length := ?_
      ivLen_range := ?_
      keyLen_range := ?_
      keyLen_none := by decide
      dec_enc := ?_
      dec_inj := ?_
      inflate_deflate := ?_ }
  · intro t h
    have h' : macLen t > 0 := by simpa [prims] using h
    show 16 ≤ macLen t ∧ macLen t ≤ 64
    rcases macLen_cases t with e | e | e | e | e <;> omega
  · intro t k x h
    have h' : macLen t > 0 := by simpa [prims] using h
    exact mac_length' t k x h'
  · intro c h
    have h' : blk c > 0 := by simpa [prims] using h
    show 0 ≤ blk c ∧ blk c ≤ 16
    rcases blk_cases c with ⟨e, _⟩ | ⟨e, _⟩ | ⟨e, _⟩ | ⟨e, _⟩ <;> omega
  · intro c h
    have h' : blk c > 0 := by simpa [prims] using h
    show 0 < klen c ∧ klen c ≤ 32
    rcases blk_cases c with ⟨e, e'⟩ | ⟨e, e'⟩ | ⟨e, e'⟩ | ⟨e, e'⟩ <;> omega
  · intro c k iv pt h
    have h' : blk c > 0 := by simpa [prims] using h
    show decrypt c k iv (encrypt c k iv pt) = (pt, true)
    rw [encrypt_eq, decrypt_eq]
    apply decryptG_encryptG
    · omega
    · rcases blk_cases c with ⟨e, _⟩ | ⟨e, _⟩ | ⟨e, _⟩ | ⟨e, _⟩ <;> omega
  · intro c k iv c1 c2 pt h h1 h2
    have h' : blk c > 0 := by simpa [prims] using h
    exact decryptG_inj (blk c).toNat (klen c).toNat k iv c1 c2 pt (by omega) h1 h2
  · intro z x _ _
    exact inflate_deflate' z x

end Munge.ToyPrims
