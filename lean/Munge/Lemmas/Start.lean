import Munge.Model.Start
/-
Helper definitions and lemmas for C15 (`Munge/Props/C15.lean`): structural well-formedness of a start-up /
shutdown program, the invariants of the `Start` transition system, and the solo-run lemmas.
-/
namespace Munge.Start
open Munge.Gen.Start (Name)

@[simp, grind =] theorem live_idle : Phase.idle.live = false := rfl
@[simp, grind =] theorem live_starting : Phase.starting.live = true := rfl
@[simp, grind =] theorem live_serving : Phase.serving.live = true := rfl
@[simp, grind =] theorem live_stopping : Phase.stopping.live = true := rfl
@[simp, grind =] theorem live_exited (b : Bool) : (Phase.exited b).live = false := rfl
@[simp, grind =] theorem live_crashed : Phase.crashed.live = false := rfl

/-! ### structural conditions on a program (decidable; checked on the generated program by `decide`) -/

/-- how one call changes the ghost flags (held, own) — mirrors `execOp` -/
def flagStep (held own : Bool) (op : Op) (rest : List Op) : Bool × Bool :=
  match op with
  | .unlink .lock => (held, false)
  | .setlk => (true, !rest.contains .revalidate)
  | .revalidate => (held, held)
  | .closeLock => (false, false)
  | _ => (held, own)

/-- which calls may be made in which situation: the socket name, the listening socket and the lock-file name
    are touched only by a process past the lock step; during start-up (`st`) this also holds for the pid file, and the
    lock file is never unlinked there;
    the lock is taken once, on a freshly opened descriptor; no call creates the lock or socket name as a plain file;
    the mode the lock file is created with is the one `_lock_stat` insists on. -/
def allowed (P : Prog) (st held own : Bool) : Op → Bool
  | .unlink .lock => !st && own
  | .unlink .sock | .bind | .listen => own
  | .unlink .pid | .create .pid _ => !st || own
  | .create .lock _ | .create .sock _ => false
  | .openLock _ _ m => st && !held && !own && statOk P (some ⟨.reg, m⟩)
  | .setlk | .revalidate => st && !own
  | .closeLock => !own
  | _ => true

def safe (P : Prog) (st : Bool) : Bool → Bool → List Op → Bool
  | _, _, [] => true
  | h, o, op :: rest =>
    allowed P st h o op && safe P st (flagStep h o op rest).1 (flagStep h o op rest).2 rest

def endFlags : Bool → Bool → List Op → Bool × Bool
  | h, o, [] => (h, o)
  | h, o, op :: rest => endFlags (flagStep h o op rest).1 (flagStep h o op rest).2 rest

/-- every F_SETLK is followed by a re-validation -/
def revalOK : List Op → Bool
  | [] => true
  | .setlk :: rest => rest.contains .revalidate && revalOK rest
  | _ :: rest => revalOK rest

/-- Well-formed program: the start-up sequence respects `allowed` from (not held, not owner) and ends as owner;
    the shutdown sequence respects it from there. -/
def WF (P : Prog) : Bool :=
  safe P true false false P.startup && (endFlags false false P.startup).2 &&
  safe P false (endFlags false false P.startup).1 true P.shutdown

/-- the program re-validates the locked descriptor against the name -/
def Revalidates (P : Prog) : Bool := revalOK P.startup

theorem revalOK_tail {op : Op} {rest : List Op} (h : revalOK (op :: rest) = true) : revalOK rest = true := by
  cases op <;> simp_all [revalOK]

/-! ### invariants -/

/-- per-process invariant (`rv`: the program is required to re-validate) -/
def ProcOK (P : Prog) (rv : Bool) (pr : Proc) : Prop :=
  match pr.phase with
  | .starting => safe P true pr.held pr.own pr.todo = true ∧
      endFlags pr.held pr.own pr.todo = endFlags false false P.startup ∧ (rv = true → revalOK pr.todo = true)
  | .serving => pr.held = (endFlags false false P.startup).1 ∧ pr.own = true
  | .stopping => safe P false pr.held pr.own pr.todo = true
  | _ => pr.held = false ∧ pr.own = false ∧ pr.lockFd = none

def ProcsOK (P : Prog) (rv : Bool) (s : State) : Prop := ∀ p, ProcOK P rv (s.procs p)

/-- case analysis on an operation, with the path name of unlink/create made concrete -/
macro "op_cases " op:ident " => " t:tacticSeq : tactic =>
  `(tactic| (cases $op:ident with
      | unlink n => cases n <;> ($t)
      | create n m => cases n <;> ($t)
      | _ => ($t)))

theorem effect_flags {P : Prog} {s s1 : State} {p : Pid} {pr pr1 : Proc} {op : Op} {rest : List Op}
    (h : effect P s p pr op rest = some (s1, pr1)) :
    pr1.phase = pr.phase ∧ pr1.todo = pr.todo ∧ pr1.held = (flagStep pr.held pr.own op rest).1 ∧
    pr1.own = (flagStep pr.held pr.own op rest).2 ∧ s1.procs = s.procs := by
  op_cases op =>
    (simp only [effect] at h; (repeat' split at h) <;> simp_all [flagStep] <;> (obtain ⟨h1, h2⟩ := h; subst h1 h2; simp))

theorem cont_procs_other (s : State) (p q : Pid) (pr : Proc) (rest : List Op) (h : q ≠ p) :
    (cont s p pr rest).procs q = s.procs q := by
  simp only [cont, kill]; (repeat' split) <;> simp [h]

theorem kill_procs_other (s : State) (p q : Pid) (ph : Phase) (h : q ≠ p) : (kill s p ph).procs q = s.procs q := by
  simp [kill, h]

theorem execOp_procs_other (P : Prog) (s : State) (p q : Pid) (pr : Proc) (op : Op) (rest : List Op) (h : q ≠ p) :
    (execOp P s p pr op rest).procs q = s.procs q := by
  simp only [execOp]
  split
  · rename_i s1 pr1 he
    rw [cont_procs_other _ _ _ _ _ h, (effect_flags he).2.2.2.2]
  · exact kill_procs_other _ _ _ _ h

theorem procOK_cont (P : Prog) (rv : Bool) (s : State) (p : Pid) (pr : Proc) (rest : List Op)
    (hE : (endFlags false false P.startup).2 = true)
    (h1 : pr.phase = .starting → safe P true pr.held pr.own rest = true ∧
      endFlags pr.held pr.own rest = endFlags false false P.startup ∧ (rv = true → revalOK rest = true))
    (h2 : pr.phase = .stopping → safe P false pr.held pr.own rest = true)
    (hph : pr.phase = .starting ∨ pr.phase = .stopping) :
    ProcOK P rv ((cont s p pr rest).procs p) := by
  rcases rest with _ | ⟨r, rest⟩
  · rcases hph with hph | hph
    · have := (h1 hph).2.1
      simp only [endFlags] at this
      simp [cont, hph, ProcOK, ← this] at hE ⊢
      exact hE
    · simp [cont, hph, kill, ProcOK]
  · rcases hph with hph | hph
    · simpa [cont, ProcOK, hph] using h1 hph
    · simpa [cont, ProcOK, hph] using h2 hph

theorem execOp_procOK (P : Prog) (rv : Bool) (s : State) (p : Pid) (op : Op) (rest : List Op)
    (hph : (s.procs p).phase = .starting ∨ (s.procs p).phase = .stopping)
    (htd : (s.procs p).todo = op :: rest) (h : ProcOK P rv (s.procs p))
    (hE : (endFlags false false P.startup).2 = true) :
    ProcOK P rv ((execOp P s p (s.procs p) op rest).procs p) := by
  simp only [execOp]
  split
  · rename_i s1 pr1 he
    obtain ⟨f1, f2, f3, f4, f5⟩ := effect_flags he
    apply procOK_cont P rv s1 p pr1 rest hE
    · intro hs
      rw [f1] at hs
      simp only [ProcOK, hs, htd, safe, endFlags, Bool.and_eq_true] at h
      rw [f3, f4]
      exact ⟨h.1.2, h.2.1, fun hr => revalOK_tail (h.2.2 hr)⟩
    · intro hs
      rw [f1] at hs
      simp only [ProcOK, hs, htd, safe, Bool.and_eq_true] at h
      rw [f3, f4]
      exact h.2
    · rw [f1]; exact hph
  · simp [fail, kill, ProcOK]

/-- well-formedness in mode `rv` -/
def WFr (P : Prog) (rv : Bool) : Bool := WF P && (!rv || revalOK P.startup)

theorem procsOK_step (P : Prog) (rv : Bool) (hwf : WFr P rv = true) (s : State) (e : Event) (h : ProcsOK P rv s) :
    ProcsOK P rv (step P s e) := by
  simp only [WFr, WF, Bool.and_eq_true, Bool.or_eq_true, Bool.not_eq_true'] at hwf
  obtain ⟨⟨⟨w1, w2⟩, w3⟩, w4⟩ := hwf
  intro q
  have hq := h q
  cases e with
  | start p =>
    simp only [step]
    split
    · by_cases hqp : q = p
      · subst hqp
        refine procOK_cont P rv s q _ _ w2 (fun _ => ⟨w1, rfl, fun hr => ?_⟩) (fun hh => by simp at hh) (Or.inl rfl)
        rcases w4 with w4 | w4
        · simp [hr] at w4
        · exact w4
      · rw [cont_procs_other _ _ _ _ _ hqp]; exact hq
    · exact hq
  | exec p =>
    simp only [step]
    split
    · rename_i hph
      split
      · rename_i op rest htd
        by_cases hqp : q = p
        · subst hqp; exact execOp_procOK P rv s q op rest hph htd hq w2
        · rw [execOp_procs_other _ _ _ _ _ _ _ hqp]; exact hq
      · exact hq
    · exact hq
  | term p =>
    have hp := h p
    simp only [step]
    split
    · rename_i hid
      simp only [ProcOK, hid] at hp
      by_cases hqp : q = p
      · subst hqp
        exact procOK_cont P rv s q _ _ w2 (fun hh => by simp at hh) (fun _ => by simp [hp.1, hp.2, w3]) (Or.inr rfl)
      · rw [cont_procs_other _ _ _ _ _ hqp]; exact hq
    · exact hq
  | crash p =>
    simp only [step, kill]
    split
    · by_cases hqp : q = p
      · subst hqp; simp [ProcOK]
      · simpa [hqp] using hq
    · exact hq

theorem procsOK_init (P : Prog) (rv : Bool) : ProcsOK P rv init := by
  intro p; simp [init, ProcOK]

/-! ### a generic preservation principle -/

def setProc (s : State) (p : Pid) (pr : Proc) : State := { s with procs := upd s.procs p pr }

/-- `pr'` continues `pr`: same descriptors and flags, alive, phase unchanged or start-up completed -/
def Continues (pr pr' : Proc) : Prop :=
  pr'.lockFd = pr.lockFd ∧ pr'.held = pr.held ∧ pr'.own = pr.own ∧ pr'.hasSock = pr.hasSock ∧ pr'.bound = pr.bound ∧
  pr'.phase.live = true ∧ (pr'.phase = pr.phase ∨ (pr.phase = .starting ∧ pr'.phase = .serving))

theorem kill_setProc (s : State) (p : Pid) (pr : Proc) (ph : Phase) : kill (setProc s p pr) p ph = kill s p ph := by
  simp only [kill, setProc]
  congr 1
  funext x
  by_cases hx : x = p <;> simp [hx]

theorem cont_cases (s : State) (p : Pid) (pr : Proc) (rest : List Op)
    (hl : pr.phase = .starting ∨ pr.phase = .stopping) :
    cont s p pr rest = kill (setProc s p pr) p (.exited true) ∨
    ∃ pr', Continues pr pr' ∧ cont s p pr rest = setProc s p pr' := by
  rcases rest with _ | ⟨r, rest⟩
  · simp only [cont]
    split
    · left; rw [kill_setProc]
    · right
      refine ⟨_, ?_, rfl⟩
      rcases hl with hl | hl <;> simp_all [Continues]
  · right
    refine ⟨_, ?_, rfl⟩
    rcases hl with hl | hl <;> simp [Continues, hl]

/-- Generic preservation principle: an invariant survives every step if it survives (1) the death of a process,
    (2) `start`, (3) `term`, (4) the effect of one call followed by any continuation of the caller. -/
theorem step_preserves (Φ : State → Prop) (P : Prog) (s : State) (e : Event)
    (hkill : ∀ s p ph, Φ s → ph.live = false → Φ (kill s p ph))
    (hstart : ∀ p pr', (s.procs p).phase = .idle → Continues { phase := .starting } pr' → Φ (setProc s p pr'))
    (hterm : ∀ p pr', (s.procs p).phase = .serving → Continues { (s.procs p) with phase := .stopping } pr' →
      Φ (setProc s p pr'))
    (hexec : ∀ p op rest s1 pr1 pr', e = .exec p → ((s.procs p).phase = .starting ∨ (s.procs p).phase = .stopping) →
      (s.procs p).todo = op :: rest → effect P s p (s.procs p) op rest = some (s1, pr1) → Continues pr1 pr' →
      Φ (setProc s1 p pr'))
    (h : Φ s) : Φ (step P s e) := by
  cases e with
  | start p =>
    simp only [step]
    split
    · rename_i hi
      rcases cont_cases s p { phase := .starting } P.startup (Or.inl rfl) with hc | ⟨pr', hc1, hc2⟩
      · rw [hc]; exact hkill _ _ _ (hstart p _ hi ⟨rfl, rfl, rfl, rfl, rfl, rfl, Or.inl rfl⟩) rfl
      · rw [hc2]; exact hstart p pr' hi hc1
    · exact h
  | exec p =>
    simp only [step]
    split
    · rename_i hph
      split
      · rename_i op rest htd
        simp only [execOp]
        split
        · rename_i s1 pr1 he
          have hf := effect_flags he
          rcases cont_cases s1 p pr1 rest (by rw [hf.1]; exact hph) with hc | ⟨pr', hc1, hc2⟩
          · rw [hc]
            refine hkill _ _ _ (hexec p op rest s1 pr1 pr1 rfl hph htd he ⟨rfl, rfl, rfl, rfl, rfl, ?_, Or.inl rfl⟩) rfl
            rw [hf.1]; rcases hph with h | h <;> simp [h]
          · rw [hc2]; exact hexec p op rest s1 pr1 pr' rfl hph htd he hc1
        · exact hkill _ _ _ h rfl
      · exact h
    · exact h
  | term p =>
    simp only [step]
    split
    · rename_i hi
      rcases cont_cases s p { (s.procs p) with phase := .stopping } P.shutdown (Or.inr rfl) with hc | ⟨pr', hc1, hc2⟩
      · rw [hc]; exact hkill _ _ _ (hterm p _ hi ⟨rfl, rfl, rfl, rfl, rfl, rfl, Or.inl rfl⟩) rfl
      · rw [hc2]; exact hterm p pr' hi hc1
    · exact h
  | crash p =>
    simp only [step]
    split
    · exact hkill _ _ _ h rfl
    · exact h
/-! ### file-system invariants -/

/-- case analysis on a successful `effect` -/
macro "eff_cases " op:ident he:ident " => " t:tacticSeq : tactic =>
  `(tactic| op_cases $op =>
      (simp only [effect] at $he:ident
       (repeat' split at $he:ident) <;>
        (try (simp only [Option.some.injEq, Prod.mk.injEq, reduceCtorEq] at $he:ident)) <;>
        (try (obtain ⟨e1, e2⟩ := $he:ident; subst e1 e2)) <;> ($t)))

/-- a record lock or a listening socket belongs to a live process -/
def OwnersLive (s : State) : Prop :=
  (∀ i q, s.lockOwner i = some q → (s.procs q).phase.live = true) ∧
  (∀ i q, s.listener i = some q → (s.procs q).phase.live = true)

/-- inode numbers in use are below the allocation pointer -/
def Fresh (s : State) : Prop := ∀ n i, s.names n = some i → i < s.next

/-- the lock-file name refers to a file `_lock_stat` accepts -/
def LockMode (P : Prog) (s : State) : Prop := ∀ i, s.names .lock = some i → statOk P (s.inode i) = true

/-- a process that believes it holds the lock does hold it -/
def HeldLocks (s : State) : Prop :=
  ∀ p i, (s.procs p).held = true → (s.procs p).lockFd = some i → s.lockOwner i = some p

/-- a process past the lock step holds the lock on the inode the lock-file name refers to -/
def OwnNamed (s : State) : Prop :=
  ∀ p, (s.procs p).own = true → (s.procs p).held = true ∧ (s.procs p).lockFd ≠ none ∧ s.names .lock = (s.procs p).lockFd

/-- (only without re-validation, on quiet schedules) a starting process that has the lock file open has the named one -/
def PreNamed (s : State) : Prop :=
  ∀ q, (s.procs q).phase = .starting → (s.procs q).own = false → (s.procs q).lockFd ≠ none →
    s.names .lock = (s.procs q).lockFd

theorem ownersLive_step (P : Prog) (s : State) (e : Event) (h : OwnersLive s) : OwnersLive (step P s e) := by
  refine step_preserves OwnersLive P s e ?_ ?_ ?_ ?_ h
  · intro s p ph h hph
    simp only [OwnersLive, kill] at h ⊢
    grind [upd_apply]
  · intro p pr' hi hc
    simp only [OwnersLive, setProc, Continues] at h hc ⊢
    grind [upd_apply]
  · intro p pr' hi hc
    simp only [OwnersLive, setProc, Continues] at h hc ⊢
    grind [upd_apply]
  · intro p op rest s1 pr1 pr' _ hph htd he hc
    simp only [OwnersLive, setProc, Continues] at h hc ⊢
    eff_cases op he => (grind [upd_apply])

theorem fresh_step (P : Prog) (s : State) (e : Event) (h : Fresh s) : Fresh (step P s e) := by
  refine step_preserves Fresh P s e ?_ ?_ ?_ ?_ h
  · intro s p ph h hph
    simpa only [Fresh, kill] using h
  · intro p pr' hi hc
    simpa only [Fresh, setProc] using h
  · intro p pr' hi hc
    simpa only [Fresh, setProc] using h
  · intro p op rest s1 pr1 pr' _ hph htd he hc
    simp only [Fresh, setProc] at h ⊢
    eff_cases op he => (grind [upd_apply])

theorem allowed_of_procOK {P : Prog} {rv : Bool} {pr : Proc} {op : Op} {rest : List Op} (h : ProcOK P rv pr)
    (htd : pr.todo = op :: rest) (hph : pr.phase = .starting ∨ pr.phase = .stopping) :
    ∃ st, allowed P st pr.held pr.own op = true ∧ (st = true ↔ pr.phase = .starting) := by
  rcases hph with hph | hph
  · exact ⟨true, by simp_all [ProcOK, safe], by simp [hph]⟩
  · exact ⟨false, by simp_all [ProcOK, safe], by simp [hph]⟩

theorem lockMode_step (P : Prog) (rv : Bool) (s : State) (e : Event) (hp : ProcsOK P rv s) (hf : Fresh s)
    (h : LockMode P s) : LockMode P (step P s e) := by
  refine step_preserves (LockMode P) P s e ?_ ?_ ?_ ?_ h
  · intro s p ph h hph
    simpa only [LockMode, kill] using h
  · intro p pr' hi hc
    simpa only [LockMode, setProc] using h
  · intro p pr' hi hc
    simpa only [LockMode, setProc] using h
  · intro p op rest s1 pr1 pr' _ hph htd he hc
    obtain ⟨st, hal, hst⟩ := allowed_of_procOK (hp p) htd hph
    simp only [LockMode, setProc, Fresh] at h hf ⊢
    eff_cases op he => (simp only [allowed] at hal; grind [upd_apply])

theorem heldLocks_step (P : Prog) (rv : Bool) (s : State) (e : Event) (hp : ProcsOK P rv s)
    (h : HeldLocks s) : HeldLocks (step P s e) := by
  refine step_preserves HeldLocks P s e ?_ ?_ ?_ ?_ h
  · intro s p ph h hph
    simp only [HeldLocks, kill] at h ⊢
    grind [upd_apply]
  · intro p pr' hi hc
    have := hp p
    simp only [ProcOK, hi] at this
    simp only [HeldLocks, setProc, Continues] at h hc ⊢
    grind [upd_apply]
  · intro p pr' hi hc
    simp only [HeldLocks, setProc, Continues] at h hc ⊢
    grind [upd_apply]
  · intro p op rest s1 pr1 pr' _ hph htd he hc
    obtain ⟨st, hal, hst⟩ := allowed_of_procOK (hp p) htd hph
    simp only [HeldLocks, setProc, Continues] at h hc ⊢
    eff_cases op he => (simp only [allowed] at hal; grind [upd_apply])
/-- a schedule step is *quiet* if, when it is an `unlink(lockfile)`, no other start-up has the lock file open
    without owning it yet -/
def Quiet (s : State) (e : Event) : Prop :=
  ∀ r, e = .exec r → (s.procs r).todo.head? = some (.unlink .lock) →
    ∀ q, q ≠ r → (s.procs q).phase = .starting → (s.procs q).own = false → (s.procs q).lockFd = none

theorem revalOK_of_procOK {P : Prog} {rv : Bool} {pr : Proc} (h : ProcOK P rv pr) (hph : pr.phase = .starting)
    (hrv : rv = true) : revalOK pr.todo = true := by
  simp only [ProcOK, hph] at h; exact h.2.2 hrv

theorem preNamed_step (P : Prog) (rv : Bool) (s : State) (e : Event) (hp : ProcsOK P rv s) (hq : Quiet s e)
    (h : PreNamed s) : PreNamed (step P s e) := by
  refine step_preserves PreNamed P s e ?_ ?_ ?_ ?_ h
  · intro s p ph h hph
    simp only [PreNamed, kill] at h ⊢
    grind [upd_apply]
  · intro p pr' hi hc
    simp only [PreNamed, setProc, Continues] at h hc ⊢
    grind [upd_apply]
  · intro p pr' hi hc
    simp only [PreNamed, setProc, Continues] at h hc ⊢
    grind [upd_apply]
  · intro p op rest s1 pr1 pr' hev hph htd he hc
    obtain ⟨st, hal, hst⟩ := allowed_of_procOK (hp p) htd hph
    have hq' := hq p hev
    simp only [htd, List.head?_cons, Option.some.injEq] at hq'
    simp only [PreNamed, setProc, Continues] at h hc ⊢
    eff_cases op he => (simp only [allowed] at hal; grind [upd_apply])

theorem own_unique {s : State} (h : OwnNamed s) (hl : HeldLocks s) {p q : Pid}
    (hp : (s.procs p).own = true) (hq : (s.procs q).own = true) : p = q := by
  obtain ⟨a1, a2, a3⟩ := h p hp
  obtain ⟨b1, b2, b3⟩ := h q hq
  cases hfd : (s.procs p).lockFd with
  | none => exact absurd hfd a2
  | some i =>
    have e1 := hl p i a1 hfd
    have e2 := hl q i b1 (by rw [← b3, a3, hfd])
    rw [e1] at e2
    exact Option.some.inj e2

theorem ownNamed_step (P : Prog) (rv : Bool) (s : State) (e : Event) (hp : ProcsOK P rv s) (hl : HeldLocks s)
    (hpre : rv = false → PreNamed s) (h : OwnNamed s) : OwnNamed (step P s e) := by
  refine step_preserves OwnNamed P s e ?_ ?_ ?_ ?_ h
  · intro s p ph h hph
    simp only [OwnNamed, kill] at h ⊢
    grind [upd_apply]
  · intro p pr' hi hc
    have := hp p
    simp only [ProcOK, hi] at this
    simp only [OwnNamed, setProc, Continues] at h hc ⊢
    grind [upd_apply]
  · intro p pr' hi hc
    simp only [OwnNamed, setProc, Continues] at h hc ⊢
    grind [upd_apply]
  · intro p op rest s1 pr1 pr' hev hph htd he hc
    obtain ⟨st, hal, hst⟩ := allowed_of_procOK (hp p) htd hph
    have hrv : rv = true → (s.procs p).phase = .starting → revalOK (op :: rest) = true := fun h1 h2 => by
      rw [← htd]; exact revalOK_of_procOK (hp p) h2 h1
    have huniq : ∀ w, (s.procs w).own = true → (s.procs p).own = true → w = p := fun w h1 h2 => own_unique h hl h1 h2
    simp only [OwnNamed, HeldLocks, PreNamed, setProc, Continues] at h hl hpre hc ⊢
    eff_cases op he => (simp only [allowed, revalOK] at hal hrv; grind [upd_apply])

/-! ### the invariants together -/

/-- invariants of every reachable state, whatever the schedule -/
structure BaseInv (P : Prog) (rv : Bool) (s : State) : Prop where
  procs : ProcsOK P rv s
  live : OwnersLive s
  fresh : Fresh s
  mode : LockMode P s
  held : HeldLocks s

/-- … plus the ownership invariant, which needs re-validation (`rv`) or a quiet schedule -/
structure Inv (P : Prog) (rv : Bool) (s : State) : Prop extends BaseInv P rv s where
  own : OwnNamed s
  pre : rv = false → PreNamed s

theorem baseInv_init (P : Prog) (rv : Bool) : BaseInv P rv init where
  procs := procsOK_init P rv
  live := by simp [OwnersLive, init]
  fresh := by simp [Fresh, init]
  mode := by simp [LockMode, init]
  held := by simp [HeldLocks, init]

theorem baseInv_step {P : Prog} {rv : Bool} (hwf : WFr P rv = true) {s : State} (e : Event) (h : BaseInv P rv s) :
    BaseInv P rv (step P s e) where
  procs := procsOK_step P rv hwf s e h.procs
  live := ownersLive_step P s e h.live
  fresh := fresh_step P s e h.fresh
  mode := lockMode_step P rv s e h.procs h.fresh h.mode
  held := heldLocks_step P rv s e h.procs h.held

theorem baseInv_run {P : Prog} {rv : Bool} (hwf : WFr P rv = true) (evs : List Event) {s : State}
    (h : BaseInv P rv s) : BaseInv P rv (run P s evs) := by
  induction evs generalizing s with
  | nil => exact h
  | cons e es ih => exact ih (baseInv_step hwf e h)

theorem inv_init (P : Prog) (rv : Bool) : Inv P rv init where
  toBaseInv := baseInv_init P rv
  own := by simp [OwnNamed, init]
  pre := by simp [PreNamed, init]

theorem inv_step {P : Prog} {rv : Bool} (hwf : WFr P rv = true) {s : State} (e : Event) (h : Inv P rv s)
    (hq : rv = false → Quiet s e) : Inv P rv (step P s e) where
  toBaseInv := baseInv_step hwf e h.toBaseInv
  own := ownNamed_step P rv s e h.procs h.held h.pre h.own
  pre := fun hr => preNamed_step P rv s e h.procs (hq hr) (h.pre hr)

theorem singleOwner_of_inv {P : Prog} {rv : Bool} {s : State} (h : Inv P rv s) : SingleOwner s := by
  refine ⟨fun p q hp hq => own_unique h.own h.held hp hq, fun p hp => ?_⟩
  obtain ⟨a1, a2, a3⟩ := h.own p hp
  cases hfd : (s.procs p).lockFd with
  | none => exact absurd hfd a2
  | some i => exact ⟨i, by rw [a3, hfd], rfl, h.held p i a1 hfd⟩

/-- every step of the schedule is quiet -/
def QuietRun (P : Prog) : State → List Event → Prop
  | _, [] => True
  | s, e :: es => Quiet s e ∧ QuietRun P (step P s e) es

theorem inv_run_reval {P : Prog} (hwf : WFr P true = true) (evs : List Event) {s : State} (h : Inv P true s) :
    Inv P true (run P s evs) := by
  induction evs generalizing s with
  | nil => exact h
  | cons e es ih => exact ih (inv_step hwf e h (fun hr => by simp at hr))

theorem inv_run_quiet {P : Prog} (hwf : WFr P false = true) (evs : List Event) {s : State} (h : Inv P false s)
    (hq : QuietRun P s evs) : Inv P false (run P s evs) := by
  induction evs generalizing s with
  | nil => exact h
  | cons e es ih => exact ih (inv_step hwf e h (fun _ => hq.1)) hq.2

/-! ### a start-up that does not own the lock harms nobody -/

theorem cont_starting (s : State) (p : Pid) (pr : Proc) (rest : List Op) (h : pr.phase = .starting) :
    ∃ pr', cont s p pr rest = setProc s p pr' ∧ pr'.own = pr.own ∧
      pr'.phase = (if rest = [] then .serving else .starting) ∧ pr'.todo = rest ∧ pr'.lockFd = pr.lockFd ∧
      pr'.held = pr.held ∧ pr'.hasSock = pr.hasSock ∧ pr'.bound = pr.bound := by
  rcases rest with _ | ⟨r, rest⟩
  · exact ⟨{ pr with todo := [], phase := .serving }, by simp [cont, h, setProc], by simp⟩
  · exact ⟨{ pr with todo := r :: rest }, by simp [cont, setProc], by simp [h]⟩

/-- what a step of process `p` leaves alone -/
def Untouched (p : Pid) (s s' : State) : Prop :=
  s'.names .sock = s.names .sock ∧ s'.names .pid = s.names .pid ∧
  (∀ i, s.names .lock = some i → s'.names .lock = some i) ∧
  (∀ i o, o ≠ p → s.listener i = some o → s'.listener i = some o) ∧
  (∀ i o, o ≠ p → s.lockOwner i = some o → s'.lockOwner i = some o) ∧
  (∀ o, o ≠ p → s'.procs o = s.procs o)

theorem loser_harmless {P : Prog} {rv : Bool} {s : State} (h : ProcsOK P rv s) (p : Pid)
    (hst : (s.procs p).phase = .starting) (hown : (s.procs p).own = false) :
    Untouched p s (step P s (.exec p)) := by
  simp only [step, hst, true_or, ↓reduceIte]
  split
  · rename_i op rest htd
    obtain ⟨st, hal, hst'⟩ := allowed_of_procOK (h p) htd (Or.inl hst)
    simp only [execOp]
    split
    · rename_i s1 pr1 he
      obtain ⟨pr', hc, -⟩ := cont_starting s1 p pr1 rest (by rw [(effect_flags he).1]; exact hst)
      rw [hc]
      simp only [Untouched, setProc]
      eff_cases op he => (simp only [allowed] at hal; grind [upd_apply])
    · simp only [Untouched, fail, kill]
      grind [upd_apply]
  · simp [Untouched]

/-- a start-up that finds the lock held is over: exit status 1, and a dead process never moves again -/
theorem lock_busy_exits (P : Prog) (s : State) (p o : Pid) (i : Ino) (rest : List Op)
    (hph : (s.procs p).phase = .starting) (htd : (s.procs p).todo = .setlk :: rest)
    (hfd : (s.procs p).lockFd = some i) (hbusy : s.lockOwner i = some o) (hne : o ≠ p) :
    ((step P s (.exec p)).procs p).phase = .exited false := by
  simp [step, hph, htd, execOp, effect, hfd, hbusy, hne, fail, kill]

theorem dead_stays_dead (P : Prog) (s : State) (e : Event) (p : Pid) (b : Bool)
    (h : (s.procs p).phase = .exited b ∨ (s.procs p).phase = .crashed) :
    (step P s e).procs p = s.procs p := by
  cases e with
  | start q =>
    simp only [step]; split
    · by_cases hq : p = q
      · subst hq; rcases h with h | h <;> simp_all
      · exact cont_procs_other _ _ _ _ _ hq
    · rfl
  | exec q =>
    simp only [step]; split
    · split
      · by_cases hq : p = q
        · subst hq; rcases h with h | h <;> simp_all
        · exact execOp_procs_other _ _ _ _ _ _ _ hq
      · rfl
    · rfl
  | term q =>
    simp only [step]; split
    · by_cases hq : p = q
      · subst hq; rcases h with h | h <;> simp_all
      · exact cont_procs_other _ _ _ _ _ hq
    · rfl
  | crash q =>
    simp only [step]; split
    · by_cases hq : p = q
      · subst hq; rcases h with h | h <;> simp_all
      · exact kill_procs_other _ _ _ _ hq
    · rfl
/-! ### a start-up running alone -/

/-- abstract state of a process running alone -/
structure Solo where
  fd : Bool := false         -- lock file open, and it is the file the name refers to
  held : Bool := false
  own : Bool := false
  sockAbsent : Bool := false -- the socket name does not exist
  hasSock : Bool := false
  bound : Bool := false      -- bound to the inode the socket name refers to
  serving : Bool := false    -- … and listening on it
  deriving DecidableEq

/-- abstract execution of one call by a process running alone, from a state in which the lock file may or may
    not exist; `none`: the call may fail -/
def soloStep (a : Solo) (op : Op) (rest : List Op) : Option Solo :=
  match op with
  | .closeLock => some { a with fd := false, held := false, own := false }
  | .openLock c e _ => if c && !e then some { a with fd := true } else none
  | .fstatLock => if a.fd then some a else none
  | .setlk => if a.fd then some { a with held := true, own := !rest.contains .revalidate } else none
  | .revalidate => if a.fd then some { a with own := a.held } else none
  | .unlink .sock => some { a with sockAbsent := true, bound := false, serving := false }
  | .unlink .lock => some { a with fd := false, own := false }
  | .unlink _ => some a
  | .socket => some { a with hasSock := true }
  | .bind => if a.hasSock && a.sockAbsent then some { a with bound := true, sockAbsent := false } else none
  | .listen => if a.bound then some { a with serving := true } else none
  | .create .sock _ | .create .lock _ => none
  | .create _ _ => some a
  | .closeListen => some { a with hasSock := false, bound := false, serving := false }

def soloRun (a : Solo) : List Op → Option Solo
  | [] => some a
  | op :: rest => (soloStep a op rest).bind (soloRun · rest)

/-- the start-up sequence, run alone from any leftover of the three names, ends listening on the socket name as
    the lock owner -/
def StartsAlone (P : Prog) : Bool :=
  match soloRun {} P.startup with
  | some a => a.serving && a.own && P.startup != []
  | none => false

/-- `p` is the only live process and its record matches the abstract state -/
def SoloRel (a : Solo) (s : State) (p : Pid) : Prop :=
  (∀ q, q ≠ p → (s.procs q).phase.live = false) ∧
  (a.fd = true → (s.procs p).lockFd ≠ none ∧ s.names .lock = (s.procs p).lockFd) ∧
  (s.procs p).held = a.held ∧ (s.procs p).own = a.own ∧
  (a.sockAbsent = true → s.names .sock = none) ∧
  (a.hasSock = true → (s.procs p).hasSock = true) ∧
  (a.bound = true → (s.procs p).bound ≠ none ∧ s.names .sock = (s.procs p).bound) ∧
  (a.serving = true → a.bound = true ∧ ∀ i, (s.procs p).bound = some i → s.listener i = some p)

theorem solo_step {P : Prog} {rv : Bool} {s : State} {p : Pid} {a a' : Solo} {op : Op} {rest : List Op}
    (hb : BaseInv P rv s) (hr : SoloRel a s p) (hph : (s.procs p).phase = .starting)
    (htd : (s.procs p).todo = op :: rest) (hs : soloStep a op rest = some a') :
    SoloRel a' (step P s (.exec p)) p ∧ ((step P s (.exec p)).procs p).todo = rest ∧
    ((step P s (.exec p)).procs p).phase = (if rest = [] then .serving else .starting) := by
  obtain ⟨hlv1, hlv2⟩ := hb.live
  have hmode := hb.mode
  have hfree : ∀ i, s.lockOwner i = none ∨ s.lockOwner i = some p := by
    intro i
    cases h : s.lockOwner i with
    | none => exact Or.inl rfl
    | some q =>
      by_cases hq : q = p
      · subst hq; exact Or.inr rfl
      · have h1 := hlv1 i q h
        rw [hr.1 q hq] at h1
        cases h1
  simp only [step, hph, true_or, ↓reduceIte, htd, execOp]
  cases he : effect P s p (s.procs p) op rest with
  | none =>
    exfalso
    simp only [SoloRel, LockMode] at hr hmode
    op_cases op =>
      (simp only [effect] at he; simp only [soloStep] at hs
       (repeat' split at he) <;> (try (simp only [reduceCtorEq] at he)) <;> grind)
  | some x =>
    obtain ⟨s1, pr1⟩ := x
    obtain ⟨pr', hc, c1, c2, c3, c4, c5, c6, c7⟩ := cont_starting s1 p pr1 rest (by rw [(effect_flags he).1]; exact hph)
    simp only [hc, setProc, upd_same, c2, c3, and_true]
    simp only [SoloRel] at hr ⊢
    eff_cases op he =>
      (simp only [soloStep] at hs
       (repeat' split at hs) <;> (try (simp only [Option.some.injEq, reduceCtorEq] at hs)) <;> (try subst hs) <;>
         grind [upd_apply])

theorem run_replicate_succ (P : Prog) (s : State) (e : Event) (n : Nat) :
    run P s (List.replicate (n + 1) e) = run P (step P s e) (List.replicate n e) := by
  simp [run, List.replicate_succ]

theorem solo_run {P : Prog} {rv : Bool} (hwf : WFr P rv = true) (p : Pid) :
    ∀ (todo : List Op) (a af : Solo) (s : State), BaseInv P rv s → SoloRel a s p →
      (s.procs p).phase = .starting → (s.procs p).todo = todo → todo ≠ [] → soloRun a todo = some af →
      SoloRel af (run P s (List.replicate todo.length (.exec p))) p ∧
      ((run P s (List.replicate todo.length (.exec p))).procs p).phase = .serving := by
  intro todo
  induction todo with
  | nil => intro a af s _ _ _ _ h; exact absurd rfl h
  | cons op rest ih =>
    intro a af s hb hr hph htd _ hrun
    simp only [soloRun, Option.bind_eq_some_iff] at hrun
    obtain ⟨a', hs, hrun'⟩ := hrun
    obtain ⟨h1, h2, h3⟩ := solo_step hb hr hph htd hs
    simp only [List.length_cons, run_replicate_succ]
    by_cases hrest : rest = []
    · subst hrest
      simp only [soloRun, Option.some.injEq] at hrun'
      subst hrun'
      simpa [run] using ⟨h1, h3⟩
    · simp only [hrest, ↓reduceIte] at h3
      exact ih a' af _ (baseInv_step hwf _ hb) h1 h3 h2 hrest hrun'

theorem restart_generic {P : Prog} {rv : Bool} (hwf : WFr P rv = true) (hsa : StartsAlone P = true) {s : State}
    (hb : BaseInv P rv s) (p : Pid) (hidle : (s.procs p).phase = .idle)
    (hdead : ∀ q, (s.procs q).phase.live = false) :
    let s' := run P s (.start p :: List.replicate P.startup.length (.exec p))
    (s'.procs p).phase = .serving ∧ serverOf s' = some p ∧ (s'.procs p).own = true := by
  simp only [StartsAlone] at hsa
  split at hsa
  · rename_i af haf
    simp only [Bool.and_eq_true, bne_iff_ne, ne_eq] at hsa
    obtain ⟨⟨hserv, hown⟩, hne⟩ := hsa
    have hst : step P s (.start p) = setProc s p { phase := .starting, todo := P.startup } := by
      simp only [step, hidle, ↓reduceIte, cont]
      split
      · rename_i h; exact absurd h hne
      · rename_i h; simp [setProc, h]
    have hb' : BaseInv P rv (step P s (.start p)) := baseInv_step hwf _ hb
    have hr : SoloRel {} (step P s (.start p)) p := by
      rw [hst]
      simp only [SoloRel, setProc, upd_same]
      refine ⟨fun q hq => by simp [hq, hdead q], by simp, by simp, by simp, by simp, by simp, by simp, by simp⟩
    obtain ⟨h1, h2⟩ := solo_run hwf p P.startup {} af _ hb' hr (by rw [hst]; simp [setProc]) (by rw [hst]; simp [setProc]) hne haf
    simp only [run, List.foldl_cons] at h1 h2 ⊢
    refine ⟨h2, ?_, ?_⟩
    · obtain ⟨-, -, -, -, -, -, hbd, hsv⟩ := h1
      obtain ⟨hb1, hb2⟩ := hsv hserv
      obtain ⟨hb3, hb4⟩ := hbd hb1
      simp only [serverOf, hb4]
      cases hbb : ((List.foldl (step P) (step P s (Event.start p)) (List.replicate P.startup.length (Event.exec p))).procs p).bound with
      | none => exact absurd hbb hb3
      | some i => exact hb2 i hbb
    · rw [h1.2.2.2.1, hown]
  · cases hsa
/-! ### a shutdown running alone -/

/-- what a shutdown running alone has achieved so far -/
structure StopAbs where
  sockGone : Bool := false
  lockGone : Bool := false
  pidGone : Bool := false
  seedThere : Bool := false
  deriving DecidableEq

def stopStep (a : StopAbs) : Op → Option StopAbs
  | .unlink .sock => some { a with sockGone := true }
  | .unlink .lock => some { a with lockGone := true }
  | .unlink .pid => some { a with pidGone := true }
  | .unlink .seed => some { a with seedThere := false }
  | .unlink .other => some a
  | .create .seed _ => some { a with seedThere := true }
  | .create .other _ => some a
  | .create _ _ => none
  | .closeListen | .closeLock | .socket => some a
  | _ => none          -- calls that can fail or re-create a name have no place in a shutdown

def stopRun (a : StopAbs) : List Op → Option StopAbs
  | [] => some a
  | op :: rest => (stopStep a op).bind (stopRun · rest)

/-- the shutdown sequence removes the socket, lock-file and pid-file names and leaves a seed file -/
def StopsClean (P : Prog) : Bool :=
  match stopRun {} P.shutdown with
  | some a => a.sockGone && a.lockGone && a.pidGone && a.seedThere
  | none => false

def StopRel (a : StopAbs) (s : State) : Prop :=
  (a.sockGone = true → s.names .sock = none) ∧ (a.lockGone = true → s.names .lock = none) ∧
  (a.pidGone = true → s.names .pid = none) ∧ (a.seedThere = true → s.names .seed ≠ none)

theorem stop_step {P : Prog} {s : State} {p : Pid} {a a' : StopAbs} {op : Op} {rest : List Op}
    (hr : StopRel a s) (hph : (s.procs p).phase = .stopping)
    (htd : (s.procs p).todo = op :: rest) (hs : stopStep a op = some a') :
    StopRel a' (step P s (.exec p)) ∧
    (rest ≠ [] → ((step P s (.exec p)).procs p).todo = rest ∧ ((step P s (.exec p)).procs p).phase = .stopping) ∧
    (rest = [] → ((step P s (.exec p)).procs p).phase = .exited true) := by
  simp only [step, hph, or_true, ↓reduceIte, htd, execOp]
  cases he : effect P s p (s.procs p) op rest with
  | none =>
    exfalso
    op_cases op =>
      (simp only [effect] at he; simp only [stopStep] at hs
       (repeat' split at he) <;> (first | (cases hs; done) | (cases he; done) | (cases hs; cases he; done)))
  | some x =>
    obtain ⟨s1, pr1⟩ := x
    have hf := effect_flags he
    have hnames : StopRel a' s1 := by
      simp only [StopRel] at hr ⊢
      eff_cases op he =>
        ((simp only [stopStep, Option.some.injEq, reduceCtorEq] at hs) <;> (try subst hs) <;> grind [upd_apply])
    rcases rest with _ | ⟨r, rest⟩
    · simp only [cont, hf.1, hph, ↓reduceIte, kill]
      exact ⟨hnames, by simp, by simp⟩
    · simp only [cont]
      exact ⟨hnames, by simp [hf.1, hph], by simp⟩

theorem stop_run {P : Prog} (p : Pid) :
    ∀ (todo : List Op) (a af : StopAbs) (s : State), StopRel a s →
      (s.procs p).phase = .stopping → (s.procs p).todo = todo → todo ≠ [] → stopRun a todo = some af →
      StopRel af (run P s (List.replicate todo.length (.exec p))) ∧
      ((run P s (List.replicate todo.length (.exec p))).procs p).phase = .exited true := by
  intro todo
  induction todo with
  | nil => intro a af s _ _ _ h; exact absurd rfl h
  | cons op rest ih =>
    intro a af s hr hph htd _ hrun
    simp only [stopRun, Option.bind_eq_some_iff] at hrun
    obtain ⟨a', hs, hrun'⟩ := hrun
    obtain ⟨h1, h2, h3⟩ := stop_step (P := P) hr hph htd hs
    simp only [List.length_cons, run_replicate_succ]
    by_cases hrest : rest = []
    · subst hrest
      simp only [stopRun, Option.some.injEq] at hrun'
      subst hrun'
      simpa [run] using ⟨h1, h3 rfl⟩
    · exact ih a' af _ h1 (h2 hrest).2 (h2 hrest).1 hrest hrun'

theorem clean_stop_generic {P : Prog} (hsc : StopsClean P = true) (s : State) (p : Pid)
    (hserv : (s.procs p).phase = .serving) :
    let s' := run P s (.term p :: List.replicate P.shutdown.length (.exec p))
    s'.names .sock = none ∧ s'.names .lock = none ∧ s'.names .pid = none ∧ s'.names .seed ≠ none ∧
    (s'.procs p).phase = .exited true := by
  simp only [StopsClean] at hsc
  split at hsc
  · rename_i af haf
    simp only [Bool.and_eq_true] at hsc
    obtain ⟨⟨⟨c1, c2⟩, c3⟩, c4⟩ := hsc
    have hne : P.shutdown ≠ [] := by
      intro h; rw [h] at haf; simp only [stopRun, Option.some.injEq] at haf; subst haf; simp at c1
    have hst : step P s (.term p) = setProc s p { (s.procs p) with phase := .stopping, todo := P.shutdown } := by
      simp only [step, hserv, ↓reduceIte, cont]
      split
      · rename_i h; exact absurd h hne
      · rename_i h; simp [setProc, h]
    obtain ⟨h1, h2⟩ := stop_run (P := P) p P.shutdown {} af (step P s (.term p)) (by simp [StopRel])
      (by rw [hst]; simp [setProc]) (by rw [hst]; simp [setProc]) hne haf
    simp only [run, List.foldl_cons] at h1 h2 ⊢
    exact ⟨h1.1 c1, h1.2.1 c2, h1.2.2.1 c3, h1.2.2.2 c4, h2⟩
  · cases hsc
end Munge.Start
