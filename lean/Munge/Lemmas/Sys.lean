import Munge.Model.Sys
import Munge.Gen.Sys
import Munge.Lemmas.CredA
/-
Helper lemmas for C11 (`Munge/Props/C11.lean`).

* frame lemmas about `Cred`: `decFront` / `decMid` do not look at the replay set (they only thread it into
  their failure outcome) nor at `env.member` / `env.rnd`; `decTail` depends on the replay set only through
  "is my own key present";
* `Good`: every reachable private record is consistent with its request; `advance_sim`: each step, seen from
  the sequential reference; `Inv`: the invariant of every reachable system state (simulation by the
  sequential execution of the recorded linearisation order, counting facts);
* `Reach` / `reach_functional`: the private record is a function of the request's own inputs and observations;
* `reach_solo`: every reply is a reply of `Cred.jobExec` for that request alone.
-/
set_option linter.unusedSimpArgs false
set_option linter.unusedVariables false
namespace Munge.Sys
open Munge.Cred Munge.Gen.Dec

/-- replace the replay component of a stage outcome -/
def setRs {α : Type} (rs : ReplaySet) : DecOut ⊕ α → DecOut ⊕ α
  | .inl o => .inl { o with replay := rs }
  | .inr x => .inr x

theorem decFront_env (P : Prims) (e1 e2 : Env) (rs : ReplaySet) (m : Msg) (hn : e1.now = e2.now) (hp : e1.peer = e2.peer) :
    decFront P e1 rs m = decFront P e2 rs m := by
  unfold decFront
  simp only [hn, hp]

theorem decFront_rs (P : Prims) (env : Env) (rs rs' : ReplaySet) (m : Msg) :
    decFront P env rs m = setRs rs (decFront P env rs' m) := by
  unfold decFront
  simp only []
  repeat' split
  all_goals first | rfl | skip

theorem decMid_rs (P : Prims) (cf : Conf) (rs rs' : ReplaySet) (m : Msg) (s : Scratch) :
    decMid P cf rs m s = setRs rs (decMid P cf rs' m s) := by
  unfold decMid
  simp only []
  repeat' split
  all_goals first | rfl | skip

/-- the part of a decode outcome that reaches the client or the request's own record -/
def core (o : DecOut) : Msg × Int × Bool × Option ReplayKey := (o.msg, o.rc, o.inserted, o.key)

theorem decTail_key (cf : Conf) (env : Env) (rs : ReplaySet) (m : Msg) (s : Scratch) :
    (decTail cf env rs m s).key = (decTail cf env [] m s).key := by
  unfold decTail
  simp only []
  repeat' split
  all_goals first | rfl | skip

theorem decTail_frame (cf : Conf) (env : Env) (rs1 rs2 : ReplaySet) (m : Msg) (s : Scratch)
    (h : ∀ k, (decTail cf env [] m s).key = some k → rs1.contains k = rs2.contains k) :
    core (decTail cf env rs1 m s) = core (decTail cf env rs2 m s) := by
  unfold decTail core at *
  simp only [] at *
  split
  · rfl
  split
  · rfl
  rename_i h1 h2
  simp only [h1, h2, if_false] at h
  generalize replayKey _ s = K at h ⊢
  have hk : rs1.contains K = rs2.contains K := h K (by simp only [apply_ite DecOut.key, ite_self])
  clear h
  rw [hk]
  generalize List.contains rs2 K = b
  cases b
  · simp only [Bool.false_eq_true, if_false]
    split <;> rfl
  · simp only [if_true]
    split <;> rfl

theorem decProcess_split (P : Prims) (cf : Conf) (env : Env) (rs : ReplaySet) (m : Msg) :
    decProcess P cf env rs m =
      match decFront P env [] m with
      | .inl o => { o with replay := rs }
      | .inr (m1, s1) =>
        match decMid P cf [] m1 s1 with
        | .inl o => { o with replay := rs }
        | .inr (m2, s2) => decTail cf env rs m2 s2 := by
  unfold decProcess
  rw [decFront_rs P env rs [] m]
  cases decFront P env [] m with
  | inl o => rfl
  | inr x =>
    obtain ⟨m1, s1⟩ := x
    simp only [setRs]
    rw [decMid_rs P cf rs [] m1 s1]
    cases decMid P cf [] m1 s1 with
    | inl o => rfl
    | inr y => rfl

/-- a local state that is consistent with the request it belongs to (every reachable one is) -/
inductive Good (W : World) (r : Req) : Local → Prop
  | start : Good W r .start
  | encV (m n) : recvMsg r.bytes = .enc m → Good W r (.encV m n)
  | encSalt (m n salt) : recvMsg r.bytes = .enc m → Good W r (.encSalt m n salt)
  | dec (m0 m1 s1 m s) : recvMsg r.bytes = .dec m0 → decFront W.P (envOf r [] false) [] m0 = .inr (m1, s1) →
      decMid W.P W.cf [] m1 s1 = .inr (m, s) → Good W r (.dec m s)
  | decAns (m0 m1 s1 m s ans) : recvMsg r.bytes = .dec m0 → decFront W.P (envOf r [] false) [] m0 = .inr (m1, s1) →
      decMid W.P W.cf [] m1 s1 = .inr (m, s) → Good W r (.decAns m s ans)
  | ready (rsp u) : Good W r (.ready rsp u)
  | unsent (k) : r.sendOk = false → Good W r (.unsent k)
  | done (o) : Good W r (.done o)

theorem good_advance (W : World) (r : Req) (l : Local) (sh : Shared) (h : Good W r l) : Good W r (advance W r l sh).1 := by
  cases h with
  | start =>
    unfold advance
    simp only []
    cases hr : recvMsg r.bytes with
    | drop w => exact .done _
    | enc m =>
      simp only []
      cases encPlan W m with
      | none => exact .ready _ _
      | some n => exact .encV _ _ hr
    | dec m0 =>
      simp only []
      cases hf : decFront W.P (envOf r [] false) [] m0 with
      | inl o => exact .ready _ _
      | inr x =>
        obtain ⟨m1, s1⟩ := x
        simp only []
        cases hm : decMid W.P W.cf [] m1 s1 with
        | inl o => exact .ready _ _
        | inr y =>
          obtain ⟨m2, s2⟩ := y
          exact .dec _ _ _ _ _ hr hf hm
  | encV m n hr => exact .encSalt _ _ _ hr
  | encSalt m n salt hr => exact .ready _ _
  | dec m0 m1 s1 m s hr hf hm => exact .decAns _ _ _ _ _ _ hr hf hm
  | decAns m0 m1 s1 m s ans hr hf hm => exact .ready _ _
  | ready rsp u =>
    unfold advance
    simp only []
    split
    · exact .done _
    · rename_i hs
      split
      · exact .unsent _ (by simpa using hs)
      · exact .done _
  | unsent k _ => exact .done _
  | done o => exact .done _

/-- one step of a request, seen from the sequential reference: the items it contributes to the
    linearisation order take the sequential execution from the old shared replay set and replies to
    the new ones -/
theorem advance_sim (W : World) (reqs : List Req) (i : Nat) (r : Req) (hr : reqs[i]? = some r)
    (l : Local) (sh : Shared) (ans : List (Nat × Bytes)) (hg : Good W r l) :
    (linOf W i l (advance W r l sh).1 sh).foldl (seqItem W reqs allDeliver) (sh.replay, ans) =
      ((advance W r l sh).2.replay, ans ++ ansOf i l (advance W r l sh).1) := by
  cases hg with
  | start =>
    unfold advance
    simp only []
    cases hrv : recvMsg r.bytes with
    | drop w =>
      simp [linOf, isPre, ansOf, seqItem, hr, jobExec, hrv]
    | enc m =>
      simp only []
      cases encPlan W m with
      | none =>
        simp [linOf, isPre, ansOf, seqItem, hr, jobExec, hrv, allDeliver]
      | some n =>
        simp [linOf, isPre, ansOf]
    | dec m0 =>
      simp only []
      cases hf : decFront W.P (envOf r [] false) [] m0 with
      | inl o =>
        simp [linOf, isPre, ansOf, seqItem, hr, jobExec, hrv, allDeliver, decProcess_split, hf]
      | inr x =>
        obtain ⟨m1, s1⟩ := x
        simp only []
        cases hm : decMid W.P W.cf [] m1 s1 with
        | inl o =>
          simp [linOf, isPre, ansOf, seqItem, hr, jobExec, hrv, allDeliver, decProcess_split, hf, hm]
        | inr y =>
          obtain ⟨m2, s2⟩ := y
          simp [linOf, isPre, ansOf]
  | encV m n hrv => simp [advance, linOf, isPre, ansOf]
  | encSalt m n salt hrv =>
    simp [advance, linOf, isPre, ansOf, seqItem, hr, jobExec, hrv, allDeliver]
  | dec m0 m1 s1 m s hrv hf hm => simp [advance, linOf, isPre, ansOf]
  | decAns m0 m1 s1 m s a hrv hf hm =>
    have hf' : decFront W.P (envOf r [] a) [] m0 = .inr (m1, s1) := by
      rw [decFront_env W.P (envOf r [] a) (envOf r [] false) [] m0 rfl rfl]; exact hf
    simp [advance, linOf, isPre, ansOf, seqItem, hr, jobExec, hrv, allDeliver, decProcess_split, hf', hm]
  | ready rsp u =>
    unfold advance
    simp only []
    split
    · simp [linOf, ansOf, isPre]
    · split <;> simp [linOf, ansOf, isPre]
  | unsent k _ => simp [advance, linOf, isPre, ansOf, seqItem]
  | done o => simp [advance, linOf, isPre, ansOf]

def countAns (i : Nat) (a : List (Nat × Bytes)) : Nat := (a.filter (fun x => x.1 == i)).length

theorem countReq_append (i : Nat) (a b : List LinItem) : countReq i (a ++ b) = countReq i a + countReq i b := by
  simp [countReq, List.filter_append]
theorem countAns_append (i : Nat) (a b : List (Nat × Bytes)) : countAns i (a ++ b) = countAns i a + countAns i b := by
  simp [countAns, List.filter_append]

theorem count_single (i j : Nat) (a : Bool) (d : Bytes) :
    (List.filter (LinItem.isReq j) [LinItem.req i a d]).length = if i = j then 1 else 0 := by
  by_cases h : i = j <;> simp [List.filter_cons, LinItem.isReq, h]

/-- a step contributes a request item exactly when it takes the request past its linearisation point -/
theorem linOf_count (W : World) (r : Req) (i j : Nat) (l : Local) (sh : Shared) :
    countReq j (linOf W i l (advance W r l sh).1 sh) =
      if i = j ∧ isPre l = true ∧ isPre (advance W r l sh).1 = false then 1 else 0 := by
  cases l with
  | start =>
    simp only [linOf]
    cases h : isPre (advance W r .start sh).1 <;> simp [countReq, isPre, count_single]
  | encV m n => simp [advance, linOf, countReq, isPre]
  | encSalt m n salt => simp [advance, linOf, countReq, isPre, count_single]
  | dec m s => simp [advance, linOf, countReq, isPre]
  | decAns m s a => simp [advance, linOf, countReq, isPre, count_single]
  | ready rsp u => simp [linOf, countReq, isPre]
  | unsent k => simp [linOf, countReq, isPre, LinItem.isReq]
  | done o => simp [linOf, countReq, isPre]

theorem ansOf_count (i j : Nat) (l l' : Local) :
    countAns j (ansOf i l l') ≤ if i = j ∧ isPre l = true ∧ isPre l' = false then 1 else 0 := by
  unfold ansOf
  cases hl : isPre l
  · simp [countAns]
  · cases l' <;> simp [countAns, isPre]
    rename_i rsp u
    by_cases h : i = j <;> simp [List.filter_cons, h]

theorem advance_not_pre (W : World) (r : Req) (l : Local) (sh : Shared) (h : isPre l = false) :
    isPre (advance W r l sh).1 = false := by
  cases l with
  | ready rsp u =>
    unfold advance
    simp only []
    split
    · rfl
    · split <;> rfl
  | unsent k => rfl
  | done o => rfl
  | start => cases h
  | encV m n => cases h
  | encSalt m n salt => cases h
  | dec m s => cases h
  | decAns m s a => cases h

/-- what every reachable state satisfies -/
structure Inv (W : World) (reqs : List Req) (rs0 : ReplaySet) (σ : State) : Prop where
  good : ∀ i r, reqs[i]? = some r → Good W r (σ.locals i)
  idle : ∀ i, reqs[i]? = none → σ.locals i = .start
  sim : seqRun W reqs allDeliver rs0 σ.lin = (σ.sh.replay, σ.answers)
  cnt : ∀ i, countReq i σ.lin = if isPre (σ.locals i) then 0 else 1
  acnt : ∀ i, countAns i σ.answers ≤ if isPre (σ.locals i) then 0 else 1
  rdy : ∀ i rsp u, σ.locals i = .ready rsp u → (i, rsp) ∈ σ.answers
  dlv : ∀ i b, σ.locals i = .done (some b) → (i, b) ∈ σ.answers
  und : ∀ k, LinItem.undo k ∈ σ.lin → ∃ i r, reqs[i]? = some r ∧ r.sendOk = false ∧ σ.locals i = .done none

theorem inv_init (W : World) (reqs : List Req) (rs0 : ReplaySet) : Inv W reqs rs0 (initState rs0) where
  good := fun _ _ _ => .start
  idle := fun _ _ => rfl
  sim := rfl
  cnt := fun _ => rfl
  acnt := fun _ => Nat.le_refl _
  rdy := fun _ _ _ h => by cases h
  dlv := fun _ _ h => by cases h
  und := fun _ h => by cases h

theorem upd_same {α : Type} (f : Nat → α) (i : Nat) (v : α) : upd f i v i = v := by simp [upd]
theorem upd_other {α : Type} (f : Nat → α) (i j : Nat) (v : α) (h : j ≠ i) : upd f i v j = f j := by simp [upd, h]

/-- how a send / a ready reply / a delivered reply arise from one step -/
theorem advance_ready (W : World) (r : Req) (l : Local) (sh : Shared) (i : Nat) (rsp : Bytes) (u : Option ReplayKey)
    (h : (advance W r l sh).1 = .ready rsp u) : isPre l = true ∧ ansOf i l (advance W r l sh).1 = [(i, rsp)] := by
  have hp : isPre l = true := by
    cases hl : isPre l
    · have := advance_not_pre W r l sh hl
      rw [h] at this
      cases l <;> simp [isPre] at hl
      · rename_i rsp' u'
        unfold advance at h
        simp only [] at h
        split at h
        · cases h
        · split at h <;> cases h
      · cases h
      · cases h
    · rfl
  refine ⟨hp, ?_⟩
  simp [ansOf, hp, h]

theorem advance_done_some (W : World) (r : Req) (l : Local) (sh : Shared) (b : Bytes)
    (h : (advance W r l sh).1 = .done (some b)) : (∃ u, l = .ready b u) ∨ l = .done (some b) := by
  cases l with
  | start =>
    unfold advance at h
    simp only [] at h
    repeat' split at h
    all_goals first | cases h | skip
  | encV m n => cases h
  | encSalt m n salt => cases h
  | dec m s => cases h
  | decAns m s a => cases h
  | ready rsp u =>
    unfold advance at h
    simp only [] at h
    split at h
    · cases h; exact .inl ⟨_, rfl⟩
    · split at h <;> cases h
  | unsent k => cases h
  | done o => cases h; exact .inr rfl

theorem advance_done_none_unsent (W : World) (r : Req) (k : ReplayKey) (sh : Shared) :
    (advance W r (.unsent k) sh).1 = .done none := rfl

theorem undo_mem_linOf (W : World) (i : Nat) (l l' : Local) (sh : Shared) (k : ReplayKey)
    (h : LinItem.undo k ∈ linOf W i l l' sh) : l = .unsent k := by
  cases l with
  | start =>
    simp only [linOf] at h
    split at h <;> simp at h
  | unsent k' => simp [linOf] at h; rw [h]
  | _ => simp [linOf] at h

theorem seqRun_append (W : World) (reqs : List Req) (d : Req → Bool) (rs0 : ReplaySet) (a b : List LinItem) :
    seqRun W reqs d rs0 (a ++ b) = b.foldl (seqItem W reqs d) (seqRun W reqs d rs0 a) := by
  simp [seqRun, List.foldl_append]

theorem inv_step (W : World) (reqs : List Req) (rs0 : ReplaySet) (σ : State) (i : Nat) (r : Req) (S : Step)
    (hr : reqs[i]? = some r) (hen : stepOf (σ.locals i) = some S) (h : Inv W reqs rs0 σ) :
    Inv W reqs rs0 (stepState W r i σ) := by
  have hg := h.good i r hr
  unfold stepState
  refine ⟨?_, ?_, ?_, ?_, ?_, ?_, ?_, ?_⟩
  · intro j r' hj
    by_cases hji : j = i
    · subst hji
      rw [hr] at hj; cases hj
      simp only [upd_same]
      exact good_advance W r _ _ hg
    · simp only [upd_other _ _ _ _ hji]
      exact h.good j r' hj
  · intro j hj
    have hji : j ≠ i := by intro e; subst e; rw [hr] at hj; cases hj
    simp only [upd_other _ _ _ _ hji]
    exact h.idle j hj
  · simp only []
    rw [seqRun_append, h.sim]
    exact advance_sim W reqs i r hr _ _ _ hg
  · intro j
    simp only []
    rw [countReq_append, h.cnt j, linOf_count W r i j]
    by_cases hji : j = i
    · subst hji
      simp only [upd_same, true_and]
      cases hp : isPre (σ.locals j)
      · rw [advance_not_pre W r _ σ.sh hp]; simp
      · cases isPre (advance W r (σ.locals j) σ.sh).1 <;> simp
    · have : ¬ i = j := fun e => hji e.symm
      simp [upd_other _ _ _ _ hji, this]
  · intro j
    simp only []
    rw [countAns_append]
    have h1 := h.acnt j
    have h2 := ansOf_count i j (σ.locals i) (advance W r (σ.locals i) σ.sh).1
    by_cases hji : j = i
    · subst hji
      simp only [upd_same, true_and] at h2 ⊢
      cases hp : isPre (σ.locals j)
      · rw [hp] at h1 h2
        rw [advance_not_pre W r _ σ.sh hp] at h2 ⊢
        simp at h1 h2 ⊢; omega
      · rw [hp] at h1 h2
        cases hq : isPre (advance W r (σ.locals j) σ.sh).1
        · rw [hq] at h2; simp at h1 h2 ⊢; omega
        · rw [hq] at h2; simp at h1 h2 ⊢; omega
    · have : ¬ i = j := fun e => hji e.symm
      simp only [upd_other _ _ _ _ hji]
      simp [this] at h2
      omega
  · intro j rsp u hj
    simp only [] at hj ⊢
    by_cases hji : j = i
    · subst hji
      rw [upd_same] at hj
      have := (advance_ready W r _ _ j rsp u hj).2
      rw [this]; simp
    · rw [upd_other _ _ _ _ hji] at hj
      exact List.mem_append_left _ (h.rdy j rsp u hj)
  · intro j b hj
    simp only [] at hj ⊢
    by_cases hji : j = i
    · subst hji
      rw [upd_same] at hj
      rcases advance_done_some W r _ _ b hj with ⟨u, hl⟩ | hl
      · exact List.mem_append_left _ (h.rdy j b u hl)
      · exact List.mem_append_left _ (h.dlv j b hl)
    · rw [upd_other _ _ _ _ hji] at hj
      exact List.mem_append_left _ (h.dlv j b hj)
  · intro k hk
    simp only [] at hk ⊢
    rcases List.mem_append.1 hk with hk | hk
    · obtain ⟨j, r', hj, hs, hl⟩ := h.und k hk
      have hji : j ≠ i := by
        intro e; subst e
        rw [hl] at hen; simp [stepOf] at hen
      exact ⟨j, r', hj, hs, by rw [upd_other _ _ _ _ hji]; exact hl⟩
    · have hl := undo_mem_linOf W i _ _ _ k hk
      refine ⟨i, r, hr, ?_, ?_⟩
      · rw [hl] at hg
        cases hg with
        | unsent _ hs => exact hs
      · rw [upd_same, hl]; rfl

theorem fire_req (W : World) (reqs : List Req) (σ : State) (i : Nat) (S : Step) :
    fire W reqs σ (.req i S) =
      match reqs[i]? with
      | none => σ
      | some r => if stepOf (σ.locals i) = some S then stepState W r i σ else σ := rfl

theorem inv_fire (W : World) (reqs : List Req) (rs0 : ReplaySet) (σ : State) (a : Act) (h : Inv W reqs rs0 σ) :
    Inv W reqs rs0 (fire W reqs σ a) := by
  cases a with
  | swap => exact { h with }
  | purge now =>
    refine { h with sim := ?_, cnt := ?_, und := ?_ }
    · show seqRun W reqs allDeliver rs0 (σ.lin ++ [.purge now]) = _
      rw [seqRun_append, h.sim]; rfl
    · intro i
      show countReq i (σ.lin ++ [.purge now]) = if isPre (σ.locals i) then 0 else 1
      rw [countReq_append, h.cnt i]; simp [countReq, LinItem.isReq]
    · intro k hk
      have : LinItem.undo k ∈ σ.lin ++ [.purge now] := hk
      simp at this
      exact h.und k this
  | req i S =>
    rw [fire_req]
    cases hr : reqs[i]? with
    | none => exact h
    | some r =>
      simp only []
      split
      · rename_i hen
        exact inv_step W reqs rs0 σ i r S hr hen h
      · exact h

theorem inv_run (W : World) (reqs : List Req) (rs0 : ReplaySet) (sched : List Act) (σ : State) (h : Inv W reqs rs0 σ) :
    Inv W reqs rs0 (run W reqs σ sched) := by
  induction sched generalizing σ with
  | nil => exact h
  | cons a t ih => exact ih _ (inv_fire W reqs rs0 σ a h)

/-! ### isolation: a request's own record is a function of its own inputs and observations -/

/-- FRAME: the next private record of a request depends on the shared state — and on the daemon's group
    databases and PRNG — only through what the step observes of them (drawn bytes / membership answer / presence
    of its own replay key).  The two daemons need only agree on primitives and configuration (keys). -/
theorem advance_local_of_observe (W1 W2 : World) (hP : W1.P = W2.P) (hcf : W1.cf = W2.cf) (r : Req) (l : Local)
    (sh1 sh2 : Shared) (h : observe W1 r l sh1 = observe W2 r l sh2) : (advance W1 r l sh1).1 = (advance W2 r l sh2).1 := by
  obtain ⟨P, cf, g1, s1⟩ := W1
  obtain ⟨P2, cf2, g2, s2⟩ := W2
  simp only at hP hcf
  subst hP hcf
  cases l with
  | start =>
    unfold advance encPlan
    dsimp only
    repeat' split
    all_goals first | rfl | skip
  | encV m n =>
    simp only [observe, Obs.bytes.injEq] at h
    simp [advance, h]
  | encSalt m n salt =>
    simp only [observe, Obs.bytes.injEq] at h
    simp [advance, h]
  | dec m s =>
    simp only [observe, Obs.member.injEq] at h
    simp [advance, h]
  | decAns m s a =>
    have hc : core (decTail cf (envOf r [] a) sh1.replay m s) = core (decTail cf (envOf r [] a) sh2.replay m s) := by
      apply decTail_frame
      intro k hk
      simp only [observe, hk, Obs.present.injEq] at h
      exact h
    simp only [core, Prod.mk.injEq] at hc
    simp only [advance, hc.1, hc.2.1, hc.2.2.1, hc.2.2.2]
  | ready rsp u =>
    unfold advance
    simp only []
    repeat' split
    all_goals first | rfl | skip
  | unsent k => rfl
  | done o => rfl

/-- the private records a request with inputs `r` can be in after observing `os` (newest first) -/
inductive Reach (W : World) (r : Req) : List Obs → Local → Prop
  | start : Reach W r [] .start
  | step (os l sh) : Reach W r os l → (stepOf l).isSome → Reach W r (observe W r l sh :: os) (advance W r l sh).1

/-- ... and there is exactly one, whatever daemon (with these primitives and keys) it runs in -/
theorem reach_functional (W1 W2 : World) (hP : W1.P = W2.P) (hcf : W1.cf = W2.cf) (r : Req) (os : List Obs) (l1 l2 : Local)
    (h1 : Reach W1 r os l1) (h2 : Reach W2 r os l2) : l1 = l2 := by
  induction h1 generalizing l2 with
  | start => cases h2; rfl
  | step os l sh hprev hen ih =>
    generalize hos : observe W1 r l sh :: os = os' at h2
    cases h2 with
    | start => cases hos
    | step os2 l' sh' hprev' hen' =>
      injection hos with ho hos
      subst hos
      have := ih l' hprev'
      subst this
      exact advance_local_of_observe W1 W2 hP hcf r l sh sh' ho

theorem reach_step (W : World) (reqs : List Req) (σ : State) (a : Act)
    (h : ∀ i r, reqs[i]? = some r → Reach W r (σ.obs i) (σ.locals i)) :
    ∀ i r, reqs[i]? = some r → Reach W r ((fire W reqs σ a).obs i) ((fire W reqs σ a).locals i) := by
  cases a with
  | swap => exact h
  | purge now => exact h
  | req j S =>
    rw [fire_req]
    cases hr : reqs[j]? with
    | none => exact h
    | some rj =>
      simp only []
      split
      · rename_i hen
        intro i r hi
        unfold stepState
        simp only []
        by_cases hij : i = j
        · subst hij
          rw [hr] at hi; cases hi
          rw [upd_same, upd_same]
          exact .step _ _ _ (h i rj hr) (by rw [hen]; rfl)
        · rw [upd_other _ _ _ _ hij, upd_other _ _ _ _ hij]
          exact h i r hi
      · exact h

theorem reach_run (W : World) (reqs : List Req) (sched : List Act) (σ : State)
    (h : ∀ i r, reqs[i]? = some r → Reach W r (σ.obs i) (σ.locals i)) :
    ∀ i r, reqs[i]? = some r → Reach W r ((run W reqs σ sched).obs i) ((run W reqs σ sched).locals i) := by
  induction sched generalizing σ with
  | nil => exact h
  | cons a t ih => exact ih _ (reach_step W reqs σ a h)

/-! ### the reply as a function of ONE request: `Cred.jobExec` on a replay set of at most one key -/

theorem decProcess_msg_frame (P : Prims) (cf : Conf) (env : Env) (rs1 rs2 : ReplaySet) (m : Msg)
    (h : ∀ k, (decProcess P cf env [] m).key = some k → rs1.contains k = rs2.contains k) :
    (decProcess P cf env rs1 m).msg = (decProcess P cf env rs2 m).msg := by
  rw [decProcess_split P cf env rs1 m, decProcess_split P cf env rs2 m]
  rw [decProcess_split P cf env [] m] at h
  cases hf : decFront P env [] m with
  | inl o => rfl
  | inr x =>
    obtain ⟨m1, s1⟩ := x
    simp only [hf] at h ⊢
    cases hm : decMid P cf [] m1 s1 with
    | inl o => rfl
    | inr y =>
      obtain ⟨m2, s2⟩ := y
      simp only [hm] at h ⊢
      have := decTail_frame cf env rs1 rs2 m2 s2 h
      simp only [core, Prod.mk.injEq] at this
      exact this.1

theorem jobExec_reply_frame (P : Prims) (cf : Conf) (env : Env) (rs1 rs2 : ReplaySet) (req : Bytes) (ok : Bool)
    (h : ∀ m, recvMsg req = .dec m → ∀ k, (decProcess P cf env [] m).key = some k → rs1.contains k = rs2.contains k) :
    (jobExec P cf env rs1 req ok).1 = (jobExec P cf env rs2 req ok).1 := by
  unfold jobExec
  cases hr : recvMsg req with
  | drop w => rfl
  | enc m => rfl
  | dec m =>
    simp only []
    have := decProcess_msg_frame P cf env rs1 rs2 m (h m hr)
    cases ok
    · rfl
    · simp [this]

/-- every replay set can be replaced by one of at most one key without changing the reply -/
theorem jobExec_small (P : Prims) (cf : Conf) (env : Env) (rs : ReplaySet) (req : Bytes) (ok : Bool) :
    ∃ rs' : ReplaySet, rs'.length ≤ 1 ∧ (jobExec P cf env rs req ok).1 = (jobExec P cf env rs' req ok).1 := by
  cases hr : recvMsg req with
  | drop w => exact ⟨[], by simp, jobExec_reply_frame P cf env rs [] req ok (fun m hm => by rw [hr] at hm; cases hm)⟩
  | enc m0 => exact ⟨[], by simp, jobExec_reply_frame P cf env rs [] req ok (fun m hm => by rw [hr] at hm; cases hm)⟩
  | dec m0 =>
    cases hk : (decProcess P cf env [] m0).key with
    | none =>
      refine ⟨[], by simp, jobExec_reply_frame P cf env rs [] req ok (fun m hm k hkk => ?_)⟩
      rw [hr] at hm; cases hm; rw [hk] at hkk; cases hkk
    | some k0 =>
      refine ⟨if rs.contains k0 then [k0] else [], by split <;> simp, jobExec_reply_frame P cf env rs _ req ok (fun m hm k hkk => ?_)⟩
      rw [hr] at hm; cases hm; rw [hk] at hkk; cases hkk
      cases hc : rs.contains k0 <;> simp

theorem jobExec_undelivered (P : Prims) (cf : Conf) (env : Env) (rs : ReplaySet) (req : Bytes) :
    (jobExec P cf env rs req false).1 = none := by
  unfold jobExec
  cases recvMsg req <;> simp

/-- the step that takes a request past its linearisation point produces the reply of the whole
    transaction `Cred.jobExec` run on the shared replay set as it is at that moment -/
theorem advance_lin (W : World) (r : Req) (l : Local) (sh : Shared) (hg : Good W r l)
    (hp : isPre l = true) (hq : isPre (advance W r l sh).1 = false) :
    ∃ ans drawn, linOf W 0 l (advance W r l sh).1 sh = [.req 0 ans drawn] ∧
      (((advance W r l sh).1 = .done none ∧ (jobExec W.P W.cf (envOf r drawn ans) sh.replay r.bytes true).1 = none) ∨
       (∃ rsp u, (advance W r l sh).1 = .ready rsp u ∧
          (jobExec W.P W.cf (envOf r drawn ans) sh.replay r.bytes true).1 = some rsp)) := by
  have hs := advance_sim W [r] 0 r rfl l sh [] hg
  have key : ∀ a d, linOf W 0 l (advance W r l sh).1 sh = [.req 0 a d] →
      (((advance W r l sh).1 = .done none ∧ (jobExec W.P W.cf (envOf r d a) sh.replay r.bytes true).1 = none) ∨
       (∃ rsp u, (advance W r l sh).1 = .ready rsp u ∧
          (jobExec W.P W.cf (envOf r d a) sh.replay r.bytes true).1 = some rsp)) := by
    intro a d hl
    rw [hl] at hs
    simp only [List.foldl_cons, List.foldl_nil, seqItem, List.getElem?_cons_zero, allDeliver, List.nil_append,
      Prod.mk.injEq] at hs
    have h2 := hs.2
    simp only [ansOf, hp, if_true] at h2
    cases hl' : (advance W r l sh).1 with
    | ready rsp u =>
      rw [hl'] at h2
      refine .inr ⟨rsp, u, rfl, ?_⟩
      cases hx : (jobExec W.P W.cf (envOf r d a) sh.replay r.bytes true).1 with
      | none => rw [hx] at h2; simp at h2
      | some b => rw [hx] at h2; simp at h2; rw [h2]
    | done o =>
      rw [hl'] at h2
      cases hx : (jobExec W.P W.cf (envOf r d a) sh.replay r.bytes true).1 with
      | some b => rw [hx] at h2; simp at h2
      | none =>
        left
        refine ⟨?_, rfl⟩
        -- a pre-state step that ends in `done` is the dropped connection
        cases hg with
        | start =>
          unfold advance at hl'
          simp only [] at hl'
          repeat' split at hl'
          all_goals first | (cases hl'; rfl) | cases hl'
        | encV m n h => cases hl'
        | encSalt m n salt h => cases hl'
        | dec _ _ _ _ _ _ _ _ => cases hl'
        | decAns _ _ _ _ _ _ _ _ _ => cases hl'
        | ready _ _ => cases hp
        | unsent _ _ => cases hp
        | done _ => cases hp
    | start => rw [hl'] at hq; cases hq
    | encV m n => rw [hl'] at hq; cases hq
    | encSalt m n s => rw [hl'] at hq; cases hq
    | dec m s => rw [hl'] at hq; cases hq
    | decAns m s a => rw [hl'] at hq; cases hq
    | unsent k =>
      exfalso
      cases hg with
      | start =>
        unfold advance at hl'
        simp only [] at hl'
        repeat' split at hl'
        all_goals cases hl'
      | encV m n h => cases hl'
      | encSalt m n salt h => cases hl'
      | dec _ _ _ _ _ _ _ _ => cases hl'
      | decAns _ _ _ _ _ _ _ _ _ => cases hl'
      | ready _ _ => cases hp
      | unsent _ _ => cases hp
      | done _ => cases hp
  cases l with
  | start =>
    have : linOf W 0 .start (advance W r .start sh).1 sh = [.req 0 false []] := by simp [linOf, hq]
    exact ⟨false, [], this, key _ _ this⟩
  | encV m n => simp [advance, isPre] at hq
  | encSalt m n salt => exact ⟨false, _, rfl, key _ _ rfl⟩
  | dec m s => simp [advance, isPre] at hq
  | decAns m s a => exact ⟨a, [], rfl, key _ _ rfl⟩
  | ready _ _ => cases hp
  | unsent _ => cases hp
  | done _ => cases hp

theorem reach_good (W : World) (r : Req) (os : List Obs) (l : Local) (h : Reach W r os l) : Good W r l := by
  induction h with
  | start => exact .start
  | step os l sh _ _ ih => exact good_advance W r l sh ih

/-- `b` is the reply of the whole transaction of `r` ALONE, for some membership answer, some drawn bytes
    and some replay set of at most one key -/
def SoloReply (W : World) (r : Req) (ok : Bool) (o : Option Bytes) : Prop :=
  ∃ (ans : Bool) (drawn : Bytes) (rs' : ReplaySet), rs'.length ≤ 1 ∧
    (jobExec W.P W.cf (envOf r drawn ans) rs' r.bytes ok).1 = o

def Solo (W : World) (r : Req) : Local → Prop
  | .ready rsp _ => SoloReply W r true (some rsp)
  | .done o => SoloReply W r r.sendOk o
  | _ => True

theorem soloReply_of (W : World) (r : Req) (ok : Bool) (ans : Bool) (drawn : Bytes) (rs : ReplaySet) :
    SoloReply W r ok (jobExec W.P W.cf (envOf r drawn ans) rs r.bytes ok).1 := by
  obtain ⟨rs', hl, he⟩ := jobExec_small W.P W.cf (envOf r drawn ans) rs r.bytes ok
  exact ⟨ans, drawn, rs', hl, he.symm⟩

theorem jobExec_drop_any (P : Prims) (cf : Conf) (env : Env) (rs : ReplaySet) (req : Bytes) (ok : Bool)
    (h : (jobExec P cf env rs req true).1 = none) : (jobExec P cf env rs req ok).1 = none := by
  unfold jobExec at h ⊢
  cases hr : recvMsg req with
  | drop w => rfl
  | enc m => rw [hr] at h; simp at h
  | dec m => rw [hr] at h; simp at h

theorem reach_solo (W : World) (r : Req) (os : List Obs) (l : Local) (h : Reach W r os l) : Solo W r l := by
  induction h with
  | start => trivial
  | step os l sh hprev hen ih =>
    have hg := reach_good W r os l hprev
    cases hp : isPre l
    · -- after the linearisation point
      cases l with
      | ready rsp u =>
        unfold advance
        simp only []
        split
        · rename_i hs
          show SoloReply W r r.sendOk (some rsp)
          rw [hs]; exact ih
        · rename_i hs
          have hs' : r.sendOk = false := by simpa using hs
          split
          · trivial
          · show SoloReply W r r.sendOk none
            rw [hs', ← jobExec_undelivered W.P W.cf (envOf r [] false) [] r.bytes]
            exact soloReply_of W r false false [] []
      | unsent k =>
        cases hg with
        | unsent _ hs =>
          show SoloReply W r r.sendOk none
          rw [hs, ← jobExec_undelivered W.P W.cf (envOf r [] false) [] r.bytes]
          exact soloReply_of W r false false [] []
      | done o => exact ih
      | start => cases hp
      | encV _ _ => cases hp
      | encSalt _ _ _ => cases hp
      | dec _ _ => cases hp
      | decAns _ _ _ => cases hp
    · cases hq : isPre (advance W r l sh).1
      · obtain ⟨ans, drawn, _, hcase⟩ := advance_lin W r l sh hg hp hq
        rcases hcase with ⟨hd, hj⟩ | ⟨rsp, u, hd, hj⟩
        · rw [hd]
          show SoloReply W r r.sendOk none
          rw [← jobExec_drop_any W.P W.cf (envOf r drawn ans) sh.replay r.bytes r.sendOk hj]
          exact soloReply_of W r r.sendOk ans drawn sh.replay
        · rw [hd]
          show SoloReply W r true (some rsp)
          rw [← hj]
          exact soloReply_of W r true ans drawn sh.replay
      · -- still before it: nothing to show
        cases hl' : (advance W r l sh).1 with
        | ready _ _ => rw [hl'] at hq; cases hq
        | done _ => rw [hl'] at hq; cases hq
        | unsent _ => rw [hl'] at hq; cases hq
        | _ => trivial

/-- under "every reply is deliverable" the two sequential references coincide -/
theorem seqItem_deliver_eq (W : World) (reqs : List Req) (hall : ∀ r ∈ reqs, r.sendOk = true)
    (acc : ReplaySet × List (Nat × Bytes)) (it : LinItem) :
    seqItem W reqs (fun r => r.sendOk) acc it = seqItem W reqs allDeliver acc it := by
  cases it with
  | req i ans drawn =>
    simp only [seqItem]
    cases h : reqs[i]? with
    | none => rfl
    | some r =>
      have : r.sendOk = true := hall r (List.mem_of_getElem? h)
      simp [allDeliver, this]
  | purge now => rfl
  | undo k => rfl

theorem seqRun_deliver_eq (W : World) (reqs : List Req) (hall : ∀ r ∈ reqs, r.sendOk = true)
    (rs0 : ReplaySet) (order : List LinItem) :
    seqRun W reqs (fun r => r.sendOk) rs0 order = seqRun W reqs allDeliver rs0 order := by
  unfold seqRun
  generalize (rs0, ([] : List (Nat × Bytes))) = acc
  induction order generalizing acc with
  | nil => rfl
  | cons it t ih => simp only [List.foldl_cons]; rw [seqItem_deliver_eq W reqs hall]; exact ih _


/-! ### checking the generated atomicity certificates -/
open Munge.Gen.Sys in
/-- simulate one event path: `held` = the mutex is held; `heads` = lock state recorded at loop heads -/
def pathGo (mode : Mode) (needs takes : List String) : Bool → List (Nat × Bool) → List Ev → Bool
  | _, _, [] => true
  | held, hs, .lock :: t => !held && pathGo mode needs takes true hs t
  | held, hs, .unlock :: t => held && pathGo mode needs takes false hs t
  | held, hs, .touch _ :: t => held && pathGo mode needs takes held hs t
  | held, hs, .call f :: t =>
      (!needs.contains f || held) && (!takes.contains f || !held) && pathGo mode needs takes held hs t
  | held, hs, .head n :: t => pathGo mode needs takes held ((n, held) :: hs) t
  | held, hs, .back n :: t => (hs.lookup n == some held) && pathGo mode needs takes held hs t
  | held, hs, .ret :: t => (held == (mode == .needsLock)) && pathGo mode needs takes held hs t
  | held, hs, .cut :: t => pathGo mode needs takes held hs t

open Munge.Gen.Sys in
/-- every shared access on the path happens with the mutex held; a function that expects the mutex is only
    called with it, one that takes it only without; the lock state is loop-invariant; the function returns in
    the lock state its mode promises -/
def pathOk (mode : Mode) (needs takes : List String) (p : List Ev) : Bool :=
  pathGo mode needs takes (mode != .takesLock) [] p

open Munge.Gen.Sys in
/-- all certificates of mutex `m` check (functions that only run at start-up / shutdown are exempt), and there is one -/
def mutexCertified (cs : List Cert) (m : String) : Bool :=
  let mine := cs.filter (fun c => c.mutex == m)
  let needs := (mine.filter (fun c => c.mode != .takesLock)).map (·.fn)
  let takes := (mine.filter (fun c => c.mode == .takesLock)).map (·.fn)
  !mine.isEmpty && mine.all (fun c => c.exempt || c.paths.all (pathOk c.mode needs takes))

open Munge.Gen.Sys in
def guardCovered (cs : List Cert) : Guard → Bool
  | .initOnly _ | .lazyInit _ | .syncObject | .atomicFlag | .thread _ => true
  | .mutex m => mutexCertified cs m
  | .unguarded _ => false

end Munge.Sys
