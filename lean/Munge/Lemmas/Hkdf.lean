import Munge.Model.Hkdf
/- Helper lemmas for the C20 theorems.

Section "what the generated definitions say" is where the proofs touch `Munge.Gen.Hkdf`: each lemma states, under
the ranges the C types give, what a generated expression/guard/list denotes.  A semantic edit of the C source
changes the generated definition and makes the corresponding lemma (hence the property theorems) fail. -/
namespace Munge.Hkdf
open Munge.C Munge.Gen.Hkdf Munge.Spec

/-! ### what the generated definitions of `hkdf.c` say -/

theorem effSalt_eq (hashLen : Nat) (salt : Option Bytes) :
    effSalt hashLen salt = salt.getD (List.replicate hashLen 0) := by
  cases salt <;> simp [effSalt, defaultSaltLen, defaultSaltByte]

theorem extract_eq (mac : Mac) (salt ikm info : Bytes) : extract mac salt ikm info = mac salt ikm := by
  simp [extract, srcBytes, feedBytes, extractKey, extractMsg]

theorem fit_eq (n : Nat) (b : Bytes) (h : b.length = n) : fit n b = b := by
  simp [fit, h]

theorem prk_eq (hashLen : Nat) (b : Bytes) (h : b.length = hashLen) : fit (prkLen hashLen).toNat b = b := by
  apply fit_eq; simp [prkLen, h]

theorem roundInit_eq : roundInit = 0 := rfl

theorem roundNext_eq (i : Nat) (h : i < 255) : roundNext (i : Int) = ((i + 1 : Nat) : Int) := by
  unfold roundNext wrapU8; omega

theorem expandMore_iff (left : Nat) : expandMore (left : Int) ↔ 0 < left := by
  unfold expandMore; omega

theorem expandStop_iff (r : Nat) : expandStop (r : Int) ↔ r = 255 := by
  unfold expandStop; omega

theorem expandCopy_eq (h left : Nat) (hh : h ≤ 2147483647) :
    (expandCopy (h : Int) (left : Int)).toNat = min h left := by
  unfold expandCopy wrapS32 wrapU64
  split <;> omega

/-- the message of round `r` (1 ≤ r ≤ 255): previous block unless first round, info, one counter octet.
    (Written against the meaning of the generated guards, not their spelling: each branch of the generated
    `if`s is closed by arithmetic on `r` and `info.length`.) -/
theorem round_msg (salt ikm info prk prev : Bytes) (r : Nat) (h1 : 1 ≤ r) :
    feedBytes salt ikm info prk prev (r : Int) (expandFeeds (r : Int) info.length) =
      (if r = 1 then [] else prev) ++ info ++ [UInt8.ofNat r] := by
  unfold expandFeeds feedBytes
  split <;> split <;>
    first
    | (have hr1 : r ≠ 1 := by omega
       first
       | (simp [srcBytes, hr1]; done)
       | (have hi : info = [] := List.eq_nil_of_length_eq_zero (by omega)
          subst hi; simp [srcBytes, hr1]))
    | (have hr1 : r = 1 := by omega
       subst hr1
       first
       | (simp [srcBytes]; done)
       | (have hi : info = [] := List.eq_nil_of_length_eq_zero (by omega)
          subst hi; simp [srcBytes]))

theorem round_key (salt ikm info prk prev : Bytes) (r : Int) :
    srcBytes salt ikm info prk prev r expandKey = prk := rfl

/-! ### RFC-side bookkeeping -/

/-- `T(i+1) | T(i+2) | … | T(i+n)` -/
def blocks (mac : Mac) (prk info : Bytes) (i : Nat) : Nat → Bytes
  | 0 => []
  | n + 1 => hkdfT mac prk info (i + 1) ++ blocks mac prk info (i + 1) n

theorem blocks_range (mac : Mac) (prk info : Bytes) (i n : Nat) :
    ((List.range n).map fun j => hkdfT mac prk info (i + j + 1)).flatten = blocks mac prk info i n := by
  induction n generalizing i with
  | zero => simp [blocks]
  | succ n ih =>
    rw [List.range_succ_eq_map]
    simp only [List.map_cons, List.flatten_cons, List.map_map, blocks]
    congr 1
    rw [← ih (i + 1)]
    congr 1
    apply List.map_congr_left
    intro j _
    simp only [Function.comp]
    congr 1
    omega

theorem hkdfT_length (mac : Mac) (hashLen : Nat) (hlen : ∀ k m, (mac k m).length = hashLen) (prk info : Bytes)
    (i : Nat) : (hkdfT mac prk info (i + 1)).length = hashLen := by
  simp [hkdfT, hlen]

theorem expandLoop_zero_left (mac : Mac) (salt ikm info prk : Bytes) (fuel : Nat) (r : Int) (okm : Bytes) :
    expandLoop mac salt ikm info prk fuel r okm 0 = [] := by
  cases fuel with
  | zero => rfl
  | succ f =>
    have : ¬ expandMore 0 := by unfold expandMore; omega
    simp [expandLoop, this]

/-- the loop invariant: entering with `round = i`, the previous block in `okm` (irrelevant when `i = 0`) and
    `left` bytes wanted, the loop emits the first `left` bytes of `T(i+1) | T(i+2) | …` -/
theorem expandLoop_spec (mac : Mac) (hashLen : Nat) (hpos : 0 < hashLen) (hmax : hashLen ≤ 2147483647)
    (hlen : ∀ k m, (mac k m).length = hashLen) (salt ikm info prk : Bytes) :
    ∀ (fuel i : Nat) (okm : Bytes) (left N : Nat),
      i < 255 → left ≤ fuel → left ≤ (255 - i) * hashLen → left ≤ N * hashLen →
      (i = 0 ∨ okm = hkdfT mac prk info i) →
      expandLoop mac salt ikm info prk fuel (i : Int) okm (left : Int) = (blocks mac prk info i N).take left := by
  intro fuel
  induction fuel with
  | zero =>
    intro i okm left N _ hf _ _ _
    have : left = 0 := by omega
    subst this; simp [expandLoop]
  | succ fuel ih =>
    intro i okm left N hi hf hcap hN hokm
    by_cases h0 : left = 0
    · subst h0
      simpa using expandLoop_zero_left mac salt ikm info prk (fuel + 1) (i : Int) okm
    · have hmore : expandMore (left : Int) := (expandMore_iff left).2 (by omega)
      -- N ≥ 1
      obtain ⟨N', rfl⟩ : ∃ N', N = N' + 1 := by
        cases N with
        | zero => simp at hN; omega
        | succ n => exact ⟨n, rfl⟩
      have hT : (if i + 1 = 1 then [] else okm) ++ info ++ [UInt8.ofNat (i + 1)]
          = hkdfT mac prk info i ++ info ++ [UInt8.ofNat (i + 1)] := by
        rcases hokm with h | h
        · subst h; simp [hkdfT]
        · by_cases hi0 : i = 0
          · subst hi0; simp [hkdfT]
          · simp [hi0, h]
      have hTlen := hkdfT_length mac hashLen hlen prk info i
      rw [expandLoop]
      simp only [hmore, if_true, roundNext_eq i hi, round_key, round_msg salt ikm info prk okm (i + 1) (by omega), hT]
      have hblk : mac prk (hkdfT mac prk info i ++ info ++ [UInt8.ofNat (i + 1)]) = hkdfT mac prk info (i + 1) := by
        simp [hkdfT]
      rw [hblk]
      simp only [hTlen, expandCopy_eq hashLen left hmax, expandStop_iff, blocks]
      by_cases hle : left ≤ hashLen
      · -- last (possibly partial) block
        have hmin : min hashLen left = left := by omega
        rw [hmin]
        have hsub : ((left : Int) - (expandCopy (hashLen : Int) (left : Int))) = 0 := by
          have := expandCopy_eq hashLen left hmax
          have hnn : 0 ≤ expandCopy (hashLen : Int) (left : Int) := by
            unfold expandCopy wrapS32 wrapU64; split <;> omega
          omega
        rw [hsub, expandLoop_zero_left]
        simp [List.take_append_of_le_length, hTlen, hle]
      · -- a full block, more to come
        have hmin : min hashLen left = hashLen := by omega
        rw [hmin]
        have hlt : hashLen < left := by omega
        have hi1 : i + 1 < 255 := by
          apply Classical.byContradiction
          intro hc
          have : 255 - i = 1 := by omega
          rw [this] at hcap; omega
        have hstop : ¬ (i + 1 = 255) := by omega
        have hsub : ((left : Int) - (expandCopy (hashLen : Int) (left : Int))) = ((left - hashLen : Nat) : Int) := by
          have := expandCopy_eq hashLen left hmax
          have hnn : 0 ≤ expandCopy (hashLen : Int) (left : Int) := by
            unfold expandCopy wrapS32 wrapU64; split <;> omega
          omega
        simp only [hstop, if_false, hsub]
        have hcap' : left - hashLen ≤ (255 - (i + 1)) * hashLen := by
          have : 255 - i = (255 - (i + 1)) + 1 := by omega
          rw [this, Nat.add_mul] at hcap; omega
        have hN' : left - hashLen ≤ N' * hashLen := by
          rw [Nat.add_mul] at hN; omega
        rw [ih (i + 1) (hkdfT mac prk info (i + 1)) (left - hashLen) N' hi1 (by omega) hcap' hN' (Or.inr rfl)]
        rw [List.take_of_length_le (by omega : (hkdfT mac prk info (i + 1)).length ≤ hashLen)]
        rw [List.take_append, hTlen, List.take_of_length_le (by omega : (hkdfT mac prk info (i + 1)).length ≤ left)]

end Munge.Hkdf

/-! ### RFC 5869 output length -/
namespace Munge.Spec
open Munge.Hkdf

theorem blocks_length (mac : Mac) (hashLen : Nat) (hlen : ∀ k m, (mac k m).length = hashLen) (prk info : Bytes)
    (i n : Nat) : (blocks mac prk info i n).length = n * hashLen := by
  induction n generalizing i with
  | zero => simp [blocks]
  | succ n ih => simp [blocks, ih, hkdfT_length mac hashLen hlen, Nat.add_mul]; omega

theorem ceil_mul_ge (L h : Nat) (hpos : 0 < h) : L ≤ (L + h - 1) / h * h := by
  have := Nat.lt_div_mul_add (a := L + h - 1) hpos
  omega

theorem hkdfExpand_eq_blocks (mac : Mac) (hashLen : Nat) (prk info : Bytes) (L : Nat) :
    hkdfExpand mac hashLen prk info L = (blocks mac prk info 0 ((L + hashLen - 1) / hashLen)).take L := by
  unfold hkdfExpand
  have := blocks_range mac prk info 0 ((L + hashLen - 1) / hashLen)
  simp only [Nat.zero_add] at this
  simp only [this]

theorem rfc5869_length (mac : Mac) (hashLen : Nat) (hpos : 0 < hashLen) (hlen : ∀ k m, (mac k m).length = hashLen)
    (salt : Option Bytes) (ikm info : Bytes) (L : Nat) : (rfc5869 mac hashLen salt ikm info L).length = L := by
  unfold rfc5869
  rw [hkdfExpand_eq_blocks, List.length_take, blocks_length mac hashLen hlen]
  have := ceil_mul_ge L hashLen hpos
  omega

end Munge.Spec

/-! ### mungekey -/
namespace Munge.Mungekey
open Munge.C Munge.Gen.Hkdf Munge.Hkdf

theorem validates_iff (n : Int) : validates n = true ↔ 32 ≤ n ∧ n ≤ 1024 := by
  unfold validates conf_validate
  repeat' split
  all_goals simp
  all_goals omega

theorem bitsToBytes_eq (b : Int) (h0 : 0 ≤ b) (h1 : b ≤ 8192) : bitsToBytes (setIntValue b) = (b + 7) / 8 := by
  unfold bitsToBytes setIntValue cdiv
  have e1 : wrapS32 b = b := by unfold wrapS32; omega
  rw [e1, Int.tdiv_eq_ediv_of_nonneg (by unfold wrapS32; omega)]
  unfold wrapS32; omega

theorem parseBits_in (b : Int) (h0 : 256 ≤ b) (h1 : b ≤ 8192) : parseBits b = some ((b + 7) / 8) := by
  unfold parseBits
  have : ¬ setIntRejects b bitsMin bitsMax := by unfold setIntRejects bitsMin bitsMax; omega
  simp [this, bitsToBytes_eq b (by omega) h1]

theorem parseBits_out (b : Int) (h : ¬ (256 ≤ b ∧ b ≤ 8192)) : parseBits b = none := by
  unfold parseBits
  have : setIntRejects b bitsMin bitsMax := by unfold setIntRejects bitsMin bitsMax; omega
  simp [this]

/-- bits of `mode` outside `mask` never include a bit that `mode` itself lacks -/
theorem maskMode_and (m u k : Nat) (h : m &&& k = 0) : maskMode m u &&& k = 0 := by
  apply Nat.eq_of_testBit_eq
  intro i
  have hi : (m &&& k).testBit i = false := by rw [h]; simp
  simp only [Nat.testBit_and] at hi
  simp only [maskMode, Nat.testBit_and, Nat.testBit_xor, Nat.zero_testBit]
  cases hm : m.testBit i <;> cases hk : k.testBit i <;> cases hu : u.testBit i <;> simp_all

@[simp] theorem FS.set_set (fs : FS) (p : String) (a b : Option File) : (fs.set p a).set p b = fs.set p b := by
  funext q; simp only [FS.set]; split <;> rfl

@[simp] theorem FS.set_same (fs : FS) (p : String) (a : Option File) : (fs.set p a) p = a := by simp [FS.set]

theorem FS.set_other (fs : FS) (p q : String) (a : Option File) (h : q ≠ p) : (fs.set p a) q = fs q := by
  simp [FS.set, h]

/-- `create_key` on a name that does not exist, or with `--force`: the file is created afresh -/
theorem createKey_fresh (fs : FS) (path : String) (force : Bool) (umask : Nat) (n : Int) (secret : Bytes)
    (h : fs path = none ∨ force = true) :
    createKey fs path force umask n secret =
      (fs.set path (some { content := (fit (secretLen n).toNat secret).take (writeLen n).toNat,
                           mode := maskMode openMode umask }), true) := by
  have hflags : hasFlag openFlags O_CREAT = true ∧ hasFlag openFlags O_EXCL = true := by decide
  have hnf : ∀ rv : Int, ¬ unlinkFatal rv ENOENT := by
    intro rv; unfold unlinkFatal ENOENT; omega
  rcases h with h | h
  · -- no such name: an unlink under --force fails with ENOENT, which is tolerated
    cases force <;>
      simp [createKey, posixOpen, hflags, hnf, h, FS.set, forceUnlinks, effUmask, finalMode, permCalls, writeAt0]
  · subst h
    cases hp : fs path <;>
      simp [createKey, posixOpen, hflags, hnf, hp, FS.set, forceUnlinks, effUmask, finalMode, permCalls, writeAt0]

/-- `create_key` on an existing name without `--force`: `open` fails, nothing changes -/
theorem createKey_exists (fs : FS) (path : String) (umask : Nat) (n : Int) (secret : Bytes) (old : File)
    (h : fs path = some old) : createKey fs path false umask n secret = (fs, false) := by
  have hflags : hasFlag openFlags O_CREAT = true ∧ hasFlag openFlags O_EXCL = true := by decide
  simp [createKey, posixOpen, hflags, h]

end Munge.Mungekey

/-! ### create_subkeys -/
namespace Munge.Subkeys
open Munge.C Munge.Gen.Hkdf Munge.Hkdf

/-- the streaming law of a digest: feeding `a` then `b` is feeding `a ++ b` -/
def StreamLaw {σ : Type} (d : Digest σ) : Prop := ∀ s a b, d.update (d.update s a) b = d.update s (a ++ b)

/-- digest state after the whole file went in, in whatever pieces -/
def fed {σ : Type} (d : Digest σ) (s : σ) (f : Bytes) : σ := if f = [] then s else d.update s f

theorem readLoop_reads {σ : Type} (d : Digest σ) (f : Bytes) (evs : List ReadEv) (hr : ReadsOf f evs) :
    ∀ (s : σ) (n : Int), ∃ s', readLoop d s n evs = some (s', n + f.length) ∧ (StreamLaw d → s' = fed d s f) := by
  induction hr with
  | eof e =>
    intro s n
    refine ⟨s, ?_, fun _ => by simp [fed]⟩
    simp [readLoop, readEof]
  | eintr _ ih =>
    intro s n
    obtain ⟨s', h1, h2⟩ := ih s n
    refine ⟨s', ?_, h2⟩
    have e1 : ¬ readEof (-1) EINTR := by unfold readEof; omega
    have e2 : readRetry (-1) EINTR := by unfold readRetry EINTR; omega
    simp [readLoop, e1, e2, h1]
  | @data f evs c e hc _ ih =>
    intro s n
    obtain ⟨s', h1, h2⟩ := ih (d.update s c) (n + c.length)
    have hpos : (0 : Int) < c.length := by
      cases c with
      | nil => exact absurd rfl hc
      | cons a t => show (0 : Int) < ((t.length + 1 : Nat) : Int); omega
    have e1 : ¬ readEof (c.length : Int) e := by unfold readEof; omega
    have e2 : ¬ readRetry (c.length : Int) e := by unfold readRetry; omega
    have e3 : ¬ readFail (c.length : Int) e := by unfold readFail; omega
    refine ⟨s', ?_, ?_⟩
    · simp only [readLoop, e1, e2, e3, if_false, h1, List.length_append]
      congr 2; push_cast; omega
    · intro law
      rw [h2 law]
      unfold fed
      by_cases hf : f = []
      · subst hf; simp [hc]
      · simp [hf, hc]; exact law s c f

/-- `create_subkeys`, evaluated on the generated digest program: with `s'` the digest state after the read loop
    (the whole file, under the streaming law), a short file is refused and otherwise the two subkeys are the
    digests of that state extended by the two literals.  (Stated through `lookup`, so the order in which the code
    finalises the two subkeys does not matter.) -/
theorem createSubkeys_eval {σ : Type} (d : Digest σ) (f : Bytes) (evs : List ReadEv) (hr : ReadsOf f evs) :
    ∃ s', (StreamLaw d → s' = fed d (d.init MAC_SHA1.toNat) f) ∧
      (f.length < 32 → createSubkeys d evs = none) ∧
      (¬ f.length < 32 → ∃ outs, createSubkeys d evs = some outs ∧
          outs.lookup "dek_key" = some (d.final (d.update s' [49])) ∧
          outs.lookup "mac_key" = some (d.final (d.update s' [50]))) := by
  obtain ⟨s', h1, h2⟩ := readLoop_reads d f evs hr (d.init MAC_SHA1.toNat) nTotalInit
  refine ⟨s', h2, ?_, ?_⟩
  all_goals intro hs
  all_goals simp [MAC_SHA1, nTotalInit] at h1
  · have hshort : keyTooShort (f.length : Int) := by unfold keyTooShort; omega
    simp [createSubkeys, subkeyProgram, runProg, step, St.put, St.get, List.filter, nTotalInit, h1, hshort]
  · have hshort : ¬ keyTooShort (f.length : Int) := by unfold keyTooShort; omega
    simp [createSubkeys, subkeyProgram, runProg, step, St.put, St.get, List.lookup, List.filter, nTotalInit, h1, hshort]

/-- `create_subkeys` sees the key file only through what the read loop makes of the `read()` results -/
theorem runProg_congr {σ : Type} (d : Digest σ) (e1 e2 : List ReadEv)
    (h : ∀ s n, readLoop d s n e1 = readLoop d s n e2) (prog : List SkOp) :
    ∀ st : St σ, runProg d e1 st prog = runProg d e2 st prog := by
  induction prog with
  | nil => intro st; rfl
  | cons op rest ih =>
    intro st
    have hstep : step d e1 st op = step d e2 st op := by
      cases op <;> simp [step, h]
    simp [runProg, hstep, ih]

theorem createSubkeys_congr {σ : Type} (d : Digest σ) (e1 e2 : List ReadEv)
    (h : ∀ s n, readLoop d s n e1 = readLoop d s n e2) : createSubkeys d e1 = createSubkeys d e2 := by
  simp [createSubkeys, runProg_congr d e1 e2 h]

end Munge.Subkeys

namespace Munge.Hkdf.Toy
open Munge.Hkdf (Bytes)

/-- the toy MAC the harness shares with the driver produces tags of the advertised length -/
theorem mac_length (n : Nat) (k m : Bytes) : (mac n k m).length = n := by
  unfold mac
  generalize absorb (macInit k) m = h
  induction n generalizing h with
  | zero => rfl
  | succ n ih => simp [squeeze, ih]

end Munge.Hkdf.Toy
