import Munge.Model.Cred
/-!
The configuration fields the credential pipeline depends on.

`Munge.Gen.Dec.confReads` is regenerated from the source on every run: per file of the pipeline, the `conf->field`s it
mentions.  `Munge.Cred.Conf` (the model's configuration) and the `cred conf` op of harness/h_cred.c carry exactly these:

  enc.c : addr, def_cipher, def_mac, def_ttl, def_zip, dek_key(+len), mac_key(+len), max_ttl
  dec.c : dek_key(+len), mac_key(+len), max_ttl, got_clock_skew, got_root_auth, got_socket_retry, gids (the group map, C17)

so the theorems that quantify over every `cf : Conf` quantify over every configuration the pipeline can observe.  A new
dependence (a mode flag consulted by enc.c, say) changes the generated table and breaks the theorem below.
-/
namespace Munge.Cred
open Munge.Gen.Dec

def confAsModelled : List (String × List String) := [
  ("enc.c", ["addr", "def_cipher", "def_mac", "def_ttl", "def_zip", "dek_key", "dek_key_len", "mac_key", "mac_key_len", "max_ttl"]),
  ("dec.c", ["dek_key", "dek_key_len", "gids", "got_clock_skew", "got_root_auth", "got_socket_retry", "mac_key", "mac_key_len", "max_ttl"]),
  ("cred.c", []), ("zip.c", []), ("cipher.c", []), ("base64.c", []), ("mac.c", []), ("md.c", []), ("m_msg.c", [])]

theorem conf_reads_as_modelled : confReads = confAsModelled := by decide

end Munge.Cred
