import Munge.Model.Work
/-
Helper lemmas for `Props/C12.lean`: invariants of the `Work` transition system, for arbitrary `Params`
satisfying the hypotheses named in `Params.Sound` (which `Props/C12.lean` proves for the generated parameters).
-/
namespace Munge.Work

/-! ### items held by workers -/

@[simp] theorem item?_working (i : Nat) : (WPc.working i).item? = some i := rfl
@[simp] theorem item?_starting : WPc.starting.item? = none := rfl
@[simp] theorem item?_waitRecv (b : Bool) : (WPc.waitRecv b).item? = none := rfl
@[simp] theorem item?_cancelled : WPc.cancelled.item? = none := rfl
@[simp] theorem item?_crashed : WPc.crashed.item? = none := rfl

theorem held_set_perm (w : List WPc) (k : Nat) (v : WPc) (h : k < w.length) :
    (w[k].item?.toList ++ held (w.set k v)).Perm (v.item?.toList ++ held w) := by
  induction w generalizing k with
  | nil => simp at h
  | cons a t ih =>
    cases k with
    | zero =>
      simp only [List.getElem_cons_zero, List.set_cons_zero, held, List.filterMap_cons]
      cases ha : a.item? <;> cases hv : v.item? <;> simp
      exact List.Perm.swap _ _ _
    | succ k =>
      have := ih k (by simpa using h)
      simp only [List.getElem_cons_succ, List.set_cons_succ, held, List.filterMap_cons] at this ⊢
      cases ha : a.item? <;> simp
      · exact this
      · exact List.perm_middle.trans ((List.Perm.cons _ this).trans List.perm_middle.symm)

theorem held_set_count {w : List WPc} {k : Nat} {pc : WPc} (v : WPc) (h : w[k]? = some pc) (x : Nat) :
    pc.item?.toList.count x + (held (w.set k v)).count x = v.item?.toList.count x + (held w).count x := by
  obtain ⟨hk, rfl⟩ := List.getElem?_eq_some_iff.mp h
  have := (held_set_perm w k v hk).count_eq x
  simpa [List.count_append] using this

theorem held_set_length {w : List WPc} {k : Nat} {pc : WPc} (v : WPc) (h : w[k]? = some pc) :
    pc.item?.toList.length + (held (w.set k v)).length = v.item?.toList.length + (held w).length := by
  obtain ⟨hk, rfl⟩ := List.getElem?_eq_some_iff.mp h
  have := (held_set_perm w k v hk).length_eq
  simpa [List.length_append] using this

theorem held_length_le (w : List WPc) : (held w).length ≤ w.length := by
  unfold held; exact List.length_filterMap_le _ _

theorem mem_held {w : List WPc} {i : Nat} : i ∈ held w ↔ ∃ k : Nat, w[k]? = some (WPc.working i) := by
  unfold held
  rw [List.mem_filterMap]
  constructor
  · rintro ⟨pc, hm, hi⟩
    obtain ⟨k, hk, rfl⟩ := List.mem_iff_getElem.mp hm
    refine ⟨k, ?_⟩
    cases hpc : w[k] <;> simp [hpc, WPc.item?] at hi
    subst hi
    simp [List.getElem?_eq_getElem hk, hpc]
  · rintro ⟨k, hk⟩
    exact ⟨_, List.mem_of_getElem? hk, by simp [WPc.item?]⟩

/-! ### conservation invariant (independent of the wait/signal predicates) -/

/-- the safety invariant over the fields it mentions (so that updates of other fields are invisible) -/
structure IA (P : Params) (n : Nat) (q : List Nat) (nw : Int) (w : List WPc) (acc dn lo : List Nat)
    (tk : List (Nat × Nat)) : Prop where
  len : w.length = n
  nodup : ∀ x, acc.count x ≤ 1
  cons : ∀ x, acc.count x = q.count x + (held w).count x + dn.count x + lo.count x
  cnt : nw = (held w).length + lo.length
  tak : ∀ x, (tk.map Prod.snd).count x = (held w).count x + dn.count x + lo.count x
  own : ∀ (k i : Nat), w[k]? = some (WPc.working i) → (k, i) ∈ tk
  lostm : P.masked = true → lo = []
  nocrash : ∀ k : Nat, w[k]? ≠ some WPc.crashed

def InvA (P : Params) (n : Nat) (s : State) : Prop :=
  IA P n s.queue s.nWorking s.w s.accepted s.done s.lost s.taken

section
variable {P : Params} {n : Nat} {q : List Nat} {nw : Int} {w : List WPc} {acc dn lo : List Nat} {tk : List (Nat × Nat)}

theorem IA.idle (h : IA P n q nw w acc dn lo tk) {k : Nat} {pc v : WPc} (hk : w[k]? = some pc)
    (hpc : pc.item? = none) (hv : v.item? = none) (hc : v ≠ .crashed) :
    IA P n q nw (w.set k v) acc dn lo tk := by
  have hC := fun x => held_set_count v hk x
  have hL := held_set_length v hk
  simp only [hpc, hv, Option.toList_none, List.count_nil, List.length_nil, Nat.zero_add] at hC hL
  refine ⟨by simp [h.len], h.nodup, ?_, ?_, ?_, ?_, h.lostm, ?_⟩
  · intro x; rw [hC x]; exact h.cons x
  · rw [hL]; exact h.cnt
  · intro x; rw [hC x]; exact h.tak x
  · intro k' i hk'
    rw [List.getElem?_set] at hk'
    split at hk'
    · split at hk'
      · simp at hk'; subst hk'; simp at hv
      · simp at hk'
    · exact h.own k' i hk'
  · intro k' hk'
    rw [List.getElem?_set] at hk'
    split at hk'
    · split at hk'
      · simp at hk'; exact hc hk'
      · simp at hk'
    · exact h.nocrash k' hk'

theorem IA.take {i : Nat} (h : IA P n (i :: q) nw w acc dn lo tk) {k : Nat} {pc : WPc} (hk : w[k]? = some pc)
    (hpc : pc.item? = none) :
    IA P n q (nw + 1) (w.set k (.working i)) acc dn lo (tk ++ [(k, i)]) := by
  have hC := fun x => held_set_count (.working i) hk x
  have hL := held_set_length (.working i) hk
  simp only [hpc, item?_working, Option.toList_none, Option.toList_some, List.count_nil, List.length_nil, Nat.zero_add,
    List.length_singleton] at hC hL
  refine ⟨by simp [h.len], h.nodup, ?_, ?_, ?_, ?_, h.lostm, ?_⟩
  · intro x; have := h.cons x; have := hC x; simp only [List.count_cons, List.count_nil] at *; omega
  · have := h.cnt; omega
  · intro x; have := h.tak x; have := hC x
    simp only [List.map_append, List.count_append, List.map_cons, List.map_nil, List.count_cons, List.count_nil] at *
    omega
  · intro k' i' hk'
    rw [List.getElem?_set] at hk'
    split at hk'
    · split at hk'
      · simp at hk'; subst hk'; simp_all
      · simp at hk'
    · exact List.mem_append_left _ (h.own k' i' hk')
  · intro k' hk'
    rw [List.getElem?_set] at hk'
    split at hk'
    · split at hk' <;> simp at hk'
    · exact h.nocrash k' hk'

theorem IA.finish {i : Nat} (h : IA P n q nw w acc dn lo tk) {k : Nat} {v : WPc} (hk : w[k]? = some (.working i))
    (hv : v.item? = none) (hc : v ≠ .crashed) :
    IA P n q (nw - 1) (w.set k v) acc (dn ++ [i]) lo tk := by
  have hC := fun x => held_set_count v hk x
  have hL := held_set_length v hk
  simp only [hv, item?_working, Option.toList_none, Option.toList_some, List.count_nil, List.length_nil, Nat.zero_add,
    List.length_singleton] at hC hL
  refine ⟨by simp [h.len], h.nodup, ?_, ?_, ?_, ?_, h.lostm, ?_⟩
  · intro x; have := h.cons x; have := hC x
    simp only [List.count_append, List.count_cons, List.count_nil] at *; omega
  · have := h.cnt; omega
  · intro x; have := h.tak x; have := hC x
    simp only [List.count_append, List.count_cons, List.count_nil] at *; omega
  · intro k' i' hk'
    rw [List.getElem?_set] at hk'
    split at hk'
    · split at hk'
      · simp at hk'; subst hk'; simp at hv
      · simp at hk'
    · exact h.own k' i' hk'
  · intro k' hk'
    rw [List.getElem?_set] at hk'
    split at hk'
    · split at hk'
      · simp at hk'; exact hc hk'
      · simp at hk'
    · exact h.nocrash k' hk'

theorem IA.lose {i : Nat} (h : IA P n q nw w acc dn lo tk) {k : Nat} (hk : w[k]? = some (.working i))
    (hm : P.masked = false) :
    IA P n q nw (w.set k .cancelled) acc dn (lo ++ [i]) tk := by
  have hC := fun x => held_set_count .cancelled hk x
  have hL := held_set_length .cancelled hk
  simp only [item?_working, item?_cancelled, Option.toList_none, Option.toList_some, List.count_nil, List.length_nil, Nat.zero_add,
    List.length_singleton] at hC hL
  refine ⟨by simp [h.len], h.nodup, ?_, ?_, ?_, ?_, by simp [hm], ?_⟩
  · intro x; have := h.cons x; have := hC x
    simp only [List.count_append, List.count_cons, List.count_nil] at *; omega
  · have := h.cnt; simp only [List.length_append, List.length_singleton]; push_cast; omega
  · intro x; have := h.tak x; have := hC x
    simp only [List.count_append, List.count_cons, List.count_nil] at *; omega
  · intro k' i' hk'
    rw [List.getElem?_set] at hk'
    split at hk'
    · split at hk' <;> simp at hk'
    · exact h.own k' i' hk'
  · intro k' hk'
    rw [List.getElem?_set] at hk'
    split at hk'
    · split at hk' <;> simp at hk'
    · exact h.nocrash k' hk'

theorem IA.enq {i : Nat} (h : IA P n q nw w acc dn lo tk) (hi : i ∉ acc) :
    IA P n (q ++ [i]) nw w (acc ++ [i]) dn lo tk := by
  refine ⟨h.len, ?_, ?_, h.cnt, h.tak, h.own, h.lostm, h.nocrash⟩
  · intro x; have := h.nodup x
    simp only [List.count_append, List.count_cons, List.count_nil]
    by_cases hx : i = x
    · subst hx; have := List.count_eq_zero.mpr hi; simp; omega
    · simp [hx]; omega
  · intro x; have := h.cons x
    simp only [List.count_append, List.count_cons, List.count_nil]; omega

end

/-! ### the safety invariant is preserved by every step -/

@[simp] theorem wakeMain_queue (s : State) : (wakeMain s).queue = s.queue := by unfold wakeMain; split <;> rfl
@[simp] theorem wakeMain_nWorking (s : State) : (wakeMain s).nWorking = s.nWorking := by unfold wakeMain; split <;> rfl
@[simp] theorem wakeMain_w (s : State) : (wakeMain s).w = s.w := by unfold wakeMain; split <;> rfl
@[simp] theorem wakeMain_accepted (s : State) : (wakeMain s).accepted = s.accepted := by unfold wakeMain; split <;> rfl
@[simp] theorem wakeMain_done (s : State) : (wakeMain s).done = s.done := by unfold wakeMain; split <;> rfl
@[simp] theorem wakeMain_lost (s : State) : (wakeMain s).lost = s.lost := by unfold wakeMain; split <;> rfl
@[simp] theorem wakeMain_taken (s : State) : (wakeMain s).taken = s.taken := by unfold wakeMain; split <;> rfl
@[simp] theorem wakeMain_gotFini (s : State) : (wakeMain s).gotFini = s.gotFini := by unfold wakeMain; split <;> rfl
@[simp] theorem wakeMain_finiArg (s : State) : (wakeMain s).finiArg = s.finiArg := by unfold wakeMain; split <;> rfl

/-- hypothesis on the generated worker wait loop: wait exactly while the queue is empty -/
def RecvOk (P : Params) : Prop := ∀ N n q, P.recvWait N n q = !q

section
variable {P : Params} {n : Nat} {s : State} {k : Nat}

theorem takeOrWait_invA (hR : RecvOk P) (h : InvA P n s) {pc : WPc} (hk : s.w[k]? = some pc) (hpc : pc.item? = none) :
    InvA P n (takeOrWait P s k) := by
  unfold takeOrWait
  rw [hR]
  unfold InvA at h ⊢
  cases hq : s.queue with
  | nil => simp only [State.qne, hq, List.isEmpty_nil, Bool.not_true, Bool.not_false, if_true]
           rw [hq] at h; exact h.idle hk hpc rfl (by simp)
  | cons i q =>
    simp only [State.qne, hq, List.isEmpty_cons, Bool.not_false, Bool.not_true, Bool.false_eq_true, if_false]
    rw [hq] at h; exact h.take hk hpc

theorem loopTop_invA (hR : RecvOk P) (h : InvA P n s) {pc : WPc} (hk : s.w[k]? = some pc) (hpc : pc.item? = none) :
    InvA P n (loopTop P s k) := by
  unfold loopTop
  split
  · exact IA.idle h hk hpc rfl (by simp)
  · exact takeOrWait_invA hR h hk hpc

theorem finishItem_invA (hR : RecvOk P) (h : InvA P n s) {i : Nat} (hk : s.w[k]? = some (.working i)) :
    InvA P n (finishItem P s k i) := by
  let s1 : State := { s with nWorking := s.nWorking - 1, done := s.done ++ [i] }
  show InvA P n (loopTop P (if P.signal s1.nWorkers s1.nWorking s1.qne then wakeMain s1 else s1) k)
  generalize hs2 : (if P.signal s1.nWorkers s1.nWorking s1.qne then wakeMain s1 else s1) = s2
  have e1 : s2.queue = s.queue ∧ s2.nWorking = s.nWorking - 1 ∧ s2.w = s.w ∧ s2.accepted = s.accepted ∧
      s2.done = s.done ++ [i] ∧ s2.lost = s.lost ∧ s2.taken = s.taken := by
    subst hs2; split
    · simp [s1]
    · exact ⟨rfl, rfl, rfl, rfl, rfl, rfl, rfl⟩
  obtain ⟨a1, a2, a3, a4, a5, a6, a7⟩ := e1
  let s3 : State := { s2 with w := s2.w.set k .starting }
  have h3 : InvA P n s3 := by
    unfold InvA; simp only [s3, a1, a2, a3, a4, a5, a6, a7]
    exact IA.finish h hk rfl (by simp)
  have hk3 : s3.w[k]? = some .starting := by
    have : k < s.w.length := (List.getElem?_eq_some_iff.mp hk).1
    simp [s3, a3, this]
  have := loopTop_invA hR h3 hk3 rfl
  have e : loopTop P s3 k = loopTop P s2 k := by
    simp [loopTop, takeOrWait, s3, State.cancelReq, State.qne, State.nWorkers, List.set_set]
    rfl
  rwa [e] at this

theorem wrkStep_invA (hR : RecvOk P) (h : InvA P n s) {s' : State} (hs : wrkStep P s k = some s') : InvA P n s' := by
  unfold wrkStep at hs
  split at hs
  · next hk => simp at hs; subst hs; exact loopTop_invA hR h hk rfl
  · next b hk =>
    simp at hs; subst hs
    split
    · exact IA.idle h hk rfl rfl (by simp)
    · exact takeOrWait_invA hR h hk rfl
  · next i hk =>
    split at hs
    · next hc =>
      simp at hs; subst hs
      simp at hc
      exact IA.lose h hk hc.1
    · simp at hs; subst hs; exact finishItem_invA hR h hk
  · simp at hs

theorem step_invA (hR : RecvOk P) (h : InvA P n s) {a : Act} {s' : State} (hs : step P s a = some s') : InvA P n s' := by
  cases a with
  | wrk k => exact wrkStep_invA hR h hs
  | enq i =>
    simp only [step] at hs
    split at hs
    · next hc =>
      split at hs
      · simp at hs; subst hs; exact h
      · simp at hs; subst hs
        split <;> exact IA.enq h hc.2
    · simp at hs
  | sig r =>
    simp only [step] at hs
    split at hs
    · simp at hs; subst hs
      split
      · next k hk =>
        have hm : k ∈ unwoken s.w := List.mem_of_getElem? hk
        simp [unwoken] at hm
        exact IA.idle h hm.2 rfl rfl (by simp)
      · exact h
    · simp at hs
  | waitCall =>
    simp only [step] at hs
    split at hs
    · simp at hs; subst hs; split <;> exact h
    · simp at hs
  | fini d =>
    simp only [step] at hs
    split at hs
    · simp at hs; subst hs; split <;> exact h
    · simp at hs
  | mainWake =>
    simp only [step] at hs
    split at hs
    · simp at hs; subst hs; repeat' split
      all_goals exact h
    · simp at hs
  | cancelOne =>
    simp only [step] at hs
    split at hs
    · simp at hs; subst hs; exact h
    · simp at hs
  | join =>
    simp only [step] at hs
    split at hs
    · simp at hs; subst hs; exact h
    · simp at hs

theorem held_replicate_starting (n : Nat) : held (List.replicate n .starting) = [] := by
  induction n with
  | zero => rfl
  | succ n ih => simp [held, List.replicate_succ]

theorem init_invA (P : Params) (n : Nat) : InvA P n (init n) := by
  refine ⟨by simp [init], by simp [init], ?_, ?_, ?_, ?_, by simp [init], ?_⟩
  · intro x; simp [init, held_replicate_starting]
  · simp [init, held_replicate_starting]
  · intro x; simp [init, held_replicate_starting]
  · intro k i hk; simp [init, List.getElem?_replicate] at hk
  · intro k hk; simp [init, List.getElem?_replicate] at hk

theorem reachable_invA (hR : RecvOk P) (hr : Reachable P n s) : InvA P n s := by
  induction hr with
  | init => exact init_invA P n
  | step a _ hs ih => exact step_invA hR ih hs

end

/-! ### control invariant: wake-ups, the wait predicates, cancellation -/

/-- what the theorems need from the generated parameters; the facts about the wait/signal predicates are guarded by
    `W` so that the invariants that do not depend on them (`W := False`) are available separately -/
structure Sound (W : Prop) (P : Params) : Prop where
  recv : RecvOk P
  idle : ∀ N n q, 0 ≤ n → n < N → P.idle N n q = true
  masked : P.masked = true
  waitW : W → ∀ N n q, 0 ≤ n → (P.waitW N n q = true ↔ ¬ (n = 0 ∧ q = false))
  waitF : W → ∀ N n q, 0 ≤ n → (P.waitF N n q = true ↔ ¬ (n = 0 ∧ q = false))
  signal : W → ∀ N n q, 0 ≤ n → (n = 0 ∧ q = false) → P.signal N n q = true
  finiWaits : W → P.finiWaits true = true

def MPc.inFini : MPc → Bool
  | .waitFin true _ => true
  | .cancelling _ => true
  | .joining => true
  | .finished => true
  | _ => false

/-- the stop has left its wait phase -/
def MPc.postWait : MPc → Bool
  | .cancelling _ => true
  | .joining => true
  | .finished => true
  | _ => false

structure InvB (W : Prop) (P : Params) (s : State) : Prop where
  b1 : ∀ j, s.main = .cancelling j → j < s.w.length
  b2 : s.gotFini = s.main.inFini
  b3 : ∀ k : Nat, s.w[k]? = some WPc.cancelled → s.cancelReq k = true
  b4 : s.main = .finished → ∀ pc ∈ s.w, pc = WPc.cancelled
  b5 : s.main.postWait = false → s.queue ≠ [] →
        s.main = .signalling ∨ ∃ (k : Nat) (pc : WPc), s.w[k]? = some pc ∧ pc.runnable = true
  b6 : W → ∀ b, s.main = .waitFin b false → ¬ (s.nWorking = 0 ∧ s.queue = [])
  b7 : W → s.finiArg = true → s.main.postWait = true → s.queue = [] ∧ s.nWorking = 0

theorem cancelReq_false_of_not_postWait {s : State} (h : s.main.postWait = false) (k : Nat) : s.cancelReq k = false := by
  unfold State.cancelReq; cases hm : s.main <;> simp_all [MPc.postWait]

theorem getElem?_set_self' {w : List WPc} {k : Nat} (v : WPc) (hk : k < w.length) : (w.set k v)[k]? = some v := by
  simp [hk]

section
variable {W : Prop} {P : Params} {s : State} {k : Nat}

theorem getElem?_set_cases {w : List WPc} {k k' : Nat} {v pc : WPc} (h : (w.set k v)[k']? = some pc) :
    (k = k' ∧ pc = v) ∨ (k ≠ k' ∧ w[k']? = some pc) := by
  rw [List.getElem?_set] at h
  by_cases e : k = k'
  · left; refine ⟨e, ?_⟩
    simp only [e, if_true] at h
    split at h <;> simp at h
    exact h.symm
  · right; simp only [e, if_false] at h; exact ⟨e, h⟩

theorem takeOrWait_invB (hS : Sound W P) (h : InvB W P s) (hnw : 0 ≤ s.nWorking) (hk : k < s.w.length)
    (hf : s.main ≠ .finished) (hq : W → s.main.postWait = true → s.finiArg = true → s.queue = []) :
    InvB W P (takeOrWait P s k) := by
  unfold takeOrWait
  rw [hS.recv]
  by_cases hqq : s.queue = []
  · have hne : (!s.queue.isEmpty) = false := by simp [hqq]
    simp only [State.qne, hne, Bool.not_false, if_true]
    refine ⟨by simpa using h.b1, h.b2, ?_, fun hm => absurd hm hf, by simp [hqq], h.b6, h.b7⟩
    intro k' hk'
    rcases getElem?_set_cases hk' with ⟨_, e⟩ | ⟨_, e⟩
    · simp at e
    · exact h.b3 k' e
  · obtain ⟨i, q, hiq⟩ := List.exists_cons_of_ne_nil hqq
    simp only [State.qne, hiq, List.isEmpty_cons, Bool.not_false, Bool.not_true, Bool.false_eq_true, if_false]
    refine ⟨by simpa using h.b1, h.b2, ?_, fun hm => absurd hm hf, ?_, ?_, ?_⟩
    · intro k' hk'
      rcases getElem?_set_cases hk' with ⟨_, e⟩ | ⟨_, e⟩
      · simp at e
      · exact h.b3 k' e
    · intro _ _
      exact Or.inr ⟨k, _, getElem?_set_self' _ hk, rfl⟩
    · intro _ b _; simp only; omega
    · intro hW ha hp
      have := hq hW hp ha
      simp [hiq] at this

theorem loopTop_invB (hS : Sound W P) (h : InvB W P s) (hnw : 0 ≤ s.nWorking) (hk : k < s.w.length)
    (hf : s.main ≠ .finished) (hq : W → s.main.postWait = true → s.finiArg = true → s.queue = []) :
    InvB W P (loopTop P s k) := by
  unfold loopTop
  split
  · next hc =>
    simp at hc
    have hpw : s.main.postWait = true := by
      cases hp : s.main.postWait
      · have := cancelReq_false_of_not_postWait hp k; simp [this] at hc
      · rfl
    refine ⟨by simpa using h.b1, h.b2, ?_, fun hm => absurd hm hf, by simp [hpw], h.b6, h.b7⟩
    intro k' hk'
    rcases getElem?_set_cases hk' with ⟨e, _⟩ | ⟨_, e⟩
    · subst e; exact hc.2
    · exact h.b3 k' e
  · exact takeOrWait_invB hS h hnw hk hf hq

theorem IA.nWorking_nonneg {n : Nat} (h : InvA P n s) : 0 ≤ s.nWorking := by
  have := h.cnt; omega

theorem IA.nWorking_pos {n : Nat} (h : InvA P n s) {i : Nat} (hk : s.w[k]? = some (.working i)) : 1 ≤ s.nWorking := by
  have := h.cnt
  have hm : i ∈ held s.w := mem_held.mpr ⟨k, hk⟩
  have : 0 < (held s.w).length := List.length_pos_of_mem hm
  omega

theorem InvB.of_core (h : InvB W P s) (s' : State) (hq : s'.queue = s.queue) (hw : s'.w = s.w)
    (hg : s'.gotFini = s.gotFini)
    (hmain : s'.main = s.main ∨ ∃ b wk, s.main = .waitFin b wk ∧ s'.main = .waitFin b true)
    (h6 : W → ∀ b, s'.main = .waitFin b false → ¬ (s'.nWorking = 0 ∧ s'.queue = []))
    (h7 : W → s'.finiArg = true → s'.main.postWait = true → s'.queue = [] ∧ s'.nWorking = 0) : InvB W P s' := by
  rcases hmain with e | ⟨b, wk, e1, e2⟩
  · refine ⟨by simpa [e, hw] using h.b1, by rw [hg, e]; exact h.b2, ?_, by simpa [e, hw] using h.b4, ?_, h6, h7⟩
    · intro k' hk'; have := h.b3 k' (by simpa [hw] using hk'); simpa [State.cancelReq, e] using this
    · simpa [e, hw, hq] using h.b5
  · refine ⟨by simp [e2], ?_, ?_, by simp [e2], ?_, h6, h7⟩
    · rw [hg, e2, h.b2, e1]; cases b <;> rfl
    · intro k' hk'; have := h.b3 k' (by simpa [hw] using hk'); simp [State.cancelReq, e1] at this
    · intro _ hq'
      have := h.b5 (by simp [e1, MPc.postWait]) (by simpa [hq] using hq')
      simpa [e1, e2, hw] using this

theorem finishItem_invB {n : Nat} (hS : Sound W P) (hA : InvA P n s) (h : InvB W P s) {i : Nat}
    (hk : s.w[k]? = some (.working i)) : InvB W P (finishItem P s k i) := by
  have hpos := IA.nWorking_pos hA hk
  have hklt : k < s.w.length := (List.getElem?_eq_some_iff.mp hk).1
  have hf : s.main ≠ .finished := by
    intro hm
    have := h.b4 hm _ (List.mem_of_getElem? hk)
    simp at this
  have hb7 : W → s.finiArg = true → s.main.postWait = true → False := by
    intro hW a b; have := (h.b7 hW a b).2; omega
  let s1 : State := { s with nWorking := s.nWorking - 1, done := s.done ++ [i] }
  show InvB W P (loopTop P (if P.signal s1.nWorkers s1.nWorking s1.qne then wakeMain s1 else s1) k)
  generalize hs2 : (if P.signal s1.nWorkers s1.nWorking s1.qne then wakeMain s1 else s1) = s2
  have hcore : s2.queue = s.queue ∧ s2.w = s.w ∧ s2.gotFini = s.gotFini ∧ s2.finiArg = s.finiArg ∧
      s2.nWorking = s.nWorking - 1 := by
    subst hs2; split
    · simp [s1]
    · exact ⟨rfl, rfl, rfl, rfl, rfl⟩
  obtain ⟨c1, c2, c3, c4, c5⟩ := hcore
  have hmain : (s2.main = s.main ∧ (P.signal s1.nWorkers s1.nWorking s1.qne = false ∨ ∀ b wk, s.main ≠ .waitFin b wk)) ∨
      ∃ b wk, s.main = .waitFin b wk ∧ s2.main = .waitFin b true := by
    subst hs2; split
    · next hsig =>
      unfold wakeMain
      split
      · next b wk hm => right; exact ⟨b, wk, hm, rfl⟩
      · next hm => left; exact ⟨rfl, Or.inr (fun b wk e => hm b wk e)⟩
    · next hsig => left; exact ⟨rfl, Or.inl (by simpa using hsig)⟩
  have h2 : InvB W P s2 := by
    apply h.of_core s2 c1 c2 c3
    · rcases hmain with ⟨e, _⟩ | e
      · exact Or.inl e
      · exact Or.inr e
    · intro hW b hb
      rcases hmain with ⟨e, hs | hs⟩ | ⟨b', wk, _, e2⟩
      · intro ⟨z1, z2⟩
        have : P.signal s1.nWorkers s1.nWorking s1.qne = true := by
          apply hS.signal hW _ _ _ (by simp only [s1]; omega)
          refine ⟨by simp only [s1]; omega, ?_⟩
          simp only [s1, State.qne]; rw [c1] at z2; simp [z2]
        simp [this] at hs
      · rw [e] at hb; exact absurd hb (hs b false)
      · rw [e2] at hb; simp at hb
    · intro hW a b
      have hp : s.main.postWait = true := by
        rcases hmain with ⟨e, _⟩ | ⟨b', wk, _, e2⟩
        · rwa [e] at b
        · rw [e2] at b; simp [MPc.postWait] at b
      exact (hb7 hW (by rwa [c4] at a) hp).elim
  have hf2 : s2.main ≠ .finished := by
    rcases hmain with ⟨e, _⟩ | ⟨b', wk, _, e2⟩
    · rwa [e]
    · rw [e2]; simp
  apply loopTop_invB hS h2 (by omega) (by rwa [c2]) hf2
  intro hW a b
  have hp : s.main.postWait = true := by
    rcases hmain with ⟨e, _⟩ | ⟨b', wk, _, e2⟩
    · rwa [e] at a
    · rw [e2] at a; simp [MPc.postWait] at a
  exact (hb7 hW (by rwa [c4] at b) hp).elim

theorem wrkStep_invB {n : Nat} (hS : Sound W P) (hA : InvA P n s) (h : InvB W P s) {s' : State}
    (hs : wrkStep P s k = some s') : InvB W P s' := by
  have hnn := IA.nWorking_nonneg hA
  have hq : W → s.main.postWait = true → s.finiArg = true → s.queue = [] := fun hW a b => (h.b7 hW b a).1
  have hfin : ∀ pc, s.w[k]? = some pc → pc ≠ .cancelled → s.main ≠ .finished := by
    intro pc hk hne hm
    exact hne (h.b4 hm _ (List.mem_of_getElem? hk))
  unfold wrkStep at hs
  split at hs
  · next hk =>
    simp at hs; subst hs
    exact loopTop_invB hS h hnn (List.getElem?_eq_some_iff.mp hk).1 (hfin _ hk (by simp)) hq
  · next b hk =>
    simp at hs; subst hs
    have hklt := (List.getElem?_eq_some_iff.mp hk).1
    split
    · next hc =>
      have hpw : s.main.postWait = true := by
        cases hp : s.main.postWait
        · have := cancelReq_false_of_not_postWait hp k; simp [this] at hc
        · rfl
      refine ⟨by simpa using h.b1, h.b2, ?_, fun hm => absurd hm (hfin _ hk (by simp)), by simp [hpw], h.b6, h.b7⟩
      intro k' hk'
      rcases getElem?_set_cases hk' with ⟨e, _⟩ | ⟨_, e⟩
      · subst e; exact hc
      · exact h.b3 k' e
    · exact takeOrWait_invB hS h hnn hklt (hfin _ hk (by simp)) hq
  · next i hk =>
    simp [hS.masked] at hs; subst hs
    exact finishItem_invB hS hA h hk
  · simp at hs

theorem exists_working_of_full {w : List WPc} (hne : w ≠ []) (hfull : w.length ≤ (held w).length) :
    ∃ (k i : Nat), w[k]? = some (WPc.working i) := by
  have : 0 < w.length := List.length_pos_iff.mpr hne
  have hp : 0 < (held w).length := by omega
  obtain ⟨i, hi⟩ := List.exists_mem_of_length_pos hp
  obtain ⟨k, hk⟩ := mem_held.mp hi
  exact ⟨k, i, hk⟩

theorem mem_unwoken {w : List WPc} {k : Nat} : k ∈ unwoken w ↔ w[k]? = some (.waitRecv false) := by
  unfold unwoken
  rw [List.mem_filter, List.mem_range]
  constructor
  · intro ⟨_, h⟩; simpa using h
  · intro h; exact ⟨(List.getElem?_eq_some_iff.mp h).1, by simp [h]⟩

theorem step_invB {n : Nat} (hn : 0 < n) (hS : Sound W P) (hA : InvA P n s) (h : InvB W P s) {a : Act} {s' : State}
    (hs : step P s a = some s') : InvB W P s' := by
  have hlen : s.w.length = n := hA.len
  have hwne : s.w ≠ [] := by intro e; simp [e] at hlen; omega
  -- before the stop leaves its wait no worker has exited, and none has crashed: so an unsignalled waiter or a runnable one
  have hpre : s.main.postWait = false → ∀ (k : Nat) (pc : WPc), s.w[k]? = some pc → pc.runnable = true ∨ pc = .waitRecv false := by
    intro hp k pc hk
    cases pc with
    | starting => simp [WPc.runnable]
    | waitRecv b => cases b <;> simp [WPc.runnable]
    | working i => simp [WPc.runnable]
    | cancelled => have := h.b3 k hk; simp [cancelReq_false_of_not_postWait hp] at this
    | crashed => exact absurd hk (hA.nocrash k)
  cases a with
  | wrk k => exact wrkStep_invB hS hA h hs
  | enq i =>
    simp only [step] at hs
    split at hs
    · next hc =>
      have hg : s.gotFini = false := by rw [h.b2, hc.1]; rfl
      simp [hg] at hs; subst hs
      have hnoc : ∀ k : Nat, s.w[k]? ≠ some WPc.cancelled := by
        intro k hk; have := h.b3 k hk; simp [State.cancelReq, hc.1] at this
      split
      · next hid =>
        refine ⟨by simp, by simp [MPc.inFini], fun k hk => absurd hk (hnoc k), by simp, fun _ _ => Or.inl rfl, by simp, by simp [MPc.postWait]⟩
      · next hid =>
        refine ⟨by simp [hc.1], by simp [hc.1, MPc.inFini], fun k hk => absurd hk (hnoc k), by simp [hc.1], ?_, by simp [hc.1], by simp [hc.1, MPc.postWait]⟩
        intro _ _
        right
        have hge : ¬ (s.nWorking < (s.w.length : Int)) := by
          intro hlt
          exact hid (hS.idle _ _ _ (IA.nWorking_nonneg hA) (by simpa [State.nWorkers] using hlt))
        have hl : s.lost = [] := hA.lostm hS.masked
        have hcnt := hA.cnt
        simp only [hl, List.length_nil] at hcnt
        obtain ⟨k, j, hk⟩ := exists_working_of_full hwne (by omega)
        exact ⟨k, _, hk, rfl⟩
    · simp at hs
  | sig r =>
    simp only [step] at hs
    split at hs
    · next hm =>
      simp at hs; subst hs
      have hg : s.gotFini = false := by rw [h.b2, hm]; rfl
      have hnoc : ∀ k : Nat, s.w[k]? ≠ some WPc.cancelled := by
        intro k hk; have := h.b3 k hk; simp [State.cancelReq, hm] at this
      split
      · next k hk =>
        have hu := mem_unwoken.mp (List.mem_of_getElem? hk)
        have hklt := (List.getElem?_eq_some_iff.mp hu).1
        refine ⟨by simp, by simp [hg, MPc.inFini], ?_, by simp, ?_, by simp, by simp [MPc.postWait]⟩
        · intro k' hk'
          rcases getElem?_set_cases hk' with ⟨_, e⟩ | ⟨_, e⟩
          · simp at e
          · exact absurd e (hnoc k')
        · intro _ _; right; exact ⟨k, _, getElem?_set_self' _ hklt, rfl⟩
      · next hnone =>
        refine ⟨by simp, by simp [hg, MPc.inFini], fun k hk => absurd hk (hnoc k), by simp, ?_, by simp, by simp [MPc.postWait]⟩
        intro _ _; right
        have hc0 : unwoken s.w = [] := by
          cases hc : unwoken s.w with
          | nil => rfl
          | cons a t =>
            have hlt : r % (unwoken s.w).length < (unwoken s.w).length := Nat.mod_lt _ (by simp [hc])
            rw [List.getElem?_eq_getElem hlt] at hnone
            simp at hnone
        have h0 : 0 < s.w.length := by omega
        rcases hpre (by simp [hm, MPc.postWait]) 0 s.w[0] (List.getElem?_eq_getElem h0) with hr | hu
        · exact ⟨0, _, List.getElem?_eq_getElem h0, hr⟩
        · have : 0 ∈ unwoken s.w := mem_unwoken.mpr (by rw [List.getElem?_eq_getElem h0, hu])
          simp [hc0] at this
    · simp at hs
  | waitCall =>
    simp only [step] at hs
    split at hs
    · next hm =>
      simp at hs; subst hs
      split
      · next hp =>
        refine ⟨by simp, by simpa [hm, MPc.inFini] using h.b2, ?_, by simp, ?_, ?_, by simp [MPc.postWait]⟩
        · intro k hk; have := h.b3 k hk; simp [State.cancelReq, hm] at this
        · intro _ hq; have := h.b5 (by simp [hm, MPc.postWait]) hq; simpa [hm] using this
        · intro hW b _ ⟨z1, z2⟩; apply (hS.waitW hW _ _ _ (IA.nWorking_nonneg hA)).mp hp; have z2' : s.queue = [] := z2; exact ⟨z1, by simp [State.qne, z2']⟩
      · exact h
    · simp at hs
  | fini d =>
    simp only [step] at hs
    split at hs
    · next hm =>
      simp at hs; subst hs
      have hnoc : ∀ k : Nat, s.w[k]? ≠ some WPc.cancelled := by
        intro k hk; have := h.b3 k hk; simp [State.cancelReq, hm] at this
      split
      · next hp =>
        refine ⟨by simp, by simp [MPc.inFini], fun k hk => absurd hk (hnoc k), by simp, ?_, ?_, by simp [MPc.postWait]⟩
        · intro _ hq; have := h.b5 (by simp [hm, MPc.postWait]) hq; simpa [hm] using this
        · intro hW b _ ⟨z1, z2⟩; apply (hS.waitF hW _ _ _ (IA.nWorking_nonneg hA)).mp hp.2; have z2' : s.queue = [] := z2; exact ⟨z1, by simp [State.qne, z2']⟩
      · next hp =>
        refine ⟨by simp; omega, by simp [MPc.inFini], fun k hk => absurd hk (hnoc k), by simp, by simp [MPc.postWait], by simp, ?_⟩
        intro hW hd _
        simp only at hd
        subst hd
        simp [hS.finiWaits hW] at hp
        have hidle : ¬ ¬ (s.nWorking = 0 ∧ s.qne = false) := fun hc => by
          have := (hS.waitF hW s.nWorkers s.nWorking s.qne (IA.nWorking_nonneg hA)).mpr hc
          simp [State.nWorkers, State.qne] at this hp
          simp [hp] at this
        have := Classical.not_not.mp hidle
        simp [State.qne] at this
        exact ⟨this.2, this.1⟩
    · simp at hs
  | mainWake =>
    simp only [step] at hs
    split at hs
    · next b wk hm =>
      simp at hs; subst hs
      have hnoc : ∀ k : Nat, s.w[k]? ≠ some WPc.cancelled := by
        intro k hk; have := h.b3 k hk; simp [State.cancelReq, hm] at this
      have hb5 := h.b5 (by simp [hm, MPc.postWait])
      simp only [hm] at hb5
      have hb2 := h.b2
      simp only [hm] at hb2
      generalize hp0 : (if b = true then P.waitF else P.waitW) = p
      have hpspec : W → ∀ N n q, 0 ≤ n → (p N n q = true ↔ ¬ (n = 0 ∧ q = false)) := by
        intro hW; subst hp0; cases b
        · simpa using hS.waitW hW
        · simpa using hS.waitF hW
      split
      · next hp =>
        have hp' : W → ¬ (s.nWorking = 0 ∧ s.qne = false) := fun hW => (hpspec hW _ _ _ (IA.nWorking_nonneg hA)).mp hp
        refine ⟨by simp, by rw [hb2]; cases b <;> rfl, fun k hk => absurd hk (hnoc k), by simp, ?_, ?_, by simp [MPc.postWait]⟩
        · intro _ hq; simpa using hb5 hq
        · intro hW b' _ ⟨z1, z2⟩; apply hp' hW; have z2' : s.queue = [] := z2; exact ⟨z1, by simp [State.qne, z2']⟩
      · next hp =>
        have hidle : W → s.nWorking = 0 ∧ s.queue = [] := by
          intro hW
          have hnn : ¬ ¬ (s.nWorking = 0 ∧ s.qne = false) := fun hc => hp ((hpspec hW s.nWorkers s.nWorking s.qne (IA.nWorking_nonneg hA)).mpr hc)
          have := Classical.not_not.mp hnn
          simp [State.qne] at this
          exact this
        cases b
        · refine ⟨by simp [afterWait], by simpa [MPc.inFini, afterWait] using hb2, fun k hk => absurd hk (hnoc k),
            by simp [afterWait], ?_, by simp [afterWait], by simp [afterWait, MPc.postWait]⟩
          intro _ hq; have := hb5 hq; simpa [afterWait] using this
        · refine ⟨by simp [afterWait]; omega, by simpa [MPc.inFini, afterWait] using hb2, fun k hk => absurd hk (hnoc k),
            by simp [afterWait], by simp [afterWait, MPc.postWait], by simp [afterWait], ?_⟩
          intro hW _ _; exact ⟨(hidle hW).2, (hidle hW).1⟩
    · simp at hs
  | cancelOne =>
    simp only [step] at hs
    split at hs
    · next j hm =>
      simp at hs; subst hs
      have hb3 : ∀ k : Nat, s.w[k]? = some WPc.cancelled → k < j := by
        intro k hk; have := h.b3 k hk; simpa [State.cancelReq, hm] using this
      have hb7 := h.b7
      simp only [hm] at hb7
      have hb2 := h.b2
      simp only [hm] at hb2
      split
      · next hlt =>
        refine ⟨by simp; omega, by simpa [MPc.inFini] using hb2, ?_, by simp, by simp [MPc.postWait], by simp, ?_⟩
        · intro k hk; have := hb3 k hk; simp [State.cancelReq]; omega
        · intro hW a _; exact hb7 hW a (by simp [MPc.postWait])
      · refine ⟨by simp, by simpa [MPc.inFini] using hb2, ?_, by simp, by simp [MPc.postWait], by simp, ?_⟩
        · intro k hk; simp [State.cancelReq]
        · intro hW a _; exact hb7 hW a (by simp [MPc.postWait])
    · simp at hs
  | join =>
    simp only [step] at hs
    split at hs
    · next hc =>
      simp at hs; subst hs
      have hb7 := h.b7
      simp only [hc.1] at hb7
      have hb2 := h.b2
      simp only [hc.1] at hb2
      refine ⟨by simp, by simpa [MPc.inFini] using hb2, ?_, ?_, by simp [MPc.postWait], by simp, ?_⟩
      · intro k hk; simp [State.cancelReq]
      · intro _ pc hpc; have := hc.2; simp only [List.all_eq_true] at this; simpa using this pc hpc
      · intro hW a _; exact hb7 hW a (by simp [MPc.postWait])
    · simp at hs

theorem init_invB {n : Nat} (P : Params) : InvB W P (init n) := by
  refine ⟨by simp [init], by simp [init, MPc.inFini], ?_, by simp [init], by simp [init], by simp [init], by simp [init, MPc.postWait]⟩
  intro k hk; simp [init, List.getElem?_replicate] at hk

theorem reachable_inv {n : Nat} (hn : 0 < n) (hS : Sound W P) (hr : Reachable P n s) : InvA P n s ∧ InvB W P s := by
  induction hr with
  | init => exact ⟨init_invA P n, init_invB P⟩
  | step a _ hs ih => exact ⟨step_invA hS.recv ih.1 hs, step_invB hn hS ih.1 ih.2 hs⟩


/-! ### termination measure of the worker steps -/

/-- a step that changes neither the queue, nor the number of busy workers, nor the finished items -/
def Quiet (s s' : State) : Prop := s'.queue = s.queue ∧ s'.nWorking = s.nWorking ∧ s'.done = s.done

theorem takeOrWait_var (hR : RecvOk P) :
    (s.queue ≠ [] ∧ measure (takeOrWait P s k) < measure s) ∨ (s.queue = [] ∧ Quiet s (takeOrWait P s k)) := by
  unfold takeOrWait
  rw [hR]
  by_cases hqq : s.queue = []
  · right
    have hne : (!s.queue.isEmpty) = false := by simp [hqq]
    simp only [State.qne, hne, Bool.not_false, if_true]
    exact ⟨hqq, rfl, rfl, rfl⟩
  · left
    obtain ⟨i, q, hiq⟩ := List.exists_cons_of_ne_nil hqq
    refine ⟨hqq, ?_⟩
    simp only [State.qne, hiq, List.isEmpty_cons, Bool.not_false, Bool.not_true, Bool.false_eq_true, if_false]
    have hl : s.queue.length = q.length + 1 := by simp [hiq]
    simp only [measure, hl]; push_cast; omega

theorem loopTop_var (hR : RecvOk P) : measure (loopTop P s k) < measure s ∨ Quiet s (loopTop P s k) := by
  unfold loopTop
  split
  · right; exact ⟨rfl, rfl, rfl⟩
  · rcases takeOrWait_var (P := P) (s := s) (k := k) hR with h | h
    · exact Or.inl h.2
    · exact Or.inr h.2

theorem finishItem_var (hR : RecvOk P) (i : Nat) : measure (finishItem P s k i) < measure s := by
  let s1 : State := { s with nWorking := s.nWorking - 1, done := s.done ++ [i] }
  show measure (loopTop P (if P.signal s1.nWorkers s1.nWorking s1.qne then wakeMain s1 else s1) k) < measure s
  generalize hs2 : (if P.signal s1.nWorkers s1.nWorking s1.qne then wakeMain s1 else s1) = s2
  have hm : measure s2 = measure s - 1 := by
    subst hs2; split
    · simp [measure, s1]; omega
    · simp [measure, s1]; omega
  rcases loopTop_var (P := P) (s := s2) (k := k) hR with h | h
  · omega
  · have : measure (loopTop P s2 k) = measure s2 := by
      simp only [measure, h.1, h.2.1]
    omega

theorem wrkStep_var (hR : RecvOk P) {s' : State} (hs : wrkStep P s k = some s') :
    measure s' < measure s ∨ Quiet s s' := by
  unfold wrkStep at hs
  split at hs
  · simp at hs; subst hs; exact loopTop_var hR
  · simp at hs; subst hs
    split
    · right; exact ⟨rfl, rfl, rfl⟩
    · rcases takeOrWait_var (P := P) (s := s) (k := k) hR with h | h
      · exact Or.inl h.2
      · exact Or.inr h.2
  · split at hs
    · simp at hs; subst hs; right; exact ⟨rfl, rfl, rfl⟩
    · simp at hs; subst hs; left; exact finishItem_var hR _
  · simp at hs

/-- before any cancellation a runnable worker's step is enabled, and it is productive if the worker holds an item
    or the queue is non-empty -/
theorem wrk_productive (hR : RecvOk P) (hp : s.main.postWait = false) {pc : WPc} (hk : s.w[k]? = some pc)
    (hrun : pc.runnable = true) (hw : pc.item?.isSome = true ∨ s.queue ≠ []) :
    ∃ s', step P s (.wrk k) = some s' ∧ measure s' < measure s := by
  have hc := cancelReq_false_of_not_postWait hp k
  simp only [step, wrkStep, hk]
  cases pc with
  | starting =>
    refine ⟨_, rfl, ?_⟩
    have hq : s.queue ≠ [] := by simpa using hw
    have : loopTop P s k = takeOrWait P s k := by simp [loopTop, hc]
    rw [this]
    rcases takeOrWait_var (P := P) (s := s) (k := k) hR with h | h
    · exact h.2
    · exact absurd h.1 hq
  | waitRecv b =>
    refine ⟨_, rfl, ?_⟩
    have hq : s.queue ≠ [] := by simpa using hw
    simp only [hc, Bool.false_eq_true, if_false]
    rcases takeOrWait_var (P := P) (s := s) (k := k) hR with h | h
    · exact h.2
    · exact absurd h.1 hq
  | working i =>
    simp only [hc, Bool.and_false, Bool.false_eq_true, if_false]
    exact ⟨_, rfl, finishItem_var hR i⟩
  | cancelled => simp [WPc.runnable] at hrun
  | crashed => simp [WPc.runnable] at hrun

end

end Munge.Work
