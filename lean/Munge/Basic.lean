def hello := "world"
