#!/bin/sh
# tools/seedcheck.sh <Cxx> <dir with patch.diff> [more checks...]
# Applies the patch to a scratch worktree, rebuilds, runs munge's own suite and the given checks against it.
P="$1"; D="$2"; shift 2
W=/tmp/wt/verify-$$
/verif/tools/mkwt.sh verify-$$ >/dev/null || exit 3
cd $W && git apply "$D/patch.diff" || { echo "PATCH DOES NOT APPLY"; git -C /repo worktree remove --force $W; exit 2; }
make -j8 >/dev/null 2>&1 || { echo "DOES NOT COMPILE"; git -C /repo worktree remove --force $W; exit 2; }
if [ -z "$SKIP_SUITE" ]; then
  make check > $W/check.log 2>&1
  echo "suite: $(grep -E '^# (FAIL|ERROR):' $W/check.log | tr -s ' ' | sort | uniq -c | tr '\n' ' ')"
fi
cd /verif
for c in $P "$@"; do rm -f replays/$c-1-*.json; cp -f evidence/$c.json /tmp/wt/evidence-$c.bak 2>/dev/null
  MUNGE_REPO=$W ./check $c 2>&1 | grep -E "VIOLATION|KNOWN|done:" | cut -c1-200
  for r in replays/$c-1-*.json; do [ -f "$r" ] && python3 -c "
import json,sys
r=json.load(open('$r')); print('   ', r.get('what','')[:300], '| found_input=', r.get('found_failing_input'))"; done
  cp -f /tmp/wt/evidence-$c.bak evidence/$c.json 2>/dev/null    # evidence files describe runs on /repo only
done
git -C /repo worktree remove --force $W
