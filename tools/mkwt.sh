#!/bin/sh
# tools/mkwt.sh <name>: scratch git worktree of /repo at /tmp/wt/<name>, configured and built (baseline for a mutation)
set -e
N="$1"; D=/tmp/wt/$N
mkdir -p /tmp/wt
git -C /repo worktree add -f --detach "$D" HEAD >/dev/null 2>&1
# bring the generated autotools files (configure, Makefile.in, build-aux) that are not tracked
rsync -a --ignore-existing --exclude .git --exclude '*.o' --exclude '*.lo' --exclude '*.la' --exclude '.libs' --exclude '.deps' \
      --exclude 'Makefile' --exclude 'config.h' --exclude 'config.status' --exclude 'config.log' --exclude 'libtool' --exclude 'stamp-h1' \
      --exclude '*.log' --exclude '*.trs' --exclude 'src/munged/munged' --exclude 'src/munge/munge' --exclude 'src/munge/unmunge' \
      --exclude 'src/munge/remunge' --exclude 'src/mungekey/mungekey' --exclude '*.test' /repo/ "$D"/
cd "$D" && ./configure >/dev/null 2>&1 && make -j8 >/dev/null 2>&1
echo "$D"
