#!/bin/sh
# tools/mut.sh <prop> <repo-relative file> <sed expression> [seed]
# Runs ./check <prop> against a scratch copy of /repo with one sed edit applied; prints the verdict lines.
set -e
P="$1"; F="$2"; E="$3"; S="${4:-1}"
D=/tmp/mut-$$
mkdir -p $D && rsync -a --exclude .git /repo/ $D/
sed -i -E "$E" "$D/$F"
if diff -q /repo/$F $D/$F >/dev/null; then echo "MUTATION DID NOT APPLY"; rm -rf $D; exit 2; fi
diff /repo/$F $D/$F | head -6
cd /verif && cp -f evidence/$P.json /tmp/evidence-$P.bak 2>/dev/null
MUNGE_REPO=$D VERIF_SEED=$S ./check $P 2>&1 | grep -E "VIOLATION|KNOWN|OBLIGATION FAILED|done:" | cut -c1-400
cp -f /tmp/evidence-$P.bak evidence/$P.json 2>/dev/null   # evidence files describe runs on /repo only
rm -rf $D
