#!/bin/sh
# tools/seedconfirm.sh <out dir of one mutant> : confirm in a scratch worktree that the change compiles, passes munge's suite,
# and that its demonstration fails with the change and passes without it.  Prints one summary line.
D="$1"; N=conf-$$
W=/tmp/wt/$N
/verif/tools/mkwt.sh $N >/dev/null || exit 3
cd $W
demo() { if [ -f "$D/demo.sh" ]; then timeout 900 bash "$D/demo.sh" "$W"; else timeout 900 python3 "$D/demo.py" "$W"; fi; }
demo > $W/demo_clean.out 2>&1; rc_clean=$?
git apply "$D/patch.diff" || { echo "$D: PATCH DOES NOT APPLY"; git -C /repo worktree remove --force $W; exit 2; }
make -j8 > $W/build.out 2>&1 || { echo "$D: DOES NOT COMPILE"; git -C /repo worktree remove --force $W; exit 2; }
make check > $W/check.out 2>&1
fails=$(grep -E '^# (FAIL|ERROR):' $W/check.out | awk '{s+=$3} END {print s+0}')
total=$(grep -E '^# TOTAL:' $W/check.out | awk '{s+=$3} END {print s+0}')
demo > $W/demo_mutant.out 2>&1; rc_mut=$?
echo "$D: suite total=$total fail+error=$fails | demo clean rc=$rc_clean mutant rc=$rc_mut"
cp $W/demo_clean.out "$D/confirm_demo_clean.out" 2>/dev/null; cp $W/demo_mutant.out "$D/confirm_demo_mutant.out" 2>/dev/null
grep -E '^# (TOTAL|PASS|FAIL|ERROR|SKIP|XFAIL)' $W/check.out > "$D/confirm_suite.txt"
git -C /repo worktree remove --force $W
