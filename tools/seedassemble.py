#!/usr/bin/env python3
"""Assemble /verif/seeded/<id>/ from the mutation agents' output under /tmp/wt/out_* and the confirmation logs.
(caught_by was recorded by hand from tools/seedcheck.sh runs; see DESIGN.md section 9.5.)"""
import json, os, re, shutil, sys
CAUGHT = {
 "C01/mutant1": [("C01", True), ("C10", True)],
 "C01/mutant2": [("C06", True), ("C01", False)],
 "C02/mutant1": [("C02", True)],
 "C02/mutant2": [("C20", True)],
 "C03/mutant1": [("C11", True)],
 "C03/mutant2": [("C03", True), ("C04", True)],
 "C04/mutant1": [("C04", True)],
 "C04/mutant2": [("C17", True), ("C04", True)],
 "C05/mutant1": [("C05", True), ("C07", True)],
 "C05/mutant2": [("C05", False)],
 "C06/mutant1": [("C06", True)],
 "C06/mutant2": [("C06", True)],
 "C07/mutant1": [("C07", True), ("C06", True)],
 "C07/mutant2": [("C07", True), ("C18", True)],
 "C08/mutant1": [("C08", True)],
 "C08/mutant2": [("C14", True), ("C08", True)],
 "C09/mutant1": [("C09", True)],
 "C09/mutant2": [("C09", True), ("C04", True)],
 "C10/mutant1": [("C20", True)],
 "C10/mutant2": [("C10", True)],
 "C11/mutant1": [("C11", True)],
 "C11/mutant2": [("C11", True), ("C05", True)],
 "C13/mutant1": [("C13", True), ("C05", False)],
 "C13/mutant2": [("C13", True)],
 "C15/mutant1": [("C15", True)],
 "C15/mutant2": [("C15", False)],
 "C17/mutant1": [("C17", True)],
 "C17/mutant2": [("C17", True)],
 "C12/mutant1": [("C12", True)],
 "C12/mutant2": [("C12", True)],
 "C12/extra_mutant3": [("C12", True)],
 "C14/mutant1": [("C14", True), ("C08", True)],
 "C14/mutant2": [("C14", True), ("C09", True)],
 "C16/mutant1": [("C16", True)],
 "C16/mutant2": [("C16", True)],
 "C18/mutant1": [("C18", True)],
 "C18/mutant2": [("C18", True)],
 "C19/mutant1": [("C19", True)],
 "C19/mutant2": [("C19", True)],
 "C20/mutant1": [("C20", True)],
 "C20/mutant2": [("C20", True)],
}
NOTES = {
 "C02/mutant2": "not reported by C02 (its harness installs the two subkeys directly): key-file digestion is C20's whole_file_keying, which reports it with a 1025-byte key",
 "C03/mutant1": "needs two concurrent clients: not visible to C03's sequential streams; reported by C11 (shared-variable extraction flags the new static, and the forced-schedule stream shows a credential carrying another client's uid)",
 "C04/mutant2": "first seen only by C17; C04 was then extended with a stream through the real gids_is_member and now reports it too",
 "C05/mutant2": "quick tier: generated lock certificate / correspondence breaks, no failing input (no thread race is forced in the quick tier); thorough tier runs 16-thread insert races",
 "C08/mutant2": "first seen only by C14 (m_msg_recv return code); C08 was then extended with over-limit requests that must be refused at once (timing gate) and now reports it too",
 "C10/mutant1": "not reported by C10 (subkeys installed directly); reported by C20",
 "C20/mutant1": "first seen as a harness link failure (fd_read_n); the C20 sub-harness now links fd.c and reports a concrete key file",
 "C15/mutant2": "needs the lock holder to die between the starter's F_SETLK and F_GETLK: reported through the generated-program theorem lock_failure_is_fatal only (no failing schedule is driven on the binary)",
 "C17/mutant1": "first reported by the theorems only; the generated databases now contain uids in one hash slot that are >= 2^31 apart and the stream gives a failing (uid, gid) query",
 "C01/mutant2": "C01 reports it only as a broken dependency (C06 theorem file); C06 gives the failing tuple",
}
confirm = {}
for f in ("/tmp/wt/confirm.log", "/tmp/wt/confirm2.log", "/tmp/wt/confirm3.log", "/tmp/wt/confirm4.log"):
    if os.path.exists(f):
        for l in open(f):
            m = re.match(r"/tmp/wt/out_(\S+): (suite .*)", l)
            if m:
                confirm[m.group(1)] = m.group(2).strip()
V = os.path.dirname(os.path.dirname(os.path.abspath(__file__)))
n = 0
for key, caught in sorted(CAUGHT.items()):
    src = "/tmp/wt/out_" + key
    if not os.path.isdir(src):
        continue
    prop, mname = key.split("/")
    dst = os.path.join(V, "seeded", "%s-%s" % (prop, mname.replace("extra_", "").replace("mutant", "m")))
    os.makedirs(dst, exist_ok=True)
    for fn in os.listdir(src):
        if fn.endswith(".log") and os.path.getsize(os.path.join(src, fn)) > 200000:
            continue
        shutil.copy2(os.path.join(src, fn), os.path.join(dst, fn))
    readme = open(os.path.join(src, "README.md")).read() if os.path.exists(os.path.join(src, "README.md")) else ""
    title = next((l.strip("# ").strip() for l in readme.split("\n") if l.strip()), key)
    meta = {"property_broken": prop, "origin": "independent sub-agent given only the property text and a scratch worktree",
            "summary": title[:300],
            "needs_to_manifest": "see README.md (section on what is needed to manifest)",
            "confirmed_by_me": confirm.get(key, "pending"),
            "what_i_ran": ["tools/seedconfirm.sh <dir>  (scratch worktree: demo on clean tree, git apply, make, make check, demo with the change)",
                           "tools/seedcheck.sh <Cxx> <dir> [other checks]  (scratch worktree with the change, MUNGE_REPO=<worktree> ./check Cxx)"],
            "caught_by": [{"check": c, "failing_input_found": fi} for c, fi in caught],
            "note": NOTES.get(key, "")}
    json.dump(meta, open(os.path.join(dst, "meta.json"), "w"), indent=1)
    n += 1
print("assembled", n)
