#!/usr/bin/env python3
"""Assemble /verif/seeded/<id>/ from the mutation agents' output under /tmp/wt/out_* and the confirmation logs.
(caught_by was recorded by hand from tools/seedcheck.sh runs; see DESIGN.md section 9.5.)"""
import json, os, re, shutil, sys
CAUGHT = {
 "C01/mutant1": [("C01", True), ("C10", True)],
 "C01/mutant2": [("C06", True), ("C01", False)],
 "C02/mutant1": [("C02", True)],
 "C02/mutant2": [("C20", True)],
 "C03/mutant1": [("C11", True)],
 "C03/mutant2": [("C03", True), ("C04", True)],
 "C04/mutant1": [("C04", True)],
 "C04/mutant2": [("C17", True), ("C04", True)],
 "C05/mutant1": [("C05", True), ("C07", True)],
 "C05/mutant2": [("C05", False)],
 "C06/mutant1": [("C06", True)],
 "C06/mutant2": [("C06", True)],
 "C07/mutant1": [("C07", True), ("C06", True)],
 "C07/mutant2": [("C07", True), ("C18", True)],
 "C08/mutant1": [("C08", True)],
 "C08/mutant2": [("C14", True), ("C08", True)],
 "C09/mutant1": [("C09", True)],
 "C09/mutant2": [("C09", True), ("C04", True)],
 "C10/mutant1": [("C20", True)],
 "C10/mutant2": [("C10", True)],
 "C11/mutant1": [("C11", True)],
 "C11/mutant2": [("C11", True), ("C05", True)],
 "C13/mutant1": [("C13", True), ("C05", False)],
 "C13/mutant2": [("C13", True)],
 "C15/mutant1": [("C15", True)],
 "C15/mutant2": [("C15", False)],
 "C17/mutant1": [("C17", True)],
 "C17/mutant2": [("C17", True)],
 "C12/mutant1": [("C12", True)],
 "C12/mutant2": [("C12", True)],
 "C12/extra_mutant3": [("C12", True)],
 "C14/mutant1": [("C14", True), ("C08", True)],
 "C14/mutant2": [("C14", True), ("C09", True)],
 "C16/mutant1": [("C16", True)],
 "C16/mutant2": [("C16", True)],
 "C18/mutant1": [("C18", True)],
 "C18/mutant2": [("C18", True)],
 "C19/mutant1": [("C19", True)],
 "C19/mutant2": [("C19", True)],
 "C20/mutant1": [("C20", True)],
 "C20/mutant2": [("C20", True)],
}
NOTES = {
 "C02/mutant2": "not reported by C02 (its harness installs the two subkeys directly): key-file digestion is C20's whole_file_keying, which reports it with a 1025-byte key",
 "C03/mutant1": "needs two concurrent clients: not visible to C03's sequential streams; reported by C11 (shared-variable extraction flags the new static, and the forced-schedule stream shows a credential carrying another client's uid)",
 "C04/mutant2": "first seen only by C17; C04 was then extended with a stream through the real gids_is_member and now reports it too",
 "C05/mutant2": "quick tier: generated lock certificate / correspondence breaks, no failing input (no thread race is forced in the quick tier); thorough tier runs 16-thread insert races",
 "C08/mutant2": "first seen only by C14 (m_msg_recv return code); C08 was then extended with over-limit requests that must be refused at once (timing gate) and now reports it too",
 "C10/mutant1": "not reported by C10 (subkeys installed directly); reported by C20",
 "C20/mutant1": "first seen as a harness link failure (fd_read_n); the C20 sub-harness now links fd.c and reports a concrete key file",
 "C15/mutant2": "needs the lock holder to die between the starter's F_SETLK and F_GETLK: reported through the generated-program theorem lock_failure_is_fatal only (no failing schedule is driven on the binary)",
 "C17/mutant1": "first reported by the theorems only; the generated databases now contain uids in one hash slot that are >= 2^31 apart and the stream gives a failing (uid, gid) query",
 "C01/mutant2": "C01 reports it only as a broken dependency (C06 theorem file); C06 gives the failing tuple",
}
# ---- second round (agents were told what round 1 had produced and asked for different files / kinds of mistake, subtler)
CAUGHT2 = {
 "C01/mutant1": [("C01", True), ("C08", True)],
 "C01/mutant2": [("C01", True)],
 "C02/mutant1": [("C02", True), ("C09", True)],
 "C02/mutant2": [("C02", True)],
 "C03/mutant1": [("C03", True)],
 "C03/mutant2": [("C13", True), ("C01", True), ("C03", True)],
 "C04/mutant1": [("C04", True)],
 "C04/mutant2": [("C04", True), ("C09", True)],
 "C05/mutant1": [("C13", True)],
 "C05/mutant2": [("C05", True), ("C01", False)],
 "C06/mutant1": [("C06", True)],
 "C06/mutant2": [("C06", True), ("C13", False)],
 "C07/mutant1": [("C07", True)],
 "C07/mutant2": [("C07", True)],
 "C08/mutant1": [("C19", True)],
 "C08/mutant2": [("C08", True)],
 "C09/mutant1": [("C09", True), ("C04", True)],
 "C09/mutant2": [("C09", True), ("C04", True)],
 "C09/mutant3_bonus": [("C09", True), ("C02", False)],
 "C10/mutant1": [("C10", True), ("C08", False)],
 "C10/mutant2": [("C10", True)],
 "C11/mutant1": [("C11", True), ("C08", True)],
 "C11/mutant2": [("C11", True)],
 "C12/mutant1": [("C12", True)],
 "C12/mutant2": [("C12", False)],
 "C13/mutant1": [("C05", True)],
 "C13/mutant2": [("C01", True), ("C08", True)],
 "C14/mutant1": [("C14", True), ("C08", True)],
 "C14/mutant2": [("C14", True)],
 "C15/mutant1": [("C15", False)],
 "C15/mutant2": [("C15", False)],
 "C16/mutant1": [("C16", True)],
 "C16/mutant2": [("C16", True)],
 "C17/mutant1": [("C17", True), ("C04", False)],
 "C17/mutant2": [("C17", True), ("C05", True)],
 "C18/mutant1": [("C18", True), ("C17", True)],
 "C18/mutant2": [("C18", True)],
 "C19/mutant1": [("C19", True)],
 "C19/mutant2": [("C19", True)],
 "C20/mutant1": [("C20", True)],
 "C20/mutant2": [("C20", False)],
}
NOTES2 = {
 "C01/mutant2": "first MISSED (no stream decoded a compressed payload from the top 21 bytes of the range); C01 now round-trips compressed and incompressible payloads at the top of the range on the real build",
 "C02/mutant1": "first MISSED by C02 and C09: no seed credential had an inner layer that is a whole number of cipher blocks (pure-padding last block); both now mint such credentials",
 "C02/mutant2": "first MISSED: no credential was larger than 64 kB; C02 now alters 70-200 kB credentials on the real primitives around 2^16 and in the tail",
 "C03/mutant1": "first MISSED: the harness never ran with a mode flag set and nothing tied enc.c's configuration reads to the model; now the generated confReads table (theorem conf_fields_as_modelled) breaks, and C03's real-primitive stream also runs in benchmark mode",
 "C03/mutant2": "in libmunge (decode.c), downstream of the DEC_RSP: reported by C13 and by C01's client-level stream; C03 now runs that client-level stream too",
 "C04/mutant1": "first MISSED: conf.c's create_conf was never executed by a check; harness/h_conf.c now runs the real create_conf/parse_cmdline/process_conf under two heap fills",
 "C05/mutant1": "first reported by C13 without an input (loop extraction); C13's harness now injects refused connect() calls and gives the failing call",
 "C05/mutant2": "first reported only as a correspondence break (C01); C05 now mints groups of credentials by identical requests in one second on the real enc.c and decodes each",
 "C06/mutant1": "first MISSED (conf.c option processing unmodelled): C06 now checks every --max-ttl in 1..3600 through the real conf.c",
 "C06/mutant2": "first reported by C13 without an input; C06's end-to-end decodes now carry retry 0/1/5",
 "C08/mutant1": "identical in effect to C19-m2 (decode length rounds down): C19 reports it with input; C08's own streams do not contain the two-byte remainder it needs",
 "C08/mutant2": "made the harness hang (blocking read): h_cred now has a watchdog, the stalled-client op is reported with its input",
 "C09/mutant3_bonus": "first reported without input (correspondence); C09 now removes / appends partial cipher blocks and demands the generic reply",
 "C10/mutant2": "first reported as a harness build failure only (cipher_init signature): the real-primitive streams now run even when the toy build does not compile, and the python reference rejects the credential",
 "C11/mutant1": "first MISSED (double close is invisible without descriptor reuse): h_cred now counts close() on the connection's descriptor per request; C11 and C08 report the request class",
 "C12/mutant1": "first MISSED (job_accept's loop was only pattern-checked for its final work_fini): the loop body is now translated (Gen/Job.lean), theorem exhaustion_waits_for_backlog, and the real job_accept runs against scripted accept()/time()",
 "C12/mutant2": "lost wake-up in work_queue: reported by the correspondence stream and the generated signal predicate; no forced schedule in the quick tier exhibits the delay (it is a performance / drain-order effect, every item is still processed)",
 "C13/mutant1": "hash_remove comparator swapped: invisible to C13's single-credential transactions (needs a bucket collision); C05's hash streams give the failing key",
 "C13/mutant2": "fd_timed_write_iov break/continue: needs > 400 kB messages; C01's large round trips crash under ASan / fail; C08's Fd sub-check (added afterwards) reports it from the iovec-advance kernel",
 "C14/mutant1": "reachable only through a header whose type byte is 1 - the request class the Wire/Cred bridge proof had just forced into the model and the C08/C14 streams",
 "C14/mutant2": "first MISSED (libmunge's handling of replies was never fed hostile replies): h_retry got the `r<hex>` fault and C14 a client-side stream through the real munge_decode/munge_encode",
 "C15/mutant1": "shutdown/start-up race: theorem level only (lock_before_unlink, program_well_formed); no schedule is driven on the binary",
 "C15/mutant2": "shutdown/start-up race: theorem level only (program_well_formed)",
 "C16/mutant2": "first MISSED: nothing planted a file at the seed path before the write; theorem seed_written_fresh over the translated kernel and `seedpre` ops on the real file system",
 "C18/mutant1": "first reported at theorem level only (services_rearm): C18's services stream ran the real _gids_map_update with stat() off; it now also runs it with an unchanged group file and reports the missing re-arm (C17's stream reports it too)",
 "C20/mutant2": "rename()-based key creation race: reported through the generated creation program (unlink/open flags) only; the race itself is not driven",
}
confirm = {}
import glob
for f in sorted(glob.glob("/tmp/wt/confirm*.log")):
    for l in open(f):
        m = re.match(r"/tmp/wt/(out2?)_(\S+): (suite .*)", l)
        if m:
            confirm[(m.group(1), m.group(2))] = m.group(3).strip()
V = os.path.dirname(os.path.dirname(os.path.abspath(__file__)))
n = 0
for rnd, key, caught in [("out", k, c) for k, c in sorted(CAUGHT.items())] + [("out2", k, c) for k, c in sorted(CAUGHT2.items())]:
    src = "/tmp/wt/%s_%s" % (rnd, key)
    if not os.path.isdir(src):
        continue
    prop, mname = key.split("/")
    dst = os.path.join(V, "seeded", "%s-%s%s" % (prop, "r2" if rnd == "out2" else "", mname.replace("extra_", "").replace("_bonus", "").replace("mutant", "m")))
    os.makedirs(dst, exist_ok=True)
    for fn in os.listdir(src):
        if fn.endswith(".log") and os.path.getsize(os.path.join(src, fn)) > 200000:
            continue
        shutil.copy2(os.path.join(src, fn), os.path.join(dst, fn))
    readme = open(os.path.join(src, "README.md")).read() if os.path.exists(os.path.join(src, "README.md")) else ""
    title = next((l.strip("# ").strip() for l in readme.split("\n") if l.strip()), key)
    meta = {"property_broken": prop, "origin": "independent sub-agent given only the property text and a scratch worktree",
            "summary": title[:300],
            "needs_to_manifest": "see README.md (section on what is needed to manifest)",
            "round": 2 if rnd == "out2" else 1,
            "confirmed_by_me": confirm.get((rnd, key), "pending"),
            "what_i_ran": ["tools/seedconfirm.sh <dir>  (scratch worktree: demo on clean tree, git apply, make, make check, demo with the change)",
                           "tools/seedcheck.sh <Cxx> <dir> [other checks]  (scratch worktree with the change, MUNGE_REPO=<worktree> ./check Cxx)"],
            "caught_by": [{"check": c, "failing_input_found": fi} for c, fi in caught],
            "note": (NOTES2 if rnd == "out2" else NOTES).get(key, "")}
    json.dump(meta, open(os.path.join(dst, "meta.json"), "w"), indent=1)
    n += 1
print("assembled", n)
