#!/bin/sh
# tools/runall.sh [seed]: run every registered quick check sequentially and print one line each
cd "$(dirname "$0")/.."
S="${1:-1}"
for p in $(python3 -c "import json;print(' '.join(c['property_id'] for c in json.load(open('MANIFEST.json'))['checks']))"); do
  VERIF_SEED=$S ./check $p > .work/runall-$p.log 2>&1; rc=$?
  echo "$p rc=$rc $(grep -E 'done:' .work/runall-$p.log | sed 's/.*done: //') $(grep -c '^VIOLATION' .work/runall-$p.log) viol $(grep -c '^KNOWN' .work/runall-$p.log) known"
done
