"""Gen.Unpack: the credential parsers `dec_unpack_outer` / `dec_unpack_inner` of src/munged/dec.c translated by the
K+cursor translator (kcursor.py): every read through the cursor is an event carrying offset and length, every copy an
event naming its destination.  Also the sizes of the copy destinations (compile-and-print probe)."""
import os
from .probe import run_probe
from .ktrans import translate_kernels
from .kcursor import CursorTranslator
from ..vlib.leanlib import gen_write

SIZES = [("SZ_iv", "sizeof (((munge_cred_t) 0)->iv)"), ("SZ_mac", "sizeof (((munge_cred_t) 0)->mac)"),
         ("SZ_salt", "sizeof (((munge_cred_t) 0)->salt)"), ("SZ_addr", "sizeof (((m_msg_t) 0)->addr)"),
         ("SZ_in_addr", "sizeof (struct in_addr)"), ("MUNGE_CRED_SALT_LEN", "MUNGE_CRED_SALT_LEN"),
         ("MUNGE_CRED_VERSION", "MUNGE_CRED_VERSION"),
         ("HOST_LITTLE_ENDIAN", "(*(unsigned char *) &(unsigned int){1})")]

ORACLES = ["cipher_map_enum", "cipher_iv_size", "mac_map_enum", "mac_size", "cipher_key_size", "zip_is_valid_type"]


def probe_sizes(ctx):
    src = '#include <stdio.h>\n#include <netinet/in.h>\n#include <munge.h>\n#include "munge_defs.h"\n#include "cred.h"\n#include "m_msg.h"\nint main(void){\n'
    for k, e in SIZES:
        src += '  printf("%s %%lld\\n", (long long) (%s));\n' % (k, e)
    src += "  return 0; }\n"
    out = run_probe(ctx, "unpack_sizes", src)
    if out is None:
        return None
    return dict((l.split()[0], int(l.split()[1])) for l in out.strip().split("\n"))


def specs(sz):
    seterr = {"strdup": ("ignore", 1), "strdupf": ("ignore", 1), "random_add": ("ignore", 0)}
    calls = dict(seterr)
    for o in ORACLES:
        calls[o] = ("oracle", [0])
    M = lambda f: ("c.msg." + f, f)
    return [
        dict(name="dec_unpack_outer", cursors={"c.outer": "outer"}, err_index=True, sizeofs={"struct in_addr": sz["SZ_in_addr"]},
             inputs=[("c.outer_len", "outer_len"), ("malloc_ret", "malloc_ret")],
             calls=calls, oracles=["outer"] + ORACLES,
             oracle_arity=dict((o, 1) for o in ORACLES + ["outer"])),
        dict(name="dec_unpack_inner", cursors={"c.inner": "inner"}, err_index=True, sizeofs={"struct in_addr": sz["SZ_in_addr"]},
             inputs=[("c.inner_len", "inner_len"), M("cipher")],
             calls=seterr, oracles=["inner"], oracle_arity={"inner": 1}),
    ]


ZIP_PROBE = r'''
#include <stdio.h>
#include <stddef.h>
#include <stdarg.h>
void log_msg (int priority, const char *format, ...) {}
#include "zip.c"
int main(void){
  printf ("ZIP_MAGIC %lld\nZIP_META %lld\nOFF_magic %lld\nOFF_length %lld\nSZ_magic %lld\nSZ_length %lld\n", (long long) ZIP_MAGIC, (long long) sizeof (zip_meta_t),
          (long long) offsetof (zip_meta_t, magic), (long long) offsetof (zip_meta_t, length),
          (long long) sizeof (((zip_meta_t *) 0)->magic), (long long) sizeof (((zip_meta_t *) 0)->length));
  return 0; }
'''


def zip_spec(z):
    return [dict(name="zip_decompress_length", cursors={"src": "src"}, params=["type", "len"], inputs=[],
                 sizeofs={"zip_meta_t": z["ZIP_META"], "struct zip_meta_t": z["ZIP_META"]},
                 struct_fields={"magic": (z["OFF_magic"], z["SZ_magic"]), "length": (z["OFF_length"], z["SZ_length"])}, calls={})]


def generate_zip(ctx):
    out = run_probe(ctx, "zip_layout", ZIP_PROBE, gc=True)
    if out is None:
        ctx.obligation("gen", "layout of zip_meta_t probed", False)
        return None
    z = dict((l.split()[0], int(l.split()[1])) for l in out.strip().split("\n"))
    d = translate_kernels(ctx, "src/munged/zip.c", zip_spec(z), cls=CursorTranslator)
    if d is None:
        return None
    return "def ZIP_MAGIC : Int := %d\ndef ZIP_META_SIZE : Int := %d\n\n" % (z["ZIP_MAGIC"], z["ZIP_META"]) + d


def generate(ctx):
    sz = probe_sizes(ctx)
    ctx.obligation("gen", "sizes of the unpack destinations probed", sz is not None)
    if sz is None:
        return False
    d = translate_kernels(ctx, "src/munged/dec.c", specs(sz), cls=CursorTranslator)
    if d is None:
        return False
    body = "/- GENERATED from <repo>/src/munged/dec.c by tools/gen/g_unpack.py (K+cursor translator) -- do not edit -/\n"
    body += "import Munge.C.Kernel\nimport Munge.C.Cursor\nset_option linter.unusedVariables false\nnamespace Munge.Gen.Unpack\nopen Munge.C\n\n"
    for k, v in sz.items():
        body += "def %s : Int := %d\n" % (k, v)
    zd = generate_zip(ctx)
    if zd is None:
        return False
    body += "\n" + d + "\n" + zd + "\nend Munge.Gen.Unpack\n"
    gen_write("Unpack", body)
    return True
