"""Gen.TimerRel: `timer_set_relative` of src/munged/timer.c translated (K translator): the clock query and the absolute set are
events; the timespec the clock query stores through `&ts` is an opaque token that must be the one handed to `timer_set_absolute`."""
from .ktrans import translate_kernels
from .kcursor import CursorTranslator
from ..vlib.leanlib import gen_write

I64 = (64, True)


def specs():
    return [dict(name="timer_set_relative", params=["msec"], inputs=[],
                 calls={"log_errno": ("event", 0, []), "log_msg": ("ignore", 0),
                        "clock_get_timespec": ("outinput", "r_clock", (32, True), {0: ("ts_token", I64)}, [1]),
                        "timer_set_absolute": ("outinput", "r_set_absolute", I64, {}, [2])})]


def generate(ctx):
    d = translate_kernels(ctx, "src/munged/timer.c", specs(), cls=CursorTranslator)
    if d is None:
        return False
    body = "/- GENERATED from <repo>/src/munged/timer.c by tools/gen/g_timerrel.py (K translator) -- do not edit -/\n"
    body += "import Munge.C.Kernel\nimport Munge.C.Cursor\nset_option linter.unusedVariables false\nnamespace Munge.Gen.TimerRel\nopen Munge.C\n\n"
    body += d + "\nend Munge.Gen.TimerRel\n"
    gen_write("TimerRel", body)
    return True
