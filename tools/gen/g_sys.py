"""Gen.Sys: what the `Sys` model (C11) and the theorem `shared_vars_covered` take from the sources.

Every translation unit of the daemon (src/munged/*.c, src/libcommon/*.c, src/common/*.c, tests excluded) is parsed
with clang-14 (JSON AST, one process per TU).  Extracted:

1. THREAD STRUCTURE.  The ordered callees of `main` (munged.c); the thread roots: the function handed to `work_init`
   (worker), the function handed to `pthread_create` in timer.c (timer thread) plus every function handed to
   `timer_set_relative/absolute` (timer callbacks), the signal handlers (sigaction / xsignal), and what `main` calls
   between `timer_init` and `timer_fini` (the main thread while other threads exist).  The *concurrent closure* is
   everything reachable from these roots through calls and function references.
2. SHARED VARIABLES.  Every file-scope or function-local `static` variable defined in those TUs whose type is not
   `const` (struct-typed ones field by field), with every access (read / write / address taken) and the function it
   occurs in.  Each is classified:
     initOnly      no write inside the concurrent closure (written by start-up / shutdown code only)
     lazyInit f    written in the concurrent closure only under `if (!f)` where `f` is set by start-up code
     mutex m       every access inside the concurrent closure happens while `m` is held (certificate below)
     syncObject    a mutex / condition variable itself
     atomicFlag    `volatile sig_atomic_t`
     thread t      accessed from the closure of one thread root only (confined)
     unguarded     none of the above                       -> failed obligation (and a Lean-visible entry)
   Also: no function of the worker closure writes through the global `conf` pointer.
3. ATOMICITY CERTIFICATES.  For every (function, mutex) pair of a `mutex m` classification: the acyclic control-flow
   paths (loop bodies 0 or 1 times, with loop-head / back-edge markers so that the lock state must be loop-invariant)
   as event lists lock / unlock / touch v / call f / ret.  Checked here and again in Lean (`decide`).
   The per-object mutexes of heap structures (hash_t, gids_t, work_p) are certified by the generators of C05 / C17 /
   C12; the ones the request path relies on (hash_find/insert/remove/delete_if, gids_is_member) are re-checked here
   with the same generic path machinery.
4. SHARED CALLS.  The call closure of `_job_exec` (through enc_process_msg / dec_process_msg) cut at the shared-state
   interface {replay_insert, replay_remove, gids_is_member, random_pseudo_bytes, random_add, log_msg, log_err,
   log_errno, timer_*}: the interface functions reached, and the proof obligation that nothing else in the closure
   touches a mutable global.  Plus the non-reentrant libc functions called inside the concurrent closure.

Anything that cannot be extracted is a failed obligation, never a silent default."""
import concurrent.futures as cf
import glob, json, os, re, subprocess
from ..vlib.core import NCPU
from ..vlib.cbuild import cflags
from ..vlib.leanlib import gen_write

DIRS = ("src/munged", "src/libcommon", "src/common")
SKIP = re.compile(r"(_test\.c$)")
HANDOFF = ("timer_set_relative", "timer_set_absolute", "pthread_create", "work_init")
LOCK_FNS = {"pthread_mutex_lock": "lock", "pthread_mutex_unlock": "unlock"}
SYNC_TYPES = ("pthread_mutex_t", "pthread_cond_t")
# the shared-state interface of the request path (model steps / no-effect calls)
INTERFACE = ("replay_insert", "replay_remove", "gids_is_member", "random_pseudo_bytes", "random_add", "random_bytes",
             "log_msg", "log_err", "log_errno", "timer_set_relative", "timer_set_absolute", "timer_cancel")
EXPECTED_SHARED_CALLS = ["gids_is_member", "log_msg", "random_add", "random_pseudo_bytes", "replay_insert", "replay_remove"]
NON_REENTRANT = {"strerror", "strsignal", "localtime", "gmtime", "ctime", "asctime", "getpwnam", "getpwuid", "getgrnam",
                 "getgrgid", "getgrent", "getpwent", "strtok", "rand", "srand", "random", "srandom", "inet_ntoa",
                 "gethostbyname", "gethostbyaddr", "getservbyname", "readdir", "ttyname", "getlogin", "crypt", "setlocale",
                 "tmpnam", "getenv", "putenv", "setenv", "basename", "dirname", "drand48", "lrand48"}
# glibc >= 2.32 keeps strerror / strsignal results per thread; getenv only races with setenv (never called)
NON_REENTRANT_OK = {"strerror": "glibc: thread-local buffer, static strings for known errors",
                    "strsignal": "glibc: thread-local buffer; main thread only in job_accept",
                    "getenv": "read-only environment (no setenv/putenv in the daemon)"}
# which arguments a libc function may write through (all others are only read); unknown callees: any pointer argument
WRITES_ARG = {"snprintf": {0}, "vsnprintf": {0}, "sprintf": {0}, "strcpy": {0}, "strncpy": {0}, "memcpy": {0}, "memmove": {0},
              "memset": {0}, "strlcpy": {0}, "strlcat": {0}, "strcat": {0}, "fprintf": set(), "printf": set(), "syslog": set(),
              "strlen": set(), "strcmp": set(), "strncmp": set(), "memcmp": set(), "strdup": set(), "fputs": set(),
              "strchr": set(), "strrchr": set(), "fd_write_n": set(), "write": set(), "close": set(),
              "pthread_cond_timedwait": {0, 1}, "pthread_cond_wait": {0, 1}, "pthread_cond_signal": {0}}
# unguarded variables that are acknowledged (the theorem `shared_vars_covered` lists them with the same justification)
ACKNOWLEDGED = {
    "daemonpipe.c:_daemonpipe_fd_write": "written by the main thread in daemonize_fini; otherwise only read on the fatal-error path "
                                         "(_log_die -> daemonpipe_write) of a thread that then exits the process",
}
HASH_OPS = ("hash_find", "hash_insert", "hash_remove", "hash_delete_if", "hash_for_each", "hash_count", "hash_is_empty")
HEAP_CERTS = [  # (file, function, pointer, mutex field): accesses p->x lie inside lock/unlock of p->mutex
    ("src/munged/hash.c", "hash_find", "h", "mutex"), ("src/munged/hash.c", "hash_insert", "h", "mutex"),
    ("src/munged/hash.c", "hash_remove", "h", "mutex"), ("src/munged/hash.c", "hash_delete_if", "h", "mutex"),
    ("src/munged/gids.c", "gids_is_member", "gids", "mutex"),
]


class Miss(Exception):
    pass


# ------------------------------------------------------------------------------------------------------------------
# worker: one TU -> compact summary (runs in a separate process)

def _strip(n):
    while n.get("kind") in ("ParenExpr", "ImplicitCastExpr", "ConstantExpr"):
        n = n["inner"][0]
    return n


def _text(n):
    """canonical text of an lvalue-ish expression"""
    n = _strip(n)
    k = n.get("kind")
    if k == "DeclRefExpr":
        return n["referencedDecl"]["name"]
    if k == "MemberExpr":
        return _text(n["inner"][0]) + ("->" if n.get("isArrow") else ".") + n["name"]
    if k == "UnaryOperator" and n.get("opcode") in ("&", "*"):
        return n["opcode"] + _text(n["inner"][0])
    if k == "ArraySubscriptExpr":
        return _text(n["inner"][0]) + "[]"
    if k == "CStyleCastExpr":
        return _text(n["inner"][0])
    if k in ("IntegerLiteral",):
        return str(n.get("value"))
    return "<%s>" % k


class FnScan:
    def __init__(self, gids):
        self.gids = gids            # decl id -> (name, is_static_here)
        self.refs = set()

    def ev_expr(self, n, ctx="r"):
        """events of evaluating expression n (approximate evaluation order: operands before the operation)"""
        k = n.get("kind")
        if k is None:
            return []
        inner = n.get("inner") or []
        if k in ("ParenExpr", "ConstantExpr"):
            return self.ev_expr(inner[0], ctx)
        if k == "ImplicitCastExpr":
            ck = n.get("castKind")
            if ck == "LValueToRValue":
                return self.ev_expr(inner[0], "r")
            if ck == "ArrayToPointerDecay":
                return self.ev_expr(inner[0], "a" if ctx == "arg" else ("r" if ctx == "roarg" else ctx))
            if ck == "FunctionToPointerDecay":
                return self.ev_expr(inner[0], "fn")
            return self.ev_expr(inner[0], ctx)
        if k == "CStyleCastExpr":
            return self.ev_expr(inner[0], ctx)
        if k == "DeclRefExpr":
            rd = n.get("referencedDecl", {})
            if rd.get("kind") == "FunctionDecl":
                self.refs.add(rd["name"])
                return []
            if rd.get("kind") == "VarDecl" and rd.get("id") in self.gids:
                nm, st = self.gids[rd["id"]]
                return [("acc", nm, st, "r" if ctx in ("arg", "fn", "roarg") else ctx)]
            return []
        if k == "MemberExpr":
            base = _strip(inner[0])
            if base.get("kind") == "DeclRefExpr" and base.get("referencedDecl", {}).get("id") in self.gids:
                nm, st = self.gids[base["referencedDecl"]["id"]]
                c = "r" if ctx in ("arg", "fn", "roarg") else ctx
                if n.get("isArrow"):
                    return [("acc", nm, st, "r"), ("acc", nm + "->" + n["name"], st, c)]
                return [("acc", nm + "." + n["name"], st, c)]
            if n.get("isArrow"):
                return self.ev_expr(inner[0], "r") + [("fld", _text(inner[0]), n["name"], "r" if ctx in ("arg", "fn", "roarg") else ctx)]
            return self.ev_expr(inner[0], ctx)
        if k == "ArraySubscriptExpr":
            return self.ev_expr(inner[1], "r") + self.ev_expr(inner[0], ctx)
        if k == "UnaryOperator":
            op = n.get("opcode")
            if op in ("++", "--"):
                return self.ev_expr(inner[0], "rw")
            if op == "&":
                return self.ev_expr(inner[0], "r" if ctx == "roarg" else "a")
            if op == "*":
                return self.ev_expr(inner[0], "r")
            return self.ev_expr(inner[0], "r")
        if k == "BinaryOperator":
            if n.get("opcode") == "=":
                return self.ev_expr(inner[1], "r") + self.ev_expr(inner[0], "w")
            return self.ev_expr(inner[0], "r") + self.ev_expr(inner[1], "r")
        if k == "CompoundAssignOperator":
            return self.ev_expr(inner[1], "r") + self.ev_expr(inner[0], "rw")
        if k == "CallExpr":
            callee = _strip(inner[0])
            name = callee["referencedDecl"]["name"] if callee.get("kind") == "DeclRefExpr" and \
                callee.get("referencedDecl", {}).get("kind") == "FunctionDecl" else None
            if name in LOCK_FNS and len(inner) == 2:
                a = _strip(inner[1])
                if a.get("kind") == "UnaryOperator" and a.get("opcode") == "&":
                    a = a["inner"][0]
                return [(LOCK_FNS[name], _text(a))]
            ev = []
            before = set(self.refs)
            for j, a in enumerate(inner[1:]):
                ro = name in WRITES_ARG and j not in WRITES_ARG[name]
                ev += self.ev_expr(a, "roarg" if ro else "arg")
            if name in HANDOFF:
                handed = sorted(self.refs - before)
                self.refs = before              # runs on another thread: not a call edge of this function
                ev.append(("handoff", name, tuple(handed)))
            if name:
                self.refs.add(name)
                ev.append(("call", name))
            else:
                ev += self.ev_expr(inner[0], "r")
                ev.append(("icall", _text(inner[0])))
            return ev
        if k == "ConditionalOperator":
            return self.ev_expr(inner[0], "r") + self.ev_expr(inner[1], ctx) + self.ev_expr(inner[2], ctx)
        if k in ("UnaryExprOrTypeTraitExpr",):
            return []            # sizeof: unevaluated
        if k == "StmtExpr":
            return []
        ev = []
        for c in inner:
            if isinstance(c, dict) and c.get("kind") and not c["kind"].endswith("Comment"):
                ev += self.ev_expr(c, "r")
        return ev

    def is_zero(self, n):
        n = _strip(n)
        return n.get("kind") == "IntegerLiteral" and n.get("value") == "0"

    def stmt(self, n):
        """statement -> tree"""
        k = n.get("kind")
        inner = n.get("inner") or []
        if k is None:
            return ("seq", [])
        if k == "CompoundStmt":
            return ("seq", [self.stmt(c) for c in inner])
        if k == "NullStmt":
            return ("seq", [])
        if k == "IfStmt":
            c = self.ev_expr(inner[0])
            neg = None
            cn = _strip(inner[0])
            if cn.get("kind") == "UnaryOperator" and cn.get("opcode") == "!":
                neg = _text(cn["inner"][0])
            return ("if", c, self.stmt(inner[1]), self.stmt(inner[2]) if len(inner) > 2 else ("seq", []), neg)
        if k == "WhileStmt":
            return ("loop", [], self.ev_expr(inner[0]), [], self.stmt(inner[-1]), False, False)
        if k == "ForStmt":
            init = self.stmt(inner[0]) if inner[0].get("kind") else ("seq", [])
            cond = self.ev_expr(inner[2]) if inner[2].get("kind") else None
            inc = self.ev_expr(inner[3]) if inner[3].get("kind") else []
            lp = ("loop", [], cond if cond is not None else [], inc, self.stmt(inner[4]), cond is None, False)
            return ("seq", [init, lp])
        if k == "DoStmt":
            if self.is_zero(inner[1]):
                return ("once", self.stmt(inner[0]))
            return ("loop", [], self.ev_expr(inner[1]), [], self.stmt(inner[0]), False, True)
        if k == "ReturnStmt":
            return ("ret", self.ev_expr(inner[0]) if inner else [])
        if k == "BreakStmt":
            return ("brk",)
        if k == "ContinueStmt":
            return ("cont",)
        if k == "GotoStmt":
            return ("goto", n.get("targetLabelDeclId"))
        if k == "LabelStmt":
            return ("label", n.get("declId"), self.stmt(inner[0]) if inner else ("seq", []))
        if k == "DeclStmt":
            ev = []
            for d in inner:
                if d.get("kind") == "VarDecl" and d.get("storageClass") != "static":
                    for c in d.get("inner", []) or []:
                        if c.get("kind") and not c["kind"].endswith("Comment"):
                            ev += self.ev_expr(c)
            return ("ev", ev)
        if k == "SwitchStmt":
            body = inner[-1]
            items = body.get("inner", []) if body.get("kind") == "CompoundStmt" else [body]
            flat = []
            for it in items:
                while it.get("kind") in ("CaseStmt", "DefaultStmt"):
                    flat.append(("case", it["kind"] == "DefaultStmt"))
                    it = it["inner"][-1]
                flat.append(self.stmt(it))
            return ("switch", self.ev_expr(inner[-2] if len(inner) >= 2 else inner[0]), flat)
        if k in ("CaseStmt", "DefaultStmt"):
            return self.stmt(inner[-1])
        return ("ev", self.ev_expr(n))


def _is_const(q):
    """is every level of the object's own storage const (the variable cannot be written)"""
    q = q.strip()
    m = re.match(r"^(.*?)((?:\[\d*\])+)$", q)
    if m:                                   # array: element type must be const
        return _is_const(m.group(1))
    if q.endswith("*const") or q.endswith("* const"):
        return True
    if "*" in q:
        return False                        # a non-const pointer variable (even to const data)
    return q.startswith("const ") or " const" in q


def scan_tu(args):
    try:
        return _scan_tu(args)
    except Exception as e:                      # a worker must report, not die
        import traceback
        return dict(file=args[1], error="extractor exception: " + traceback.format_exc()[-600:])


def _scan_tu(args):
    repo, rel = args
    path = os.path.join(repo, rel)
    cmd = ["clang-14", "-fsyntax-only", "-w"] + cflags(repo) + ["-Xclang", "-ast-dump=json", path]
    p = subprocess.run(cmd, stdout=subprocess.PIPE, stderr=subprocess.PIPE, timeout=300)
    if p.returncode != 0 or not p.stdout:
        return dict(file=rel, error=p.stderr.decode("utf-8", "replace")[-800:])
    tu = json.loads(p.stdout)
    def file_of(d):
        """main file / other: clang prints `includedFrom` for every location inside an #included file, never for the
        main file; macro-expanded and implicit declarations carry spellingLoc / an empty loc"""
        loc = d.get("loc", {})
        if "spellingLoc" in loc or "expansionLoc" in loc:
            loc = loc.get("expansionLoc", {})
        if "offset" not in loc:
            return None
        if "includedFrom" in loc:
            return loc.get("file") or "(included)"
        return path

    gids, globs, fdecls = {}, [], []
    for d in tu.get("inner", []):
        f = file_of(d)
        k = d.get("kind")
        if k == "VarDecl":
            here = (f == path)
            static = d.get("storageClass") == "static"
            has_def = d.get("storageClass") != "extern"
            if True:
                gids[d["id"]] = (d["name"], bool(static and here))
            if here and has_def:
                q = d.get("type", {}).get("qualType", "")
                dq = d.get("type", {}).get("desugaredQualType", q)
                globs.append(dict(name=d["name"], type=q, dtype=dq, static=bool(static), scope="file", file=rel,
                                  const=_is_const(q), line=d.get("loc", {}).get("line")))
        elif k == "FunctionDecl" and f == path and any(c.get("kind") == "CompoundStmt" for c in d.get("inner", [])):
            fdecls.append(d)
    # static locals
    def walk(n):
        yield n
        for c in n.get("inner", []) or []:
            if isinstance(c, dict):
                yield from walk(c)
    for fd in fdecls:
        for n in walk(fd):
            if n.get("kind") == "VarDecl" and n.get("storageClass") == "static":
                q = n.get("type", {}).get("qualType", "")
                gids[n["id"]] = (fd["name"] + "()::" + n["name"], True)
                globs.append(dict(name=fd["name"] + "()::" + n["name"], type=q, dtype=n.get("type", {}).get("desugaredQualType", q),
                                  static=True, scope="fn:" + fd["name"], file=rel, const=_is_const(q), line=None))
    # struct field lists (for field-wise treatment of struct-typed globals)
    recs = {}
    for n in tu.get("inner", []):
        if n.get("kind") == "RecordDecl" and n.get("name") and n.get("completeDefinition"):
            recs[n["name"]] = [(c["name"], c.get("type", {}).get("qualType", "")) for c in n.get("inner", []) if c.get("kind") == "FieldDecl" and c.get("name")]
    funcs = {}
    for fd in fdecls:
        sc = FnScan(gids)
        body = [c for c in fd["inner"] if c.get("kind") == "CompoundStmt"][0]
        tree = sc.stmt(body)
        funcs[fd["name"]] = dict(tree=tree, refs=sorted(sc.refs), static=fd.get("storageClass") == "static", file=rel)
    return dict(file=rel, globals=globs, funcs=funcs, records=recs)


# ------------------------------------------------------------------------------------------------------------------
# parent: analysis

def tree_events(t, out=None, guard=()):
    """all events of a tree, each with the stack of enclosing `if (!X)` guards"""
    out = [] if out is None else out
    k = t[0]
    if k == "seq":
        for s in t[1]:
            tree_events(s, out, guard)
    elif k == "ev":
        out += [(e, guard) for e in t[1]]
    elif k == "ret":
        out += [(e, guard) for e in t[1]]
    elif k == "if":
        out += [(e, guard) for e in t[1]]
        tree_events(t[2], out, guard + ((t[4],) if t[4] else ()))
        tree_events(t[3], out, guard)
    elif k == "loop":
        out += [(e, guard) for e in t[2]] + [(e, guard) for e in t[3]]
        tree_events(t[4], out, guard)
    elif k == "once":
        tree_events(t[1], out, guard)
    elif k == "label":
        tree_events(t[2], out, guard)
    elif k == "switch":
        out += [(e, guard) for e in t[1]]
        for s in t[2]:
            if s[0] != "case":
                tree_events(s, out, guard)
    return out


class PathEnum:
    """acyclic control-flow paths of a function tree as event tuples; `keep(e)` filters / maps events"""
    LIMIT = 3000

    def __init__(self, keep):
        self.keep = keep
        self.nloop = 0
        self.memo = {}

    def evs(self, es):
        out = []
        for e in es:
            r = self.keep(e)
            if r is not None:
                out.append(r)
        return tuple(out)

    def cat(self, a, bset):
        r = {(a + ev, ex) for ev, ex in bset}
        if len(r) > self.LIMIT:
            raise Miss("too many paths")
        return r

    def seq(self, items):
        cur = {((), "fall")}
        for idx, s in enumerate(items):
            nxt = set()
            for ev, ex in cur:
                if ex == "fall":
                    nxt |= self.cat(ev, self.paths(s))
                elif isinstance(ex, tuple) and ex[0] == "goto" and s[0] == "label" and s[1] == ex[1]:
                    nxt |= self.cat(ev, self.paths(s))           # forward goto lands here
                else:
                    nxt.add((ev, ex))
            cur = nxt
            if len(cur) > self.LIMIT:
                raise Miss("too many paths")
        return cur

    def paths(self, t):
        r = self.memo.get(id(t))
        if r is None:
            r = self.paths_(t)
            self.memo[id(t)] = r
        return r

    def paths_(self, t):
        k = t[0]
        if k == "seq":
            return self.seq(t[1])
        if k == "ev":
            return {(self.evs(t[1]), "fall")}
        if k == "ret":
            return {(self.evs(t[1]) + (("ret",),), "ret")}
        if k == "brk":
            return {((), "brk")}
        if k == "cont":
            return {((), "cont")}
        if k == "goto":
            return {((), ("goto", t[1]))}
        if k == "label":
            return self.paths(t[2])
        if k == "once":
            return {(ev, "fall" if ex in ("brk", "cont") else ex) for ev, ex in self.paths(t[1])}
        if k == "if":
            c = self.evs(t[1])
            return self.cat(c, self.paths(t[2]) | self.paths(t[3]))
        if k == "loop":
            _, _, cond, inc, body, infinite, dowhile = t
            self.nloop += 1
            lid = self.nloop
            c, i = self.evs(cond), self.evs(inc)
            head, back = (("head", lid),), (("back", lid),)
            res = set()
            bp = self.paths(body)
            if not dowhile and not infinite:
                res.add((head + c, "fall"))                       # zero iterations
            pre = head + (() if dowhile else c)
            for ev, ex in bp:
                if ex in ("fall", "cont"):
                    tail = i + (c if (dowhile or not infinite) else ()) + back
                    if infinite:
                        res.add((pre + ev + tail, "cut"))
                    else:
                        res.add((pre + ev + tail, "fall"))
                elif ex == "brk":
                    res.add((pre + ev, "fall"))
                else:
                    res.add((pre + ev, ex))
            if len(res) > self.LIMIT:
                raise Miss("too many paths")
            return res
        if k == "switch":
            c = self.evs(t[1])
            items = t[2]
            starts = [j for j, s in enumerate(items) if s[0] == "case"]
            has_default = any(s[0] == "case" and s[1] for s in items)
            res = set()
            for j in starts:
                rest = [s for s in items[j:] if s[0] != "case"]
                for ev, ex in self.seq(rest):
                    res.add((c + ev, "fall" if ex == "brk" else ex))
            if not has_default:
                res.add((c, "fall"))
            return res
        raise Miss("unsupported tree node %r" % (k,))

    @staticmethod
    def squeeze(ev):
        """consecutive accesses to the same variable count once"""
        out = []
        for e in ev:
            if out and e[0] == "touch" and out[-1] == e:
                continue
            out.append(e)
        return tuple(out)

    def run(self, tree):
        out = set()
        for ev, ex in self.paths(tree):
            ev = self.squeeze(ev)
            if ex == "fall":
                out.add(ev + (("ret",),))
            elif ex in ("ret",):
                out.add(ev)
            elif ex == "cut":
                out.add(ev + (("cut",),))
            else:
                raise Miss("path leaves the function by %r" % (ex,))
        return sorted(out)


def check_path(path, mode, needs_lock, takes_lock):
    """simulate one event path of a certificate; returns None or a complaint.
    mode: takesLock (enters and leaves without the mutex), needsLock (enters and leaves holding it), entersHeld
    (enters holding it, leaves without).  events: lock / unlock / touch v / call f / head n / back n / ret / cut"""
    held = mode != "takesLock"
    heads = {}
    for e in path:
        k = e[0]
        if k == "lock":
            if held:
                return "lock while already held"
            held = True
        elif k == "unlock":
            if not held:
                return "unlock while not held"
            held = False
        elif k == "touch":
            if not held:
                return "`%s` accessed outside the critical section" % e[1]
        elif k == "call":
            if e[1] in needs_lock and not held:
                return "`%s` (which expects the mutex held) called without it" % e[1]
            if e[1] in takes_lock and held:
                return "`%s` (which takes the mutex itself) called while it is held" % e[1]
        elif k == "head":
            heads[e[1]] = held
        elif k == "back":
            if heads.get(e[1]) != held:
                return "lock state at the end of a loop body differs from the one at its head"
        elif k == "ret":
            if held != (mode == "needsLock"):
                return "return while the mutex is held" if held else "return without the mutex it was entered with"
    return None


def lean_str(s):
    return '"' + s.replace("\\", "\\\\").replace('"', '\\"') + '"'


def lean_ev(e):
    k = e[0]
    if k in ("lock", "unlock", "ret", "cut"):
        return "." + k
    if k in ("head", "back"):
        return ".%s %d" % (k, e[1])
    return ".%s %s" % (k, lean_str(e[1]))


def closure(roots, callgraph):
    seen, todo = set(), list(roots)
    while todo:
        f = todo.pop()
        if f in seen:
            continue
        seen.add(f)
        todo += [g for g in callgraph.get(f, ()) if g not in seen]
    return seen


LEAN_HEAD = """/- GENERATED from <repo>/src/{munged,libcommon,common}/*.c by tools/gen/g_sys.py -- do not edit -/
namespace Munge.Gen.Sys

/-- how a mutable global of the daemon is protected -/
inductive Guard where
  | initOnly (writers : String)      -- written by start-up / shutdown code only
  | lazyInit (flag : String)         -- written under `if (!flag)`, `flag` set at start-up
  | mutex (m : String)               -- every concurrent access holds `m` (certificate below)
  | syncObject | atomicFlag
  | thread (t : String)              -- confined to one thread
  | unguarded (why : String)
deriving DecidableEq, Repr

/-- events of the atomicity certificates -/
inductive Ev where
  | lock | unlock | ret | cut
  | touch (v : String) | call (f : String)
  | head (n : Nat) | back (n : Nat)
deriving DecidableEq, Repr

/-- how a certified function relates to its mutex -/
inductive Mode where
  | takesLock | needsLock | entersHeld
deriving DecidableEq, Repr

structure Cert where
  fn : String
  mutex : String
  mode : Mode
  /-- runs only while no other thread exists (start-up / shutdown) -/
  exempt : Bool
  paths : List (List Ev)
"""


def write_fallback(why):
    """the extraction failed before anything could be classified: a Gen module that compiles, and on which
    `shared_vars_covered` / `shared_calls_modelled` are false"""
    body = LEAN_HEAD + "\ndef sharedVars : List (String × String × Guard) := [(\"(extraction failed)\", \"\", .unguarded %s)]\n" % lean_str(why[:200])
    body += "def certs : List Cert := []\ndef heapCerts : List Cert := []\ndef sharedCalls : List String := []\n"
    body += "def tableOps : List (String × List (List String)) := []\n"
    body += "def strayAccesses : List String := [\"(extraction failed)\"]\ndef confWrites : List String := []\n"
    body += "def threadRoots : List (String × List String) := []\ndef mainCalls : List String := []\ndef nonReentrant : List String := []\n"
    body += "\nend Munge.Gen.Sys\n"
    gen_write("Sys", body)


def generate(ctx):
    try:
        return generate_(ctx)
    except Exception as e:
        import traceback
        ctx.obligation("gen", "sys: generator ran", False, traceback.format_exc()[-1200:])
        write_fallback("generator exception %r" % e)
        return False


def generate_(ctx):
    ob = lambda name, ok, detail="": ctx.obligation("gen", name, ok, detail)
    files = []
    for d in DIRS:
        for f in sorted(glob.glob(os.path.join(ctx.repo, d, "*.c"))):
            rel = os.path.relpath(f, ctx.repo)
            if not SKIP.search(rel):
                files.append(rel)
    with cf.ProcessPoolExecutor(min(NCPU, 16)) as ex:
        tus = list(ex.map(scan_tu, [(ctx.repo, f) for f in files]))
    bad = [t for t in tus if "error" in t]
    if not ob("sys: %d translation units of the daemon parsed (clang-14 JSON AST)" % len(files), not bad and len(files) >= 30,
              "; ".join("%s: %s" % (t["file"], t["error"][-300:]) for t in bad)):
        write_fallback("translation units not parsed")
        return False
    # ---- function table (static functions are private to their TU; names are unique enough in munge to key by name,
    #      with the TU as a tie-breaker)
    funcs = {}
    dup = []
    for t in tus:
        for name, f in t["funcs"].items():
            key = name
            if key in funcs:
                if f["static"] or funcs[key]["static"]:
                    key = "%s@%s" % (name, os.path.basename(t["file"]))
                else:
                    dup.append(name)
            funcs[key] = f
    # the conditional twins in random.c (OpenSSL / libgcrypt) are #if-selected, so duplicates are a surprise
    ob("sys: function names resolve uniquely across the daemon's translation units", not dup, "duplicates: %s" % dup)

    def resolve(name, fromfile):
        alt = "%s@%s" % (name, os.path.basename(fromfile))
        if alt in funcs:
            return alt
        if name in funcs and (not funcs[name]["static"] or funcs[name]["file"] == fromfile):
            return name
        return None
    # call edges: calls, and references to functions (conservatively: whoever takes the address may call it).  Functions
    # handed to timer_set_* / pthread_create / work_init are not edges (they run on another thread; see thread_roots), nor
    # are the handlers a function installs with sigaction.
    callgraph = {}
    for key, f in funcs.items():
        called = {e[1] for e, _ in tree_events(f["tree"]) if e[0] == "call"}
        names = [n for n in f["refs"] if n in called or "sigaction" not in called]
        callgraph[key] = sorted({r for r in (resolve(n, f["file"]) for n in names) if r})
    # ---- thread structure
    try:
        roots, phases, main_calls = thread_roots(funcs, callgraph)
    except Miss as e:
        ob("sys: thread structure of the daemon (main's phases, worker / timer / signal roots)", False, str(e))
        write_fallback("thread structure: %s" % e)
        return False
    det = "; ".join("%s: %s" % (k, ",".join(v)) for k, v in roots.items())
    ob("sys: thread structure of the daemon (main's phases, worker / timer / signal roots)", True, det)
    clos = {k: closure(v, callgraph) for k, v in roots.items()}
    conc = set().union(*clos.values())
    single = closure(phases["startup"] + phases["shutdown"], callgraph)
    # ---- variables and accesses
    gl = {}
    for t in tus:
        recs = t["records"]
        for g in t["globals"]:
            key = g["name"] if not g["static"] else "%s:%s" % (os.path.basename(g["file"]), g["name"])
            g = dict(g, key=key, fields=None)
            m = re.match(r"^(?:struct|union)\s+(\w+)$", g["type"].replace("static ", "").strip())
            if m and m.group(1) in recs and not g["const"]:
                g["fields"] = recs[m.group(1)]
            gl[key] = g
    acc = {}          # var key -> list of (function key, mode, guards)
    ptr_writes = []   # writes through a global pointer (conf->x = ...) : (function, text)
    for fkey, f in funcs.items():
        for e, guard in tree_events(f["tree"]):
            if e[0] != "acc":
                continue
            _, nm, st, mode = e
            base = re.split(r"\.|->", nm)[0]
            vkey = "%s:%s" % (os.path.basename(f["file"]), base) if st else base
            if vkey not in gl:
                continue                      # libc global or a header extern not defined in these TUs
            if "->" in nm:
                if mode != "r":
                    ptr_writes.append((fkey, nm, mode))
                continue
            full = vkey + nm[len(base):]
            acc.setdefault(full, []).append((fkey, mode, guard))
            if full != vkey and gl[vkey]["fields"] is None:
                acc.setdefault(vkey, []).append((fkey, mode, guard))
    # variables to classify: non-const ones; struct-typed ones field by field
    items = []
    for key, g in sorted(gl.items()):
        if g["const"]:
            continue
        if g["fields"]:
            whole = [a for a in acc.get(key, [])]
            for fn, ft in g["fields"]:
                items.append(dict(key="%s.%s" % (key, fn), type=ft, var=g, accesses=acc.get("%s.%s" % (key, fn), []) + whole))
        else:
            items.append(dict(key=key, type=g["type"], var=g, accesses=acc.get(key, [])))
    ob("sys: mutable file-scope / static variables of the daemon listed (%d, struct-typed ones by field)" % len(items),
       len(items) >= 15, ", ".join(i["key"] for i in items))
    # ---- classification
    SINGLE = ("timer", "main")            # thread kinds of which exactly one thread exists
    thread_of = lambda f: sorted(k for k, c in clos.items() if f in c)
    unfile = lambda k: re.sub(r"^[\w.-]+\.c:", "", k)
    fileof = lambda k: (re.match(r"^([\w.-]+\.c):", k) or [None, ""])[1]
    byname = {}
    for it in items:
        byname[(fileof(it["key"]), unfile(it["key"]))] = it
    # flags usable for lazy initialisation: written unconditionally by start-up code, and inside the concurrent closure
    # only under `if (!flag)` itself
    lazy_flags = set()
    for it in items:
        ws = [a for a in it["accesses"] if a[1] != "r"]
        wc = [a for a in ws if a[0] in conc]
        me = unfile(it["key"])
        if any(a[0] in single and a[0] not in conc and not a[2] for a in ws) and all(me in a[2] for a in wc):
            lazy_flags.add(it["key"])
    classes, groups = {}, {}
    for it in items:
        key, ty = it["key"], it["type"]
        a_conc = [a for a in it["accesses"] if a[0] in conc]
        w_conc = [a for a in a_conc if a[1] != "r"]
        threads = sorted({t for a in a_conc for t in thread_of(a[0])})
        if any(x in ty for x in SYNC_TYPES):
            classes[key] = ("syncObject", "")
        elif "sig_atomic_t" in ty and "volatile" in ty:
            classes[key] = ("atomicFlag", "")
        elif not w_conc:
            classes[key] = ("initOnly", ",".join(sorted({a[0] for a in it["accesses"] if a[1] != "r"})))
        else:
            common = set(w_conc[0][2])
            for a in w_conc[1:]:
                common &= set(a[2])
            lz = sorted(f for f in common if (fileof(key) + ":" + f if fileof(key) else f) in lazy_flags)
            if lz:
                classes[key] = ("lazyInit", lz[0])
            elif len(threads) == 1 and threads[0] in SINGLE:
                classes[key] = ("thread", threads[0])
            else:
                classes[key] = ("?", "")
    # mutex groups: for the still unclassified, find the mutex held at every access inside the concurrent closure
    pending = [it for it in items if classes[it["key"]][0] == "?"]
    certs = {}        # (fn, mutex) -> paths
    cert_fail = {}
    for it in pending:
        key = it["key"]
        fns = sorted({a[0] for a in it["accesses"] if a[0] in conc})
        cand = None
        for f in fns:
            locks = {e[1] for e, _ in tree_events(funcs[f]["tree"]) if e[0] == "lock"}
            if locks:
                cand = locks if cand is None else (cand & locks)
        mutex = sorted(cand)[0] if cand and len(cand) == 1 else None
        if mutex is None and cand is None:
            # only lock-less helpers touch it: look at their callers
            ms = set()
            for f in fns:
                for h, f2 in funcs.items():
                    if f in callgraph.get(h, ()):
                        ms |= {e[1] for e, _ in tree_events(f2["tree"]) if e[0] == "lock"}
            if len(ms) == 1:
                mutex = list(ms)[0]
        if mutex is None:
            classes[key] = ("unguarded", "accessed by %s" % ",".join(fns))
            continue
        groups.setdefault(mutex, []).append(it)
    for mutex, its in sorted(groups.items()):
        vars_ = {unfile(it["key"]) for it in its}
        vfile = its[0]["var"]["file"]
        short = lambda g: g.split("@")[0]

        def is_var(nm):
            return nm in vars_ or nm.split(".")[0] in vars_

        def touches(f):
            return funcs[f]["file"] == vfile and any(e[0] == "acc" and is_var(e[1]) for e, _ in tree_events(funcs[f]["tree"]))

        def has(f, kind):
            return any(e[0] == kind and e[1] == mutex for e, _ in tree_events(funcs[f]["tree"]))
        rel = {f for f in funcs if funcs[f]["file"] == vfile and (touches(f) or has(f, "lock") or has(f, "unlock"))}
        changed = True
        while changed:                    # callers (same TU) of a relevant lock-less function are relevant too
            changed = False
            for f in funcs:
                if f not in rel and funcs[f]["file"] == vfile and any(g in rel and not has(g, "lock") for g in callgraph.get(f, ())):
                    rel.add(f); changed = True
        takes = {f for f in rel if has(f, "lock")}
        enters_held = {f for f in rel if not has(f, "lock") and has(f, "unlock")}
        needs = {f for f in rel if f not in takes and f not in enters_held}
        okg = True
        for f in sorted(rel):
            def keep(e, f=f):
                if e[0] in ("lock", "unlock"):
                    return (e[0],) if e[1] == mutex else None
                if e[0] == "acc":
                    return ("touch", e[1]) if is_var(e[1]) else None
                if e[0] == "call":
                    g = resolve(e[1], funcs[f]["file"])
                    if g in rel and g != f:
                        return ("call", short(g))
                return None
            try:
                ps = PathEnum(keep).run(funcs[f]["tree"])
            except Miss as e:
                cert_fail[(f, mutex)] = "%s: %s" % (f, e); okg = False
                continue
            mode = "needsLock" if f in needs else ("entersHeld" if f in enters_held else "takesLock")
            exempt = f not in conc         # start-up / shutdown only: single-threaded
            complaint = None
            for p in ps:
                c = check_path(p, mode, {short(g) for g in needs | enters_held}, {short(g) for g in takes})
                if c:
                    complaint = "%s: %s  [path: %s]" % (f, c, " ".join(lean_ev(e) for e in p))
                    break
            certs[(f, mutex)] = dict(paths=ps, mode=mode, exempt=exempt)
            if complaint and not exempt:
                cert_fail[(f, mutex)] = complaint; okg = False
        # a lock-less relevant function must not be entered from outside its translation unit or be a thread root
        for f in needs | enters_held:
            if f in conc and (any(f in v for v in roots.values()) and f not in enters_held or not funcs[f]["static"]):
                cert_fail[(f, mutex)] = "%s touches {%s} without taking %s and is externally callable" % (f, ", ".join(sorted(vars_)), mutex)
                okg = False
        for it in its:
            classes[it["key"]] = ("mutex", mutex) if okg else ("unguarded", "certificate for mutex %s failed" % mutex)
        ob("sys: atomicity certificates for `%s` guarding {%s}: %s" % (mutex, ", ".join(sorted(vars_)), ", ".join(sorted(short(f) for f in rel))),
           okg, "; ".join(v for (f, m), v in cert_fail.items() if m == mutex))
    unguarded = sorted(k for k, c in classes.items() if c[0] == "unguarded")
    ctx.sys_unguarded = [(k, classes[k][1]) for k in unguarded]
    ctx.sys_accesses = {it["key"]: sorted({(a[0], a[1]) for a in it["accesses"] if a[0] in conc}) for it in items}
    new_unguarded = [k for k in unguarded if k not in ACKNOWLEDGED]
    ob("sys: every mutable global reachable from more than one thread is init-only, lazily initialised at start-up, "
       "a sync object, an atomic flag, thread-confined or guarded by a certified mutex (acknowledged exceptions: %s)" %
       ", ".join(sorted(ACKNOWLEDGED)),
       not new_unguarded, "; ".join("%s (%s)" % (k, classes[k][1]) for k in new_unguarded))
    # ---- writes through `conf` inside the concurrent closure
    def ptr_class(nm, f):
        base = nm.split("->")[0]
        return (classes.get(base) or classes.get("%s:%s" % (os.path.basename(funcs[f]["file"]), base)) or ("?",))[0]
    cw = sorted({"%s in %s" % (nm, f) for f, nm, mode in ptr_writes if f in conc and ptr_class(nm, f) in ("initOnly", "lazyInit", "?")})
    ctx.sys_conf_writes = cw
    ob("sys: no function that runs while other threads exist writes through a global pointer (`conf->…` is read-only after start-up)",
       not cw, "; ".join(cw))
    # ---- heap-object certificates the request path relies on
    heap = []
    for rel_, fn, ptr, mfield in HEAP_CERTS:
        f = resolve(fn, rel_)
        name = "sys: `%s` touches *%s only while holding %s->%s" % (fn, ptr, ptr, mfield)
        if f is None:
            ob(name, False, "function not found"); continue
        mtx = "%s->%s" % (ptr, mfield)

        def keep(e):
            if e[0] in ("lock", "unlock"):
                return (e[0],) if e[1] == mtx else None
            if e[0] == "fld" and e[1] == ptr and e[2] != mfield:
                return ("touch", "%s->%s" % (ptr, e[2]))
            return None
        try:
            ps = PathEnum(keep).run(funcs[f]["tree"])
            comp = None
            for p in ps:
                comp = check_path(p, "takesLock", set(), set())
                if comp:
                    comp += "  [path: %s]" % " ".join(lean_ev(e) for e in p)
                    break
            anylock = any(("lock",) in p for p in ps)
            if not anylock:
                comp = "no lock of %s on any path" % mtx
            ob(name, comp is None, comp or "")
            heap.append((fn, mtx, ps))
        except Miss as e:
            ob(name, False, str(e))
    # ---- the interface functions the model treats as ONE atomic step enter one critical section per call
    single = []
    for rel_, fn, objfns in (("src/munged/replay.c", "replay_insert", HASH_OPS), ("src/munged/replay.c", "replay_remove", HASH_OPS)):
        f = resolve(fn, rel_)
        name = "sys: `%s` performs at most one operation on the replay table per call (one atomic step of the model)" % fn
        if f is None:
            ob(name, False, "function not found"); continue
        keep = lambda e: ("call", e[1]) if e[0] == "call" and e[1] in objfns else None
        try:
            ps = PathEnum(keep).run(funcs[f]["tree"])
            worst = max(ps, key=lambda p_: sum(1 for e in p_ if e[0] == "call"))
            n_ = sum(1 for e in worst if e[0] == "call")
            ob(name, n_ <= 1, "a path performs %s" % [e[1] for e in worst if e[0] == "call"])
            single.append((fn, [[e[1] for e in p_ if e[0] == "call"] for p_ in ps]))
        except Miss as e:
            ob(name, False, str(e))
    # ---- shared calls of the request path
    wroot = roots["worker"][0]
    seen, reached, todo = set(), set(), [wroot]
    while todo:
        f = todo.pop()
        if f in seen:
            continue
        seen.add(f)
        for g in callgraph.get(f, ()):
            if g.split("@")[0] in INTERFACE:
                reached.add(g.split("@")[0])
            elif g not in seen:
                todo.append(g)
    stray = []
    for f in sorted(seen):
        for e, guard in tree_events(funcs[f]["tree"]):
            if e[0] == "acc" and "->" not in e[1]:
                base = e[1].split(".")[0]
                vkey = "%s:%s" % (os.path.basename(funcs[f]["file"]), base) if e[2] else base
                if vkey in gl and not gl[vkey]["const"]:
                    k2 = vkey + e[1][len(base):]
                    cl = classes.get(k2) or classes.get(vkey) or ("?", "")
                    if cl[0] not in ("initOnly", "lazyInit"):
                        stray.append("%s in %s (%s)" % (e[1], f, cl[0]))
            if e[0] in ("lock", "unlock"):
                stray.append("%s %s in %s" % (e[0], e[1], f))
    ctx.sys_stray = sorted(set(stray))
    ob("sys: between `%s` and the shared-state interface no function touches a mutable global or a mutex" % wroot,
       not stray, "; ".join(sorted(set(stray))[:12]))
    shared_calls = sorted(reached)
    ctx.sys_shared_calls = shared_calls
    ob("sys: the shared-state calls of the request path are {%s}" % ", ".join(EXPECTED_SHARED_CALLS),
       shared_calls == EXPECTED_SHARED_CALLS, "found: %s" % shared_calls)
    # ---- non-reentrant libc calls inside the concurrent closure
    nr = {}
    for f in sorted(conc):
        for r in funcs[f]["refs"]:
            if r in NON_REENTRANT:
                nr.setdefault(r, []).append(f)
    bad_nr = sorted(k for k in nr if k not in NON_REENTRANT_OK)
    ctx.sys_nonreentrant = nr
    ob("sys: no non-reentrant libc function is called by code that runs while other threads exist "
       "(accepted: %s)" % ", ".join(sorted(NON_REENTRANT_OK)), not bad_nr,
       "; ".join("%s in %s" % (k, ",".join(nr[k])) for k in bad_nr))
    # ---- Lean
    L = [LEAN_HEAD,
         "/-- (variable, type, protection) for every non-const file-scope / static variable of the daemon -/",
         "def sharedVars : List (String × String × Guard) := ["]
    rows = []
    for it in items:
        c = classes[it["key"]]
        g = {"initOnly": ".initOnly %s" % lean_str(c[1]), "lazyInit": ".lazyInit %s" % lean_str(c[1]), "mutex": ".mutex %s" % lean_str(c[1]),
             "syncObject": ".syncObject", "atomicFlag": ".atomicFlag", "thread": ".thread %s" % lean_str(c[1]),
             "unguarded": ".unguarded %s" % lean_str(c[1])}[c[0]]
        rows.append("  (%s, %s, %s)" % (lean_str(it["key"]), lean_str(it["type"]), g))
    L.append(",\n".join(rows) + "]")
    L.append("")
    L.append("def certs : List Cert := [")
    rows = []
    for (f, m), c in sorted(certs.items()):
        ps = ",\n      ".join("[" + ", ".join(lean_ev(e) for e in p) + "]" for p in c["paths"])
        rows.append("  { fn := %s, mutex := %s, mode := .%s, exempt := %s, paths := [\n      %s] }" % (
            lean_str(f.split("@")[0]), lean_str(m), c["mode"], "true" if c["exempt"] else "false", ps))
    L.append(",\n".join(rows) + "]")
    L.append("")
    L.append("/-- certificates for the per-object mutexes the request path relies on -/")
    L.append("def heapCerts : List Cert := [")
    rows = []
    for fn, m, ps in heap:
        pss = ",\n      ".join("[" + ", ".join(lean_ev(e) for e in p) + "]" for p in ps)
        rows.append("  { fn := %s, mutex := %s, mode := .takesLock, exempt := false, paths := [\n      %s] }" % (lean_str(fn), lean_str(m), pss))
    L.append(",\n".join(rows) + "]")
    L.append("")
    L.append("/-- per control-flow path, the operations `replay_insert` / `replay_remove` perform on the replay table -/")
    L.append("def tableOps : List (String × List (List String)) := [%s]" % ", ".join(
        "(%s, [%s])" % (lean_str(fn), ", ".join("[" + ", ".join(lean_str(x) for x in p_) + "]" for p_ in ps)) for fn, ps in single))
    L.append("")
    L.append("/-- shared-state interface functions reached from `%s` -/" % wroot)
    L.append("def sharedCalls : List String := [%s]" % ", ".join(lean_str(s) for s in shared_calls))
    L.append("/-- accesses to mutable globals / mutexes found between `%s` and that interface (must be empty) -/" % wroot)
    L.append("def strayAccesses : List String := [%s]" % ", ".join(lean_str(s) for s in sorted(set(stray))))
    L.append("/-- writes through a global pointer by code that runs while other threads exist (must be empty) -/")
    L.append("def confWrites : List String := [%s]" % ", ".join(lean_str(s) for s in cw))
    L.append("/-- thread roots -/")
    L.append("def threadRoots : List (String × List String) := [%s]" % ", ".join(
        "(%s, [%s])" % (lean_str(k), ", ".join(lean_str(x.split("@")[0]) for x in v)) for k, v in sorted(roots.items())))
    L.append("/-- callees of `main`, in order -/")
    L.append("def mainCalls : List String := [%s]" % ", ".join(lean_str(x) for x in main_calls))
    L.append("/-- non-reentrant libc functions called while other threads exist -/")
    L.append("def nonReentrant : List String := [%s]" % ", ".join(lean_str(x) for x in sorted(nr)))
    L.append("")
    L.append("end Munge.Gen.Sys")
    gen_write("Sys", "\n".join(L) + "\n")
    ctx.sys_classes = classes
    return not ctx.failed_obligations() or all(o["ok"] for o in ctx.obligations if o["kind"] == "gen" and o["name"].startswith("sys:"))


def top_calls(tree):
    """calls of a function in source order (flattened)"""
    return [e[1] for e, _ in tree_events(tree) if e[0] == "call"]


def call_args_fnrefs(funcs, callee_names):
    """functions handed (by name) to one of `callee_names` anywhere: found as refs of functions that call them"""
    return None


def thread_roots(funcs, callgraph):
    if "main@munged.c" in funcs:
        mkey = "main@munged.c"
    elif "main" in funcs and funcs["main"]["file"].endswith("munged.c"):
        mkey = "main"
    else:
        raise Miss("main of munged.c not found")
    calls = top_calls(funcs[mkey]["tree"])
    for need in ("timer_init", "job_accept", "timer_fini"):
        if need not in calls:
            raise Miss("main does not call %s" % need)
    i0, i1, i2 = calls.index("timer_init"), calls.index("job_accept"), calls.index("timer_fini")
    if not (i0 < i1 < i2):
        raise Miss("main: expected timer_init … job_accept … timer_fini, got %s" % calls)
    res = lambda names, file="src/munged/munged.c": [n for n in names if n in funcs or ("%s@munged.c" % n) in funcs]
    startup = res(calls[:i0 + 1])
    shutdown = res(calls[i2:])
    mainphase = res(calls[i0 + 1:i2])
    def handed(fn_filter, callee_names):
        out = []
        for k, f in funcs.items():
            if not fn_filter(k, f):
                continue
            for e, _ in tree_events(f["tree"]):
                if e[0] == "handoff" and e[1] in callee_names:
                    for n in e[2]:
                        rk = "%s@%s" % (n, os.path.basename(f["file"]))
                        rk = rk if rk in funcs else n
                        if rk in funcs and rk not in out:
                            out.append(rk)
        return out
    wroots = handed(lambda k, f: k == "job_accept", ("work_init",))
    if len(wroots) != 1:
        raise Miss("cannot identify the worker function handed to work_init in job_accept: candidates %s" % wroots)
    troot = handed(lambda k, f: f["file"].endswith("timer.c"), ("pthread_create",))
    if len(troot) != 1:
        raise Miss("cannot identify the timer thread function: candidates %s" % troot)
    other_threads = handed(lambda k, f: not f["file"].endswith("timer.c") and not f["file"].endswith("work.c"), ("pthread_create",))
    if other_threads:
        raise Miss("threads created outside timer.c / work.c: %s" % other_threads)
    cbs = handed(lambda k, f: True, ("timer_set_relative", "timer_set_absolute"))
    if not cbs:
        raise Miss("no timer callbacks found")
    sig = set()
    for k, f in funcs.items():
        called = {e[1] for e, _ in tree_events(f["tree"]) if e[0] == "call"}
        if "sigaction" in called:
            for r in f["refs"]:
                rk = r if r in funcs else "%s@%s" % (r, os.path.basename(f["file"]))
                if r not in called and rk in funcs and funcs[rk]["file"] == f["file"]:
                    sig.add(rk)
    roots = {"worker": wroots, "timer": troot + sorted(cbs), "main": mainphase, "signal": sorted(sig)}
    return roots, {"startup": startup, "shutdown": shutdown}, calls
