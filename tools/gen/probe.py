"""Compile-and-print probes: C programs that #include real headers / .c files of
the repo's working tree and print values, which become Lean definitions."""
import os, json
from ..vlib.core import sh, VERIF
from ..vlib.cbuild import cflags


def run_probe(ctx, name, c_source, libs=(), defines=(), gc=False):
    """Compile c_source (text) against the repo, run it, return stdout text or None."""
    src = os.path.join(ctx.work, "probe_%s.c" % name)
    exe = os.path.join(ctx.work, "probe_%s" % name)
    with open(src, "w") as f:
        f.write(c_source)
    opt = ["-O1", "-ffunction-sections", "-fdata-sections", "-Wl,--gc-sections"] if gc else ["-O0"]
    rc, out = sh(["gcc", "-w"] + opt + cflags(ctx.repo, defines) + [src, "-o", exe] + list(libs), timeout=300)
    if rc != 0:
        ctx.obligation("gen", "probe %s compiles against %s" % (name, ctx.repo), False, out[-1500:])
        return None
    rc, out = sh([exe], timeout=120)
    if rc != 0:
        ctx.obligation("gen", "probe %s runs" % name, False, out[-1500:])
        return None
    return out


def lean_list_u8(vals, per=16):
    rows = []
    for i in range(0, len(vals), per):
        rows.append(", ".join(str(v) for v in vals[i:i + per]))
    return "[\n  " + ",\n  ".join(rows) + "]"
