"""Gen.Gids: everything the `Gids` model takes from the sources, regenerated on every run from
src/munged/gids.c (+ hash.c, src/common/xgetgr.c, xgetpw.c, libcommon/common.h):

* constants (probe): UID_SENTINEL, hash sizes, errno values, minimum/system buffer sizes, a family of
  user names / uids that collide in the real hash functions (for the op generator only);
* whole loop-free functions translated by the K translator: `_gids_gid_head_cmp`, `_gids_gid_head_key`,
  `_gids_user_to_uid`, `_gids_map_update`, `gids_update`;
* loop *fragments* translated by the same translator (condition and body of the two sorted-list walks, the
  tail of `_gids_gid_add`, the error dispatch and the per-member body of the scan loop in `_gids_map_create`,
  the statements between `restart:` and the loop) -- `break` / `continue` / `goto restart` / `goto err` /
  falling off the end become return codes;
* structure facts of `_gids_map_create` by AST pattern: `max_inits`, what the error and the success tail return;
* atomicity certificates: for `gids_is_member`, `_gids_map_update`, `gids_update`, `gids_destroy` the acyclic
  control-flow paths as event lists (lock / unlock / read f / write f / node / ret).

Nothing has a silent default: what cannot be extracted is a failed obligation."""
import json, os, re
from .probe import run_probe
from . import ktrans
from .ktrans import Translator, KError, E, P, Path, lit, load_ast, find_enums, probe_enums, indent, trange
from ..vlib.leanlib import gen_write

GIDS = "src/munged/gids.c"

# return codes of translated fragments
BREAK, CONTINUE, RESTART, ERR, FALL = 0, 1, 2, 3, 4

PROBE = r'''
#include <stdio.h>
#include <errno.h>
#include <string.h>
#include "gids.c"
#include "xgetgr.c"
#undef _UNUSED_
#include "xgetpw.c"
unsigned int hash_key_string (const char *str);
int main(void){
  int i, n = 0; unsigned slot0;
  printf("UID_SENTINEL %llu\n", (unsigned long long) UID_SENTINEL);
  printf("GID_SENTINEL %llu\n", (unsigned long long) GID_SENTINEL);
  printf("GHOST_HASH_SIZE %d\nGID_HASH_SIZE %d\nUID_HASH_SIZE %d\n", GHOST_HASH_SIZE, GID_HASH_SIZE, UID_HASH_SIZE);
  printf("ENOENT %d\nESRCH %d\nEINTR %d\nERANGE %d\nEIO %d\nEMFILE %d\nENFILE %d\nEINVAL %d\nENOMEM %d\nEACCES %d\n",
         ENOENT, ESRCH, EINTR, ERANGE, EIO, EMFILE, ENFILE, EINVAL, ENOMEM, EACCES);
  printf("MINIMUM_GR_BUF_SIZE %d\nMINIMUM_PW_BUF_SIZE %d\n", MINIMUM_GR_BUF_SIZE, MINIMUM_PW_BUF_SIZE);
  printf("GR_SYS_SIZE %lu\nPW_SYS_SIZE %lu\n", (unsigned long) _xgetgrbuf_get_sys_size (), (unsigned long) _xgetpwbuf_get_sys_size ());
  printf("SIZEOF_UID %d\nSIZEOF_GID %d\nSIZEOF_TIME %d\n", (int) sizeof (uid_t), (int) sizeof (gid_t), (int) sizeof (time_t));
#ifdef HAVE_GETGRENT_R_ERANGE_BROKEN
  printf("ERANGE_BROKEN 1\n");
#else
  printf("ERANGE_BROKEN 0\n");
#endif
  /* user names u0..u29999 whose real hash_key_string collides with that of "u0" modulo UID_HASH_SIZE */
  slot0 = hash_key_string ("u0") % UID_HASH_SIZE;
  printf("NAMECOLL");
  for (i = 0; i < 30000 && n < 6; i++) {
    char b[16]; sprintf (b, "u%d", i);
    if (hash_key_string (b) % UID_HASH_SIZE == slot0) { printf (" %s", b); n++; }
  }
  printf("\n");
  return 0;
}
'''


class FragTranslator(Translator):
    """K translator extended for this file: `*param` and members of local structs as named inputs, pointer
    stores as integer ids, `time(&x)`, per-table dispatch of hash_find, and fragment exits."""

    def __init__(self, spec, enumvals, enumtypes, labelnames):
        super().__init__(spec, enumvals, enumtypes)
        self.labelnames = labelnames       # declId -> label name

    # --- lvalues: *p (p a pointer variable) and local.struct.member
    def lvalue(self, n, st):
        k = n["kind"]
        if k == "ParenExpr":
            return self.lvalue(n["inner"][0], st)
        if k == "UnaryOperator" and n.get("opcode") == "*":
            inner = n["inner"][0]
            while inner["kind"] in ("ParenExpr", "ImplicitCastExpr"):
                inner = inner["inner"][0]
            if inner["kind"] == "DeclRefExpr" and inner["referencedDecl"]["kind"] in ("VarDecl", "ParmVarDecl"):
                return ("path", "*" + inner["referencedDecl"]["name"])
        if k == "MemberExpr" and n.get("isArrow"):
            b = strip(n["inner"][0])
            nm = None
            if b.get("kind") == "DeclRefExpr":
                nm = b["referencedDecl"].get("name")
            elif b.get("kind") == "UnaryOperator" and b.get("opcode") == "*" and strip(b["inner"][0]).get("kind") == "DeclRefExpr":
                nm = "*" + strip(b["inner"][0])["referencedDecl"].get("name")
            if nm is not None and nm in self.spec.get("ptr_paths", ()):
                return ("path", nm + "." + n["name"])
        if k == "MemberExpr" and not n.get("isArrow"):
            base = n["inner"][0]
            names = [n["name"]]
            while base["kind"] == "MemberExpr" and not base.get("isArrow"):
                names.append(base["name"]); base = base["inner"][0]
            if base["kind"] == "DeclRefExpr" and base["referencedDecl"]["kind"] == "VarDecl":
                return ("path", ".".join([base["referencedDecl"]["name"]] + names[::-1]))
        if k == "DeclRefExpr" and n["referencedDecl"]["kind"] == "VarDecl" and \
                n["referencedDecl"]["name"] in self.spec.get("outer_locals", ()):
            return ("path", n["referencedDecl"]["name"])
        return super().lvalue(n, st)

    def prior_value(self, path, st0):
        """value of a field at a join on the branch that did not write it: for fields of the shared struct this is the
        value *now* (another thread may have changed it since an earlier read), a separate input"""
        if path not in st0["mem"] and path in self.spec.get("cur_inputs", {}):
            alias = self.spec["cur_inputs"][path]
            self.inputs[path + "@cur"] = alias
            t = self.path_types.get(path)
            if t is None:
                raise KError("cannot merge a write to %s: its C type is unknown at the join" % path)
            return self.input(path + "@cur", t)
        return super().prior_value(path, st0)

    def write(self, lv, val, st):
        if isinstance(val, Path):
            val = self.as_int(val)
        return super().write(lv, val, st)

    def read(self, lv, t, st):
        kind, nm = lv
        if kind == "path" and nm in st["mem"]:
            return st["mem"][nm]
        if kind == "path" and t == "ptr" and nm in self.spec.get("ptr_paths", ()):
            return Path(nm)
        return super().read(lv, t, st)

    def call(self, n, st):
        fn = self.callee(n)
        args = n["inner"][1:]
        def argname(a):
            while a["kind"] in ("ImplicitCastExpr", "ParenExpr", "CStyleCastExpr"):
                a = a["inner"][0]
            if a["kind"] == "UnaryOperator" and a.get("opcode") == "&":
                a = a["inner"][0]
            if a["kind"] == "DeclRefExpr":
                return a["referencedDecl"]["name"]
            if a["kind"] == "MemberExpr":
                return a["name"]
            return "?"
        h = self.spec.get("calls", {}).get(fn)
        if h and h[0] == "byarg":          # ("byarg", index, {argname: handler})
            key = argname(args[h[1]])
            h = h[2].get(key)
            if h is None:
                raise KError("call to %s on '%s', which the kernel's call table does not know" % (fn, key))
        if h and h[0] == "outparam":       # ("outparam", argindex, leanName, ctype, rettype): f(&x) sets x and returns it
            nm = h[2]
            if nm not in self.used_inputs:
                self.used_inputs.append(nm)
            self.input_types[nm] = h[3]
            lo, hi = trange(h[3])
            v = E(nm, lo, hi, atom=True)
            tgt = args[h[1]]
            while tgt["kind"] in ("ImplicitCastExpr", "ParenExpr"):
                tgt = tgt["inner"][0]
            if tgt["kind"] == "UnaryOperator" and tgt.get("opcode") == "&":
                self.write(self.lvalue(tgt["inner"][0], st), v, st)
            else:
                raise KError("%s: out-parameter is not &local" % fn)
            st["events"].append('("%s", [])' % fn)
            return v
        if h and h[0] == "input" and h[2] == "ptr":      # pointer-valued result as a named input (0 = NULL)
            nm = h[1]
            if nm not in self.used_inputs:
                self.used_inputs.append(nm)
            self.input_types[nm] = "ptr"
            if len(h) > 3 and h[3]:
                st["events"].append('("%s", [])' % fn)
            return E(nm, 0, (1 << 64) - 1, atom=True)
        if h and h[0] == "setret":         # ("setret", outargindex, outName, retName, rettype, errnoName): f(.., &out) -> ret; errno clobbered
            tgt = args[h[1]]
            while tgt["kind"] in ("ImplicitCastExpr", "ParenExpr"):
                tgt = tgt["inner"][0]
            if not (tgt["kind"] == "UnaryOperator" and tgt.get("opcode") == "&"):
                raise KError("%s: out-parameter is not &local" % fn)
            for nm, t in ((h[2], "ptr"), (h[3], h[4]), (h[5], (32, True))):
                if nm not in self.used_inputs:
                    self.used_inputs.append(nm)
                self.input_types[nm] = t
            self.write(self.lvalue(tgt["inner"][0], st), E(h[2], 0, (1 << 64) - 1, atom=True), st)
            lo, hi = trange((32, True))
            self.write(("path", "errno"), E(h[5], lo, hi, atom=True), st)
            st["events"].append('("%s", [])' % fn)
            lo, hi = trange(h[4])
            return E(h[3], lo, hi, atom=True)
        if h and h[0] == "inevent":        # ("inevent", leanName, ctype, [int arg indices]): result is an input, call + args recorded
            vals = [self.as_int(self.rvalue(args[i], st)) for i in h[3]]
            st["events"].append('("%s", [%s])' % (fn, ", ".join(v.s for v in vals)))
            nm = h[1]
            if nm not in self.used_inputs:
                self.used_inputs.append(nm)
            self.input_types[nm] = h[2]
            lo, hi = trange(h[2])
            return E(nm, lo, hi, atom=True)
        if h and h[0] == "tagevent":       # ("tagevent", ret, [int arg indices], [pointer arg indices named into the tag])
            vals = [self.as_int(self.rvalue(args[i], st)) for i in h[2]]
            tag = fn + "".join(":" + argname(args[i]) for i in h[3])
            st["events"].append('("%s", [%s])' % (tag, ", ".join(v.s for v in vals)))
            return lit(h[1])
        saved = self.spec.get("calls", {}).get(fn)
        if h is not None:
            self.spec["calls"][fn] = h
        try:
            return super().call(n, st)
        finally:
            if h is not None:
                self.spec["calls"][fn] = saved

    # --- statements: exits of a fragment
    def run(self, stmts, st, depth=0):
        ex = self.spec.get("exits")
        if ex is not None:
            if not stmts:
                if "fall" in ex:
                    return self.leaf(st, lit(ex["fall"]))
            else:
                s = stmts[0]
                k = s.get("kind")
                if k == "BreakStmt" and "break" in ex:
                    return self.leaf(st, lit(ex["break"]))
                if k == "ContinueStmt" and "continue" in ex:
                    return self.leaf(st, lit(ex["continue"]))
                if k == "GotoStmt":
                    nm = self.labelnames.get(s["targetLabelDeclId"])
                    if nm is not None and ("goto " + nm) in ex:
                        return self.leaf(st, lit(ex["goto " + nm]))
        return super().run(stmts, st, depth)

    def translate_fragment(self, stmts, params=()):
        st = {"locals": {}, "mem": {}, "worder": [], "events": [], "declared": set(), "params": set(params)}
        return self.render(self.run(list(stmts), st))

    def translate_cond(self, node, params=()):
        st = {"locals": {}, "mem": {}, "worder": [], "events": [], "declared": set(), "params": set(params)}
        c = self.cond(node, st)
        if st["events"] or st["worder"]:
            raise KError("side effect in a loop condition")
        return c.s


# ---------------------------------------------------------------- AST helpers

def walk(n):
    if isinstance(n, dict):
        if n.get("kind"):
            yield n
        for c in n.get("inner", []) or []:
            yield from walk(c)


def strip(n):
    while n.get("kind") in ("ParenExpr", "ImplicitCastExpr", "CStyleCastExpr", "ConstantExpr") and n.get("inner"):
        n = n["inner"][0]
    return n


def body_of(fdecl):
    return [c for c in fdecl["inner"] if c["kind"] == "CompoundStmt"][0]


def first_loop(node):
    for n in walk(node):
        if n["kind"] in ("ForStmt", "WhileStmt"):
            return n
    return None


def loop_parts(loop):
    inner = loop["inner"]
    if loop["kind"] == "ForStmt":
        return inner[2], inner[4]       # cond, body
    return inner[0], inner[1]


def stmts_of(n):
    return list(n.get("inner", [])) if n.get("kind") == "CompoundStmt" else [n]


def label_names(fdecl):
    return {n["declId"]: n["name"] for n in walk(fdecl) if n["kind"] == "LabelStmt"}


def callee_name(n):
    f = strip(n["inner"][0])
    return f.get("referencedDecl", {}).get("name") if f.get("kind") == "DeclRefExpr" else None


# ---------------------------------------------------------------- canonical local names
# The fragment specs below name locals and parameters (`node`, `nodep`, `is_member`, `num_inits`, ...).  So that renaming a
# local in the C source is not an alarm, each variable is first found by its *role* in the function and the AST is
# rewritten to the canonical name.

def params_of(f):
    return [c["name"] for c in f.get("inner", []) if c.get("kind") == "ParmVarDecl"]


def var_assigned_from(f, callee, nth=0):
    hits = []
    for n in walk(f):
        if n["kind"] == "BinaryOperator" and n.get("opcode") == "=":
            rhs = strip(n["inner"][1])
            lhs = strip(n["inner"][0])
            if rhs.get("kind") == "CallExpr" and callee_name(rhs) == callee and lhs.get("kind") == "DeclRefExpr":
                hits.append(lhs["referencedDecl"]["name"])
        if n["kind"] == "VarDecl" and n.get("inner"):
            init = strip(n["inner"][0])
            if init.get("kind") == "CallExpr" and callee_name(init) == callee:
                hits.append(n["name"])
    return hits[nth] if len(hits) > nth else None


def local_of_type(f, sub):
    for n in walk(f):
        if n["kind"] == "VarDecl":
            q = n.get("type", {}).get("qualType", "")
            if sub in q and "*" not in q:
                return n["name"]
    return None


def returned_var(f, nth=-1):
    rets = [n for n in walk(f) if n["kind"] == "ReturnStmt" and n.get("inner")]
    vs = [strip(r["inner"][0]) for r in rets]
    vs = [v["referencedDecl"]["name"] for v in vs if v.get("kind") == "DeclRefExpr"]
    return vs[nth] if vs else None


def first_ptr_var(node):
    for n in walk(node):
        if n["kind"] == "DeclRefExpr" and n["referencedDecl"].get("kind") == "VarDecl":
            q = n.get("type", {}).get("desugaredQualType") or n.get("type", {}).get("qualType", "")
            if q.endswith("*"):
                return n["referencedDecl"]["name"]
    return None


def canon(f, roles):
    """rename variables of function AST f in place: roles = {actual name: canonical name}"""
    ren = {a: c for a, c in roles.items() if a and a != c}
    if not ren:
        return
    taken = {n["name"] for n in walk(f) if n["kind"] in ("VarDecl", "ParmVarDecl")} - set(ren)
    ren = {a: c for a, c in ren.items() if c not in taken}
    def go(n):
        if isinstance(n, dict):
            if n.get("kind") in ("VarDecl", "ParmVarDecl") and n.get("name") in ren:
                n["name"] = ren[n["name"]]
            rd = n.get("referencedDecl")
            if isinstance(rd, dict) and rd.get("kind") in ("VarDecl", "ParmVarDecl") and rd.get("name") in ren:
                rd["name"] = ren[rd["name"]]
            for v in n.values():
                go(v)
        elif isinstance(n, list):
            for v in n:
                go(v)
    go(f)


def canonicalise(asts):
    def pos(f, names):
        ps = params_of(f)
        return {ps[i]: names[i] for i in range(min(len(ps), len(names)))}
    f = asts["gids_is_member"]
    loop = first_loop(f)
    r = pos(f, ["gids", "uid", "gid"])
    if loop is not None:
        r[first_ptr_var(loop_parts(loop)[0])] = "node"
    r[returned_var(f)] = "is_member"
    r[var_assigned_from(f, "hash_find")] = "g"
    canon(f, r)
    f = asts["_gids_gid_add"]
    loop = first_loop(f)
    r = pos(f, ["gid_hash", "uid", "gid"])
    if loop is not None:
        r[first_ptr_var(loop_parts(loop)[0])] = "nodep"
    r[var_assigned_from(f, "_gids_gid_node_create")] = "node"
    r[var_assigned_from(f, "hash_find")] = "g"
    canon(f, r)
    f = asts["_gids_user_to_uid"]
    r = pos(f, ["uid_hash", "ghost_hash", "user", "uid_resultp", "pwbufp"])
    r[var_assigned_from(f, "hash_find")] = "u"
    r[local_of_type(f, "struct passwd")] = "pw"
    canon(f, r)
    f = asts["_gids_map_update"]
    r = pos(f, ["gids"])
    r[local_of_type(f, "struct stat")] = "st"
    canon(f, r)
    canon(asts["gids_update"], pos(asts["gids_update"], ["gids"]))
    canon(asts["gids_destroy"], pos(asts["gids_destroy"], ["gids"]))
    f = asts["_gids_map_create"]
    r = pos(f, ["ghost_hash"])
    stmts = stmts_of(body_of(f))
    ei = [j for j, s_ in enumerate(stmts) if s_["kind"] == "LabelStmt"]
    before = {"kind": "CompoundStmt", "inner": stmts[:ei[-1]]} if ei else f
    r[returned_var(before)] = "gid_hash"
    r[var_assigned_from(f, "_gids_user_to_uid")] = "rv"
    # the bound test `n < max` next to the ERANGE test: both operands are int locals, the right one is const
    for n in walk(f):
        if n["kind"] == "BinaryOperator" and n.get("opcode") in ("<", "<=", "!="):
            a, b = strip(n["inner"][0]), strip(n["inner"][1])
            if a.get("kind") == "DeclRefExpr" and b.get("kind") == "DeclRefExpr" and \
                    "const" in (b.get("type", {}).get("qualType", "")) and a["referencedDecl"].get("kind") == "VarDecl":
                r[a["referencedDecl"]["name"]] = "num_inits"
                r[b["referencedDecl"]["name"]] = "max_inits"
                break
    hs = [n["name"] for n in walk(f) if n["kind"] == "VarDecl" and n.get("type", {}).get("qualType") == "hash_t"]
    others = [h for h in hs if r.get(h) != "gid_hash"]
    if len(others) == 1:
        r[others[0]] = "uid_hash"
    canon(f, r)


# ---------------------------------------------------------------- kernel emission

def emit(ctx, tr, lname, what, term, order):
    seen = []
    for nm in list(order) + tr.used_inputs:
        if nm not in seen:
            seen.append(nm)
    sig = " ".join("(%s : Int)" % nm for nm in seen)
    rng = []
    for nm in seen:
        t = tr.input_types.get(nm) or tr.spec.get("types", {}).get(nm)
        if t and t != "ptr":
            lo, hi = trange(t)
            rng.append("%s ≤ %s ∧ %s ≤ %s" % (lit(lo).s, nm, nm, hi))
        elif t == "ptr":
            rng.append("0 ≤ %s" % nm)
    out = "/-- translated from %s -/\ndef %s %s : KOut :=\n%s\n\n" % (what, lname, sig, indent(term))
    out += "/-- C-type ranges of the inputs of `%s` (assumed by the wrap elision) -/\ndef %s_inRange %s : Prop :=\n  %s\n\n" % (
        lname, lname, sig, " ∧ ".join(rng) if rng else "True")
    return out


MUTEX_CALLS = {
    "pthread_mutex_lock": ("event", 0, []),
    "pthread_mutex_unlock": ("event", 0, []),
    "log_errno": ("ignore",), "log_msg": ("ignore",), "log_err": ("ignore",), "strerror": ("ignore",),
}

SPECS = [
    dict(name="_gids_gid_head_cmp", lean="gid_head_cmp", inputs=[("*uid1p", "uid1"), ("*uid2p", "uid2")]),
    dict(name="_gids_gid_head_key", lean="gid_head_key", inputs=[("*uidp", "uid")]),
    dict(name="_gids_user_to_uid", lean="user_to_uid",
         order=["cached", "cached_uid", "pwrv", "pw_uid", "errnoV", "uid_resultp", "ghosted"],
         inputs=[("u.uid", "cached_uid"), ("pw.pw_uid", "pw_uid"), ("errno", "errnoV"), ("uid_resultp", "uid_resultp")],
         ptr_paths=["u"],
         calls=dict(MUTEX_CALLS,
                    hash_find=("byarg", 0, {"uid_hash": ("input", "cached", "ptr", True),
                                            "ghost_hash": ("input", "ghosted", "ptr", False)}),
                    xgetpwnam=("input", "pwrv", (32, True), True),
                    _gids_uid_add=("event", 0, [2]),
                    _gids_ghost_del=("ignore",), _gids_ghost_add=("ignore",))),
    dict(name="_gids_map_update", lean="map_update", void=True,
         order=["do_group_stat", "t_last_update", "do_group_stat_cur", "t_last_update_cur", "oldmap", "newmap", "interval_secs",
                "now", "statrv", "mtime", "newtimer", "ghost_hash"],
         inputs=[("gids.do_group_stat", "do_group_stat"), ("gids.t_last_update", "t_last_update"),
                 ("gids.gid_hash", "oldmap"), ("gids.interval_secs", "interval_secs"),
                 ("st.st_mtim.tv_sec", "mtime"), ("gids.ghost_hash", "ghost_hash")],
         cur_inputs={"gids.do_group_stat": "do_group_stat_cur", "gids.t_last_update": "t_last_update_cur", "gids.gid_hash": "oldmap"},
         calls=dict(MUTEX_CALLS,
                    time=("outparam", 0, "now", (64, True)),
                    stat=("input", "statrv", (32, True), True),
                    _gids_map_create=("input", "newmap", "ptr", True),
                    timer_set_relative=("inevent", "newtimer", (64, True), [2]),
                    hash_destroy=("tagevent", 0, [0], []))),
    dict(name="gids_update", lean="gids_update", void=True, order=["gids", "timer", "do_group_stat", "newtimer"],
         inputs=[("gids", "gids"), ("gids.timer", "timer"), ("gids.do_group_stat", "do_group_stat")],
         calls=dict(MUTEX_CALLS,
                    timer_cancel=("event", 0, [0]),
                    timer_set_relative=("inevent", "newtimer", (64, True), [2]))),
]


def translate_all(ctx):
    """-> (lean text, ok)"""
    asts, names, etypes = {}, set(), set()
    fns = [sp["name"] for sp in SPECS] + ["gids_is_member", "_gids_gid_add", "_gids_map_create", "gids_destroy"]
    for fn in fns:
        try:
            asts[fn] = load_ast(ctx.repo, GIDS, fn)
            find_enums(asts[fn], names, etypes)
        except KError as e:
            ctx.obligation("gen", "gids: function %s found and parsed by clang" % fn, False, str(e))
            return None, False, None
    vals, types = probe_enums(ctx, GIDS, names, etypes)
    if vals is None:
        return None, False, None
    try:
        canonicalise(asts)
    except (KeyError, IndexError, TypeError, AttributeError) as e:
        ctx.obligation("gen", "gids: variables of the anchored functions identified by role", False, "%s: %s" % (type(e).__name__, e))
        return None, False, None
    out, ok = [], True

    def attempt(label, f):
        nonlocal ok
        try:
            out.append(f())
            ctx.obligation("gen", label, True)
        except (KError, KeyError, IndexError, TypeError, AttributeError, ValueError) as e:
            ctx.obligation("gen", label, False, "%s: %s" % (type(e).__name__, e))
            ok = False

    # ---- whole functions
    for sp in SPECS:
        def whole(sp=sp):
            tr = FragTranslator(sp, vals, types, label_names(asts[sp["name"]]))
            term = tr.translate(asts[sp["name"]])
            return emit(ctx, tr, sp["lean"], "`%s` in %s" % (sp["name"], GIDS), term, sp.get("order") or [nm for _, nm in sp.get("inputs", [])])
        attempt("kernel %s (%s) translated (subset K)" % (sp["name"], GIDS), whole)

    # ---- gids_is_member: the walk
    im = asts["gids_is_member"]
    def member_cond():
        loop = first_loop(im)
        cond, _ = loop_parts(loop)
        sp = dict(name="gids_is_member.walk.cond", inputs=[("node", "node"), ("node.gid", "nodeGid"), ("gid", "gid")], ptr_paths=["node"])
        tr = FragTranslator(sp, vals, types, {})
        c = tr.translate_cond(cond)
        return ("/-- loop condition of the walk in `gids_is_member` (node = the pointer, non-zero when there is a node) -/\n"
                "def member_walk_cont (node nodeGid gid : Int) : Prop :=\n  %s\n\n"
                "instance (node nodeGid gid : Int) : Decidable (member_walk_cont node nodeGid gid) := by\n"
                "  unfold member_walk_cont; infer_instance\n\n" % c)
    attempt("gids_is_member: loop condition of the gid walk", member_cond)
    def member_body():
        loop = first_loop(im)
        _, body = loop_parts(loop)
        sp = dict(name="gids_is_member.walk.body",
                  inputs=[("node.gid", "nodeGid"), ("is_member", "is_member0"), ("gid", "gid"), ("node.next", "nodeNext")], ptr_paths=["node"],
                  outer_locals=["is_member", "node"], exits={"break": BREAK, "fall": FALL, "continue": CONTINUE}, calls=dict(MUTEX_CALLS))
        tr = FragTranslator(sp, vals, types, {})
        term = tr.translate_fragment(stmts_of(body))
        return emit(ctx, tr, "member_walk_body", "the body of the walk in `gids_is_member` (ret: %d break, %d next node)" % (BREAK, FALL),
                    term, ["nodeGid", "gid", "nodeNext"])
    attempt("gids_is_member: loop body of the gid walk", member_body)
    def member_shape():
        # result variable: initialised to 0, returned at the end; the walk is entered on the list found by hash_find
        ret = [n for n in walk(im) if n["kind"] == "ReturnStmt"][-1]
        rv = strip(ret["inner"][0])
        decl = [n for n in walk(im) if n["kind"] == "VarDecl" and n["name"] == rv["referencedDecl"]["name"]][0]
        init = int(strip(decl["inner"][0])["value"])
        return "/-- initial value of the result variable of `gids_is_member` -/\ndef member_init : Int := %d\n\n" % init
    attempt("gids_is_member: result variable and its initial value", member_shape)

    # ---- _gids_gid_add: the sorted insert
    ga = asts["_gids_gid_add"]
    def insert_cond():
        loop = first_loop(ga)
        cond, _ = loop_parts(loop)
        sp = dict(name="_gids_gid_add.walk.cond", inputs=[("*nodep", "node"), ("*nodep.gid", "nodeGid"), ("gid", "gid")], ptr_paths=["*nodep"])
        tr = FragTranslator(sp, vals, types, {})
        c = tr.translate_cond(cond)
        return ("/-- loop condition of the insert walk in `_gids_gid_add` (skip this node?) -/\n"
                "def insert_walk_skip (node nodeGid gid : Int) : Prop :=\n  %s\n\n"
                "instance (node nodeGid gid : Int) : Decidable (insert_walk_skip node nodeGid gid) := by\n"
                "  unfold insert_walk_skip; infer_instance\n\n" % c)
    attempt("_gids_gid_add: loop condition of the sorted insert", insert_cond)
    def insert_tail():
        stmts = stmts_of(body_of(ga))
        loop = first_loop(ga)
        i = [j for j, s in enumerate(stmts) if s is loop]
        if not i:
            raise KError("the insert walk is not a top-level statement of _gids_gid_add")
        sp = dict(name="_gids_gid_add.tail", inputs=[("*nodep", "node"), ("*nodep.gid", "nodeGid"), ("gid", "gid")], ptr_paths=["*nodep", "node"],
                  outer_locals=["node"], calls=dict(MUTEX_CALLS, _gids_gid_node_create=("input", "newnode", "ptr", True)))
        tr = FragTranslator(sp, vals, types, {})
        term = tr.translate_fragment(stmts[i[0] + 1:])
        return emit(ctx, tr, "insert_tail", "the statements after the walk in `_gids_gid_add` (node = *nodep where the walk stopped)",
                    term, ["node", "nodeGid", "gid", "newnode"])
    attempt("_gids_gid_add: duplicate test and link-in after the walk", insert_tail)

    # ---- _gids_map_create: the scan loop
    mc = asts["_gids_map_create"]
    labels = label_names(mc)
    def max_inits():
        d = [n for n in walk(mc) if n["kind"] == "VarDecl" and n["name"] == "max_inits"][0]
        v = strip(d["inner"][0])
        if v["kind"] != "IntegerLiteral":
            raise KError("max_inits is not initialised by a literal")
        d0 = [n for n in walk(mc) if n["kind"] == "VarDecl" and n["name"] == "num_inits"][0]
        v0 = strip(d0["inner"][0])
        return "def max_inits : Int := %d\ndef num_inits_init : Int := %d\n\n" % (int(v["value"]), int(v0["value"]))
    attempt("_gids_map_create: max_inits and the initial num_inits", max_inits)
    loops = [n for n in walk(mc) if n["kind"] in ("WhileStmt", "ForStmt")]
    def scan_err():
        outer = loops[0]
        _, body = loop_parts(outer)
        ifs = [s for s in stmts_of(body) if s["kind"] == "IfStmt" and
               any(n["kind"] == "CallExpr" and callee_name(n) == "xgetgrent" for n in walk(s["inner"][0]))]
        if len(ifs) != 1:
            raise KError("no unique `if (xgetgrent (...) ...)` at the top of the scan loop")
        test = strip(ifs[0]["inner"][0])
        if not (test["kind"] == "BinaryOperator" and test["opcode"] == "<" and strip(test["inner"][1]).get("value") == "0"):
            raise KError("the xgetgrent test is not `< 0`")
        sp = dict(name="_gids_map_create.scan.err", inputs=[("errno", "errnoV"), ("num_inits", "num_inits"), ("max_inits", "max_inits")],
                  outer_locals=["num_inits", "max_inits", "gid_hash", "uid_hash"],
                  exits={"break": BREAK, "continue": CONTINUE, "goto restart": RESTART, "goto err": ERR, "fall": FALL},
                  calls=dict(MUTEX_CALLS, hash_reset=("tagevent", 0, [], [0])))
        tr = FragTranslator(sp, vals, types, labels)
        term = tr.translate_fragment(stmts_of(ifs[0]["inner"][1]))
        return emit(ctx, tr, "scan_err", "the error dispatch of the scan loop in `_gids_map_create` "
                    "(ret: %d break, %d continue, %d goto restart, %d goto err, %d fall through)" % (BREAK, CONTINUE, RESTART, ERR, FALL),
                    term, ["errnoV", "num_inits", "max_inits"])
    attempt("_gids_map_create: error dispatch after a failed xgetgrent", scan_err)
    def scan_member():
        inner = loops[1]
        _, body = loop_parts(inner)
        sp = dict(name="_gids_map_create.scan.member", inputs=[],
                  exits={"goto err": ERR, "fall": FALL, "break": BREAK, "continue": CONTINUE},
                  calls=dict(MUTEX_CALLS, _gids_user_to_uid=("input", "rv", (32, True), True),
                             _gids_gid_add=("input", "addrv", (32, True), True)))
        tr = FragTranslator(sp, vals, types, labels)
        term = tr.translate_fragment(stmts_of(body))
        return emit(ctx, tr, "scan_member", "the per-member body of the scan loop in `_gids_map_create` (ret: %d goto err, %d next member)" % (ERR, FALL),
                    term, ["rv", "addrv"])
    attempt("_gids_map_create: per-member body (lookup result gates the insert)", scan_member)
    def scan_begin():
        stmts = stmts_of(body_of(mc))
        li = [j for j, s in enumerate(stmts) if s["kind"] == "LabelStmt" and s["name"] == "restart"]
        wi = [j for j, s in enumerate(stmts) if s is loops[0]]
        if not li or not wi or wi[0] < li[0]:
            raise KError("label restart / scan loop not found at the top level")
        frag = list(stmts[li[0]].get("inner", [])) + stmts[li[0] + 1:wi[0]]
        sp = dict(name="_gids_map_create.scan.begin", inputs=[("num_inits", "num_inits")], outer_locals=["num_inits"],
                  exits={"fall": FALL}, calls=dict(MUTEX_CALLS, xgetgrent_init=("event", 0, [])))
        tr = FragTranslator(sp, vals, types, labels)
        term = tr.translate_fragment(frag)
        return emit(ctx, tr, "scan_begin", "the statements between `restart:` and the scan loop in `_gids_map_create`", term, ["num_inits"])
    attempt("_gids_map_create: what a (re)start of the scan does", scan_begin)
    def tails():
        stmts = stmts_of(body_of(mc))
        ei = [j for j, s in enumerate(stmts) if s["kind"] == "LabelStmt" and s["name"] == "err"]
        if not ei:
            raise KError("no label err")
        rets_before = [n for s in stmts[:ei[0]] for n in walk(s) if n["kind"] == "ReturnStmt"]
        rets_after = [n for s in stmts[ei[0]:] for n in walk(s) if n["kind"] == "ReturnStmt"]
        if len(rets_before) != 1 or len(rets_after) != 1:
            raise KError("expected one return before and one after `err:`")
        ok_ret = strip(rets_before[0]["inner"][0])
        ok_map = ok_ret.get("kind") == "DeclRefExpr" and ok_ret["referencedDecl"]["name"] == "gid_hash"
        er = rets_after[0]["inner"][0]
        while er.get("kind") == "ParenExpr":
            er = er["inner"][0]
        err_null = (er.get("kind") == "ImplicitCastExpr" and er.get("castKind") == "NullToPointer") or \
                   (strip(er).get("kind") == "IntegerLiteral" and strip(er).get("value") == "0" and
                    any(n.get("castKind") == "NullToPointer" for n in walk(rets_after[0])))
        destroys = any(n["kind"] == "CallExpr" and callee_name(n) == "hash_destroy" and
                       strip(n["inner"][1]).get("referencedDecl", {}).get("name") == "gid_hash"
                       for s in stmts[ei[0]:] for n in walk(s))
        return ("/-- `_gids_map_create`: the success path returns the map it built -/\ndef create_ok_returns_map : Bool := %s\n"
                "/-- `_gids_map_create`: the `err:` path returns NULL -/\ndef create_err_returns_null : Bool := %s\n"
                "/-- `_gids_map_create`: the `err:` path destroys the partial map -/\ndef create_err_destroys_partial : Bool := %s\n\n" % (
                    str(ok_map).lower(), str(bool(err_null)).lower(), str(destroys).lower()))
    attempt("_gids_map_create: what the success and the error tail return", tails)
    # ---- xgetgr.c / xgetpw.c: one pass of the restart loop of xgetgrent / xgetpwnam
    def xstep(relfile, fn, lname, sysfn, growfn, outvar, defines=()):
        f = load_ast(ctx.repo, relfile, fn, defines)
        stmts = stmts_of(body_of(f))
        li = [j for j, s_ in enumerate(stmts) if s_["kind"] == "LabelStmt" and s_["name"] == "restart"]
        if not li:
            raise KError("no label restart in %s" % fn)
        frag = list(stmts[li[0]].get("inner", [])) + stmts[li[0] + 1:]
        sp = dict(name=fn + ".step", inputs=[], outer_locals=["rv", outvar, "got_eof", "got_err", "got_none"],
                  exits={"goto restart": 100},
                  calls={sysfn: ("setret", -1, outvar, "rv", (32, True), "errnoV"), growfn: ("input", "growrv", (32, True), True),
                         "log_errno": ("ignore",), "log_msg": ("ignore",)})
        tr = FragTranslator(sp, vals, types, label_names(f))
        term = tr.translate_fragment(frag)
        return emit(ctx, tr, lname, "one pass of the restart loop of `%s` in %s%s (ret 100 = goto restart)" % (
            fn, relfile, " with -D" + defines[0] if defines else ""), term, ["rv", outvar, "errnoV", "growrv"])
    attempt("xgetgrent (src/common/xgetgr.c): classification of getgrent_r results",
            lambda: xstep("src/common/xgetgr.c", "xgetgrent", "xgetgrent_step", "getgrent_r", "_xgetgrbuf_grow", "rv_grp"))
    attempt("xgetgrent built with HAVE_GETGRENT_R_ERANGE_BROKEN: classification of getgrent_r results",
            lambda: xstep("src/common/xgetgr.c", "xgetgrent", "xgetgrent_step_eb", "getgrent_r", "_xgetgrbuf_grow", "rv_grp",
                          defines=("HAVE_GETGRENT_R_ERANGE_BROKEN=1",)))
    attempt("xgetpwnam (src/common/xgetpw.c): classification of getpwnam_r results",
            lambda: xstep("src/common/xgetpw.c", "xgetpwnam", "xgetpwnam_step", "getpwnam_r", "_xgetpwbuf_grow", "rv_pwp"))
    return "".join(out), ok, asts


# ---------------------------------------------------------------- atomicity certificates

SHARED = ("gid_hash", "t_last_update", "do_group_stat", "timer", "interval_secs", "ghost_hash")


class Paths:
    """Acyclic control-flow paths of a function as event lists.  A loop body is taken 0 or 1 times."""
    def __init__(self, fdecl, gidsvar="gids"):
        self.g = gidsvar
        self.ptrlocals = set()
        for n in walk(fdecl):
            if n["kind"] == "VarDecl":
                q = n.get("type", {}).get("desugaredQualType") or n.get("type", {}).get("qualType") or ""
                if q.endswith("*") and ("gid_node" in q or "gid_head" in q):
                    self.ptrlocals.add(n["name"])
        self.labels = {}
        self.limit = 4000

    def is_gids(self, n):
        n = strip(n)
        return n.get("kind") == "DeclRefExpr" and n["referencedDecl"].get("name") == self.g

    def expr(self, n, write=False):
        """events of evaluating expression n (single path: && || ?: are treated as evaluating everything)"""
        k = n.get("kind")
        if k is None:
            return []
        if k == "CallExpr":
            fn = callee_name(n)
            if fn in ("pthread_mutex_lock", "pthread_mutex_unlock"):
                a = strip(n["inner"][1])
                if a.get("kind") == "UnaryOperator":
                    a = strip(a["inner"][0])
                if a.get("kind") == "MemberExpr" and a.get("name") == "mutex" and self.is_gids(a["inner"][0]):
                    return [("lock" if fn.endswith("_lock") else "unlock", "")]
                return [("otherlock", fn)]
            ev = []
            for a in n["inner"][1:]:
                ev += self.expr(a)
            if fn in ("free",) and any(self.is_gids(a) for a in n["inner"][1:]):
                ev.append(("free", "gids"))
            return ev
        if k == "MemberExpr":
            if n.get("isArrow") and self.is_gids(n["inner"][0]):
                if n["name"] == "mutex":
                    return []
                return [("write" if write else "read", n["name"])]
            if n.get("isArrow"):
                b = strip(n["inner"][0])
                if b.get("kind") == "DeclRefExpr" and b["referencedDecl"].get("name") in self.ptrlocals:
                    return [("node", n["name"])]
            ev = []
            for c in n.get("inner", []):
                ev += self.expr(c)
            return ev
        if k in ("BinaryOperator", "CompoundAssignOperator") and (n.get("opcode") == "=" or k == "CompoundAssignOperator"):
            return self.expr(n["inner"][1]) + self.expr(n["inner"][0], write=True)
        if k in ("ParenExpr", "ImplicitCastExpr", "CStyleCastExpr"):
            return self.expr(n["inner"][0], write=write)
        ev = []
        for c in n.get("inner", []) or []:
            ev += self.expr(c)
        return ev

    def seq(self, stmts, after):
        """paths of executing stmts then `after()` (a thunk returning the paths of the continuation)"""
        if not stmts:
            return after()
        s, rest = stmts[0], stmts[1:]
        k = s.get("kind")
        cont = lambda: self.seq(rest, after)
        if k == "CompoundStmt":
            return self.seq(list(s.get("inner", [])) + rest, after)
        if k == "ReturnStmt":
            ev = self.expr(s["inner"][0]) if s.get("inner") else []
            return {tuple(ev + [("ret", "")])}
        if k == "IfStmt":
            c = self.expr(s["inner"][0])
            th = self.seq([s["inner"][1]], cont)
            el = self.seq([s["inner"][2]], cont) if len(s["inner"]) > 2 else cont()
            return self.pre(c, th | el)
        if k in ("ForStmt", "WhileStmt"):
            if k == "ForStmt":
                init, cond, inc, body = s["inner"][0], s["inner"][2], s["inner"][3], s["inner"][4]
            else:
                init, cond, inc, body = {}, s["inner"][0], {}, s["inner"][1]
            c = self.expr(cond)
            self.loop_exit = cont
            once = self.seq([body], lambda: self.pre(self.expr(inc) + c, cont()))
            return self.pre(self.expr(init) + c, cont() | once)
        if k == "BreakStmt":
            return self.loop_exit()
        if k == "ContinueStmt":
            return self.loop_exit()
        if k == "GotoStmt":
            tgt = self.labels.get(s["targetLabelDeclId"])
            if tgt is None:
                raise KError("goto to unknown label")
            return tgt()
        if k == "LabelStmt":
            return self.seq(list(s.get("inner", [])) + rest, after)
        if k == "DeclStmt":
            ev = []
            for d in s.get("inner", []):
                for c in d.get("inner", []) or []:
                    ev += self.expr(c)
            return self.pre(ev, cont())
        if k in ("SwitchStmt", "DoStmt"):
            raise KError("unsupported statement %s in an atomicity certificate" % k)
        return self.pre(self.expr(s), cont())

    def pre(self, ev, paths):
        r = {tuple(ev) + p for p in paths}
        if len(r) > self.limit:
            raise KError("too many paths")
        return r

    def run(self, fdecl):
        body = body_of(fdecl)
        return sorted(self.seq(list(body.get("inner", [])), lambda: {(("ret", ""),)}))


def lean_paths(name, paths, doc):
    def ev(e):
        k, a = e
        if k in ("lock", "unlock", "ret"):
            return ".%s" % k
        return '.%s "%s"' % (k, a)
    rows = ["  [" + ", ".join(ev(e) for e in p) + "]" for p in paths]
    return "/-- %s -/\ndef %s : List (List Ev) := [\n%s]\n\n" % (doc, name, ",\n".join(rows))


def certificates(ctx, asts):
    out = ("/-- abstract events of the atomicity certificates: lock / unlock of `gids->mutex`, read / write of a field of\n"
           "    `*gids`, access to a node of the installed map through a local pointer, return -/\n"
           "inductive Ev where\n  | lock | unlock | ret\n  | read (f : String) | write (f : String) | node (f : String)\n"
           "  | otherlock (f : String) | free (f : String)\nderiving DecidableEq, Repr\n\n")
    ok = True
    for fn, lname in (("gids_is_member", "paths_is_member"), ("_gids_map_update", "paths_map_update"),
                      ("gids_update", "paths_gids_update"), ("gids_destroy", "paths_gids_destroy")):
        try:
            ps = Paths(asts[fn]).run(asts[fn])
            out += lean_paths(lname, ps, "acyclic control-flow paths of `%s` (loop bodies taken 0 or 1 times)" % fn)
            ctx.obligation("gen", "atomicity certificate data for %s (%d paths)" % (fn, len(ps)), True)
        except (KError, KeyError, IndexError, TypeError) as e:
            ctx.obligation("gen", "atomicity certificate data for %s" % fn, False, "%s: %s" % (type(e).__name__, e))
            ok = False
    return out, ok


# ---------------------------------------------------------------- entry

def generate(ctx):
    out = run_probe(ctx, "gids", PROBE, libs=[os.path.join(ctx.repo, "src/munged/hash.c"), "-lpthread"], gc=True)
    if out is None:
        return False
    kv = {}
    for line in out.strip().split("\n"):
        p = line.split()
        kv[p[0]] = p[1:]
    need = ["UID_SENTINEL", "GID_SENTINEL", "GHOST_HASH_SIZE", "GID_HASH_SIZE", "UID_HASH_SIZE", "ENOENT", "ESRCH", "EINTR", "ERANGE", "EIO",
            "EMFILE", "ENFILE", "EINVAL", "ENOMEM", "EACCES", "MINIMUM_GR_BUF_SIZE", "MINIMUM_PW_BUF_SIZE", "GR_SYS_SIZE", "PW_SYS_SIZE",
            "SIZEOF_UID", "SIZEOF_GID", "SIZEOF_TIME", "ERANGE_BROKEN"]
    okp = all(k in kv and len(kv[k]) == 1 for k in need) and "NAMECOLL" in kv
    ctx.obligation("gen", "gids constants extracted (probe #includes gids.c, xgetgr.c, xgetpw.c)", okp, out[:400])
    if not okp:
        return False
    ctx.gids_consts = {k: int(kv[k][0]) for k in need}
    ctx.gids_consts["NAMECOLL"] = kv["NAMECOLL"]
    kern, okk, asts = translate_all(ctx)
    if kern is None:
        return False
    cert, okc = certificates(ctx, asts)
    body = "/- GENERATED from <repo>/%s (+ xgetgr.c, xgetpw.c, common.h) by tools/gen/g_gids.py -- do not edit -/\n" % GIDS
    body += "import Munge.C.Kernel\nset_option linter.unusedVariables false\nnamespace Munge.Gen.Gids\nopen Munge.C\n\n"
    for k in need:
        body += "def %s : Int := %s\n" % (k, kv[k][0])
    body += "\n/-- return codes of the translated loop fragments -/\n"
    body += "def K_BREAK : Int := %d\ndef K_CONTINUE : Int := %d\ndef K_RESTART : Int := %d\ndef K_ERR : Int := %d\ndef K_FALL : Int := %d\n\n" % (
        BREAK, CONTINUE, RESTART, ERR, FALL)
    body += kern
    body += cert
    body += "end Munge.Gen.Gids\n"
    if okk and okc:
        gen_write("Gids", body)
    else:
        # keep the previous Gen file (so that unrelated modules still build) but leave the evidence of what was produced
        with open(os.path.join(ctx.work, "Gids.lean.partial"), "w") as f:
            f.write(body)
    return okp and okk and okc
