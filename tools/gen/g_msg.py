"""Gen.Msg: `m_msg_recv` of src/libcommon/m_msg.c translated by the K translator (reads, the two `_msg_unpack` calls, `malloc` and `free`
are events; what they return, what the header unpack stores into `m->type` / `m->pkt_len`, and `errno` after each read are inputs):
the order of the receive-side checks - complete header, expected type, LENGTH GATE, allocation, complete body, body unpack."""
from .ktrans import translate_kernels
from .kcursor import CursorTranslator
from ..vlib.leanlib import gen_write

I32 = (32, True)


def specs():
    return [
        dict(name="m_msg_recv", named_free=True, slim_rets=True, params=["type", "maxlen"],
             inputs=[("m.sd", "sd"), ("malloc_ret", "malloc_ret")],
             calls={"m_msg_set_err": ("event", 0, [1]), "strdup": ("ignore", 1), "strdupf": ("ignore", 1), "strerror": ("ignore", 1),
                    "log_msg": ("ignore", 0), "_get_timeval": ("ignore", 0),
                    "fd_timed_read_n": ("outinput", "r_read", I32, {}, [2], [{"errno": ("errno_hdr", I32)}, {"errno": ("errno_body", I32)}]),
                    "_msg_unpack": ("outinput", "r_unpack", (32, False), {}, [1, 3],
                                    [{"m.type": ("hdr_type", (8, False)), "m.pkt_len": ("hdr_pkt_len", (32, False))}, {}])}),
        dict(name="m_msg_send", named_free=True, slim_rets=True, params=["type", "maxlen"],
             inputs=[("m.sd", "sd"), ("m.type", "cur_type"), ("m.pkt", "pkt_ptr"), ("m.pkt_len", "cur_pkt_len"), ("m.pkt_is_copy", "pkt_is_copy"),
                     ("malloc_ret", "malloc_ret")],
             calls={"m_msg_set_err": ("event", 0, [1]), "strdup": ("ignore", 1), "strdupf": ("ignore", 1), "strerror": ("ignore", 1),
                    "log_msg": ("ignore", 0), "_get_timeval": ("ignore", 0),
                    "_msg_length": ("outinput", "r_length", I32, {}, [1]),
                    "_msg_pack": ("outinput", "r_pack", (32, False), {}, [1, 3]),
                    "fd_timed_write_iov": ("outinput", "r_write", I32, {}, [2], [{"errno": ("errno_write", I32)}])}),
    ]


def generate(ctx):
    d = translate_kernels(ctx, "src/libcommon/m_msg.c", specs(), cls=CursorTranslator)
    if d is None:
        return False
    body = "/- GENERATED from <repo>/src/libcommon/m_msg.c by tools/gen/g_msg.py (K translator) -- do not edit -/\n"
    body += "import Munge.C.Kernel\nimport Munge.C.Cursor\nset_option linter.unusedVariables false\nnamespace Munge.Gen.Msg\nopen Munge.C\n\n"
    body += d + "\nend Munge.Gen.Msg\n"
    gen_write("Msg", body)
    return True
