"""Gen.Work: what the `Work` model (C12) takes from src/munged/work.c and the tail of job_accept() in job.c.

Extracted from clang-14's JSON AST on every run:
  * the loop condition guarding pthread_cond_wait(&wp->finished_work, ..) in work_wait and in work_fini, the
    condition under which _work_exec signals finished_work, the loop condition guarding the worker's wait on
    received_work, and the idle-worker test of work_queue -- as Lean Bool terms over (nWorkers nWorking : Int)
    and (qne : Bool := "wp->work_head != NULL"), keeping the &&, ||, !, ==, != ... structure of the C;
  * the guard under which work_fini enters its wait loop (`if (do_wait)`);
  * the order of the events lock / unlock / testcancel / cond_wait / setcancelstate(DISABLE|restore|ENABLE) /
    dequeue / n_working++ / work_func call / n_working-- / cond_signal in _work_exec (before the for(;;) loop and
    inside it), and the corresponding event lists of work_queue, work_wait, work_fini, _work_exec_cleanup;
  * the do_wait argument of the work_fini call that ends job_accept, and that it follows the accept loop.
Anything not understood is a failed obligation, never a default."""
from . import ktrans
from ..vlib.leanlib import gen_write

FILE = "src/munged/work.c"
IGNORED_CALLS = {"log_errno", "log_msg", "log_err", "__errno_location", "__assert_fail", "strerror", "free",
                 "__builtin_expect", "__sigsetjmp", "__pthread_register_cancel", "__pthread_unregister_cancel",
                 "__pthread_unwind_next", "__cancel_routine", "sigfillset", "pthread_sigmask", "malloc",
                 "pthread_cond_destroy", "pthread_mutex_destroy"}
EVS = ["lock", "unlock", "testcancel", "waitRecv", "waitFinished", "disable", "restore", "enable", "dequeue",
       "enqueue", "incWorking", "decWorking", "call", "signalFinished", "signalRecv", "cleanupPush", "setFini",
       "testFini", "idleTest", "cancel", "join", "other"]


class GErr(Exception):
    pass


def strip(n):
    while n.get("kind") in ("ImplicitCastExpr", "ParenExpr") and n.get("inner"):
        n = n["inner"][0]
    return n


def kids(n):
    return [c for c in n.get("inner", []) if c.get("kind")]


def is_null(n):
    n = strip(n)
    if n.get("kind") == "CStyleCastExpr" and n.get("castKind") == "NullToPointer":
        return True
    if n.get("kind") == "ImplicitCastExpr" and n.get("castKind") == "NullToPointer":
        return True
    return False


def _null(n):
    # NULL is ((void *)0), possibly under BitCast / NullToPointer implicit casts
    while n.get("kind") in ("ImplicitCastExpr", "ParenExpr", "CStyleCastExpr") and n.get("inner"):
        if n.get("castKind") == "NullToPointer":
            return True
        n = n["inner"][0]
    return False


def member(n):
    n = strip(n)
    if n.get("kind") == "MemberExpr":
        b = strip(n["inner"][0])
        if b.get("kind") == "DeclRefExpr":
            return n.get("name")
    return None


def callee(n):
    """name of the function called by CallExpr n, or ('member', field) for a call through wp->field"""
    f = strip(n["inner"][0])
    if f.get("kind") == "DeclRefExpr":
        return f["referencedDecl"]["name"]
    if f.get("kind") == "MemberExpr":
        return ("member", f.get("name"))
    return None


# ---------------------------------------------------------------- predicates

def tr(n):
    """-> (kind, leanTerm) with kind in int | bool | ptr ; ptr terms are Bool 'is non-NULL'"""
    if _null(n):
        return ("null", None)
    n = strip(n)
    k = n.get("kind")
    if k == "IntegerLiteral":
        return ("int", "(%s : Int)" % n["value"])
    if k == "MemberExpr":
        m = member(n)
        if m == "n_working":
            return ("int", "nWorking")
        if m == "n_workers":
            return ("int", "nWorkers")
        if m in ("work_head", "work_tail"):
            return ("ptr", "qne")
        raise GErr("unsupported member %s in a wait/signal predicate" % m)
    if k == "UnaryOperator" and n.get("opcode") == "!":
        return ("bool", "(!%s)" % tobool(n["inner"][0]))
    if k == "BinaryOperator":
        op = n["opcode"]
        a, b = n["inner"]
        if op in ("&&", "||"):
            return ("bool", "(%s %s %s)" % (tobool(a), op, tobool(b)))
        if op in ("==", "!=", "<", ">", "<=", ">="):
            ka, ta = tr(a)
            kb, tb = tr(b)
            if ka == "ptr" and kb == "null" or ka == "null" and kb == "ptr":
                t = ta if ka == "ptr" else tb
                if op == "!=":
                    return ("bool", t)
                if op == "==":
                    return ("bool", "(!%s)" % t)
                raise GErr("ordering comparison of a pointer with NULL")
            if ka == "int" and kb == "int":
                lop = {"==": "=", "!=": "≠", "<": "<", ">": ">", "<=": "≤", ">=": "≥"}[op]
                return ("bool", "decide (%s %s %s)" % (ta, lop, tb))
            raise GErr("unsupported comparison %s between %s and %s" % (op, ka, kb))
        if op in ("+", "-"):
            ka, ta = tr(a)
            kb, tb = tr(b)
            if ka == "int" and kb == "int":
                return ("int", "(%s %s %s)" % (ta, op, tb))
        raise GErr("unsupported operator %s in a predicate" % op)
    raise GErr("unsupported expression kind %s in a predicate" % k)


def tobool(n):
    k, t = tr(n)
    if k == "bool":
        return t
    if k == "ptr":
        return t
    if k == "int":
        return "decide (%s ≠ 0)" % t
    raise GErr("NULL used as a truth value")


def c_text(src, n):
    r = n.get("range", {})
    b = r.get("begin", {}).get("offset")
    e = r.get("end", {})
    if b is None or e.get("offset") is None:
        return "?"
    return " ".join(src[b:e["offset"] + e.get("tokLen", 1)].split())


# ---------------------------------------------------------------- events

def cond_of_call(n):
    """which condition variable / mutex a pthread call names: field of wp"""
    a = strip(n["inner"][1])
    if a.get("kind") == "UnaryOperator" and a.get("opcode") == "&":
        return member(a["inner"][0])
    return None


class Walker:
    """source-order walk collecting events; remembers for each event the stack of enclosing statements"""
    def __init__(self):
        self.events = []          # (name, node, ancestors)

    def walk(self, n, anc):
        k = n.get("kind")
        if not k:
            return
        if k == "CallExpr":
            # arguments first (evaluation happens before the call)
            for c in kids(n)[1:]:
                self.walk(c, anc + [n])
            ev = self.call_event(n)
            if ev:
                self.events.append((ev, n, anc))
            return
        if k == "UnaryOperator" and n.get("opcode") in ("++", "--") and member(n["inner"][0]) == "n_working":
            self.events.append(("incWorking" if n["opcode"] == "++" else "decWorking", n, anc))
            return
        if k in ("BinaryOperator", "CompoundAssignOperator") and n.get("opcode", "").endswith("=") and \
                n.get("opcode") not in ("==", "!=", "<=", ">="):
            lhs = member(n["inner"][0])
            self.walk(n["inner"][1], anc + [n])
            if lhs == "n_working":
                self.events.append(("other", n, anc))
            if lhs == "got_fini":
                self.events.append(("setFini", n, anc))
            return
        if k == "MemberExpr" and member(n) == "got_fini":
            self.events.append(("testFini", n, anc))
            return
        if k == "DeclRefExpr" and n.get("referencedDecl", {}).get("name") == "_work_exec_cleanup":
            self.events.append(("cleanupPush", n, anc))
            return
        for c in kids(n):
            self.walk(c, anc + [n])

    def call_event(self, n):
        f = callee(n)
        if isinstance(f, tuple):
            return "call" if f[1] == "work_func" else "other"
        if f in IGNORED_CALLS:
            return None
        if f == "pthread_mutex_lock":
            return "lock" if cond_of_call(n) == "lock" else "other"
        if f == "pthread_mutex_unlock":
            return "unlock" if cond_of_call(n) == "lock" else "other"
        if f == "pthread_testcancel":
            return "testcancel"
        if f == "pthread_cond_wait":
            c = cond_of_call(n)
            return {"received_work": "waitRecv", "finished_work": "waitFinished"}.get(c, "other")
        if f in ("pthread_cond_signal", "pthread_cond_broadcast"):
            c = cond_of_call(n)
            if f == "pthread_cond_broadcast":
                return "other"
            return {"received_work": "signalRecv", "finished_work": "signalFinished"}.get(c, "other")
        if f == "pthread_setcancelstate":
            a = strip(n["inner"][1])
            if a.get("kind") == "DeclRefExpr":
                nm = a["referencedDecl"]["name"]
                if nm == "PTHREAD_CANCEL_DISABLE":
                    return "disable"
                if nm == "PTHREAD_CANCEL_ENABLE":
                    return "enable"
                return "restore"
            return "other"
        if f == "_work_dequeue":
            return "dequeue"
        if f == "_work_enqueue":
            return "enqueue"
        if f == "pthread_cancel":
            return "cancel"
        if f == "pthread_join":
            return "join"
        return "other"


def find(n, kind):
    if n.get("kind") == kind:
        yield n
    for c in n.get("inner", []):
        yield from find(c, kind)


def body_of(d):
    return [c for c in d["inner"] if c.get("kind") == "CompoundStmt"][0]


def enclosing(anc, kind):
    for a in reversed(anc):
        if a.get("kind") == kind:
            return a
    return None


def generate(ctx):
    repo = ctx.repo
    src = open("%s/%s" % (repo, FILE), errors="replace").read()
    items = {}
    notes = {}

    def item(name, fn):
        try:
            items[name] = fn()
            ctx.obligation("gen", "work.c: " + name, True)
        except (GErr, ktrans.KError, KeyError, IndexError, TypeError) as e:
            items[name] = None
            ctx.obligation("gen", "work.c: " + name, False, "%s: %s" % (type(e).__name__, e))

    asts = {}

    def ast(fn, file=FILE):
        if (file, fn) not in asts:
            asts[(file, fn)] = ktrans.load_ast(repo, file, fn)
        return asts[(file, fn)]

    def events_of(fn):
        w = Walker()
        w.walk(body_of(ast(fn)), [])
        return w.events

    def wait_pred(fn):
        evs = [e for e in events_of(fn) if e[0] == "waitFinished"]
        if len(evs) != 1:
            raise GErr("%s: expected exactly one pthread_cond_wait(&wp->finished_work, ..), found %d" % (fn, len(evs)))
        wl = enclosing(evs[0][2], "WhileStmt")
        if wl is None:
            raise GErr("%s: the wait on finished_work is not inside a while loop" % fn)
        cond = kids(wl)[0]
        notes[fn + " wait loop"] = c_text(src, cond)
        return tobool(cond)

    item("loop condition guarding pthread_cond_wait(&wp->finished_work) in work_wait", lambda: wait_pred("work_wait"))
    item("loop condition guarding pthread_cond_wait(&wp->finished_work) in work_fini", lambda: wait_pred("work_fini"))

    def fini_guard():
        evs = [e for e in events_of("work_fini") if e[0] == "waitFinished"]
        wl = enclosing(evs[0][2], "WhileStmt")
        anc = evs[0][2][:evs[0][2].index(wl)]
        ifs = [a for a in anc if a.get("kind") == "IfStmt"]
        if not ifs:
            return "true"
        if len(ifs) == 1:
            c = strip(kids(ifs[0])[0])
            # the wait loop must be in the then-branch
            if kids(ifs[0])[1] in anc or kids(ifs[0])[1] is wl:
                if c.get("kind") == "DeclRefExpr" and c["referencedDecl"]["name"] == "do_wait":
                    return "doWait"
                if c.get("kind") == "BinaryOperator" and c.get("opcode") == "!=":
                    a, b = strip(c["inner"][0]), strip(c["inner"][1])
                    if a.get("kind") == "DeclRefExpr" and a["referencedDecl"]["name"] == "do_wait" and \
                            b.get("kind") == "IntegerLiteral" and b["value"] == "0":
                        return "doWait"
        raise GErr("work_fini: guard of the wait loop is not `if (do_wait)`")

    item("guard of the wait loop in work_fini", fini_guard)

    def signal_pred():
        evs = [e for e in events_of("_work_exec") if e[0] == "signalFinished"]
        if len(evs) != 1:
            raise GErr("_work_exec: expected exactly one pthread_cond_signal(&wp->finished_work), found %d" % len(evs))
        anc = evs[0][2]
        loop = enclosing(anc, "ForStmt")
        if loop is None:
            raise GErr("_work_exec: signal not inside the for(;;) loop")
        inner = anc[anc.index(loop) + 1:]
        ifs = [a for a in inner if a.get("kind") == "IfStmt" and not (kids(a)[0] in inner or kids(a)[0] is evs[0][1])]
        # `if ((errno = pthread_cond_signal(..)) != 0)` has the call in its condition: excluded above
        ifs = [a for a in ifs if not any(x is evs[0][1] for x in find(kids(a)[0], "CallExpr"))]
        if any(a.get("kind") in ("WhileStmt", "DoStmt", "SwitchStmt", "ConditionalOperator") for a in inner):
            raise GErr("_work_exec: signal nested in an unsupported statement")
        if not ifs:
            return "true"
        terms = []
        for a in ifs:
            thenb = kids(a)[1]
            if not (thenb in inner or any(x is evs[0][1] for x in find(thenb, "CallExpr"))):
                raise GErr("_work_exec: signal in an else branch")
            terms.append(tobool(kids(a)[0]))
            notes.setdefault("_work_exec signal condition", []).append(c_text(src, kids(a)[0]))
        return " && ".join(terms) if len(terms) > 1 else terms[0]

    item("condition under which _work_exec signals finished_work", signal_pred)

    def recv_wait():
        evs = [e for e in events_of("_work_exec") if e[0] == "waitRecv"]
        if len(evs) != 1:
            raise GErr("_work_exec: expected exactly one pthread_cond_wait(&wp->received_work, ..), found %d" % len(evs))
        wl = enclosing(evs[0][2], "WhileStmt")
        if wl is None:
            raise GErr("_work_exec: wait on received_work is not in a while loop")
        notes["_work_exec wait loop"] = c_text(src, kids(wl)[0])
        return tobool(kids(wl)[0])

    item("loop condition guarding the worker's pthread_cond_wait(&wp->received_work)", recv_wait)

    def idle_test():
        evs = events_of("work_queue")
        sig = [e for e in evs if e[0] == "signalRecv"]
        if len(sig) != 1:
            raise GErr("work_queue: expected exactly one pthread_cond_signal(&wp->received_work)")
        # the signal is guarded by `if (do_signal)`; do_signal is set in the else-if chain under the idle test
        fn = body_of(ast("work_queue"))
        sets = [n for n in find(fn, "BinaryOperator") if n.get("opcode") == "=" and
                strip(n["inner"][0]).get("kind") == "DeclRefExpr" and
                strip(n["inner"][0])["referencedDecl"]["name"] == "do_signal"]
        guard = [a for a in sig[0][2] if a.get("kind") == "IfStmt" and
                 strip(kids(a)[0]).get("kind") == "DeclRefExpr" and
                 strip(kids(a)[0])["referencedDecl"]["name"] == "do_signal"]
        if len(sets) == 1 and guard:
            w = Walker()
            w.walk(fn, [])
            # locate the IfStmt whose then-branch holds the assignment
            for i in find(fn, "IfStmt"):
                k = kids(i)
                if len(k) >= 2 and any(x is sets[0] for x in find(k[1], "BinaryOperator")) and \
                        not any(any(x is sets[0] for x in find(kids(j)[1], "BinaryOperator"))
                                for j in find(k[1], "IfStmt")):
                    notes["work_queue idle test"] = c_text(src, k[0])
                    return tobool(k[0])
            raise GErr("work_queue: no if statement sets do_signal")
        if not sets and not guard:
            # signal issued directly: find enclosing if
            ifs = [a for a in sig[0][2] if a.get("kind") == "IfStmt" and
                   not any(x is sig[0][1] for x in find(kids(a)[0], "CallExpr"))]
            if not ifs:
                return "true"
            if len(ifs) == 1 and not any(_has_call(kids(ifs[0])[0])):
                return tobool(kids(ifs[0])[0])
        raise GErr("work_queue: shape of the do_signal logic not recognised")

    def _has_call(n):
        return list(find(n, "CallExpr"))

    item("idle-worker test of work_queue", idle_test)

    def ev_names(fn, split_loop=False):
        evs = events_of(fn)
        if not split_loop:
            return [e[0] for e in evs]
        pre, loop, post = [], [], []
        seen_loop = False
        for e in evs:
            if enclosing(e[2], "ForStmt") is not None:
                loop.append(e[0]); seen_loop = True
            elif seen_loop:
                post.append(e[0])
            else:
                pre.append(e[0])
        fors = list(find(body_of(ast(fn)), "ForStmt"))
        if len(fors) != 1:
            raise GErr("%s: expected exactly one for(;;) loop, found %d" % (fn, len(fors)))
        if any(kids(fors[0])[:-1]):
            raise GErr("%s: the worker loop is not for(;;)" % fn)
        if list(find(fors[0], "BreakStmt")) or list(find(fors[0], "ReturnStmt")) or list(find(fors[0], "GotoStmt")) \
                or list(find(fors[0], "ContinueStmt")):
            raise GErr("%s: break/return/goto/continue inside the worker loop" % fn)
        return pre, loop, post

    item("event order in _work_exec (before and inside the for(;;) loop)", lambda: ev_names("_work_exec", True))
    item("event order in _work_exec_cleanup", lambda: ev_names("_work_exec_cleanup"))
    item("event order in work_queue", lambda: ev_names("work_queue"))
    item("event order in work_wait", lambda: ev_names("work_wait"))
    item("event order in work_fini", lambda: ev_names("work_fini"))

    def job_tail():
        d = ast("job_accept", "src/munged/job.c")
        body = body_of(d)
        calls = []
        for c in find(body, "CallExpr"):
            f = callee(c)
            if isinstance(f, str) and f in ("work_init", "work_queue", "work_wait", "work_fini"):
                calls.append((f, c))
        names = [f for f, _ in calls]
        fin = [c for f, c in calls if f == "work_fini"]
        if len(fin) != 1:
            raise GErr("job_accept: expected exactly one work_fini call, found %d" % len(fin))
        loops = list(find(body, "WhileStmt"))
        inloop = lambda c: any(any(x is c for x in find(l, "CallExpr")) for l in loops)
        if inloop(fin[0]):
            raise GErr("job_accept: work_fini is called inside the accept loop")
        if not all(inloop(c) for f, c in calls if f in ("work_queue", "work_wait")):
            raise GErr("job_accept: work_queue/work_wait outside the accept loop")
        if names.index("work_fini") < max(i for i, f in enumerate(names) if f != "work_fini"):
            raise GErr("job_accept: work_fini does not come last")
        a = strip(fin[0]["inner"][2])
        if a.get("kind") != "IntegerLiteral":
            raise GErr("job_accept: do_wait argument of work_fini is not an integer literal")
        notes["job_accept stop call"] = c_text(src if False else open("%s/src/munged/job.c" % repo, errors="replace").read(), fin[0])
        return int(a["value"]) != 0

    item("job.c: job_accept ends with work_fini(w, <do_wait>) after the accept loop", job_tail)

    # ------------------------------------------------------------ emit
    def pred(name, doc, term):
        t = term if term is not None else "false /- NOT EXTRACTED -/"
        return "/-- %s -/\ndef %s (nWorkers nWorking : Int) (qne : Bool) : Bool :=\n  %s\n\n" % (doc, name, t)

    def evl(name, doc, l):
        l = l if l is not None else ["other"]
        return "/-- %s -/\ndef %s : List Ev := [%s]\n\n" % (doc, name, ", ".join("." + x for x in l))

    ex = items.get("event order in _work_exec (before and inside the for(;;) loop)") or (None, None, None)
    b = "/- GENERATED from <repo>/src/munged/work.c and job.c by tools/gen/g_work.py -- do not edit -/\n"
    b += "set_option linter.unusedVariables false\nnamespace Munge.Gen.Work\n\n"
    b += "/-- events of the lock-protected sections of work.c, in source order -/\ninductive Ev where\n"
    b += "".join("  | %s\n" % e for e in EVS) + "deriving DecidableEq, Repr\n\n"
    b += "/- `qne` stands for `wp->work_head != NULL` (queue non-empty); C source of each predicate:\n"
    for k, v in sorted(notes.items()):
        b += "     %s: %s\n" % (k, v if isinstance(v, str) else " ; ".join(v))
    b += "-/\n\n"
    b += pred("waitPredWait", "`while (..)` guarding `pthread_cond_wait (&wp->finished_work, ..)` in `work_wait`",
              items.get("loop condition guarding pthread_cond_wait(&wp->finished_work) in work_wait"))
    b += pred("waitPredFini", "`while (..)` guarding `pthread_cond_wait (&wp->finished_work, ..)` in `work_fini`",
              items.get("loop condition guarding pthread_cond_wait(&wp->finished_work) in work_fini"))
    b += pred("signalPred", "condition under which `_work_exec` signals `finished_work`",
              items.get("condition under which _work_exec signals finished_work"))
    b += pred("recvWaitPred", "`while (..)` guarding the worker's `pthread_cond_wait (&wp->received_work, ..)`",
              items.get("loop condition guarding the worker's pthread_cond_wait(&wp->received_work)"))
    b += pred("idleTest", "test under which `work_queue` signals `received_work` after enqueueing",
              items.get("idle-worker test of work_queue"))
    g = items.get("guard of the wait loop in work_fini")
    b += "/-- does `work_fini (wp, doWait)` enter its wait loop at all -/\ndef finiWaits (doWait : Bool) : Bool := %s\n\n" % (
        g if g else "false /- NOT EXTRACTED -/")
    b += evl("execPre", "`_work_exec` before the `for (;;)` loop", ex[0])
    b += evl("execLoop", "`_work_exec`: one iteration of the `for (;;)` loop", ex[1])
    b += evl("execPost", "`_work_exec` after the loop (not reached)", ex[2])
    b += evl("cleanupEvents", "`_work_exec_cleanup`", items.get("event order in _work_exec_cleanup"))
    b += evl("queueEvents", "`work_queue`", items.get("event order in work_queue"))
    b += evl("waitEvents", "`work_wait`", items.get("event order in work_wait"))
    b += evl("finiEvents", "`work_fini`", items.get("event order in work_fini"))
    j = items.get("job.c: job_accept ends with work_fini(w, <do_wait>) after the accept loop")
    b += "/-- `do_wait` argument of the `work_fini` call that ends `job_accept` -/\ndef jobStopDoWait : Bool := %s\n\n" % (
        "true" if j else "false")
    b += "end Munge.Gen.Work\n"
    gen_write("Work", b)
    ctx.cov.setdefault("generated", {})["Work"] = {k: (v if not isinstance(v, tuple) else list(v)) for k, v in items.items()}
    ctx.cov["generated"]["Work"]["c_source"] = notes
    ctx.gen_work = items
    return all(v is not None for v in items.values())
