"""Gen.Job: one trip of the accept loop of job_accept() (src/munged/job.c), translated by ktrans.

The `while (!got_terminate)` loop of job_accept is located in clang's AST; its body is cut out and translated as a
kernel `job_accept_iter` in which `continue` is `return 1` and reaching the end of the body is `return 0`.  The
variables that live across trips (last_log_errno, last_log_time, got_reconfig) are inputs and, where assigned, writes;
everything the body calls is either an input (accept, time, fd_set_nonblocking, m_msg_create, m_msg_bind, work_queue:
their results) and/or an event (work_wait, work_queue, close, m_msg_destroy, gids_update, log_errno; log_msg is dropped).  The
shape around the loop (work_init before, exactly one loop, `work_fini (w, 1)` after it) is checked by pattern.
Theorems over the kernel: lean/Munge/Props/C12.lean (acceptor part)."""
import copy, os
from .ktrans import Translator, KError, load_ast, indent, trange, lit, find_enums, probe_enums
from ..vlib.leanlib import gen_write

CONT, NEXT = 1, 0
I32, I64 = (32, True), (64, True)

SPEC = dict(
    name="job_accept_iter",
    inputs=[("got_reconfig", "got_reconfig"), ("errno", "errno"), ("last_log_errno", "last_log_errno"), ("last_log_time", "last_log_time")],
    types={"got_reconfig": I32, "errno": I32, "last_log_errno": I32, "last_log_time": I64},
    calls={
        "accept": ("input", "r_accept", I32, True),
        "time": ("input", "r_time", I64),
        "fd_set_nonblocking": ("input", "r_nonblock", I32),
        "m_msg_create": ("input", "r_create", I32, True),
        "m_msg_bind": ("input", "r_bind", I32),
        "work_queue": ("input", "r_queue", I32, True),
        "work_wait": ("event", 0, []),
        "close": ("event", 0, [0]),
        "m_msg_destroy": ("event", 0, []),
        "gids_update": ("event", 0, []),
        "log_msg": ("ignore", 0),
        "log_errno": ("event", 0, []),
        "strerror": ("ignore", 1), "strsignal": ("ignore", 1),
    })


class Miss(Exception):
    pass


def ret_lit(v):
    return {"kind": "ReturnStmt", "inner": [{"kind": "IntegerLiteral", "value": str(v), "type": {"qualType": "int"}}]}


def rewrite(n, in_switch=False):
    k = n.get("kind")
    if k == "ContinueStmt":
        return ret_lit(CONT)
    if k == "BreakStmt" and not in_switch:
        raise Miss("a `break` out of the accept loop")
    if k in ("ReturnStmt", "GotoStmt"):
        raise Miss("a `%s` inside the accept loop" % k)
    if k in ("WhileStmt", "ForStmt", "DoStmt"):
        raise Miss("a nested loop inside the accept loop")
    m = dict(n)
    if "inner" in n:
        m["inner"] = [rewrite(c, in_switch or k == "SwitchStmt") if isinstance(c, dict) and c.get("kind") else c for c in n["inner"]]
    return m


def callee_name(n):
    if n.get("kind") != "CallExpr":
        return None
    f = n["inner"][0]
    while f.get("kind") in ("ImplicitCastExpr", "ParenExpr"):
        f = f["inner"][0]
    return f.get("referencedDecl", {}).get("name")


def calls_in(n, acc):
    if isinstance(n, dict):
        c = callee_name(n)
        if c:
            acc.append(c)
        for x in n.get("inner", []):
            calls_in(x, acc)
    return acc


def extract(ctx):
    fd = load_ast(ctx.repo, "src/munged/job.c", "job_accept")
    body = [c for c in fd["inner"] if c.get("kind") == "CompoundStmt"][0]
    top = [c for c in body.get("inner", []) if isinstance(c, dict)]
    loops = [i for i, c in enumerate(top) if c.get("kind") in ("WhileStmt", "ForStmt", "DoStmt")]
    if len(loops) != 1 or top[loops[0]]["kind"] != "WhileStmt":
        raise Miss("job_accept: expected exactly one top-level while loop, found %d loop(s)" % len(loops))
    w = top[loops[0]]
    cond, wbody = w["inner"][0], w["inner"][1]
    # the loop condition is `!got_terminate`
    c = cond
    while c.get("kind") in ("ParenExpr", "ImplicitCastExpr"):
        c = c["inner"][0]
    ok = c.get("kind") == "UnaryOperator" and c.get("opcode") == "!"
    if ok:
        d = c["inner"][0]
        while d.get("kind") in ("ParenExpr", "ImplicitCastExpr"):
            d = d["inner"][0]
        ok = d.get("referencedDecl", {}).get("name") == "got_terminate"
    if not ok:
        raise Miss("job_accept: the loop condition is not `!got_terminate`")
    before = calls_in({"inner": top[:loops[0]]}, [])
    after = calls_in({"inner": top[loops[0] + 1:]}, [])
    if "work_init" not in before or any(x.startswith("work_") and x != "work_init" for x in before):
        raise Miss("job_accept: work_init is not the only work_* call before the loop (%s)" % before)
    if [x for x in after if x.startswith("work_")] != ["work_fini"]:
        raise Miss("job_accept: after the loop the work_* calls are %s, expected exactly work_fini" % [x for x in after if x.startswith("work_")])
    stmts = [rewrite(s) for s in wbody.get("inner", [])] if wbody.get("kind") == "CompoundStmt" else [rewrite(wbody)]
    stmts.append(ret_lit(NEXT))
    # locals declared at function level that the body uses within one trip only
    decls = [c for c in top[:loops[0]] if c.get("kind") == "DeclStmt"]
    keep = []
    for dcl in decls:
        for v in dcl.get("inner", []):
            if v.get("kind") == "VarDecl" and v.get("name") in ("sd", "curr_errno", "curr_time"):
                v2 = {k: x for k, x in v.items() if k != "inner"}      # without initialiser
                keep.append({"kind": "DeclStmt", "inner": [v2]})
    synth = {"kind": "FunctionDecl", "name": "job_accept_iter", "inner": [{"kind": "CompoundStmt", "inner": keep + stmts}]}
    return synth


def generate(ctx):
    try:
        fdecl = extract(ctx)
        names, etypes = set(), set()
        find_enums(fdecl, names, etypes)
        vals, types = probe_enums(ctx, "src/munged/job.c", names, etypes)
        if vals is None:
            raise Miss("enum constants of job.c could not be probed")
        tr = Translator(SPEC, vals, types)
        term = tr.translate(fdecl)
    except (Miss, KError) as e:
        ctx.obligation("gen", "job_accept (src/munged/job.c): accept-loop body translated (subset K)", False, str(e))
        return False
    seen = []
    for nm in [nm for (_, nm) in SPEC["inputs"]] + [h[1] for h in SPEC["calls"].values() if h[0] == "input"] + tr.used_inputs:
        if nm not in seen:
            seen.append(nm)
    rng = []
    for nm in seen:
        t = tr.input_types.get(nm) or SPEC["types"].get(nm)
        if t and t != "ptr":
            lo, hi = trange(t)
            rng.append("%s ≤ %s ∧ %s ≤ %s" % (lit(lo).s, nm, nm, hi))
    sig = " ".join("(%s : Int)" % nm for nm in seen)
    body = "/- GENERATED from <repo>/src/munged/job.c by tools/gen/g_job.py -- do not edit -/\n"
    body += "import Munge.C.Kernel\nset_option linter.unusedVariables false\nnamespace Munge.Gen.Job\nopen Munge.C\n\n"
    body += "/-- loop-control codes returned by `job_accept_iter`: the trip ended in `continue` / ran to the end of the body -/\n"
    body += "def CONT : Int := %d\ndef NEXT : Int := %d\n\n" % (CONT, NEXT)
    body += "/-- one trip of `while (!got_terminate) { … }` in job_accept; inputs: the variables that live across trips and the\n"
    body += "    results of the calls the body makes; events: the calls, in order -/\n"
    body += "def job_accept_iter %s : KOut :=\n%s\n\n" % (sig, indent(term))
    body += "def job_accept_iter_inRange %s : Prop :=\n  %s\n\n" % (sig, " ∧ ".join(rng) if rng else "True")
    body += "end Munge.Gen.Job\n"
    gen_write("Job", body)
    ctx.obligation("gen", "job_accept (src/munged/job.c): accept-loop body translated (subset K)", True)
    return True
