"""K translator: loop-free C functions -> Lean definitions, from clang-14's typed
JSON AST (every implicit conversion is explicit there).

Subset K: locals, assignments (also compound, ++/--) to locals and to member
paths (m->f, c->msg->f, conf->f), if/else, switch, return, forward goto, ?:,
&& || !, arithmetic / bitwise / comparison, integral casts, enum constants,
errno, and calls to functions named in the kernel's `calls` table.  Anything
else raises KError -- never skipped silently.

C integer semantics: every value is an Int; an operation at C type T is followed
by wrapT unless interval analysis (from the declared C types of the inputs)
shows the result already fits.  The emitted `<kernel>_inRange` predicate states
the assumed ranges of the inputs.

Output per kernel:
  def <name> (inputs.. : Int) (oracles..) : KOut
where KOut = { ret : Int, writes : List (String x Int), events : List (String x List Int) }.
"""
import json, os, re
from ..vlib.core import sh
from ..vlib.cbuild import cflags
from .probe import run_probe


class KError(Exception):
    pass


INT_TYPES = {
    "char": (8, True), "signed char": (8, True), "unsigned char": (8, False),
    "short": (16, True), "unsigned short": (16, False),
    "int": (32, True), "unsigned int": (32, False),
    "long": (64, True), "unsigned long": (64, False),
    "long long": (64, True), "unsigned long long": (64, False),
    "_Bool": (8, False),
}


def trange(t):
    bits, signed = t
    return (-(1 << (bits - 1)), (1 << (bits - 1)) - 1) if signed else (0, (1 << bits) - 1)


def wrapname(t):
    return "wrap%s%d" % ("S" if t[1] else "U", t[0])


class E:
    """Lean Int term with a conservative interval."""
    def __init__(self, s, lo, hi, atom=False):
        self.s, self.lo, self.hi, self.atom = s, lo, hi, atom
    def p(self):
        return self.s if self.atom else "(" + self.s + ")"


def lit(v):
    return E(str(v) if v >= 0 else "(%d)" % v, v, v, atom=True)


class P:
    """Lean Prop term."""
    def __init__(self, s, atom=False, const=None):
        self.s, self.atom, self.const = s, atom, const
    def p(self):
        return self.s if self.atom else "(" + self.s + ")"


class Path:
    def __init__(self, name):
        self.name = name


class Ret(Exception):
    pass


def load_ast(repo, relfile, fn, defines=()):
    cmd = ["clang-14", "-fsyntax-only", "-w"] + cflags(repo, defines) + [
        "-Xclang", "-ast-dump=json", "-Xclang", "-ast-dump-filter=" + fn, os.path.join(repo, relfile)]
    rc, out = sh(cmd, timeout=120)
    # clang prints diagnostics to stderr (merged); JSON docs start with '{' at column 0
    i = out.find("{")
    if i < 0:
        raise KError("clang produced no AST for %s in %s: %s" % (fn, relfile, out[-500:]))
    s = out[i:]
    dec = json.JSONDecoder()
    pos, docs = 0, []
    while pos < len(s):
        while pos < len(s) and s[pos] != "{":
            pos += 1
        if pos >= len(s):
            break
        try:
            d, pos = dec.raw_decode(s, pos)
        except json.JSONDecodeError:
            break
        docs.append(d)
    for d in docs:
        if d.get("kind") == "FunctionDecl" and d.get("name") == fn and \
                any(c.get("kind") == "CompoundStmt" for c in d.get("inner", [])):
            return d
    raise KError("no definition of %s found in %s" % (fn, relfile))


class Translator:
    def __init__(self, spec, enumvals, enumtypes):
        self.spec = spec
        self.enumvals = enumvals
        self.enumtypes = enumtypes
        self.inputs = {}          # path -> lean name
        for ent in spec.get("inputs", []):
            self.inputs[ent[0]] = ent[1]
        self.input_types = {}     # lean name -> ctype
        self.oracles = {}         # name -> arity
        self.used_inputs = []
        self.labels = {}
        self.path_types = {}

    # ---------- types
    def ctype(self, node):
        t = node.get("type", {})
        q = t.get("desugaredQualType") or t.get("qualType")
        q = q.replace("const ", "").replace("volatile ", "").strip()
        if q in INT_TYPES:
            return INT_TYPES[q]
        if q.startswith("enum "):
            return self.enumtypes.get(q, (32, False))
        if q.endswith("*") or "(*)" in q:
            return "ptr"
        raise KError("unsupported type '%s'" % q)

    def wrap(self, e, t):
        lo, hi = trange(t)
        if e.lo >= lo and e.hi <= hi:
            return e
        if e.lo == e.hi and e.atom:          # constant folding
            span = hi - lo + 1
            return lit((e.lo - lo) % span + lo)
        return E("%s %s" % (wrapname(t), e.p()), lo, hi)

    # ---------- inputs
    def input(self, path, t):
        if path not in self.inputs:
            raise KError("kernel %s reads '%s', which is not a declared input" % (self.spec["name"], path))
        nm = self.inputs[path]
        if nm not in self.used_inputs:
            self.used_inputs.append(nm)
        if t == "ptr":
            self.input_types[nm] = "ptr"
            return E(nm, 0, (1 << 64) - 1, atom=True)
        self.input_types[nm] = t
        lo, hi = trange(t)
        return E(nm, lo, hi, atom=True)

    # ---------- expression evaluation
    def lvalue(self, n, st):
        k = n["kind"]
        if k == "ParenExpr":
            return self.lvalue(n["inner"][0], st)
        if k == "DeclRefExpr":
            rd = n["referencedDecl"]
            if rd["kind"] in ("VarDecl", "ParmVarDecl"):
                nm = rd["name"]
                if nm in st["locals"] or nm in st["declared"]:
                    return ("local", nm)
                return ("path", nm)      # global or parameter
        if k == "MemberExpr":
            base = n["inner"][0]
            if n.get("isArrow"):
                b = self.rvalue(base, st)
                if not isinstance(b, Path):
                    raise KError("-> on a non-path pointer")
                return ("path", b.name + "." + n["name"])
            lv = self.lvalue(base, st)
            if lv[0] == "path":
                return ("path", lv[1] + "." + n["name"])
        if k == "UnaryOperator" and n.get("opcode") == "*":
            inner = n["inner"][0]
            while inner["kind"] in ("ParenExpr", "ImplicitCastExpr"):
                inner = inner["inner"][0]
            if inner["kind"] == "CallExpr" and self.callee(inner) == "__errno_location":
                return ("path", "errno")
        raise KError("unsupported lvalue %s" % k)

    def callee(self, n):
        f = n["inner"][0]
        while f["kind"] in ("ImplicitCastExpr", "ParenExpr"):
            f = f["inner"][0]
        if f["kind"] == "DeclRefExpr":
            return f["referencedDecl"]["name"]
        raise KError("indirect call")

    def read(self, lv, t, st):
        kind, nm = lv
        if kind == "local":
            if nm not in st["locals"]:
                raise KError("read of uninitialised local %s" % nm)
            return st["locals"][nm]
        if nm in st["mem"]:
            return st["mem"][nm]
        if nm in st["params"] and t == "ptr":
            return Path(nm)
        if t == "ptr" and nm not in self.inputs:
            return Path(nm)
        return self.input(nm, t)

    def write(self, lv, val, st):
        kind, nm = lv
        if kind == "local":
            st["locals"][nm] = val
        else:
            if isinstance(val, Path):
                raise KError("pointer store to %s" % nm)
            if nm not in st["worder"]:
                st["worder"].append(nm)
            st["mem"][nm] = val

    def as_int(self, v):
        if isinstance(v, Path):
            # pointer used as a truth value / compared with NULL: becomes an input symbol
            return self.input(v.name, "ptr")
        return v

    def rvalue(self, n, st):
        k = n["kind"]
        if k in ("ParenExpr", "ConstantExpr"):
            return self.rvalue(n["inner"][0], st)
        if k == "IntegerLiteral":
            return lit(int(n["value"]))
        if k == "CharacterLiteral":
            return lit(int(n["value"]))
        if k == "StringLiteral":
            return E("1", 1, 1, atom=True)     # a non-NULL pointer
        if k == "ImplicitCastExpr" or k == "CStyleCastExpr":
            ck = n.get("castKind")
            sub = n["inner"][0]
            if ck == "LValueToRValue":
                return self.read(self.lvalue(sub, st), self.ctype(n), st)
            if ck == "IntegralCast":
                return self.wrap(self.as_int(self.rvalue(sub, st)), self.ctype(n))
            if ck in ("NoOp", "BitCast", "FunctionToPointerDecay", "ArrayToPointerDecay"):
                return self.rvalue(sub, st)
            if ck == "NullToPointer":
                return lit(0)
            if ck == "IntegralToBoolean" or ck == "PointerToBoolean":
                return self.b2i(self.cond(sub, st))
            if ck == "ToVoid":
                return self.rvalue(sub, st)
            raise KError("unsupported cast %s" % ck)
        if k == "DeclRefExpr":
            rd = n["referencedDecl"]
            if rd["kind"] == "EnumConstantDecl":
                if rd["name"] not in self.enumvals:
                    raise KError("enum constant %s has no probed value" % rd["name"])
                return lit(self.enumvals[rd["name"]])
            raise KError("DeclRefExpr rvalue %s" % rd["kind"])
        if k == "UnaryOperator":
            op = n["opcode"]
            sub = n["inner"][0]
            if op == "!":
                return self.b2i(self.neg(self.cond(sub, st)))
            if op == "-":
                v = self.as_int(self.rvalue(sub, st))
                if v.lo == v.hi and v.atom:
                    return self.wrap(lit(-v.lo), self.ctype(n))
                return self.wrap(E("-%s" % v.p(), -v.hi, -v.lo), self.ctype(n))
            if op == "+":
                return self.rvalue(sub, st)
            if op == "~":
                t = self.ctype(n)
                v = self.as_int(self.rvalue(sub, st))
                if t[1]:
                    return self.wrap(E("-%s - 1" % v.p(), -v.hi - 1, -v.lo - 1), t)
                return E("bnotU %d %s" % (t[0], v.p()), 0, (1 << t[0]) - 1)
            if op in ("++", "--"):
                lv = self.lvalue(sub, st)
                t = self.ctype(n)
                old = self.read(lv, t, st)
                d = 1 if op == "++" else -1
                new = self.wrap(E("%s %s 1" % (old.p(), "+" if d > 0 else "-"), old.lo + d, old.hi + d), t)
                self.write(lv, new, st)
                return old if n.get("isPostfix") else new
            raise KError("unsupported unary %s" % op)
        if k == "BinaryOperator" or k == "CompoundAssignOperator":
            op = n["opcode"]
            if op == "=":
                lv = self.lvalue(n["inner"][0], st)
                if lv[0] == "path":
                    try:
                        self.path_types[lv[1]] = self.ctype(n["inner"][0])
                    except KError:
                        pass
                v = self.rvalue(n["inner"][1], st)
                self.write(lv, v, st)
                return v
            if op == ",":
                self.rvalue(n["inner"][0], st)
                return self.rvalue(n["inner"][1], st)
            if op in ("&&", "||", "<", ">", "<=", ">=", "==", "!="):
                return self.b2i(self.cond(n, st))
            if op.endswith("=") and k == "CompoundAssignOperator":
                lv = self.lvalue(n["inner"][0], st)
                t = self.ctype(n)
                ct = n.get("computeResultType", {})
                q = ct.get("desugaredQualType") or ct.get("qualType") or ""
                tc = INT_TYPES.get(q, t)
                a = self.wrap(self.as_int(self.read(lv, t, st)), tc)
                b = self.as_int(self.rvalue(n["inner"][1], st))
                v = self.wrap(self.arith(op[:-1], a, b, tc), t)
                self.write(lv, v, st)
                return v
            a = self.as_int(self.rvalue(n["inner"][0], st))
            b = self.as_int(self.rvalue(n["inner"][1], st))
            return self.arith(op, a, b, self.ctype(n))
        if k == "ConditionalOperator":
            c = self.cond(n["inner"][0], st)
            a = self.as_int(self.rvalue(n["inner"][1], st))
            b = self.as_int(self.rvalue(n["inner"][2], st))
            if c.const is True:
                return a
            if c.const is False:
                return b
            return E("if %s then %s else %s" % (c.s, a.s, b.s), min(a.lo, b.lo), max(a.hi, b.hi))
        if k == "CallExpr":
            return self.call(n, st)
        if k == "UnaryExprOrTypeTraitExpr":
            raise KError("sizeof/alignof is not in subset K (use a probe constant)")
        raise KError("unsupported expression %s" % k)

    def arith(self, op, a, b, t):
        if a.lo == a.hi and b.lo == b.hi and a.atom and b.atom and op in ("+", "-", "*"):
            v = {"+": a.lo + b.lo, "-": a.lo - b.lo, "*": a.lo * b.lo}[op]
            return self.wrap(lit(v), t)
        if op == "+":
            r = E("%s + %s" % (a.p(), b.p()), a.lo + b.lo, a.hi + b.hi)
        elif op == "-":
            r = E("%s - %s" % (a.p(), b.p()), a.lo - b.hi, a.hi - b.lo)
        elif op == "*":
            c = [a.lo * b.lo, a.lo * b.hi, a.hi * b.lo, a.hi * b.hi]
            r = E("%s * %s" % (a.p(), b.p()), min(c), max(c))
        elif op in ("/", "%"):
            nonneg = a.lo >= 0 and b.lo > 0
            if op == "/":
                r = E(("%s / %s" if nonneg else "cdiv %s %s") % (a.p(), b.p()),
                      0 if nonneg else -max(abs(a.lo), abs(a.hi)), a.hi if nonneg else max(abs(a.lo), abs(a.hi)))
            else:
                m = max(abs(b.lo), abs(b.hi))
                r = E(("%s %% %s" if nonneg else "cmod %s %s") % (a.p(), b.p()), 0 if nonneg else -m, m)
        elif op in ("&", "|", "^", "<<", ">>"):
            if a.lo < 0 or b.lo < 0:
                raise KError("bitwise operator on possibly negative operand")
            f = {"&": "band", "|": "bor", "^": "bxor", "<<": "shl", ">>": "shr"}[op]
            hi = {"&": min(a.hi, b.hi), "|": (1 << max(a.hi.bit_length(), b.hi.bit_length())) - 1,
                  "^": (1 << max(a.hi.bit_length(), b.hi.bit_length())) - 1,
                  "<<": a.hi << min(b.hi, 64), ">>": a.hi}[op]
            r = E("%s %s %s" % (f, a.p(), b.p()), 0, hi)
        else:
            raise KError("unsupported binary %s" % op)
        return self.wrap(r, t)

    def b2i(self, c):
        if c.const is True:
            return lit(1)
        if c.const is False:
            return lit(0)
        return E("b2i %s" % c.p(), 0, 1)

    def neg(self, c):
        if c.const is not None:
            return P("False" if c.const else "True", True, not c.const)
        return P("¬ %s" % c.p())

    def cond(self, n, st):
        """Translate a C expression used as a truth value into a Lean Prop."""
        k = n["kind"]
        if k == "ParenExpr":
            return self.cond(n["inner"][0], st)
        if k == "ImplicitCastExpr" and n.get("castKind") in ("IntegralToBoolean", "PointerToBoolean", "NoOp"):
            return self.cond(n["inner"][0], st)
        if k == "UnaryOperator" and n["opcode"] == "!":
            return self.neg(self.cond(n["inner"][0], st))
        if k == "BinaryOperator":
            op = n["opcode"]
            if op in ("&&", "||"):
                a = self.cond(n["inner"][0], st)
                if op == "&&" and a.const is False:
                    return P("False", True, False)       # C does not evaluate the right operand
                if op == "||" and a.const is True:
                    return P("True", True, True)
                # short-circuit: the right operand must be free of writes
                snap = (dict(st["locals"]), dict(st["mem"]), len(st["events"]))
                b = self.cond(n["inner"][1], st)
                if (dict(st["locals"]) != snap[0] and any(st["locals"].get(x) is not snap[0].get(x) for x in st["locals"])) \
                        or len(st["events"]) != snap[2]:
                    raise KError("side effect in the right operand of %s" % op)
                if op == "&&":
                    if a.const is False or b.const is False:
                        return P("False", True, False)
                    if a.const is True:
                        return b
                    if b.const is True:
                        return a
                    return P("%s ∧ %s" % (a.p(), b.p()))
                if a.const is True or b.const is True:
                    return P("True", True, True)
                if a.const is False:
                    return b
                if b.const is False:
                    return a
                return P("%s ∨ %s" % (a.p(), b.p()))
            if op in ("<", ">", "<=", ">=", "==", "!="):
                a = self.as_int(self.rvalue(n["inner"][0], st))
                b = self.as_int(self.rvalue(n["inner"][1], st))
                lop = {"<": "<", ">": ">", "<=": "≤", ">=": "≥", "==": "=", "!=": "≠"}[op]
                if a.lo == a.hi and b.lo == b.hi and a.atom and b.atom:
                    val = {"<": a.lo < b.lo, ">": a.lo > b.lo, "<=": a.lo <= b.lo, ">=": a.lo >= b.lo,
                           "==": a.lo == b.lo, "!=": a.lo != b.lo}[op]
                    return P("True" if val else "False", True, val)
                return P("%s %s %s" % (a.p(), lop, b.p()))
        v = self.as_int(self.rvalue(n, st))
        if v.lo == v.hi and v.atom:
            return P("True" if v.lo != 0 else "False", True, v.lo != 0)
        return P("%s ≠ 0" % v.p())

    def call(self, n, st):
        fn = self.callee(n)
        h = self.spec.get("calls", {}).get(fn)
        if h is None:
            raise KError("call to %s, which is not in the kernel's call table" % fn)
        args = n["inner"][1:]
        kind = h[0]
        if kind == "ignore":
            return lit(h[1] if len(h) > 1 else 0)
        if kind == "event":           # ("event", ret, [arg indices])
            vals = [self.as_int(self.rvalue(args[i], st)) for i in h[2]]
            st["events"].append('("%s", [%s])' % (fn, ", ".join(v.s for v in vals)))
            return lit(h[1])
        if kind == "oracle":          # ("oracle", [arg indices], (lo,hi))
            vals = [self.as_int(self.rvalue(args[i], st)) for i in h[1]]
            self.oracles[fn] = len(vals)
            lo, hi = h[2] if len(h) > 2 else trange((32, True))
            return E("%s %s" % (fn, " ".join(v.p() for v in vals)), lo, hi)
        if kind == "input":           # ("input", leanName, ctype, record_event?)
            nm = h[1]
            if nm not in self.used_inputs:
                self.used_inputs.append(nm)
            self.input_types[nm] = h[2]
            if len(h) > 3 and h[3]:
                st["events"].append('("%s", [])' % fn)
            if h[2] == "ptr":
                return E(nm, 0, (1 << 64) - 1, atom=True)
            lo, hi = trange(h[2])
            return E(nm, lo, hi, atom=True)
        if kind == "ptrinput":        # ("ptrinput", pathName, record_event?): returns an object pointer named pathName
            if len(h) > 2 and h[2]:
                st["events"].append('("%s", [])' % fn)
            return Path(h[1])
        raise KError("bad call handler for %s" % fn)

    # ---------- statements: returns Lean term (string) for "run stmts then rest"
    def leaf(self, st, ret):
        w = ", ".join('("%s", %s)' % (p, st["mem"][p].s) for p in st["worder"])
        e = ", ".join(st["events"])
        return ("leaf", "{ ret := %s, writes := [%s], events := [%s] }" % (ret.s, w, e))

    # ---- result trees: ("leaf", term) | ("fall", state) | ("ite", P, a, b)
    @staticmethod
    def has(t, kind):
        if t[0] == "ite":
            return Translator.has(t[2], kind) or Translator.has(t[3], kind)
        return t[0] == kind

    @staticmethod
    def render(t):
        if t[0] == "leaf":
            return t[1]
        if t[0] == "ite":
            return "if %s then\n%s\nelse\n%s" % (t[1].s, indent(Translator.render(t[2])), indent(Translator.render(t[3])))
        raise KError("internal: unresolved join")

    def falls(self, t):
        if t[0] == "fall":
            return [t[1]]
        if t[0] == "ite":
            return self.falls(t[2]) + self.falls(t[3])
        return []

    def rets(self, t, pc):
        """[(path condition P, leaf term)] for the returning leaves of t"""
        if t[0] == "leaf":
            return [(pc, t[1])]
        if t[0] == "ite":
            c = t[1]
            def conj(a, b):
                if a is None:
                    return b
                return P("%s ∧ %s" % (a.p(), b.p()))
            # (opt-in `slim_rets`: the returning leaves are emitted as a chain tested in this order, so when the then-branch returns on
            #  every path its leaves' conditions exhaust `c` and the leaves of the else-branch need not repeat `¬c` - keeps long
            #  else-if ladders linear)
            if self.spec.get("slim_rets") and not self.has(t[2], "fall"):
                return self.rets(t[2], conj(pc, c)) + self.rets(t[3], pc)
            return self.rets(t[2], conj(pc, c)) + self.rets(t[3], conj(pc, self.neg(c)))
        return []

    def merge_val(self, t, get):
        """value of a variable at the join, as an ite-expression over the falling paths of t"""
        if t[0] == "fall":
            return get(t[1])
        if t[0] == "leaf":
            return None
        a, b = self.merge_val(t[2], get), self.merge_val(t[3], get)
        if a is None:
            return b
        if b is None:
            return a
        if isinstance(a, Path) or isinstance(b, Path):
            if isinstance(a, Path) and isinstance(b, Path) and a.name == b.name:
                return a
            raise KError("pointer-valued variable differs across branches")
        if a.s == b.s:
            return E(a.s, min(a.lo, b.lo), max(a.hi, b.hi), a.atom)
        return E("if %s then %s else %s" % (t[1].s, a.s, b.s), min(a.lo, b.lo), max(a.hi, b.hi))

    def join(self, t, st0):
        """merged state of the falling leaves of t, or None if they cannot be merged"""
        fs = self.falls(t)
        ev = fs[0]["events"]
        if any(f["events"] != ev for f in fs):
            return None
        m = self.clone(fs[0])
        names = set()
        for f in fs:
            names |= set(f["locals"].keys())
        for nm in names:
            if any(nm not in f["locals"] for f in fs):
                m["locals"].pop(nm, None)       # not initialised on every path
                continue
            m["locals"][nm] = self.merge_val(t, lambda s_, nm=nm: s_["locals"][nm])
        paths = []
        for f in fs:
            for p_ in f["worder"]:
                if p_ not in paths:
                    paths.append(p_)
        m["worder"] = paths
        for p_ in paths:
            def get(s_, p_=p_):
                if p_ in s_["mem"]:
                    return s_["mem"][p_]
                return self.prior_value(p_, st0)
            m["mem"][p_] = self.merge_val(t, get)
        for f in fs:
            m["declared"] |= f["declared"]
        return m

    def prior_value(self, path, st0):
        if path in st0["mem"]:
            return st0["mem"][path]
        t = self.path_types.get(path)
        if t is None:
            raise KError("cannot merge a write to %s: its C type is unknown at the join" % path)
        return self.input(path, t)

    def clone(self, st):
        return {"locals": dict(st["locals"]), "mem": dict(st["mem"]), "worder": list(st["worder"]),
                "events": list(st["events"]), "declared": set(st["declared"]), "params": st["params"]}

    def run(self, stmts, st, depth=0):
        """Execute a list of statements (continuation style)."""
        if depth > 200:
            raise KError("statement nesting too deep")
        if not stmts:
            if self.spec.get("void"):
                return self.leaf(st, lit(0))
            raise KError("control reaches end of non-void kernel")
        s, rest = stmts[0], stmts[1:]
        k = s["kind"]
        if k == "__join__":
            return ("fall", st)
        if k == "CompoundStmt":
            return self.run(list(s.get("inner", [])) + rest, st, depth + 1)
        if k == "NullStmt":
            return self.run(rest, st, depth + 1)
        if k == "DeclStmt":
            for d in s.get("inner", []):
                if d["kind"] != "VarDecl":
                    raise KError("unsupported declaration %s" % d["kind"])
                st["declared"].add(d["name"])
                init = [c for c in d.get("inner", []) if c.get("kind") not in ("FullComment",)]
                if init:
                    st["locals"][d["name"]] = self.rvalue(init[0], st)
            return self.run(rest, st, depth + 1)
        if k == "ReturnStmt":
            if s.get("inner"):
                v = self.as_int(self.rvalue(s["inner"][0], st))
            else:
                v = lit(0)
            return self.leaf(st, v)
        if k == "IfStmt":
            inner = s["inner"]
            c = self.cond(inner[0], st)
            th = inner[1]
            el = inner[2] if len(inner) > 2 else None
            if c.const is True:
                return self.run([th] + rest, st, depth + 1)
            if c.const is False:
                return self.run(([el] if el else []) + rest, st, depth + 1)
            st0 = self.clone(st)
            st2 = self.clone(st)
            JOIN = {"kind": "__join__"}
            ta = self.run([th, JOIN], st, depth + 1)
            tb = self.run(([el] if el else []) + [JOIN], st2, depth + 1)
            t = ("ite", c, ta, tb)
            if not self.has(t, "fall"):
                return t
            try:
                m = self.join(t, st0)
            except KError:
                m = None
            if m is None:                      # fall back to duplicating the continuation
                a = self.run([th] + rest, self.clone(st0), depth + 1)
                b = self.run(([el] if el else []) + rest, self.clone(st0), depth + 1)
                return ("ite", c, a, b)
            k = self.run(rest, m, depth + 1)
            for pc, leafterm in reversed(self.rets(t, None)):
                k = ("ite", pc, ("leaf", leafterm), k)
            return k
        if k == "GotoStmt":
            lbl = s["targetLabelDeclId"]
            if lbl not in self.labels:
                raise KError("goto to an unknown (backward?) label")
            return self.run(self.labels[lbl], st, depth + 1)
        if k == "LabelStmt":
            return self.run(list(s.get("inner", [])) + rest, st, depth + 1)
        if k == "SwitchStmt":
            return self.switch(s, rest, st, depth)
        if k in ("BreakStmt",):
            raise KError("break outside switch")
        if k in ("WhileStmt", "ForStmt", "DoStmt"):
            raise KError("loop: function is not loop-free")
        # expression statement
        self.rvalue(s, st)
        return self.run(rest, st, depth + 1)

    def switch(self, s, rest, st, depth):
        v = self.as_int(self.rvalue(s["inner"][0], st))
        body = s["inner"][1]
        if body["kind"] != "CompoundStmt":
            raise KError("switch body")
        # flatten: sequence of (caseval | 'default', stmts...) with fallthrough
        items = []
        def flat(n):
            if n["kind"] == "CaseStmt":
                cv = self.as_int(self.rvalue(n["inner"][0], st))
                items.append(("case", cv))
                flat(n["inner"][-1])
            elif n["kind"] == "DefaultStmt":
                items.append(("default", None))
                flat(n["inner"][-1])
            else:
                items.append(("stmt", n))
        for c in body.get("inner", []):
            flat(c)
        def stmts_from(i):
            out = []
            for kind, x in items[i:]:
                if kind == "stmt":
                    if x["kind"] == "BreakStmt":
                        return out
                    out.append(x)
            return out
        cases = [(i, x) for i, (kind, x) in enumerate(items) if kind == "case"]
        default = [i for i, (kind, x) in enumerate(items) if kind == "default"]
        def build(cs, st):
            if not cs:
                if default:
                    return self.run(stmts_from(default[0]) + rest, st, depth + 1)
                return self.run(rest, st, depth + 1)
            (i, cv), more = cs[0], cs[1:]
            st2 = self.clone(st)
            a = self.run(stmts_from(i) + rest, st, depth + 1)
            b = build(more, st2)
            return ("ite", P("%s = %s" % (v.p(), cv.p())), a, b)
        return build(cases, st)

    def collect_labels(self, stmts, tail):
        """Map label id -> statements executed from that label to function end."""
        for i, s in enumerate(stmts):
            after = stmts[i + 1:] + tail
            if s["kind"] == "LabelStmt":
                self.labels[s["declId"]] = list(s.get("inner", [])) + after
                self.collect_labels(list(s.get("inner", [])), after)
            elif s["kind"] == "CompoundStmt":
                self.collect_labels(list(s.get("inner", [])), after)
            elif s["kind"] == "IfStmt":
                for b in s["inner"][1:]:
                    self.collect_labels([b], after)

    def translate(self, fdecl):
        params = [c["name"] for c in fdecl.get("inner", []) if c["kind"] == "ParmVarDecl"]
        body = [c for c in fdecl["inner"] if c["kind"] == "CompoundStmt"][0]
        st = {"locals": {}, "mem": {}, "worder": [], "events": [], "declared": set(), "params": set(params)}
        # integer parameters are inputs named by the spec's `params`
        for c in fdecl.get("inner", []):
            if c["kind"] == "ParmVarDecl":
                t = self.ctype(c)
                if t != "ptr":
                    if c["name"] not in self.inputs:
                        self.inputs[c["name"]] = c["name"]
                    st["declared"].add(c["name"])
                    st["locals"][c["name"]] = self.input(c["name"], t)
        self.collect_labels(list(body.get("inner", [])), [])
        term = self.run(list(body.get("inner", [])), st)
        return self.render(term)


def indent(s, n=2):
    return "\n".join(" " * n + l for l in s.split("\n"))


def probe_enums(ctx, relfile, names, enumtypes):
    if not names and not enumtypes:
        return {}, {}
    src = '#include <stdio.h>\n#define main included_main_\n#include "%s"\n#undef main\nint main(void){\n' % os.path.join(ctx.repo, relfile)
    for n in sorted(names):
        src += '  printf("V %s %%lld\\n", (long long) %s);\n' % (n, n)
    for t in sorted(enumtypes):
        src += '  printf("T %s %%d %%d\\n", (int) sizeof(%s) * 8, (int) ((%s) -1 < (%s) 0));\n' % (
            t.replace(" ", "_"), t, t, t)
    src += "  return 0; }\n"
    out = run_probe(ctx, "enum_" + re.sub(r"\W", "_", relfile), src, gc=True)
    if out is None:
        return None, None
    vals, types = {}, {}
    for line in out.strip().split("\n"):
        p = line.split()
        if p[0] == "V":
            vals[p[1]] = int(p[2])
        elif p[0] == "T":
            types[p[1].replace("enum_", "enum ", 1)] = (int(p[2]), bool(int(p[3])))
    return vals, types


def find_enums(node, names, types):
    if isinstance(node, dict):
        rd = node.get("referencedDecl")
        if rd and rd.get("kind") == "EnumConstantDecl":
            names.add(rd["name"])
        t = node.get("type")
        if isinstance(t, dict):
            q = (t.get("desugaredQualType") or t.get("qualType") or "").replace("const ", "").strip()
            if q.startswith("enum ") and "(" not in q and "*" not in q:
                types.add(q)
        for v in node.values():
            find_enums(v, names, types)
    elif isinstance(node, list):
        for v in node:
            find_enums(v, names, types)


def translate_kernels(ctx, relfile, specs, defines=(), cls=None):
    """Translate each kernel spec of one source file.  Returns Lean text (defs) or None.
    `cls`: translator class (default Translator; kcursor.CursorTranslator adds cursors)."""
    asts = {}
    names, etypes = set(), set()
    for sp in specs:
        try:
            asts[sp["name"]] = load_ast(ctx.repo, relfile, sp["name"], defines)
            find_enums(asts[sp["name"]], names, etypes)
        except KError as e:
            ctx.obligation("gen", "kernel %s (%s) parsed by clang" % (sp["name"], relfile), False, str(e))
            return None
    vals, types = probe_enums(ctx, relfile, names, etypes)
    if vals is None:
        return None
    out = []
    allok = True
    for sp in specs:
        tr = (cls or Translator)(sp, vals, types)
        try:
            term = tr.translate(asts[sp["name"]])
        except KError as e:
            ctx.obligation("gen", "kernel %s (%s) translated (subset K)" % (sp["name"], relfile), False, str(e))
            allok = False
            continue
        except Exception as e:          # a construct the translator does not anticipate must not take the whole check down
            ctx.obligation("gen", "kernel %s (%s) translated (subset K)" % (sp["name"], relfile), False, "translator error: %r" % (e,))
            allok = False
            continue
        order = [nm for (_, nm) in sp.get("inputs", [])] + [p for p in sp.get("params", [])]
        for h in sp.get("calls", {}).values():
            if h[0] == "input":
                order.append(h[1])
        seen = []
        for nm in order + tr.used_inputs:
            if nm not in seen:
                seen.append(nm)
        lname = sp.get("lean", sp["name"])
        sig = " ".join("(%s : Int)" % nm for nm in seen)
        for o in sp.get("oracles", []) or sorted(tr.oracles):
            ar = tr.oracles.get(o, None)
            if ar is None:
                ar = sp.get("oracle_arity", {}).get(o, 2)
            sig += " (%s : %sInt)" % (o, "Int → " * ar)
        rng = []
        for nm in seen:
            t = tr.input_types.get(nm)
            if t is None:
                t = sp.get("types", {}).get(nm)
            if t and t != "ptr":
                lo, hi = trange(t)
                rng.append("%s ≤ %s ∧ %s ≤ %s" % (lit(lo).s, nm, nm, hi))
            elif t == "ptr":
                rng.append("0 ≤ %s" % nm)
        out.append("/-- translated from `%s` in %s -/\ndef %s %s : KOut :=\n%s\n" % (sp["name"], relfile, lname, sig, indent(term)))
        out.append("/-- C-type ranges of the inputs of `%s` (assumed by the wrap elision) -/\ndef %s_inRange %s : Prop :=\n  %s\n" % (
            lname, lname, " ".join("(%s : Int)" % nm for nm in seen), " ∧ ".join(rng) if rng else "True"))
        if sp.get("err_index"):
            out.append("/-- texts of the `m_msg_set_err` sites of `%s`, indexed by the second argument of its events -/\ndef %s_errStrings : List String := [%s]\n" % (
                sp["name"], lname, ", ".join('"%s"' % t.replace("\\", "\\\\").replace('"', '\\"') for t in sp.get("_err_strings", []))))
        if sp.get("_src_names"):
            out.append("/-- sources of the `memcpy`s through the cursor of `%s`, indexed by the last argument of its `wr` events of kind 2 -/\ndef %s_srcNames : List String := [%s]\n" % (
                sp["name"], lname, ", ".join('"%s"' % t for t in sp["_src_names"])))
        ctx.obligation("gen", "kernel %s (%s) translated (subset K)" % (sp["name"], relfile), True)
    return "\n".join(out) if allok else None
