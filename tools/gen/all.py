"""Regenerate every Munge/Gen module (used by setup.sh): every tools/gen/g_*.py with generate(ctx)."""
import glob, importlib, os, shutil, sys
from ..vlib.core import Ctx

def main():
    ctx = Ctx("GEN", "quick", 1, os.environ.get("MUNGE_REPO", "/repo"))
    ok = True
    for f in sorted(glob.glob(os.path.join(os.path.dirname(__file__), "g_*.py"))):
        mod = importlib.import_module("tools.gen." + os.path.basename(f)[:-3])
        if hasattr(mod, "generate"):
            try:
                ok = bool(mod.generate(ctx)) and ok
            except Exception as e:          # one broken generator must not stop the others
                ok = False
                ctx.obligation("gen", "generator %s ran" % os.path.basename(f), False, repr(e))
    bad = ctx.failed_obligations()
    for o in bad:
        print("generator failure:", o["name"], o["detail"][:500])
    shutil.rmtree(ctx.work, ignore_errors=True)
    sys.exit(0 if ok and not bad else 1)

main()
