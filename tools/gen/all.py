"""Regenerate every Munge/Gen module (used by setup.sh)."""
import sys
from ..vlib.core import Ctx
from . import g_base64

GENERATORS = [g_base64]

def main():
    ctx = Ctx("GEN", "quick", 1, __import__("os").environ.get("MUNGE_REPO", "/repo"))
    ok = True
    for g in GENERATORS:
        ok = g.generate(ctx) and ok
    bad = ctx.failed_obligations()
    for o in bad:
        print("generator failure:", o["name"], o["detail"][:500])
    __import__("shutil").rmtree(ctx.work, ignore_errors=True)
    sys.exit(0 if ok and not bad else 1)

main()
