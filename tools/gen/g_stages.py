"""Gen.Stages: the stages of src/munged/dec.c / enc.c that drive the primitives - `dec_decrypt`, `dec_validate_mac`, `enc_compress` - translated by
the K translator (+ out-parameters): every primitive call is an event carrying the lengths it is given; its result, and what it
stores through `&n`, are inputs.  What these kernels fix: over which byte ranges the MAC is computed and compared, which buffer sizes
the cipher is handed, that a padding failure is deferred behind the MAC, and what every failure path returns."""
from .ktrans import translate_kernels
from .kcursor import CursorTranslator
from .g_unpack import probe_sizes
from ..vlib.leanlib import gen_write

I32 = (32, True)


def specs():
    M = lambda f: ("c.msg." + f, f)
    seterr = ("event", -1, [1])
    return [
        dict(name="dec_validate_mac",
             inputs=[M("mac"), M("error_num"), ("c.outer_len", "outer_len"), ("c.inner_len", "inner_len"), ("c.mac_len", "mac_len"),
                     ("conf.mac_key_len", "mac_key_len"), ("c.outer", "outer_ptr"), ("c.inner", "inner_ptr"), ("conf.mac_key", "mac_key_ptr"),
                     ("c.mac", "mac_ptr")],
             calls={"m_msg_set_err": seterr, "strdup": ("ignore", 1), "log_msg": ("ignore", 0),
                    "mac_init": ("outinput", "r_mac_init", I32, {}, [1, 3]),
                    "mac_update": ("outinput", "r_mac_update", I32, {}, [1, 2]),
                    "mac_final": ("outinput", "r_mac_final", I32, {2: ("n_final", I32)}, []),
                    "mac_cleanup": ("outinput", "r_mac_cleanup", I32, {}, []),
                    "crypto_memcmp": ("outinput", "r_memcmp", I32, {}, [2])}),
        dict(name="dec_decrypt",
             inputs=[M("cipher"), M("mac"), ("c.inner_len", "inner_len"), ("c.mac_len", "mac_len"), ("conf.dek_key_len", "dek_key_len"),
                     ("conf.dek_key", "dek_key_ptr"), ("c.inner", "inner_ptr"), ("malloc_ret", "malloc_ret")],
             calls={"m_msg_set_err": seterr, "strdup": ("ignore", 1), "strdupf": ("ignore", 1), "free": ("event", 0, []), "log_msg": ("ignore", 0),
                    "mac_size": ("oracle", [0]), "cipher_block_size": ("oracle", [0]),
                    "mac_block": ("outinput", "r_mac_block", I32, {4: ("n_dek", I32)}, [2, 6]),
                    "cipher_init": ("outinput", "r_cipher_init", I32, {}, [1, 4]),
                    "cipher_update": ("outinput", "r_cipher_update", I32, {2: ("n_upd", I32)}, [4]),
                    "cipher_final": ("outinput", "r_cipher_final", I32, {2: ("n_fin", I32)}, []),
                    "cipher_cleanup": ("outinput", "r_cipher_cleanup", I32, {}, [])},
             oracles=["mac_size", "cipher_block_size"], oracle_arity={"mac_size": 1, "cipher_block_size": 1}),
        dict(name="dec_timestamp", inputs=[],
             calls={"m_msg_set_err": seterr, "strdup": ("ignore", 1), "log_msg": ("ignore", 0),
                    "time": ("outinput", "r_time", (64, True), {0: ("now", (64, True))}, [])}),
        dict(name="dec_authenticate", inputs=[],
             calls={"m_msg_set_err": seterr, "strdup": ("ignore", 1), "log_msg": ("ignore", 0),
                    "auth_recv": ("outinput", "r_auth_recv", (32, False), {1: ("kernel_uid", (32, False)), 2: ("kernel_gid", (32, False))}, [])}),
        dict(name="dec_decompress", named_free=True,
             inputs=[M("zip"), ("c.inner_len", "inner_len"), ("c.inner_mem_len", "inner_mem_len"), ("c.inner", "inner_ptr"),
                     ("c.inner_mem", "inner_mem_ptr"), ("malloc_ret", "malloc_ret")],
             calls={"m_msg_set_err": seterr, "strdup": ("ignore", 1), "log_msg": ("ignore", 0),
                    "zip_decompress_length": ("outinput", "r_unzip_length", I32, {}, [0, 2]),
                    "zip_decompress_block": ("outinput", "r_unzip_block", I32, {2: ("n_unzip", I32)}, [0, 4])}),
    ]


def enc_specs():
    M = lambda f: ("c.msg." + f, f)
    return [
        dict(name="enc_mac",
             inputs=[M("mac"), ("c.outer_len", "outer_len"), ("c.inner_len", "inner_len"), ("conf.mac_key_len", "mac_key_len"),
                     ("c.outer", "outer_ptr"), ("c.inner", "inner_ptr"), ("conf.mac_key", "mac_key_ptr")],
             calls={"m_msg_set_err": ("event", -1, [1]), "strdup": ("ignore", 1), "strdupf": ("ignore", 1), "log_msg": ("ignore", 0),
                    "mac_size": ("oracle", [0]),
                    "mac_init": ("outinput", "r_mac_init", I32, {}, [1, 3]),
                    "mac_update": ("outinput", "r_mac_update", I32, {}, [1, 2]),
                    "mac_final": ("outinput", "r_mac_final", I32, {2: ("n_final", I32)}, []),
                    "mac_cleanup": ("outinput", "r_mac_cleanup", I32, {}, [])},
             oracles=["mac_size"], oracle_arity={"mac_size": 1}),
        dict(name="enc_encrypt", named_free=True,
             inputs=[M("cipher"), M("mac"), ("c.inner_len", "inner_len"), ("c.inner_mem_len", "inner_mem_len"), ("c.mac_len", "mac_len"),
                     ("conf.dek_key_len", "dek_key_len"), ("conf.dek_key", "dek_key_ptr"), ("c.inner", "inner_ptr"), ("c.inner_mem", "inner_mem_ptr"),
                     ("malloc_ret", "malloc_ret")],
             calls={"m_msg_set_err": ("event", -1, [1]), "strdup": ("ignore", 1), "strdupf": ("ignore", 1), "log_msg": ("ignore", 0),
                    "mac_size": ("oracle", [0]), "cipher_block_size": ("oracle", [0]),
                    "mac_block": ("outinput", "r_mac_block", I32, {4: ("n_dek", I32)}, [2, 6]),
                    "cipher_init": ("outinput", "r_cipher_init", I32, {}, [1, 4]),
                    "cipher_update": ("outinput", "r_cipher_update", I32, {2: ("n_upd", I32)}, [4]),
                    "cipher_final": ("outinput", "r_cipher_final", I32, {2: ("n_fin", I32)}, []),
                    "cipher_cleanup": ("outinput", "r_cipher_cleanup", I32, {}, [])},
             oracles=["mac_size", "cipher_block_size"], oracle_arity={"mac_size": 1, "cipher_block_size": 1}),
        dict(name="enc_init",
             inputs=[M("cipher"), ("c.salt", "salt_ptr"), ("c.iv", "iv_ptr"), ("c.salt_len", "salt_len0"), ("c.iv_len", "iv_len0")],
             calls={"m_msg_set_err": ("event", -1, [1]), "strdupf": ("ignore", 1), "log_msg": ("ignore", 0),
                    "cipher_iv_size": ("oracle", [0]),
                    "random_pseudo_bytes": ("outinput", "r_rnd", I32, {}, [0, 1])},
             oracles=["cipher_iv_size"], oracle_arity={"cipher_iv_size": 1}),
        dict(name="enc_authenticate", inputs=[],
             calls={"m_msg_set_err": ("event", -1, [1]), "strdup": ("ignore", 1), "log_msg": ("ignore", 0),
                    "auth_recv": ("outinput", "r_auth_recv", (32, False), {1: ("kernel_uid", (32, False)), 2: ("kernel_gid", (32, False))}, [])}),
        dict(name="enc_timestamp",
             inputs=[],
             calls={"m_msg_set_err": ("event", -1, [1]), "strdup": ("ignore", 1), "log_msg": ("ignore", 0),
                    "time": ("outinput", "r_time", (64, True), {0: ("now", (64, True))}, [])}),
        dict(name="enc_armor", named_free=True, malloc_cursor="armor",
             inputs=[("c.outer_len", "outer_len"), ("c.mac_len", "mac_len"), ("c.inner_len", "inner_len"), ("c.outer_mem_len", "outer_mem_len"),
                     ("c.inner_mem_len", "inner_mem_len"), ("c.outer", "outer_ptr"), ("c.mac", "mac_ptr"), ("c.inner", "inner_ptr"),
                     ("c.outer_mem", "outer_mem_ptr"), ("c.inner_mem", "inner_mem_ptr"), ("malloc_ret", "malloc_ret")],
             calls={"m_msg_set_err": ("event", -1, [1]), "strdup": ("ignore", 1), "log_msg": ("ignore", 0),
                    "base64_encode_length": ("oracle", [0]),
                    "base64_init": ("outinput", "r_b64_init", I32, {}, []),
                    "base64_encode_update": ("outinput", "r_b64_update", I32, {2: ("n_b64", I32)}, [1, 3, 4]),
                    "base64_encode_final": ("outinput", "r_b64_final", I32, {2: ("n_b64_final", I32)}, [1]),
                    "base64_cleanup": ("outinput", "r_b64_cleanup", I32, {}, [])},
             oracles=["base64_encode_length"], oracle_arity={"base64_encode_length": 1}),
        dict(name="enc_compress", cursors={"c.outer_zip_ref": "zipref"}, named_free=True,
             inputs=[M("zip"), ("c.inner_len", "inner_len"), ("c.inner_mem_len", "inner_mem_len"), ("c.inner", "inner_ptr"),
                     ("c.inner_mem", "inner_mem_ptr"), ("malloc_ret", "malloc_ret")],
             calls={"m_msg_set_err": ("event", -1, [1]), "strdup": ("ignore", 1), "log_msg": ("ignore", 0),
                    "zip_compress_length": ("outinput", "r_zip_length", I32, {}, [0, 2]),
                    "zip_compress_block": ("outinput", "r_zip_block", I32, {2: ("n_zip", I32)}, [0, 4])}),
    ]


def generate(ctx):
    d = translate_kernels(ctx, "src/munged/dec.c", specs(), cls=CursorTranslator)
    e = translate_kernels(ctx, "src/munged/enc.c", enc_specs(), cls=CursorTranslator)
    if d is None or e is None:
        return False
    d = d + "\n" + e
    body = "/- GENERATED from <repo>/src/munged/dec.c by tools/gen/g_stages.py (K translator with out-parameters) -- do not edit -/\n"
    body += "import Munge.C.Kernel\nimport Munge.C.Cursor\nset_option linter.unusedVariables false\nnamespace Munge.Gen.Stages\nopen Munge.C\n\n"
    body += d + "\nend Munge.Gen.Stages\n"
    gen_write("Stages", body)
    return True
