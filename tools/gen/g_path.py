"""Gen.Path: start-up security decisions and file-creation modes of munged (C16), regenerated from
src/munged/{path,conf,random,lock,munged}.c.

Mechanism: "K+", a subclass of the K translator that additionally understands
  * `struct stat st` filled by lstat/stat/fstat: a read of st.st_X becomes the input `<epoch>_X`
    where epoch (l/s/f) is the call that filled it last on that path,
  * errno after a modelled system call: input `errno_<rc name of that call>`,
  * fatal log calls (log_err, log_errno): the path ends, event ("fatal",[site]),
  * log_err_or_warn (force, ...): `if force then event ("warn",[site]) and continue else fatal`,
  * `return _path_set_err (rc, ...)`: event ("err",[site]), returns rc,
  * umask (e): tracks the process umask symbolically (starting from the input `umask0`),
  * file-creating calls (open with a mode, fopen, bind): event (callee,[mode or -1, umask in force]),
  * `do { x = call } while (... errno == EINTR)`: body once (assumption: no EINTR),
  * `while` loops named in the spec: loop event, assigned locals become `<name>_post` inputs,
  * `*p` / `p[0]` of a pointer parameter: input `<p>_0`; sizeof: opaque input.
Anything else is a KError -> failed generator obligation (never a silent default).
Each kernel is emitted with a FIXED signature (declared below); a new input is an error.
"""
import json, re
from .probe import run_probe
from . import ktrans
from .ktrans import Translator, KError, E, P, lit, load_ast, indent, trange, find_enums, probe_enums
from ..vlib.leanlib import gen_write

I32 = (32, True)
U32 = (32, False)
U64 = (64, False)
I8 = (8, True)


def strip(n):
    while n.get("kind") in ("ParenExpr", "ImplicitCastExpr", "CStyleCastExpr", "ConstantExpr"):
        n = n["inner"][0]
    return n


def walk(n):
    yield n
    for c in n.get("inner", []) or []:
        if isinstance(c, dict):
            yield from walk(c)


def callee_of(n):
    f = strip(n["inner"][0])
    if f.get("kind") == "DeclRefExpr":
        return f["referencedDecl"]["name"]
    return None


def first_string(n):
    for a in n["inner"][1:]:
        s = strip(a)
        if s.get("kind") == "StringLiteral":
            try:
                return json.loads(s["value"])
            except Exception:
                return s["value"].strip('"')
    return ""


def lean_str(s):
    return '"' + s.replace("\\", "\\\\").replace('"', '\\"').replace("\n", "\\n") + '"'


class KPlus(Translator):
    def __init__(self, spec, enumvals, enumtypes, fdecl):
        super().__init__(spec, enumvals, enumtypes)
        self.sites = []          # (kind, fmt)
        self.site_of = {}        # id(node) -> index
        self.creates = []        # (callee, mode term, umask term)
        self.final_umasks = []   # umask terms at non-fatal leaves
        self.loops = []          # (index, [callees inside])
        self.loop_ids = {}
        self.outside_loop_calls = []
        self.sizeof_ids = {}
        fatal = spec.get("fatal", ())
        force = spec.get("forceable", ())
        for n in walk(fdecl):
            if n.get("kind") == "CallExpr":
                c = callee_of(n)
                h = spec.get("calls", {}).get(c)
                if c in fatal or c in force or (h and h[0] == "seterr"):
                    self.site_of[id(n)] = len(self.sites)
                    kind = "fatal" if c in fatal else "force" if c in force else "err"
                    self.sites.append((kind, first_string(n)))

    # ---- state
    def join(self, t, st0):
        fs = self.falls(t)
        for k in ("epoch", "errno_src"):
            if len({f.get(k) for f in fs}) > 1:
                return None
        if len({(f["umask"].s if f.get("umask") else None) for f in fs}) > 1:
            return None
        return super().join(t, st0)

    def clone(self, st):
        c = super().clone(st)
        for k in ("epoch", "umask", "umask_set", "errno_src"):
            c[k] = st.get(k)
        return c

    def _inp(self, name, t):
        self.inputs.setdefault("@" + name, name)
        return self.input("@" + name, t)

    # ---- reads: stat epochs and errno
    def read(self, lv, t, st):
        kind, nm = lv
        sv = self.spec.get("stat_var", "st")
        if kind == "path" and nm.startswith(sv + ".st_"):
            if not st.get("epoch"):
                raise KError("read of %s before any stat call" % nm)
            return self._inp("%s_%s" % (st["epoch"], nm[len(sv) + 4:]), t)
        if kind == "path" and nm == "errno" and "errno" not in st["mem"]:
            return self._inp("errno_%s" % (st.get("errno_src") or "entry"), t)
        return super().read(lv, t, st)

    def lvalue(self, n, st):
        if n["kind"] == "DeclRefExpr" and n["referencedDecl"]["kind"] == "VarDecl" and \
                n["referencedDecl"]["name"] == self.spec.get("stat_var", "st"):
            return ("path", self.spec.get("stat_var", "st"))
        if n["kind"] == "MemberExpr" and not n.get("isArrow"):
            b = strip(n["inner"][0])
            if b["kind"] == "DeclRefExpr" and b["referencedDecl"]["kind"] == "VarDecl":
                return ("path", b["referencedDecl"]["name"] + "." + n["name"])
        return super().lvalue(n, st)

    # ---- expressions
    def rvalue(self, n, st):
        k = n["kind"]
        if k == "ImplicitCastExpr" and n.get("castKind") == "LValueToRValue":
            sub = strip(n["inner"][0]) if n["inner"][0]["kind"] == "ParenExpr" else n["inner"][0]
            tgt = None
            base = None
            if sub["kind"] == "UnaryOperator" and sub.get("opcode") == "*":
                base = strip(sub["inner"][0])
            if sub["kind"] == "ArraySubscriptExpr":
                i = strip(sub["inner"][1])
                if i["kind"] == "IntegerLiteral" and int(i["value"]) == 0:
                    base = strip(sub["inner"][0])
            if base is not None and base["kind"] == "DeclRefExpr" and base["referencedDecl"]["kind"] == "ParmVarDecl":
                tgt = self.inputs.get(base["referencedDecl"]["name"], base["referencedDecl"]["name"])
            elif base is not None and base["kind"] == "MemberExpr":
                lv = self.lvalue(base, st)
                if lv[0] == "path" and lv[1] in self.inputs:
                    tgt = self.inputs[lv[1]]
            if tgt:
                return self._inp(tgt + "_0", self.ctype(n))
        if k == "UnaryExprOrTypeTraitExpr":
            if id(n) not in self.sizeof_ids:
                self.sizeof_ids[id(n)] = len(self.sizeof_ids) + 1
            return self._inp("sizeof_%d" % self.sizeof_ids[id(n)], U64)
        if k == "UnaryOperator" and n.get("opcode") == "&":
            return E("1", 1, 1, atom=True)          # address of an object: a non-NULL pointer
        return super().rvalue(n, st)

    def arith(self, op, a, b, t):
        # fold bit operations on literal constants (mode macros expand to e.g. (0400 >> 3) | (0200 >> 3))
        if op in ("&", "|", "^", "<<", ">>") and a.lo == a.hi and b.lo == b.hi and a.lo >= 0 and b.lo >= 0 \
                and re.fullmatch(r"\d+", a.s) and re.fullmatch(r"\d+", b.s):
            v = {"&": a.lo & b.lo, "|": a.lo | b.lo, "^": a.lo ^ b.lo, "<<": a.lo << b.lo, ">>": a.lo >> b.lo}[op]
            return self.wrap(lit(v), t)
        return super().arith(op, a, b, t)

    def call(self, n, st):
        fn = self.callee(n)
        h = self.spec.get("calls", {}).get(fn)
        args = n["inner"][1:]
        if fn in self.spec.get("fatal", ()) or fn in self.spec.get("forceable", ()):
            raise KError("%s used inside an expression" % fn)
        if h is None:
            raise KError("call to %s, which is not in the call table of %s" % (fn, self.spec["name"]))
        kind = h[0]
        if kind == "stat":                  # ("stat", epoch, rcname)
            st["epoch"] = h[1]
            st["errno_src"] = h[2]
            return self._inp(h[2], I32)
        if kind == "umask":
            old = st["umask"]
            st["umask"] = self.as_int(self.rvalue(args[0], st))
            st["umask_set"] = True
            return old
        if kind == "create":                # ("create", rcname, rctype, mode arg index | None)
            mode = self.as_int(self.rvalue(args[h[3]], st)) if h[3] is not None else lit(-1)
            st["events"].append('("%s", [%s, %s])' % (fn, mode.s, st["umask"].s))
            trip = (fn, mode.s, st["umask"].s)
            if trip not in self.creates:
                self.creates.append(trip)
            st["errno_src"] = h[1]
            return self._inp(h[1], h[2])
        if kind == "seterr":
            rc = self.as_int(self.rvalue(args[0], st))
            st["events"].append('("err", [%d])' % self.site_of[id(n)])
            return rc
        if kind == "sys":                   # ("sys", rcname, ctype, record_event?)
            st["errno_src"] = h[1]
            if len(h) > 3 and h[3]:
                st["events"].append('("%s", [])' % fn)
            return self._inp(h[1], h[2])
        return super().call(n, st)

    # ---- statements
    def leaf(self, st, ret, fatal=False):
        if st.get("umask_set"):
            if "umask" not in st["worder"]:
                st["worder"].append("umask")
            st["mem"]["umask"] = st["umask"]
            if not fatal and st["umask"].s not in self.final_umasks:
                self.final_umasks.append(st["umask"].s)
        return super().leaf(st, ret)

    def run(self, stmts, st, depth=0):
        if not stmts and "end_ret" in self.spec:
            return self.leaf(st, lit(self.spec["end_ret"]))
        if not stmts:
            return super().run(stmts, st, depth)
        s, rest = stmts[0], stmts[1:]
        c = strip(s) if s["kind"] in ("ParenExpr", "ImplicitCastExpr", "CStyleCastExpr") else s
        if c["kind"] == "CallExpr":
            fn = callee_of(c)
            if fn in self.spec.get("fatal", ()):
                st["events"].append('("fatal", [%d])' % self.site_of[id(c)])
                return self.leaf(st, lit(self.spec.get("fatal_ret", -99)), fatal=True)
            if fn in self.spec.get("forceable", ()):
                k = self.site_of[id(c)]
                g = self.cond(c["inner"][1], st)
                st2 = self.clone(st)
                st["mem"]["warn%d" % k] = lit(1)      # recorded as a write so that branches re-join
                a = self.run(rest, st, depth + 1)
                st2["events"].append('("fatal", [%d])' % k)
                b = self.leaf(st2, lit(self.spec.get("fatal_ret", -99)), fatal=True)
                if g.const is True:
                    return a
                if g.const is False:
                    return b
                return ("ite", g, a, b)
        if s["kind"] == "DoStmt":
            body, cnd = s["inner"][0], s["inner"][1]
            if not any(x.get("kind") == "CallExpr" and callee_of(x) == "__errno_location" for x in walk(cnd)):
                raise KError("do-while loop whose condition is not an errno (EINTR) retry")
            return self.run([body] + rest, st, depth + 1)
        if s["kind"] == "WhileStmt":
            if not self.spec.get("havoc_loops"):
                raise KError("loop: function is not loop-free")
            body = s["inner"][-1]
            if id(s) not in self.loop_ids:
                self.loop_ids[id(s)] = len(self.loops)
                calls = [callee_of(x) for x in walk(body) if x.get("kind") == "CallExpr"]
                self.loops.append((len(self.loops), [c2 for c2 in calls if c2]))
            k = self.loop_ids[id(s)]
            assigned = []
            for x in walk(body):
                if x.get("kind") in ("BinaryOperator", "CompoundAssignOperator") and (x.get("opcode") == "=" or x.get("kind") == "CompoundAssignOperator"):
                    l = strip(x["inner"][0])
                    if l["kind"] == "DeclRefExpr" and l["referencedDecl"]["kind"] == "VarDecl":
                        nm = l["referencedDecl"]["name"]
                        if nm not in [a[0] for a in assigned]:
                            assigned.append((nm, self.ctype(x)))
                    elif l["kind"] != "DeclRefExpr":
                        raise KError("loop body writes through a non-variable lvalue")
            for nm, t in assigned:
                if t == "ptr":
                    raise KError("loop body assigns a pointer")
                st["locals"][nm] = self._inp(nm + "_post", t)
                st["declared"].add(nm)
            st["events"].append('("loop", [%d])' % k)
            return self.run(rest, st, depth + 1)
        if s["kind"] in ("ImplicitCastExpr", "CStyleCastExpr", "ParenExpr") and c["kind"] != "CallExpr":
            self.rvalue(s, st)
            return self.run(rest, st, depth + 1)
        return super().run(stmts, st, depth)


# ------------------------------------------------------------------ small C printer (shape checks)
def cprint(n):
    k = n.get("kind")
    inner = [c for c in n.get("inner", []) if isinstance(c, dict)]
    if k in ("ParenExpr", "ImplicitCastExpr", "ConstantExpr"):
        return cprint(inner[0])
    if k == "CStyleCastExpr":
        return "(cast %s)" % cprint(inner[0])
    if k == "IntegerLiteral":
        return str(int(n["value"]))
    if k == "CharacterLiteral":
        return "chr%d" % int(n["value"])
    if k == "StringLiteral":
        return n["value"]
    if k == "DeclRefExpr":
        return n["referencedDecl"]["name"]
    if k == "MemberExpr":
        return cprint(inner[0]) + ("->" if n.get("isArrow") else ".") + n["name"]
    if k == "ArraySubscriptExpr":
        return "%s[%s]" % (cprint(inner[0]), cprint(inner[1]))
    if k == "UnaryOperator":
        return ("(%s%s)" if n.get("isPostfix") else "(%s%s)") % (
            (cprint(inner[0]), n["opcode"]) if n.get("isPostfix") else (n["opcode"], cprint(inner[0])))
    if k in ("BinaryOperator", "CompoundAssignOperator"):
        return "(%s %s %s)" % (cprint(inner[0]), n["opcode"], cprint(inner[1]))
    if k == "CallExpr":
        fn = callee_of(n)
        if fn in ("_path_set_err", "strerror", "__errno_location"):
            return "%s(..)" % fn
        return "%s(%s)" % (fn, ", ".join(cprint(a) for a in inner[1:]))
    if k == "CompoundStmt":
        return "{ " + " ".join(cprint(c) for c in inner) + " }"
    if k == "IfStmt":
        s = "if %s %s" % (cprint(inner[0]), cprint(inner[1]))
        if len(inner) > 2:
            s += " else " + cprint(inner[2])
        return s
    if k == "ReturnStmt":
        return "return %s;" % (cprint(inner[0]) if inner else "")
    if k == "WhileStmt":
        return "while %s %s" % (cprint(inner[0]), cprint(inner[1]))
    if k == "UnaryExprOrTypeTraitExpr":
        return "sizeof"
    return "<%s>" % k


def semi(s):
    return s if s.endswith(("}", ";")) else s + ";"


# ------------------------------------------------------------------ specs
LOGS = {"log_msg": ("ignore",), "strerror": ("ignore",), "__assert_fail": ("ignore",)}
FATAL = ("log_err", "log_errno")
FORCE = ("log_err_or_warn",)


def specs():
    return [
        dict(name="path_is_secure", file="src/munged/path.c", lean="dirCheck", part="loop_checks", end_ret=2,
             inputs=[("flags", "flags"), ("_path_trusted_gid", "tgid"), ("euid", "euid")],
             sig=["flags", "tgid", "euid", "lstat_rc", "l_mode", "l_uid", "l_gid"],
             calls=dict(LOGS, lstat=("stat", "l", "lstat_rc"), _path_set_err=("seterr",))),
        dict(name="_conf_open_keyfile", file="src/munged/conf.c", lean="conf_open_keyfile",
             inputs=[("keyfile", "keyfile"), ("got_force", "got_force")],
             sig=["keyfile", "keyfile_0", "got_force", "lstat_rc", "l_mode", "stat_rc", "s_mode", "s_uid", "euid",
                  "dirname_rc", "open_fd"],
             oracles=[("path_is_secure", 1)], fatal=FATAL, forceable=FORCE,
             calls=dict(LOGS, lstat=("stat", "l", "lstat_rc"), stat=("stat", "s", "stat_rc"),
                        geteuid=("input", "euid", U32), path_dirname=("sys", "dirname_rc", I32),
                        path_is_secure=("oracle", [3], (-1, 1)), open=("sys", "open_fd", I32))),
        dict(name="_random_read_seed", file="src/munged/random.c", lean="random_read_seed", havoc_loops=True,
             inputs=[("num_bytes", "num_bytes")],
             sig=["num_bytes", "lstat_rc", "l_mode", "open_fd", "errno_open_fd", "fstat_rc", "f_mode", "f_uid", "euid",
                  "num_left_post", "num_want_post", "n_post", "close_rc"],
             fatal=FATAL, forceable=FORCE,
             calls=dict(LOGS, lstat=("stat", "l", "lstat_rc"), fstat=("stat", "f", "fstat_rc"),
                        geteuid=("input", "euid", U32), open=("sys", "open_fd", I32), close=("sys", "close_rc", I32))),
        dict(name="_random_read_entropy_from_file", file="src/munged/random.c", lean="random_read_entropy_from_file",
             inputs=[("path", "path"), ("conf.got_force", "got_force")],
             sig=["path", "path_0", "got_force", "dirname_rc", "unlink_rc", "errno_unlink_rc"],
             oracles=[("path_is_secure", 1), ("_random_read_seed", 1)], fatal=FATAL, forceable=FORCE,
             calls=dict(LOGS, path_dirname=("sys", "dirname_rc", I32), path_is_secure=("oracle", [3], (-1, 1)),
                        _random_read_seed=("oracle", [1], trange(I32)), unlink=("sys", "unlink_rc", I32, True))),
        dict(name="_random_write_seed", file="src/munged/random.c", lean="random_write_seed", havoc_loops=True,
             inputs=[("num_bytes", "num_bytes")],
             sig=["umask0", "num_bytes", "unlink_rc", "errno_unlink_rc", "open_fd", "num_left_post", "num_want_post",
                  "n_post", "close_rc"],
             fatal=FATAL, forceable=FORCE,
             calls=dict(LOGS, unlink=("sys", "unlink_rc", I32, True), open=("create", "open_fd", I32, 2),
                        close=("sys", "close_rc", I32))),
        dict(name="lock_create", file="src/munged/lock.c", lean="lock_create", void=True,
             inputs=[("conf", "conf"), ("conf.got_force", "got_force"), ("conf.lockfile_fd", "old_fd")],
             sig=["umask0", "conf", "got_force", "old_fd", "unlink_rc", "errno_unlink_rc", "close_rc", "open_fd",
                  "lock_set_rc", "lock_pid", "lock_stale"],
             fatal=FATAL, forceable=FORCE,
             calls=dict(LOGS, _lock_create_name=("ignore",), unlink=("sys", "unlink_rc", I32, True),
                        close=("sys", "close_rc", I32), umask=("umask",), open=("create", "open_fd", I32, 2),
                        _lock_stat=("event", 0, []), _lock_set=("sys", "lock_set_rc", I32, True),
                        _lock_is_set=("sys", "lock_pid", I32), _lock_is_stale=("sys", "lock_stale", I32))),
        dict(name="_lock_stat", file="src/munged/lock.c", lean="lock_stat", void=True,
             inputs=[], sig=["fstat_rc", "f_mode", "f_uid", "euid"], fatal=FATAL, forceable=FORCE,
             calls=dict(LOGS, fstat=("stat", "f", "fstat_rc"), geteuid=("input", "euid", U32))),
        dict(name="open_logfile", file="src/munged/munged.c", lean="open_logfile", void=True,
             inputs=[("logfile", "logfile"), ("got_force", "got_force"), ("priority", "priority")],
             sig=["umask0", "logfile", "logfile_0", "got_force", "priority", "lstat_rc", "l_mode", "stat_rc", "errno_stat_rc",
                  "s_mode", "s_uid", "euid", "dirname_rc", "fopen_ok"],
             oracles=[("path_is_secure", 1)], fatal=FATAL, forceable=FORCE,
             calls=dict(LOGS, lstat=("stat", "l", "lstat_rc"), stat=("stat", "s", "stat_rc"),
                        geteuid=("input", "euid", U32), path_dirname=("sys", "dirname_rc", I32),
                        path_is_secure=("oracle", [3], (-1, 1)), umask=("umask",),
                        fopen=("create", "fopen_ok", "ptr", None), log_open_file=("ignore",))),
        dict(name="write_pidfile", file="src/munged/munged.c", lean="write_pidfile", void=True,
             inputs=[("pidfile", "pidfile"), ("got_force", "got_force")],
             sig=["umask0", "pidfile", "pidfile_0", "got_force", "dirname_rc", "unlink_rc", "errno_unlink_rc", "fopen_ok",
                  "fprintf_rc", "fclose_rc"],
             oracles=[("path_is_secure", 1)], fatal=FATAL, forceable=FORCE,
             calls=dict(LOGS, path_dirname=("sys", "dirname_rc", I32), path_is_secure=("oracle", [3], (-1, 1)),
                        umask=("umask",), unlink=("sys", "unlink_rc", I32, True),
                        fopen=("create", "fopen_ok", "ptr", None), fprintf=("sys", "fprintf_rc", I32),
                        fclose=("sys", "fclose_rc", I32), getpid=("ignore",))),
        dict(name="sock_create", file="src/munged/munged.c", lean="sock_create", void=True,
             inputs=[("conf", "conf"), ("conf.socket_name", "socket_name"), ("conf.got_force", "got_force"),
                     ("conf.listen_backlog", "listen_backlog")],
             sig=["umask0", "conf", "socket_name", "socket_name_0", "got_force", "listen_backlog", "dirname_rc", "accessible_rc",
                  "unlink_rc", "errno_unlink_rc", "socket_fd", "strlcpy_n", "sizeof_1",
                  "bind_rc", "listen_rc"],
             oracles=[("path_is_secure", 1)], fatal=FATAL, forceable=FORCE,
             calls=dict(LOGS, path_dirname=("sys", "dirname_rc", I32), path_is_secure=("oracle", [3], (-1, 1)),
                        path_is_accessible=("sys", "accessible_rc", I32), lock_create=("event", 0, []),
                        unlink=("sys", "unlink_rc", I32, True), socket=("sys", "socket_fd", I32),
                        memset=("ignore",), strlcpy=("sys", "strlcpy_n", U64), umask=("umask",),
                        bind=("create", "bind_rc", I32, None), listen=("sys", "listen_rc", I32))),
    ]


EXPECT_SHAPES = {
    "while_cond": "(buf[0] != chr0)",
    "pre_strip": "if (!((st.st_mode & 61440) == 16384)) { if (p = strrchr(buf, chr47)) { ((*p) = chr0) } }",
    "advance": "if (!(p = strrchr(buf, chr47))) { ((*__errno_location(..)) = 22) return _path_set_err(..); } "
               "if ((p == buf) && (buf[1] != chr0)) { (p++) } ((*p) = chr0)",
}


def translate_one(ctx, sp, asts, vals, types):
    fdecl = asts[sp["name"]]
    tr = KPlus(sp, vals, types, fdecl)
    params = [c["name"] for c in fdecl.get("inner", []) if c["kind"] == "ParmVarDecl"]
    body = [c for c in fdecl["inner"] if c["kind"] == "CompoundStmt"][0]
    st = {"locals": {}, "mem": {}, "worder": [], "events": [], "declared": set(), "params": set(params),
          "epoch": None, "umask": None, "umask_set": False, "errno_src": None}
    for c in fdecl.get("inner", []):
        if c["kind"] == "ParmVarDecl":
            t = tr.ctype(c)
            if t != "ptr" and c["name"] in sp["sig"]:
                tr.inputs.setdefault(c["name"], c["name"])
    if "umask0" in sp["sig"]:
        st["umask"] = tr._inp("umask0", U32)
    stmts = list(body.get("inner", []))
    shapes = {}
    if sp.get("part") == "loop_checks":
        loops = [s for s in stmts if s["kind"] == "WhileStmt"]
        if len(loops) != 1:
            raise KError("expected exactly one while loop in %s" % sp["name"])
        w = loops[0]
        lb = list(w["inner"][-1].get("inner", []))
        cut = None
        for i, s in enumerate(lb):
            if any(x.get("kind") == "CallExpr" and callee_of(x) == "strrchr" for x in walk(s)):
                cut = i
                break
        if not cut:
            raise KError("loop body of %s: no per-directory checks before the strrchr step" % sp["name"])
        for s in lb[:cut]:
            ok = s["kind"] == "IfStmt" and len(s["inner"]) == 2
            if ok:
                rets = [x for x in walk(s["inner"][1]) if x.get("kind") == "ReturnStmt"]
                ok = len(rets) == 1 and any(x.get("kind") == "CallExpr" and callee_of(x) == "_path_set_err" for x in walk(rets[0]))
            if not ok:
                raise KError("loop body statement %d of %s is not `if (..) return _path_set_err (..)`" % (lb.index(s), sp["name"]))
        shapes["while_cond"] = cprint(w["inner"][0])
        shapes["advance"] = " ".join(cprint(s) for s in lb[cut:])
        pre = stmts[:stmts.index(w)]
        pre_if = [s for s in pre if s["kind"] == "IfStmt" and any(x.get("kind") == "CallExpr" and callee_of(x) == "strrchr" for x in walk(s))]
        shapes["pre_strip"] = " ".join(cprint(s) for s in pre_if)
        # the euid the loop compares with must be geteuid()
        eu = [s for s in pre if s["kind"] == "BinaryOperator" and s.get("opcode") == "=" and cprint(s["inner"][0]) == "euid"]
        shapes["euid_src"] = cprint(eu[0]["inner"][1]) if eu else "?"
        stmts = lb[:cut]
    for k, (kind, _) in enumerate(tr.sites):
        if kind == "force":
            st["worder"].append("warn%d" % k)
            st["mem"]["warn%d" % k] = lit(0)
    tr.collect_labels(stmts, [])
    term = tr.render(tr.run(stmts, st))
    return tr, term, shapes


def emit_kernel(sp, tr, term):
    used = list(tr.used_inputs)
    extra = [u for u in used if u not in sp["sig"]]
    if extra:
        raise KError("kernel %s reads inputs outside its declared signature: %s" % (sp["name"], extra))
    sig = " ".join("(%s : Int)" % nm for nm in sp["sig"])
    for o, ar in sp.get("oracles", []):
        sig += " (%s : %sInt)" % (o, "Int → " * ar)
    rng = []
    for nm in sp["sig"]:
        t = tr.input_types.get(nm)
        if t == "ptr":
            rng.append("0 ≤ %s" % nm)
        elif t:
            lo, hi = trange(t)
            rng.append("%s ≤ %s ∧ %s ≤ %s" % (lit(lo).s, nm, nm, hi))
    ln = sp["lean"]
    out = "/-- translated (K+) from `%s` in %s -/\ndef %s %s : KOut :=\n%s\n\n" % (sp["name"], sp["file"], ln, sig, indent(term))
    out += "/-- C-type ranges of the inputs of `%s` -/\ndef %s_inRange %s : Prop :=\n  %s\n\n" % (
        ln, ln, " ".join("(%s : Int)" % nm for nm in sp["sig"]), " ∧ ".join(rng) if rng else "True")
    out += "/-- log / error call sites of `%s` in source order: (kind, format string) -/\ndef %s_sites : List (String × String) :=\n  [%s]\n\n" % (
        sp["name"], ln, ",\n   ".join("(%s, %s)" % (lean_str(k), lean_str(f)) for k, f in tr.sites))
    out += "def %s_unusedInputs : List String := [%s]\n\n" % (ln, ", ".join(lean_str(x) for x in sp["sig"] if x not in used))
    if "umask0" in sp["sig"]:
        for (fn, m, u) in tr.creates:
            for term_ in (m, u):
                free = set(re.findall(r"[A-Za-z_][A-Za-z_0-9]*", term_)) - {"band", "bor", "bxor", "shl", "shr", "bnotU", "wrapU32", "wrapS32", "umask0"}
                if free:
                    raise KError("creation site %s of %s: mode/umask depends on %s" % (fn, sp["name"], sorted(free)))
        out += "/-- file-creating calls of `%s`: (callee, mode argument or -1 when the callee has none, umask in force) -/\n" % sp["name"]
        out += "def %s_creates (umask0 : Int) : List (String × Int × Int) :=\n  [%s]\n\n" % (
            ln, ", ".join("(%s, %s, %s)" % (lean_str(fn), m, u) for fn, m, u in tr.creates))
        fu = tr.final_umasks if tr.final_umasks else ["umask0"]
        out += "/-- process umask on return from `%s` (every non-fatal path) -/\ndef %s_umaskAfter (umask0 : Int) : List Int := [%s]\n\n" % (
            sp["name"], ln, ", ".join(fu))
    if tr.loops:
        out += "/-- calls made inside the havoc'd loops of `%s` -/\ndef %s_loopCalls : List (Nat × List String) := [%s]\n\n" % (
            sp["name"], ln, ", ".join("(%d, [%s])" % (k, ", ".join(lean_str(c) for c in cs)) for k, cs in tr.loops))
    return out


PROBE = r'''
#include <stdio.h>
#include <sys/types.h>
#include <sys/stat.h>
#include <fcntl.h>
#include <errno.h>
#include "munge_defs.h"
#include "common.h"
#include "path.h"
#define P(x) printf (#x " %lld\n", (long long) (x))
int main (void) {
  P(S_IFMT); P(S_IFDIR); P(S_IFREG); P(S_IFLNK); P(S_IFCHR); P(S_IFIFO); P(S_IFSOCK); P(S_IFBLK);
  P(S_ISVTX); P(S_IWUSR); P(S_IRGRP); P(S_IWGRP); P(S_IROTH); P(S_IWOTH);
  P(O_CREAT); P(ENOENT); P(EINTR);
  P(PATH_SECURITY_NO_FLAGS); P(PATH_SECURITY_IGNORE_GROUP_WRITE);
  printf ("GID_SENTINEL %llu\n", (unsigned long long) (gid_t) GID_SENTINEL);
  return 0;
}
'''


def outside_loop_callees(fdecl):
    """callee names of all calls of a function that are NOT inside a while/for loop"""
    out = []
    def rec(n, inloop):
        if n.get("kind") == "CallExpr" and not inloop:
            c = callee_of(n)
            if c:
                out.append(c)
        for c in n.get("inner", []) or []:
            if isinstance(c, dict):
                rec(c, inloop or n.get("kind") in ("WhileStmt", "ForStmt"))
    rec(fdecl, False)
    return out


CALLSITES = [  # (file, enclosing function, callee, argument index, expected C text)
    ("src/munged/conf.c", "create_subkeys", "_conf_open_keyfile", 0, "conf->key_name"),
    ("src/munged/conf.c", "create_subkeys", "_conf_open_keyfile", 1, "conf->got_force"),
    ("src/munged/munged.c", "main", "open_logfile", 0, "conf->logfile_name"),
    ("src/munged/munged.c", "main", "open_logfile", 2, "conf->got_force"),
    ("src/munged/munged.c", "main", "write_pidfile", 0, "conf->pidfile_name"),
    ("src/munged/munged.c", "main", "write_pidfile", 1, "conf->got_force"),
    ("src/munged/munged.c", "main", "sock_create", 0, "conf"),
    ("src/munged/munged.c", "main", "random_init", 0, "conf->seed_name"),
    ("src/munged/munged.c", "main", "random_fini", 0, "conf->seed_name"),
    ("src/munged/random.c", "random_init", "_random_read_entropy_from_file", 0, "seed_path"),
    ("src/munged/random.c", "random_fini", "_random_write_seed", 0, "seed_path"),
    ("src/munged/munged.c", "sock_create", "lock_create", 0, "conf"),
]


def callsites(ctx):
    """the arguments with which start-up invokes the checked functions: (caller.callee#arg, C text, expected)"""
    out, cache = [], {}
    for (f, fn, callee, idx, want) in CALLSITES:
        key = (f, fn)
        try:
            if key not in cache:
                cache[key] = load_ast(ctx.repo, f, fn)
            calls = [n for n in walk(cache[key]) if n.get("kind") == "CallExpr" and callee_of(n) == callee]
            if len(calls) != 1:
                got = "<%d calls>" % len(calls)
            else:
                args = [c for c in calls[0]["inner"][1:]]
                got = cprint(args[idx]) if idx < len(args) else "<missing>"
        except KError as e:
            got = "<%s>" % e
        out.append(("%s.%s#%d" % (fn, callee, idx), got, want))
    return out


def generate(ctx):
    out = run_probe(ctx, "path", PROBE)
    if out is None:
        return False
    consts = {}
    for line in out.strip().split("\n"):
        k, v = line.split()
        consts[k] = int(v)
    ctx.obligation("gen", "C16 mode / flag / errno constants probed from the platform and munge headers", len(consts) == 20, out[:400])
    body = "/- GENERATED from <repo>/src/munged/{path,conf,random,lock,munged}.c by tools/gen/g_path.py -- do not edit -/\n"
    body += "import Munge.C.Kernel\nset_option linter.unusedVariables false\nnamespace Munge.Gen.Path\nopen Munge.C\n\n"
    for k in sorted(consts):
        body += "def %s : Int := %d\n" % (k, consts[k])
    body += "\n"
    ok = True
    byfile = {}
    for sp in specs():
        byfile.setdefault(sp["file"], []).append(sp)
    shapes_all = {}
    for f, sps in byfile.items():
        asts, names, etypes = {}, set(), set()
        for sp in sps:
            try:
                asts[sp["name"]] = load_ast(ctx.repo, f, sp["name"])
                find_enums(asts[sp["name"]], names, etypes)
            except KError as e:
                ctx.obligation("gen", "function %s (%s) parsed by clang" % (sp["name"], f), False, str(e))
                ok = False
        vals, types = probe_enums(ctx, f, names, etypes)
        if vals is None:
            return False
        for sp in sps:
            if sp["name"] not in asts:
                continue
            try:
                tr, term, shapes = translate_one(ctx, sp, asts, vals, types)
                body += emit_kernel(sp, tr, term)
                shapes_all.update(shapes)
                if sp["name"] == "_random_read_seed":
                    oc = outside_loop_callees(asts[sp["name"]])
                    body += "/-- calls of `_random_read_seed` outside its read loop (the pool is fed only inside) -/\n"
                    body += "def random_read_seed_outsideLoopCalls : List String := [%s]\n\n" % ", ".join(lean_str(c) for c in sorted(set(oc)))
                ctx.obligation("gen", "%s (%s) translated (K+)" % (sp["name"], f), True)
            except KError as e:
                ctx.obligation("gen", "%s (%s) translated (K+)" % (sp["name"], f), False, str(e))
                ok = False
    kernels_ok = ok
    cs = callsites(ctx)
    body += "/-- arguments with which start-up calls the checked functions: (caller.callee#index, argument as written, expected) -/\n"
    body += "def callSites : List (String × String × String) :=\n  [%s]\n\n" % ",\n   ".join(
        "(%s, %s, %s)" % (lean_str(a), lean_str(b), lean_str(c)) for a, b, c in cs)
    badcs = [c for c in cs if c[1] != c[2]]
    ctx.obligation("gen", "start-up call sites pass the configured names and conf->got_force to the checked functions",
                   not badcs, "; ".join("%s is `%s`, expected `%s`" % c for c in badcs))
    ok = ok and not badcs
    for k, want in EXPECT_SHAPES.items():
        got = shapes_all.get(k)
        ctx.obligation("gen", "path_is_secure: hand-modelled %s has the modelled shape" % k, got == want,
                       "expected `%s` got `%s`" % (want, got))
        ok = ok and got == want
    eu = shapes_all.get("euid_src")
    ctx.obligation("gen", "path_is_secure compares owners with geteuid()", eu == "geteuid()", "euid = %s" % eu)
    ok = ok and eu == "geteuid()"
    if kernels_ok:
        # a shape mismatch concerns the hand-written string loop only: the kernels are still current, so write them
        # (the correspondence stream then decides whether the hand-written part still matches the code)
        body += "end Munge.Gen.Path\n"
        gen_write("Path", body)
    return ok
