"""Gen.Dec / Gen.Enc: decision kernels and orchestration of src/munged/dec.c and enc.c, translated by
ktrans from clang's typed AST, plus the constants they depend on (compile-and-print probe)."""
import os
from .probe import run_probe
from .ktrans import translate_kernels
from ..vlib.leanlib import gen_write

DEC_STAGES = ["dec_validate_msg", "cred_create", "dec_timestamp", "dec_authenticate", "dec_check_retry",
              "dec_unarmor", "dec_unpack_outer", "dec_decrypt", "dec_validate_mac", "dec_decompress",
              "dec_unpack_inner", "dec_validate_auth", "dec_validate_time", "dec_validate_replay"]
ENC_STAGES = ["enc_validate_msg", "cred_create", "enc_init", "enc_authenticate", "enc_check_retry",
              "enc_timestamp", "enc_pack_outer", "enc_pack_inner", "enc_compress", "enc_mac",
              "enc_encrypt", "enc_armor", "enc_fini"]

CONSTS = ["EMUNGE_SUCCESS", "EMUNGE_SNAFU", "EMUNGE_BAD_ARG", "EMUNGE_BAD_LENGTH", "EMUNGE_OVERFLOW", "EMUNGE_NO_MEMORY",
          "EMUNGE_SOCKET", "EMUNGE_BAD_CRED", "EMUNGE_BAD_VERSION", "EMUNGE_BAD_CIPHER", "EMUNGE_BAD_MAC", "EMUNGE_BAD_ZIP",
          "EMUNGE_BAD_REALM", "EMUNGE_CRED_INVALID", "EMUNGE_CRED_EXPIRED", "EMUNGE_CRED_REWOUND", "EMUNGE_CRED_REPLAYED",
          "EMUNGE_CRED_UNAUTHORIZED", "MUNGE_DEFAULT_TTL", "MUNGE_MAXIMUM_TTL", "MUNGE_SOCKET_RETRY_ATTEMPTS",
          "MUNGE_AUTH_ROOT_ALLOW_FLAG", "MUNGE_SOCKET_RETRY_FLAG", "MUNGE_CIPHER_NONE", "MUNGE_CIPHER_DEFAULT",
          "MUNGE_MAC_NONE", "MUNGE_MAC_DEFAULT", "MUNGE_ZIP_NONE", "MUNGE_ZIP_DEFAULT", "MUNGE_DEFAULT_CIPHER",
          "MUNGE_DEFAULT_MAC", "MUNGE_DEFAULT_ZIP", "MUNGE_REPLAY_PURGE_SECS", "MUNGE_MAXIMUM_REQ_LEN",
          "MUNGE_CRED_VERSION", "MUNGE_CRED_SALT_LEN"]

M = lambda f, n=None: ("c.msg." + f, n or f)
MM = lambda f, n=None: ("m." + f, n or f)
SET_ERR = ("event", -1, [1])


def stage_calls(stages):
    calls = {s: (("ptrinput", "c", True) if s == "cred_create" else ("input", "r_" + s, (32, True), True)) for s in stages}
    calls.update({"m_msg_reset": ("event", 0, []), "m_msg_send": ("input", "r_m_msg_send", (32, False), True),
                  "replay_remove": ("event", 0, []), "cred_destroy": ("event", 0, [])})
    return calls


def dec_specs():
    return [
        dict(name="dec_process_msg", inputs=[("m.error_num", "error_num"), ("c", "r_cred_create"), ("c.replay_inserted", "replay_inserted")],
             calls=stage_calls(DEC_STAGES)),
        dict(name="dec_validate_msg", inputs=[MM("data_len"), MM("data", "data_ptr")],
             calls={"m_msg_set_err": SET_ERR, "strdup": ("ignore", 1)}),
        dict(name="dec_check_retry", inputs=[M("retry"), M("client_uid"), M("client_gid")],
             calls={"m_msg_set_err": SET_ERR, "strdupf": ("ignore", 1), "log_msg": ("ignore", 0)}),
        dict(name="dec_validate_auth",
             inputs=[M("auth_uid"), M("auth_gid"), M("client_uid"), M("client_gid"), ("conf.got_root_auth", "got_root_auth")],
             calls={"m_msg_set_err": SET_ERR, "gids_is_member": ("oracle", [1, 2]), "strdupf": ("ignore", 1)}),
        dict(name="dec_validate_time",
             inputs=[M("ttl"), M("time0"), M("time1"), ("conf.max_ttl", "max_ttl"), ("conf.got_clock_skew", "got_clock_skew")],
             calls={"m_msg_set_err": SET_ERR}),
        dict(name="dec_validate_replay",
             inputs=[M("retry"), ("conf.got_socket_retry", "got_socket_retry"), ("errno", "errno"), M("client_uid"), M("client_gid")],
             calls={"m_msg_set_err": SET_ERR, "replay_insert": ("input", "replay_insert_ret", (32, True), True),
                    "log_msg": ("ignore", 0)}),
    ]


def enc_specs():
    return [
        dict(name="enc_process_msg", inputs=[("m.error_num", "error_num"), ("c", "r_cred_create")], calls=stage_calls(ENC_STAGES)),
        dict(name="enc_validate_msg",
             inputs=[MM("cipher"), MM("mac"), MM("zip"), MM("data_len"), MM("ttl"), ("conf.def_cipher", "def_cipher"),
                     ("conf.def_mac", "def_mac"), ("conf.def_zip", "def_zip"), ("conf.def_ttl", "def_ttl"),
                     ("conf.max_ttl", "max_ttl")],
             calls={"m_msg_set_err": SET_ERR, "strdupf": ("ignore", 1),
                    "cipher_map_enum": ("oracle", [0]), "mac_map_enum": ("oracle", [0]), "mac_size": ("oracle", [0]),
                    "cipher_key_size": ("oracle", [0]), "zip_is_valid_type": ("oracle", [0])},
             oracles=["cipher_map_enum", "mac_map_enum", "mac_size", "cipher_key_size", "zip_is_valid_type"],
             oracle_arity={"cipher_map_enum": 1, "mac_map_enum": 1, "mac_size": 1, "cipher_key_size": 1, "zip_is_valid_type": 1}),
        dict(name="enc_check_retry", inputs=[M("retry"), M("client_uid"), M("client_gid")],
             calls={"m_msg_set_err": SET_ERR, "strdupf": ("ignore", 1), "log_msg": ("ignore", 0)}),
    ]


def probe_consts(ctx):
    src = '#include <stdio.h>\n#include <munge.h>\n#include "munge_defs.h"\n#include "cred.h"\n#include "conf.h"\nint main(void){\n'
    for c in CONSTS:
        src += '  printf("%s %%lld\\n", (long long) (%s));\n' % (c, c)
    src += '  printf("MUNGE_UID_ANY %lld\\n", (long long) (unsigned int) MUNGE_UID_ANY);\n'
    src += '  printf("MUNGE_GID_ANY %lld\\n", (long long) (unsigned int) MUNGE_GID_ANY);\n'
    src += '  printf("PREFIX %s\\nSUFFIX %s\\n", MUNGE_CRED_PREFIX, MUNGE_CRED_SUFFIX);\n'
    src += "  return 0; }\n"
    out = run_probe(ctx, "dec_consts", src)
    if out is None:
        return None
    kv = {}
    for line in out.strip().split("\n"):
        k, v = line.split(" ", 1)
        kv[k] = v
    return kv


PRIMS_PROBE = r'''
#include <stdio.h>
#include <stdarg.h>
void log_msg (int priority, const char *format, ...) {}
void log_err (int status, int priority, const char *format, ...) {}
void log_errno (int status, int priority, const char *format, ...) {}
#include "crypto.c"
#include "md.c"
#include "mac.c"
#include "cipher.c"
#include "zip.c"
#include "strerror.c"
int main(void){
  int i;
  printf ("C ZIP_MAGIC %lld\n", (long long) ZIP_MAGIC);
  printf ("C ZIP_META_SIZE %lld\n", (long long) sizeof (zip_meta_t));
  for (i = 0; i <= 18; i++) printf ("S %d %s\n", i, munge_strerror (i));
  crypto_init (); md_init_subsystem (); cipher_init_subsystem ();
  for (i = 0; i < 256; i++)
    printf ("%d %d %d %d %d %d %d %d\n", i, mac_map_enum (i, NULL), mac_size (i),
        cipher_map_enum (i, NULL), cipher_key_size (i), cipher_block_size (i), cipher_iv_size (i),
        zip_is_valid_type (i));
  return 0;
}
'''


def probe_prims(ctx):
    """Per-enum tables of the real primitives (OpenSSL/zlib/bzlib as configured in this tree)."""
    out = run_probe(ctx, "prims", PRIMS_PROBE, libs=["-lcrypto", "-lz", "-lbz2"])
    if out is None:
        return None
    rows = [[int(x) for x in l.split()] for l in out.strip().split("\n") if l and l[0].isdigit()]
    if len(rows) != 256:
        ctx.obligation("gen", "primitive tables probed for all 256 enum values", False, out[-400:])
        return None
    names = ["mac_map_enum", "mac_size", "cipher_map_enum", "cipher_key_size", "cipher_block_size", "cipher_iv_size",
             "zip_is_valid_type"]
    txt = ""
    errs = []
    for l in out.strip().split("\n"):
        if l.startswith("C "):
            _, k, v = l.split()
            txt += "def %s : Int := %s\n" % (k, v)
        elif l.startswith("S "):
            errs.append(l.split(" ", 2)[2])
    txt += "/-- `munge_strerror` for the error codes 0..18 -/\ndef strerrorTbl : List String := [%s]\n" % ", ".join('"%s"' % e for e in errs)
    txt += "/-- per-enum answers of the real primitives, probed by calling them for every value 0..255 -/\n"
    for j, nm in enumerate(names):
        vals = [r[j + 1] for r in rows]
        txt += "def tbl_%s : List Int := [%s]\n" % (nm, ", ".join(str(v) if v >= 0 else "(%d)" % v for v in vals))
        txt += "def %s_real (x : Int) : Int := tbl_%s.getD x.toNat (-1)\n" % (nm, nm)
    return txt


SITE_FUNCS = [("src/munged/dec.c", f) for f in ("dec_validate_msg", "dec_timestamp", "dec_authenticate", "dec_check_retry", "dec_unarmor",
              "dec_unpack_outer", "dec_decrypt", "dec_validate_mac", "dec_decompress", "dec_unpack_inner", "dec_validate_auth",
              "dec_validate_time", "dec_validate_replay")] + \
             [("src/munged/enc.c", f) for f in ("enc_validate_msg", "enc_init", "enc_authenticate", "enc_check_retry", "enc_timestamp",
              "enc_pack_outer", "enc_pack_inner", "enc_compress", "enc_mac", "enc_encrypt", "enc_armor", "enc_fini")]


def error_sites(ctx):
    """Ordered list, per stage function, of its m_msg_set_err call sites: (error enum name, message literal or "" for NULL).
    The hand-written parsers of the model carry the same list; a check removed from, added to or reordered in the C
    changes this generated list and breaks the `sites_agree` obligations."""
    from .ktrans import load_ast, KError
    out = {}
    for rel, fn in SITE_FUNCS:
        try:
            ast = load_ast(ctx.repo, rel, fn)
        except KError as e:
            ctx.obligation("gen", "error sites of %s extracted" % fn, False, str(e))
            return None
        sites = []

        def lit_of(n):
            if isinstance(n, dict):
                if n.get("kind") == "StringLiteral":
                    return n.get("value", "").strip('"')
                for c in n.get("inner", []):
                    r = lit_of(c)
                    if r is not None:
                        return r
            return None

        def enum_of(n):
            if isinstance(n, dict):
                rd = n.get("referencedDecl")
                if rd and rd.get("kind") == "EnumConstantDecl":
                    return rd["name"]
                for c in n.get("inner", []):
                    r = enum_of(c)
                    if r:
                        return r
            return None

        def walk(n):
            if isinstance(n, dict):
                if n.get("kind") == "CallExpr":
                    callee = n["inner"][0]
                    while callee.get("kind") in ("ImplicitCastExpr", "ParenExpr"):
                        callee = callee["inner"][0]
                    if callee.get("referencedDecl", {}).get("name") == "m_msg_set_err":
                        args = n["inner"][1:]
                        sites.append((enum_of(args[1]) or "?", lit_of(args[2]) or ""))
                        return
                for c in n.get("inner", []):
                    walk(c)
        walk(ast)
        out[fn] = sites
    return out


def expr_text(n):
    """compact source-like text of a clang AST expression (enough to name what is packed)"""
    k = n.get("kind")
    inner = n.get("inner", [])
    if k in ("ImplicitCastExpr", "ParenExpr", "CStyleCastExpr"):
        return expr_text(inner[0])
    if k == "DeclRefExpr":
        return n["referencedDecl"]["name"]
    if k == "MemberExpr":
        return expr_text(inner[0]) + ("->" if n.get("isArrow") else ".") + n["name"]
    if k == "UnaryOperator":
        return n["opcode"] + expr_text(inner[0])
    if k == "UnaryExprOrTypeTraitExpr":
        return "sizeof(" + (expr_text(inner[0]) if inner else n.get("argType", {}).get("qualType", "?")) + ")"
    if k == "IntegerLiteral":
        return n["value"]
    if k == "BinaryOperator":
        return expr_text(inner[0]) + n["opcode"] + expr_text(inner[1])
    if k == "CallExpr":
        return expr_text(inner[0]) + "(" + ",".join(expr_text(a) for a in inner[1:]) + ")"
    return "?"


def pack_layout(ctx, fn):
    """Ordered list of what `fn` (enc_pack_outer / enc_pack_inner) writes through its cursor `p`:
    ("byte", expr) for `*p = expr`, ("be32", expr) for `u32 = htonl (expr); memcpy (p, &u32, …)`,
    ("bytes", src, len) for other `memcpy (p, src, len)`; a guard `if (cond)` around a write is kept as a prefix."""
    from .ktrans import load_ast, KError
    try:
        ast = load_ast(ctx.repo, "src/munged/enc.c", fn)
    except KError as e:
        ctx.obligation("gen", "pack layout of %s extracted" % fn, False, str(e))
        return None
    out = []
    state = {"htonl": None}

    def stmt(n, guard=""):
        k = n.get("kind")
        if k == "CompoundStmt":
            for c in n.get("inner", []):
                stmt(c, guard)
        elif k == "IfStmt":
            inner = n["inner"]
            cond = expr_text(inner[0])
            if "malloc" in cond:
                return
            stmt(inner[1], (guard + " && " if guard else "") + cond)
        elif k == "BinaryOperator" and n.get("opcode") == "=":
            lhs, rhs = n["inner"]
            lt = expr_text(lhs)
            if lt == "*p":
                r = rhs
                # `*p = m->addr_len = sizeof (m->addr)`: the stored value is the innermost right-hand side
                out.append(("byte", expr_text(r), guard))
            elif lt == "u32":
                state["htonl"] = expr_text(rhs)
        elif k == "CallExpr" and expr_text(n["inner"][0]) == "memcpy":
            a = n["inner"][1:]
            if expr_text(a[0]) == "p":
                src = expr_text(a[1])
                if src == "&u32" and state["htonl"]:
                    out.append(("be32", state["htonl"].replace("htonl(", "").rstrip(")"), guard))
                    state["htonl"] = None
                else:
                    out.append(("bytes", src + " len " + expr_text(a[2]), guard))
    body = [c for c in ast["inner"] if c.get("kind") == "CompoundStmt"][0]
    stmt(body)
    return out


CONF_FILES = ["src/munged/enc.c", "src/munged/dec.c", "src/munged/cred.c", "src/munged/zip.c", "src/munged/cipher.c", "src/munged/base64.c",
              "src/common/mac.c", "src/common/md.c", "src/libcommon/m_msg.c"]


def conf_reads(ctx):
    """Which fields of the daemon's configuration the credential pipeline's source files mention (`conf->field`), per file,
    sorted.  The model's `Conf` structure and the harness's `cred conf` op carry exactly these; a new dependence of the
    pipeline on a configuration switch (e.g. a mode flag) changes this generated table and breaks `conf_reads_as_modelled`."""
    import re
    out = []
    for rel in CONF_FILES:
        try:
            src = open(os.path.join(ctx.repo, rel)).read()
        except OSError as e:
            ctx.obligation("gen", "configuration fields read by %s extracted" % rel, False, str(e))
            return None
        src = re.sub(r"/\*.*?\*/", " ", src, flags=re.S)
        out.append((rel.split("/")[-1], sorted(set(re.findall(r"\bconf\s*->\s*([A-Za-z_0-9]+)", src)))))
    return out


def generate(ctx):
    prims = probe_prims(ctx)
    kv = probe_consts(ctx)
    d = translate_kernels(ctx, "src/munged/dec.c", dec_specs())
    e = translate_kernels(ctx, "src/munged/enc.c", enc_specs())
    ok = kv is not None and d is not None and e is not None and prims is not None
    ctx.obligation("gen", "constants of munge.h / munge_defs.h / cred.h probed", kv is not None)
    if not ok:
        return False
    body = "/- GENERATED from <repo>/src/munged/{dec,enc}.c and headers by tools/gen/g_dec.py -- do not edit -/\n"
    body += "import Munge.C.Kernel\nset_option linter.unusedVariables false\nnamespace Munge.Gen.Dec\nopen Munge.C\n\n"
    for k, v in kv.items():
        if k in ("PREFIX", "SUFFIX"):
            body += 'def %s : String := "%s"\n' % (k, v)
        else:
            body += "def %s : Int := %s\n" % (k, v if not v.startswith("-") else "(%s)" % v)
    body += "\n/-- order of the stage calls in `dec_process_msg` / `enc_process_msg` as listed to the translator -/\n"
    body += "def decStages : List String := [%s]\n" % ", ".join('"%s"' % s for s in DEC_STAGES)
    body += "def encStages : List String := [%s]\n\n" % ", ".join('"%s"' % s for s in ENC_STAGES)
    sites = error_sites(ctx)
    if sites is None:
        return False
    body += "/-- per stage function: its `m_msg_set_err` call sites in source order (error code, message literal; \"\" = NULL) -/\n"
    body += "def errorSites : List (String × List (Int × String)) := [\n"
    rows = []
    for (rel, fn) in SITE_FUNCS:
        items = ", ".join('(%s, "%s")' % (kv.get(c, "-1") if not kv.get(c, "-1").startswith("-") else "(%s)" % kv[c], t.replace("\\", "\\\\").replace('"', '\\"'))
                          for c, t in sites[fn])
        rows.append('  ("%s", [%s])' % (fn, items))
    body += ",\n".join(rows) + "]\n\n"
    cr = conf_reads(ctx)
    if cr is None:
        return False
    body += "/-- per source file of the credential pipeline: the `conf->field`s it mentions -/\n"
    body += "def confReads : List (String × List String) := [\n%s]\n\n" % ",\n".join(
        '  ("%s", [%s])' % (f, ", ".join('"%s"' % x for x in fs)) for f, fs in cr)
    for fn in ("enc_pack_outer", "enc_pack_inner"):
        lay = pack_layout(ctx, fn)
        if lay is None:
            return False
        body += "/-- what `%s` writes through its cursor, in order: (kind, expression, guard) -/\n" % fn
        body += "def %s_layout : List (String × String × String) := [\n%s]\n\n" % (
            fn, ",\n".join('  ("%s", "%s", "%s")' % (a, b.replace('"', "'"), g.replace('"', "'")) for (a, b, g) in lay))
    body += d + "\n" + e + "\n" + prims + "\nend Munge.Gen.Dec\n"
    gen_write("Dec", body)
    return True
