"""Gen.ReplayIns: `replay_insert` of src/munged/replay.c translated (K translator): the record allocation, the hash insertion and the
release of the record are events; what is stored in the record (expiry, MAC bytes) are writes / a named copy."""
from .ktrans import translate_kernels
from .kcursor import CursorTranslator
from ..vlib.leanlib import gen_write


def specs():
    return [dict(name="replay_insert", named_free=True,
                 inputs=[("replay_hash", "replay_hash_ptr"), ("conf.got_benchmark", "got_benchmark"), ("c", "c_ptr"), ("r", "r_ptr"),
                         ("c.msg.time0", "time0"), ("c.msg.ttl", "ttl")],
                 calls={"replay_alloc": ("ptrinput", "r", True), "log_err": ("event", 0, []), "log_msg": ("ignore", 0),
                        "replay_free": ("event", 0, []),
                        "hash_insert": ("outinput", "r_hash_insert", (64, False), {}, [], [{"errno": ("errno_insert", (32, True))}])}),
            dict(name="replay_remove", named_free=True,
                 inputs=[("replay_hash", "replay_hash_ptr"), ("conf.got_benchmark", "got_benchmark"), ("c", "c_ptr"),
                         ("c.msg.time0", "time0"), ("c.msg.ttl", "ttl")],
                 calls={"log_err": ("event", 0, []), "log_msg": ("ignore", 0), "replay_free": ("event", 0, []),
                        "hash_remove": ("outinput", "r_hash_remove", (64, False), {}, [])})]


def generate(ctx):
    d = translate_kernels(ctx, "src/munged/replay.c", specs(), cls=CursorTranslator)
    if d is None:
        return False
    body = "/- GENERATED from <repo>/src/munged/replay.c by tools/gen/g_replayins.py (K translator) -- do not edit -/\n"
    body += "import Munge.C.Kernel\nimport Munge.C.Cursor\nset_option linter.unusedVariables false\nnamespace Munge.Gen.ReplayIns\nopen Munge.C\n\n"
    body += d + "\nend Munge.Gen.ReplayIns\n"
    gen_write("ReplayIns", body)
    return True
