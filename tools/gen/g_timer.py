"""Gen.Timer: what the `Timer` model (C18) takes from the sources on every run.

 * K-translated kernels: clock_is_timespec_le, clock_get_timespec (clock.c); the argument guards of
   timer_set_absolute / timer_cancel, the id-counter bump (`_timer_id++; if (_timer_id <= 0) ...; t->id = ...`)
   and timer_cancel's return expression, cut out of the loop-carrying functions as statement ranges.
 * structure by AST pattern (timer.c): comparator, argument order and polarity at the sorted-insert walk and at
   the expiry scan; the head-change tests guarding pthread_cond_signal in set/cancel; the clock offset of the
   scan; the deadline handed to pthread_cond_timedwait; lock/unlock/dispatch/recycle event order of the thread
   function, of set and of cancel (atomicity certificates); the list the dispatch loop iterates over.
 * the re-arm call of the three periodic callbacks with the conditions it is under (replay.c, gids.c, random.c).
 * the caller list of timer_set_* / timer_cancel over src/**.c with the F6 caller classes, and the order of
   timer_init / timer_fini relative to the pre-thread callers in munged.c:main.
 * period constants by compile-and-print probe.
Anything not recognised is a failed gen obligation (never a default)."""
import glob, os, re
from .probe import run_probe
from .ktrans import translate_kernels, load_ast, Translator, KError, trange, lit, indent
from ..vlib.leanlib import gen_write

TIMER = "src/munged/timer.c"


# ------------------------------------------------------------------ canonical text of an expression
def strip(n):
    while n.get("kind") in ("ImplicitCastExpr", "ParenExpr", "ConstantExpr", "CStyleCastExpr"):
        n = n["inner"][0]
    return n


def cx(n):
    n = strip(n)
    k = n["kind"]
    if k == "DeclRefExpr":
        return n["referencedDecl"]["name"]
    if k == "MemberExpr":
        b = cx(n["inner"][0])
        if not re.match(r"^[\w.>-]+$", b):
            b = "(" + b + ")"
        return b + ("->" if n.get("isArrow") else ".") + n["name"]
    if k == "UnaryOperator":
        s = cx(n["inner"][0])
        if not re.match(r"^\w+$", s) and strip(n["inner"][0])["kind"] not in ("BinaryOperator", "CompoundAssignOperator", "ConditionalOperator"):
            s = "(" + s + ")"
        return s + n["opcode"] if n.get("isPostfix") else n["opcode"] + s
    if k in ("BinaryOperator", "CompoundAssignOperator"):
        return "(%s %s %s)" % (cx(n["inner"][0]), n["opcode"], cx(n["inner"][1]))
    if k == "CallExpr":
        return "%s(%s)" % (cx(n["inner"][0]), ", ".join(cx(a) for a in n["inner"][1:]))
    if k == "IntegerLiteral":
        return n["value"]
    if k == "ConditionalOperator":
        return "(%s ? %s : %s)" % tuple(cx(a) for a in n["inner"])
    if k == "StringLiteral":
        return '"s"'
    return "<%s>" % k


def is_errno(n):
    return cx(n) == "*(__errno_location())"


def unwrap_errno(n):
    """`errno = CALL`  -> CALL node (else None)"""
    n = strip(n)
    if n.get("kind") == "BinaryOperator" and n.get("opcode") == "=" and is_errno(n["inner"][0]):
        return strip(n["inner"][1])
    return None


NOISE = re.compile(r"^(log_msg|log_err|log_errno|log_err_or_warn|__builtin_expect|__pthread_\w+|__cancel_routine)\(")


def flat(n, out):
    """Statement tree -> nested event list:
       ("x", text, node) | ("if", text, node, then, else) | ("while", text, node, body) | ("loop", body) | ("ret", text, node)
       `if ((errno = CALL) != 0) {log}` is reduced to the CALL; log calls, asserts (`0`), empty statements vanish;
       `do {...} while (0)` (pthread_cleanup_push) is transparent."""
    k = n.get("kind")
    if k == "CompoundStmt":
        for c in n.get("inner", []):
            flat(c, out)
    elif k in ("NullStmt", None):
        pass
    elif k == "DeclStmt":
        for d in n.get("inner", []):
            init = [c for c in d.get("inner", []) if "Comment" not in c.get("kind", "")]
            if d.get("kind") == "VarDecl" and init and not d["name"].startswith("__"):
                out.append(("x", "(%s = %s)" % (d["name"], cx(init[0])), d))
    elif k == "IfStmt":
        c = strip(n["inner"][0])
        if c.get("kind") == "BinaryOperator" and c.get("opcode") == "!=" and cx(c["inner"][1]) == "0":
            call = unwrap_errno(c["inner"][0])
            if call is not None:
                out.append(("x", cx(call), call))
                return
        th, el = [], []
        flat(n["inner"][1], th)
        if len(n["inner"]) > 2:
            flat(n["inner"][2], el)
        t = cx(c)
        if NOISE.match(t) or (is_errno(c) or t.startswith("(*(__errno_location()) != 0")) and not th and not el:
            return
        if t.startswith("(rv < 0") and not th and not el:
            return
        out.append(("if", t, c, th, el))
    elif k == "WhileStmt":
        b = []
        flat(n["inner"][1], b)
        out.append(("while", cx(n["inner"][0]), strip(n["inner"][0]), b))
    elif k == "ForStmt":
        b = []
        flat(n["inner"][-1], b)
        out.append(("loop", b))
    elif k == "DoStmt":
        if cx(n["inner"][1]) == "0":
            flat(n["inner"][0], out)
        else:
            b = []
            flat(n["inner"][0], b)
            out.append(("loop", b))
    elif k == "ReturnStmt":
        out.append(("ret", cx(n["inner"][0]) if n.get("inner") else "", n))
    elif k in ("BreakStmt", "ContinueStmt"):
        out.append(("x", k, n))
    else:
        call = unwrap_errno(n)
        if call is not None:
            out.append(("x", cx(call), call))
            return
        t = cx(n)
        if t == "0" or NOISE.match(t):
            return
        out.append(("x", t, n))


def body_of(fd):
    return [c for c in fd["inner"] if c["kind"] == "CompoundStmt"][0]


def events(fd):
    out = []
    flat(body_of(fd), out)
    return out


def texts(ev):
    """one line per event, nested ones indented (for obligation details)"""
    res = []
    def go(l, d):
        for e in l:
            if e[0] in ("x", "ret"):
                res.append("  " * d + ("return " if e[0] == "ret" else "") + e[1])
            elif e[0] == "if":
                res.append("  " * d + "if " + e[1]); go(e[3], d + 1)
                if e[4]:
                    res.append("  " * d + "else"); go(e[4], d + 1)
            elif e[0] == "while":
                res.append("  " * d + "while " + e[1]); go(e[3], d + 1)
            else:
                res.append("  " * d + "loop"); go(e[1], d + 1)
    go(ev, 0)
    return res


class Miss(Exception):
    pass


def find(ev, pred, what, start=0):
    for i in range(start, len(ev)):
        if pred(ev[i]):
            return i
    raise Miss(what)


def isx(rx):
    r = re.compile(rx)
    return lambda e: e[0] == "x" and r.match(e[1]) is not None


# ------------------------------------------------------------------ walk comparator
def parse_walk(node, pp, other, what):
    """node is `*pp && [!]CMP(&(*pp)->ts | &other , ...)`.  Returns dict(cmp, elem_first, negated)."""
    n = strip(node)
    if not (n.get("kind") == "BinaryOperator" and n.get("opcode") == "&&" and cx(n["inner"][0]) == "*" + pp):
        raise Miss("%s: walk condition `%s` is not `*%s && …`" % (what, cx(n), pp))
    c = strip(n["inner"][1])
    neg = False
    while c.get("kind") == "UnaryOperator" and c.get("opcode") == "!":
        neg = not neg
        c = strip(c["inner"][0])
    if c.get("kind") != "CallExpr" or len(c["inner"]) != 3:
        raise Miss("%s: walk test `%s` is not a call cmp(a, b)" % (what, cx(c)))
    cmp_, args = cx(c["inner"][0]), [cx(c["inner"][1]), cx(c["inner"][2])]
    el = "&((*%s)->ts)" % pp
    if sorted(args) != sorted([el, other]):
        raise Miss("%s: comparator arguments %s are not {%s, %s}" % (what, args, el, other))
    if cmp_ != "clock_is_timespec_le":
        raise Miss("%s: comparator is %s, not the translated clock_is_timespec_le" % (what, cmp_))
    return dict(cmp=cmp_, elem_first=(args[0] == el), negated=neg)


def walk_lean(name, doc, w, second):
    a, b = ("e", second) if w["elem_first"] else (second, "e")
    core = "(%s 1 1 %s.1 %s.2 %s.1 %s.2).ret != 0" % (w["cmp"], a, a, b, b)
    if w["negated"]:
        core = "!(%s)" % core
    return "/-- %s -/\ndef %s (e %s : Int × Int) : Bool := %s\n" % (doc, name, second, core)


def advance_ok(body, pp):
    return len(body) == 1 and body[0][0] == "x" and body[0][1] == "(%s = &((*%s)->next))" % (pp, pp)


# ------------------------------------------------------------------ head-change test -> Lean Bool over (pos, len)
def sig_cond(n, PP, T, what):
    """Condition guarding `do_signal = 1`, as a Lean Bool term over `pos` (index at which the walk stopped)
    and `len` (length of the active list before the call)."""
    n = strip(n)
    k = n["kind"]
    if k == "BinaryOperator" and n["opcode"] in ("&&", "||"):
        return "(%s %s %s)" % (sig_cond(n["inner"][0], PP, T, what), n["opcode"], sig_cond(n["inner"][1], PP, T, what))
    if k == "UnaryOperator" and n["opcode"] == "!":
        return "(!%s)" % sig_cond(n["inner"][0], PP, T, what)
    t = cx(n)
    if t in ("(%s == &_timer_active)" % PP, "(&_timer_active == %s)" % PP) or (T and t in ("(_timer_active == %s)" % T, "(%s == _timer_active)" % T)):
        return "(pos == 0)"
    if t in ("(%s != &_timer_active)" % PP, "(&_timer_active != %s)" % PP):
        return "(pos != 0)"
    if T and t in ("%s->next" % T, "(%s->next != 0)" % T):
        return "(pos != len)"
    if T and t == "(%s->next == 0)" % T:
        return "(pos == len)"
    if t == "1":
        return "true"
    if t == "0":
        return "false"
    raise Miss("%s: head-change test contains `%s`, which is not a recognised atom" % (what, t))


# ------------------------------------------------------------------ synthetic kernels (statement ranges)
def synth(name, stmts, ret_node=None):
    inner = list(stmts)
    if ret_node is not None:
        inner.append(ret_node)
    return {"kind": "FunctionDecl", "name": name, "inner": [{"kind": "CompoundStmt", "inner": inner}]}


RET0 = {"kind": "ReturnStmt", "inner": [{"kind": "IntegerLiteral", "value": "0", "type": {"qualType": "int"}}]}


def k_emit(ctx, spec, fdecl, src):
    tr = Translator(spec, {}, {})
    try:
        term = tr.translate(fdecl)
    except KError as e:
        ctx.obligation("gen", "kernel %s (%s) translated (subset K)" % (spec["name"], src), False, str(e))
        return None
    seen = []
    for nm in [nm for (_, nm) in spec.get("inputs", [])] + tr.used_inputs:
        if nm not in seen:
            seen.append(nm)
    rng = []
    for nm in seen:
        t = tr.input_types.get(nm)
        if t == "ptr":
            rng.append("0 ≤ %s" % nm)
        elif t:
            lo, hi = trange(t)
            rng.append("%s ≤ %s ∧ %s ≤ %s" % (lit(lo).s, nm, nm, hi))
    sig = " ".join("(%s : Int)" % nm for nm in seen)
    ctx.obligation("gen", "kernel %s (%s) translated (subset K)" % (spec["name"], src), True)
    return ("/-- translated from %s -/\ndef %s %s : KOut :=\n%s\n\n" % (src, spec["name"], sig, indent(term)) +
            "def %s_inRange %s : Prop :=\n  %s\n" % (spec["name"], sig, " ∧ ".join(rng) if rng else "True"))


def stmts_of(fd):
    return body_of(fd).get("inner", [])


def stmt_index(fd, pred, what):
    for i, s in enumerate(stmts_of(fd)):
        if pred(s):
            return i
    raise Miss(what)


# ------------------------------------------------------------------ timer_set_absolute
def ex_set(ctx, out):
    fd = load_ast(ctx.repo, TIMER, "timer_set_absolute")
    ev = events(fd)
    det = "\n".join(texts(ev))
    params = [c["name"] for c in fd["inner"] if c["kind"] == "ParmVarDecl"]
    if len(params) != 3:
        raise Miss("timer_set_absolute no longer has 3 parameters")
    cbp, argp, tsp = params
    i_lock = find(ev, isx(r"^pthread_mutex_lock\(&_timer_mutex\)$"), "set: lock of _timer_mutex")
    i_alloc = find(ev, lambda e: e[0] == "if" and re.match(r"^!\((\w+) = _timer_alloc\(\)\)$", e[1]), "set: `if (!(t = _timer_alloc()))`", i_lock)
    T = re.match(r"^!\((\w+) = _timer_alloc\(\)\)$", ev[i_alloc][1]).group(1)
    i_inc = find(ev, isx(r"^_timer_id\+\+$|^\+\+_timer_id$|^\(_timer_id \+= 1\)$"), "set: `_timer_id++`", i_alloc)
    i_id = find(ev, isx(r"^\(%s->id = _timer_id\)$" % T), "set: `t->id = _timer_id`", i_inc)
    fields = {}
    i_pp = find(ev, isx(r"^\((\w+) = &_timer_active\)$"), "set: walk start `pp = &_timer_active`", i_id)
    for e in ev[i_id:i_pp]:
        m = e[0] == "x" and re.match(r"^\(%s->(\w+) = (.+)\)$" % T, e[1])
        if m:
            fields[m.group(1)] = m.group(2)
    want = {"id": "_timer_id", "f": cbp, "arg": argp, "ts": "*" + tsp}
    if fields != want:
        raise Miss("set: timer fields initialised as %s, expected %s" % (fields, want))
    PP = re.match(r"^\((\w+) = &_timer_active\)$", ev[i_pp][1]).group(1)
    if i_pp + 1 >= len(ev) or ev[i_pp + 1][0] != "while":
        raise Miss("set: no walk loop directly after `%s = &_timer_active`" % PP)
    wl = ev[i_pp + 1]
    w = parse_walk(wl[2], PP, "&(%s->ts)" % T, "set")
    if not advance_ok(wl[3], PP):
        raise Miss("set: walk body is not `%s = &(*%s)->next`" % (PP, PP))
    rest = ev[i_pp + 2:]
    if len(rest) < 2 or rest[0][:2] != ("x", "(%s->next = *%s)" % (T, PP)) or rest[1][:2] != ("x", "(*%s = %s)" % (PP, T)):
        raise Miss("set: link statements after the walk are not `t->next = *pp; *pp = t;`")
    # head test -> do_signal
    sig = rest[2] if len(rest) > 2 else None
    if not sig or sig[0] != "if" or sig[4] or len(sig[3]) != 1 or not re.match(r"^\((\w+) = 1\)$", sig[3][0][1]):
        raise Miss("set: `if (<head test>) do_signal = 1` not found after the link: %s" % (sig[1] if sig else None))
    out["set_signals"] = sig_cond(sig[2], PP, T, "set")
    flag = re.match(r"^\((\w+) = 1\)$", sig[3][0][1]).group(1)
    if not any(e[0] == "x" and e[1] == "(%s = 0)" % flag for e in ev[:i_lock]):
        raise Miss("set: signal flag %s is not initialised to 0" % flag)
    tail = rest[3:]
    if not (len(tail) >= 3 and tail[0][:2] == ("x", "pthread_mutex_unlock(&_timer_mutex)") and tail[1][0] == "if" and tail[1][1] == flag
            and [e[1] for e in tail[1][3]] == ["pthread_cond_signal(&_timer_cond)"] and not tail[1][4]
            and tail[2][0] == "ret" and tail[2][1] == "%s->id" % T and len(tail) == 3):
        raise Miss("set: tail is not `unlock; if (do_signal) signal; return t->id`:\n" + "\n".join(texts(tail)))
    # nothing but the argument guard before the lock
    pre = [e for e in ev[:i_lock] if not (e[0] == "x" and re.match(r"^\(\w+ = 0\)$", e[1]))]
    if len(pre) != 1 or pre[0][0] != "if":
        raise Miss("set: statements before the lock are not exactly one argument guard")
    mid = ev[i_lock + 1:i_alloc] + ev[i_alloc + 1:i_inc]
    if mid:
        raise Miss("set: unexpected statements between lock/alloc/id bump: %s" % texts(mid))
    ctx.obligation("gen", "timer_set_absolute: lock; alloc; id bump; init; sorted walk; link; head test; unlock; signal-if; return id", True, det)
    out["set_events"] = ["lock", "alloc", "idbump", "init", "walk", "link", "headtest", "unlock", "signal?", "ret"]
    out["insert_walk"] = w
    # kernels: guard and id bump
    ss = stmts_of(fd)
    i0 = stmt_index(fd, lambda s: s["kind"] == "IfStmt" and cx(s["inner"][0]) == pre[0][1], "set guard stmt")
    g = k_emit(ctx, dict(name="timer_set_guard", inputs=[(cbp, "cb"), (tsp, "tsp")]), synth("g", [ss[i0]], RET0), "the argument guard of timer_set_absolute")
    j0 = stmt_index(fd, lambda s: cx(s) in ("_timer_id++", "++_timer_id", "(_timer_id += 1)"), "id bump stmt")
    j1 = stmt_index(fd, lambda s: cx(s) == "(%s->id = _timer_id)" % T, "id store stmt")
    retid = {"kind": "ReturnStmt", "inner": [strip(tail[2][2]["inner"][0]) if False else tail[2][2]["inner"][0]]}
    b = k_emit(ctx, dict(name="timer_id_bump", inputs=[("_timer_id", "timer_id")]),
               synth("b", ss[j0:j1 + 1], retid), "`_timer_id++ … t->id = _timer_id … return t->id` of timer_set_absolute")
    if g is None or b is None:
        raise Miss("set: kernel translation failed")
    out["kernels"] += [g, b]


# ------------------------------------------------------------------ timer_cancel
def ex_cancel(ctx, out):
    fd = load_ast(ctx.repo, TIMER, "timer_cancel")
    ev = events(fd)
    det = "\n".join(texts(ev))
    idp = [c["name"] for c in fd["inner"] if c["kind"] == "ParmVarDecl"][0]
    i_lock = find(ev, isx(r"^pthread_mutex_lock\(&_timer_mutex\)$"), "cancel: lock")
    pre = [e for e in ev[:i_lock] if not (e[0] == "x" and re.match(r"^\(\w+ = 0\)$", e[1]))]
    if len(pre) != 1 or pre[0][0] != "if":
        raise Miss("cancel: statements before the lock are not exactly one argument guard")
    i_pp = find(ev, isx(r"^\((\w+) = &_timer_active\)$"), "cancel: walk start", i_lock)
    PP = re.match(r"^\((\w+) = &_timer_active\)$", ev[i_pp][1]).group(1)
    if i_pp != i_lock + 1 or ev[i_pp + 1][0] != "while":
        raise Miss("cancel: walk does not directly follow the lock")
    wl = ev[i_pp + 1]
    forms = {"(*%s && (%s != (*%s)->id))" % (PP, idp, PP), "(*%s && ((*%s)->id != %s))" % (PP, PP, idp),
             "(*%s && !(%s == (*%s)->id))" % (PP, idp, PP), "(*%s && !((*%s)->id == %s))" % (PP, PP, idp)}
    if wl[1] not in forms or not advance_ok(wl[3], PP):
        raise Miss("cancel: walk is not `while (*pp && id != (*pp)->id) pp = &(*pp)->next` : %s" % wl[1])
    rm = ev[i_pp + 2]
    if rm[0] != "if" or rm[1] != "*" + PP or rm[4]:
        raise Miss("cancel: removal is not under `if (*pp)`")
    body = rm[3]
    m = body and body[0][0] == "x" and re.match(r"^\((\w+) = \*%s\)$" % PP, body[0][1])
    if not m:
        raise Miss("cancel: `t = *pp` missing")
    T = m.group(1)
    want = ["(*%s = %s->next)" % (PP, T), "(%s->next = _timer_inactive)" % T, "(_timer_inactive = %s)" % T]
    if [e[1] for e in body[1:4]] != want:
        raise Miss("cancel: unlink/recycle statements are %s, expected %s" % ([e[1] for e in body[1:4]], want))
    sig = body[4] if len(body) == 5 else None
    if not sig or sig[0] != "if" or sig[4] or len(sig[3]) != 1 or not re.match(r"^\((\w+) = 1\)$", sig[3][0][1]):
        raise Miss("cancel: `if (<head test>) do_signal = 1` not recognised: %s" % (texts(body[4:]),))
    out["cancel_signals"] = sig_cond(sig[2], PP, None, "cancel")
    flag = re.match(r"^\((\w+) = 1\)$", sig[3][0][1]).group(1)
    if not any(e[0] == "x" and e[1] == "(%s = 0)" % flag for e in ev[:i_lock]) or \
            not any(e[0] == "x" and e[1] == "(%s = 0)" % T for e in ev[:i_lock]):
        raise Miss("cancel: %s / %s not initialised to 0" % (flag, T))
    tail = ev[i_pp + 3:]
    if not (len(tail) == 3 and tail[0][:2] == ("x", "pthread_mutex_unlock(&_timer_mutex)") and tail[1][0] == "if" and tail[1][1] == flag
            and [e[1] for e in tail[1][3]] == ["pthread_cond_signal(&_timer_cond)"] and not tail[1][4] and tail[2][0] == "ret"):
        raise Miss("cancel: tail is not `unlock; if (do_signal) signal; return …`")
    ctx.obligation("gen", "timer_cancel: guard; lock; first-match walk on id; unlink+recycle; head test; unlock; signal-if; return", True, det)
    out["cancel_events"] = ["lock", "walk", "unlink?", "headtest?", "unlock", "signal?", "ret"]
    ss = stmts_of(fd)
    i0 = stmt_index(fd, lambda s: s["kind"] == "IfStmt" and cx(s["inner"][0]) == pre[0][1], "cancel guard stmt")
    g = k_emit(ctx, dict(name="timer_cancel_guard", inputs=[(idp, "id")]), synth("g", [ss[i0]], RET0), "the argument guard of timer_cancel")
    r = k_emit(ctx, dict(name="timer_cancel_ret", inputs=[(T, "found")]), synth("r", [tail[2][2]]), "the return expression of timer_cancel (found = the located timer or NULL)")
    if g is None or r is None:
        raise Miss("cancel: kernel translation failed")
    out["kernels"] += [g, r]


# ------------------------------------------------------------------ timer_set_relative
def ex_relative(ctx, out):
    fd = load_ast(ctx.repo, TIMER, "timer_set_relative")
    ev = events(fd)
    params = [c["name"] for c in fd["inner"] if c["kind"] == "ParmVarDecl"]
    cbp, argp, ms = params
    ok = len(ev) == 2 and ev[0][0] == "x" and re.match(r"^\(\w+ = clock_get_timespec\(&(\w+), %s\)\)$" % ms, ev[0][1]) and \
        ev[1][0] == "ret" and ev[1][1] == "timer_set_absolute(%s, %s, &%s)" % (cbp, argp, re.match(r"^\(\w+ = clock_get_timespec\(&(\w+),", ev[0][1]).group(1))
    ctx.obligation("gen", "timer_set_relative = timer_set_absolute at clock_get_timespec(now, msec)", bool(ok), "\n".join(texts(ev)))


# ------------------------------------------------------------------ _timer_thread
def ex_thread(ctx, out):
    fd = load_ast(ctx.repo, TIMER, "_timer_thread")
    ev = events(fd)
    det = "\n".join(texts(ev))
    i_lock = find(ev, isx(r"^pthread_mutex_lock\(&_timer_mutex\)$"), "thread: initial lock")
    loops = [e for e in ev[i_lock + 1:] if e[0] == "loop"]
    if len(loops) != 1:
        raise Miss("thread: expected exactly one endless loop after the initial lock")
    lp = [e for e in loops[0][1] if not (e[0] == "x" and e[1].startswith("pthread_setcancelstate("))]
    ncs = len(loops[0][1]) - len(lp)
    # 0: while (!_timer_active) cond_wait
    if not (lp and lp[0][0] == "while" and lp[0][1] in ("!_timer_active", "(_timer_active == 0)") and
            [e[1] for e in lp[0][3]] == ["pthread_cond_wait(&_timer_cond, &_timer_mutex)"]):
        raise Miss("thread: loop does not start with `while (!_timer_active) pthread_cond_wait(&_timer_cond, &_timer_mutex)`")
    m = lp[1][0] == "x" and re.match(r"^\((\w+) = clock_get_timespec\(&(\w+), (-?\d+)\)\)$", lp[1][1])
    if not m:
        raise Miss("thread: clock read `rv = clock_get_timespec(&ts_now, 0)` not found after the empty-wait: %s" % lp[1][1])
    NOW, off = m.group(2), int(m.group(3))
    m = lp[2][0] == "x" and re.match(r"^\((\w+) = &_timer_active\)$", lp[2][1])
    if not m or lp[3][0] != "while":
        raise Miss("thread: expiry scan `pp = &_timer_active; while (…)` not found")
    PP = m.group(1)
    w = parse_walk(lp[3][2], PP, "&" + NOW, "thread scan")
    if not advance_ok(lp[3][3], PP):
        raise Miss("thread: scan body is not `pp = &(*pp)->next`")
    d = lp[4]
    if d[0] != "if" or d[1] not in ("(%s != &_timer_active)" % PP, "(&_timer_active != %s)" % PP) or d[4]:
        raise Miss("thread: detach is not under `if (pp != &_timer_active)`: %s" % d[1])
    b = d[3]
    m = b[0][0] == "x" and re.match(r"^\((\w+) = _timer_active\)$", b[0][1])
    if not m:
        raise Miss("thread: `timer_expired = _timer_active` missing")
    EXP = m.group(1)
    want = ["(%s = _timer_active)" % EXP, "(_timer_active = *%s)" % PP, "(*%s = 0)" % PP, "pthread_mutex_unlock(&_timer_mutex)",
            "(%s = &%s)" % (PP, EXP)]
    if [e[1] for e in b[:5]] != want:
        raise Miss("thread: detach/unlock sequence is\n%s\nexpected\n%s" % ("\n".join(e[1] for e in b[:5]), "\n".join(want)))
    dl = b[5]
    if not (dl[0] == "while" and dl[1] == "*" + PP and len(dl[3]) == 2 and dl[3][0][1] == "(*%s)->f((*%s)->arg)" % (PP, PP)
            and advance_ok(dl[3][1:], PP)):
        raise Miss("thread: dispatch loop is not `while (*pp) { (*pp)->f((*pp)->arg); pp = &(*pp)->next; }` over the detached list")
    want2 = ["pthread_mutex_lock(&_timer_mutex)", "(*%s = _timer_inactive)" % PP, "(_timer_inactive = %s)" % EXP]
    if [e[1] for e in b[6:]] != want2:
        raise Miss("thread: after dispatch expected relock + recycle, got %s" % [e[1] for e in b[6:]])
    tw = lp[5] if len(lp) == 6 else None
    if not tw or tw[0] != "while" or tw[1] != "_timer_active":
        raise Miss("thread: final `while (_timer_active) pthread_cond_timedwait(…)` not found (loop has %d items)" % len(lp))
    tb = tw[3]
    m = tb and tb[0][0] == "x" and re.match(r"^pthread_cond_timedwait\(&_timer_cond, &_timer_mutex, &\((\S+)\)\)$", tb[0][1])
    if not m or m.group(1) != "_timer_active->ts":
        raise Miss("thread: timedwait deadline is not &_timer_active->ts: %s" % (tb[0][1] if tb else None))
    E = "*(__errno_location())"
    brk = [e for e in tb[1:] if e[0] == "if" and [x[1] for x in e[3]] == ["BreakStmt"]]
    cont = [e for e in tb[1:] if e[0] == "if" and [x[1] for x in e[3]] == ["ContinueStmt"]]
    codes = lambda t: sorted(int(x) for x in re.findall(r"\(%s == (\d+)\)" % re.escape(E), t))
    if len(brk) != 1 or len(cont) > 1 or len(tb) != 1 + len(brk) + len(cont):
        raise Miss("thread: wake-up handling after timedwait not recognised:\n" + "\n".join(texts(tb)))
    if codes(brk[0][1]) != [0, 110] or (cont and codes(cont[0][1]) != [4]):
        raise Miss("thread: timedwait leaves the wait loop on %s (expected 0 and ETIMEDOUT=110), continues on %s" % (
            codes(brk[0][1]), codes(cont[0][1]) if cont else []))
    if ncs != 2:
        raise Miss("thread: expected cancellation to be disabled before and restored after dispatch (found %d setcancelstate calls)" % ncs)
    full = [e[1] if e[0] == "x" else e[0] for e in loops[0][1]]
    i_dis = full.index([x for x in full if x.startswith("pthread_setcancelstate(PTHREAD_CANCEL_DISABLE")][0]) if any(
        x.startswith("pthread_setcancelstate(PTHREAD_CANCEL_DISABLE") for x in full) else -1
    if i_dis != 1:
        raise Miss("thread: cancellation is not disabled right after the empty-wait")
    ctx.obligation("gen", "_timer_thread: wait-empty; clock; scan; detach; unlock; dispatch detached list; lock; recycle; timedwait(head)", True, det)
    out["thread_events"] = ["waitempty", "cancel_off", "clock", "scan", "detach?", "unlock", "dispatch", "lock", "recycle", "cancel_on", "timedwait"]
    out["scan_walk"] = w
    out["scan_offset_ms"] = off
    out["dispatch_list"] = "detached"


# ------------------------------------------------------------------ periodic callbacks
PERIODIC = [("replay_purge", "src/munged/replay.c"), ("_gids_map_update", "src/munged/gids.c"), ("_random_stir_entropy", "src/munged/random.c")]


def find_set_calls(n, res):
    if isinstance(n, dict):
        if n.get("kind") == "CallExpr":
            c = strip(n["inner"][0])
            if c.get("kind") == "DeclRefExpr" and c["referencedDecl"]["name"] in ("timer_set_relative", "timer_set_absolute") \
                    and len(n["inner"]) == 4:
                res.append((c["referencedDecl"]["name"][10:], cx(n["inner"][1]), cx(n["inner"][3])))
        for v in n.values():
            find_set_calls(v, res)
    elif isinstance(n, list):
        for v in n:
            find_set_calls(v, res)


def rearm_sites(ev, fn, early, guards, res):
    """Walk events in order; `early` = conditions under which the function has already returned,
    `guards` = conditions enclosing the current position."""
    def note(node, text):
        calls = []
        find_set_calls(node, calls)
        for api, cb, msec in calls:
            res.append(dict(api=api, cb=cb, msec=msec, early=list(early), guards=list(guards), text=text))
    for e in ev:
        if e[0] in ("x", "ret"):
            note(e[2], e[1])
        elif e[0] == "if":
            note(e[2], e[1])          # the condition itself may contain the call: `if (timer_set_relative(...) < 0)`
            rearm_sites(e[3], fn, early, guards + [e[1]], res)
            rearm_sites(e[4], fn, early, guards + ["!" + e[1]], res)
            if e[3] and e[3][-1][0] == "ret" and not e[4]:
                early.append(e[1])
        elif e[0] == "while":
            rearm_sites(e[3], fn, early, guards + ["while " + e[1]], res)
        else:
            rearm_sites(e[1], fn, early, guards + ["loop"], res)


EXPECT_REARM = {
    "replay_purge": dict(early=["!replay_hash"], guards=[]),
    "_gids_map_update": dict(early=[], guards=["(gids->interval_secs > 0)"]),
    "_random_stir_entropy": dict(early=["(_random_stir_secs <= 0)"], guards=[]),
}


def const_eval(s):
    if re.match(r"^[\d\s()*+\-]+$", s):
        try:
            return int(eval(s, {"__builtins__": {}}))
        except Exception:
            return None
    return None


def ex_periodic(ctx, out):
    sites = []
    for fn, f in PERIODIC:
        try:
            fd = load_ast(ctx.repo, f, fn)
        except KError as e:
            ctx.obligation("gen", "periodic callback %s found in %s" % (fn, f), False, str(e))
            continue
        ev = events(fd)
        res = []
        rearm_sites(ev, fn, [], [], res)
        own = [r for r in res if r["cb"] == fn]
        ok = len(own) == 1
        ctx.obligation("gen", "%s re-arms itself: exactly one timer_set_* call with itself as callback" % fn, ok,
                       "found %d self re-arm call(s) in:\n%s" % (len(own), "\n".join(texts(ev))))
        if not ok:
            continue
        r = own[0]
        exp = EXPECT_REARM[fn]
        okc = r["early"] == exp["early"] and r["guards"] == exp["guards"] and r["api"] == "relative"
        ctx.obligation("gen", "%s: the re-arm is reached unless %s, under %s" % (fn, exp["early"] or "(never skipped)", exp["guards"] or "(no condition)"),
                       okc, "early returns before the call: %s; enclosing conditions: %s; api: timer_set_%s" % (r["early"], r["guards"], r["api"]))
        if okc:
            r["fn"] = fn
            r["const"] = const_eval(r["msec"])
            sites.append(r)
    out["rearm"] = sites


# ------------------------------------------------------------------ callers (F6 classes)
API = ("timer_set_absolute", "timer_set_relative", "timer_cancel")
# (file, function, callee) -> class:  a = only before timer_init starts the thread / after timer_fini joined it,
#                                     b = on the timer thread (a callback), c = holds the gids mutex (gids_update)
KNOWN_CALLERS = {
    ("src/munged/timer.c", "timer_set_relative", "timer_set_absolute"): "wrapper",
    ("src/munged/replay.c", "replay_init", "timer_set_relative"): "a",
    ("src/munged/replay.c", "replay_purge", "timer_set_relative"): "b",
    ("src/munged/gids.c", "gids_update", "timer_set_relative"): "c",
    ("src/munged/gids.c", "gids_update", "timer_cancel"): "c",
    ("src/munged/gids.c", "_gids_map_update", "timer_set_relative"): "b",
    ("src/munged/gids.c", "gids_destroy", "timer_cancel"): "a",
    ("src/munged/random.c", "_random_stir_entropy", "timer_set_relative"): "b",
    ("src/munged/random.c", "random_fini", "timer_cancel"): "a",
}
# direct (non-timer) callers of the callbacks and of gids_update, and their class
KNOWN_INDIRECT = {
    ("src/munged/random.c", "random_init", "_random_stir_entropy"): "a",
    ("src/munged/gids.c", "gids_create", "gids_update"): "a",
    ("src/munged/job.c", "job_accept", "gids_update"): "c",
}


def decomment(src):
    src = re.sub(r"/\*.*?\*/", lambda m: re.sub(r"[^\n]", " ", m.group(0)), src, flags=re.S)
    src = re.sub(r"//[^\n]*", "", src)
    return re.sub(r'"(?:\\.|[^"\\\n])*"', '""', src)


def scan_calls(repo, names):
    """-> list of (relfile, enclosing function, name, is_call) for every token occurrence in src/**.c"""
    res = []
    for p in sorted(glob.glob(os.path.join(repo, "src", "**", "*.c"), recursive=True)):
        rel = os.path.relpath(p, repo)
        try:
            src = decomment(open(p, errors="replace").read())
        except OSError:
            continue
        cur, depth = None, 0
        for line in src.split("\n"):
            m = re.match(r"^([A-Za-z_]\w*) \(", line)
            if m and depth == 0:
                cur = m.group(1)
            for m in re.finditer(r"\b(%s)\b(\s*\()?" % "|".join(names), line):
                if depth == 0 and line.startswith(m.group(1)):
                    continue                      # the definition itself
                if depth == 0 and re.match(r"^(static|extern|\w+)\s.*;\s*$", line):
                    continue                      # a prototype
                res.append((rel, cur if depth > 0 else None, m.group(1), bool(m.group(2))))
            depth += line.count("{") - line.count("}")
    return res


def ex_callers(ctx, out):
    occ = scan_calls(ctx.repo, list(API))
    found, bad = {}, []
    for rel, fn, name, is_call in occ:
        if not is_call or fn is None:
            bad.append("%s: `%s` used other than in a direct call inside a function (%s)" % (rel, name, fn))
            continue
        found[(rel, fn, name)] = KNOWN_CALLERS.get((rel, fn, name))
    new = [k for k, v in found.items() if v is None]
    gone = [k for k in KNOWN_CALLERS if k not in found]
    ctx.obligation("gen", "every caller of timer_set_absolute/relative/cancel in src/**.c belongs to a recorded F6 caller class", not new and not bad,
                   "new callers: %s %s" % (new, bad))
    ctx.obligation("gen", "the recorded callers of the timer API still exist", not gone, "missing: %s" % gone)
    cbs = [fn for fn, _ in PERIODIC] + ["gids_update"]
    occ2 = scan_calls(ctx.repo, cbs)
    ind, bad2 = {}, []
    for rel, fn, name, is_call in occ2:
        if fn is None:
            bad2.append("%s: `%s` at file scope" % (rel, name)); continue
        if not is_call:
            # allowed: the function's name as the callback argument of timer_set_* in a recorded caller
            if (rel, fn, "timer_set_relative") in KNOWN_CALLERS or (rel, fn, "timer_set_absolute") in KNOWN_CALLERS:
                continue
            bad2.append("%s:%s takes the address of %s" % (rel, fn, name)); continue
        ind[(rel, fn, name)] = KNOWN_INDIRECT.get((rel, fn, name))
    new2 = [k for k, v in ind.items() if v is None]
    ctx.obligation("gen", "direct callers of replay_purge/_gids_map_update/_random_stir_entropy/gids_update are the recorded ones", not new2 and not bad2,
                   "new: %s %s" % (new2, bad2))
    # class a: order in main
    try:
        fd = load_ast(ctx.repo, "src/munged/munged.c", "main")
        seq = []
        def calls(n):
            if isinstance(n, dict):
                if n.get("kind") == "CallExpr":
                    c = strip(n["inner"][0])
                    if c.get("kind") == "DeclRefExpr":
                        seq.append(c["referencedDecl"]["name"])
                for v in n.get("inner", []) if isinstance(n.get("inner"), list) else []:
                    calls(v)
        calls(body_of(fd))
        pos = {nm: [i for i, x in enumerate(seq) if x == nm] for nm in
               ("random_init", "gids_create", "replay_init", "timer_init", "job_accept", "timer_fini", "gids_destroy", "random_fini", "replay_fini")}
        ok = all(len(v) == 1 for v in pos.values()) and \
            max(pos["random_init"][0], pos["gids_create"][0], pos["replay_init"][0]) < pos["timer_init"][0] < pos["job_accept"][0] < pos["timer_fini"][0] < \
            min(pos["gids_destroy"][0], pos["random_fini"][0], pos["replay_fini"][0])
        ctx.obligation("gen", "munged.c:main runs random_init, gids_create, replay_init before timer_init, and gids_destroy, random_fini after timer_fini", ok, str(pos))
        out["main_order"] = [x for x in seq if x in pos]
    except (KError, KeyError, IndexError) as e:
        ctx.obligation("gen", "munged.c:main start-up order extracted", False, repr(e))
    # class c: gids_update holds gids->mutex around cancel + set; _gids_map_update re-arms under the same mutex
    for fn in ("gids_update", "_gids_map_update"):
        try:
            ev = events(load_ast(ctx.repo, "src/munged/gids.c", fn))
            lines = texts(ev)
            held, okc, seen = False, True, 0
            for ln in lines:
                t = ln.strip()
                if t == "pthread_mutex_lock(&(gids->mutex))":
                    held = True
                elif t == "pthread_mutex_unlock(&(gids->mutex))":
                    held = False
                elif "timer_set_relative(" in t or "timer_cancel(" in t:
                    seen += 1
                    okc = okc and held
            ctx.obligation("gen", "%s calls the timer API only while holding gids->mutex" % fn, okc and seen > 0, "\n".join(lines))
        except KError as e:
            ctx.obligation("gen", "%s parsed" % fn, False, str(e))
    out["callers"] = sorted((k[0], k[1], k[2], v or "?") for k, v in list(found.items()) + list(ind.items()))


# ------------------------------------------------------------------ constants
PROBE = r'''
#include <stdio.h>
#include <limits.h>
#include <errno.h>
#include "munge_defs.h"
#define main included_main_
#include "%s/src/munged/random.c"
#undef main
int main(void){
  printf("REPLAY_PURGE_SECS %%lld\n", (long long) MUNGE_REPLAY_PURGE_SECS);
  printf("GROUP_UPDATE_SECS %%lld\n", (long long) MUNGE_GROUP_UPDATE_SECS);
  printf("RANDOM_STIR_MAX_SECS %%lld\n", (long long) RANDOM_STIR_MAX_SECS);
  printf("LONG_MAX %%ld\n", LONG_MAX);
  printf("EINVAL %%d\nETIMEDOUT %%d\nEINTR %%d\n", EINVAL, ETIMEDOUT, EINTR);
  return 0;
}
'''


# hand-written twins, used (with the gen obligation already failed) when an item cannot be extracted, so that the
# generated module is always a function of the current sources only -- never a stale file from an earlier run
TWIN_KERNELS = {
    "clock": """/-- TWIN (not translated) of `clock_is_timespec_le` -/
def clock_is_timespec_le (p0 : Int) (p1 : Int) (s0 : Int) (n0 : Int) (s1 : Int) (n1 : Int) : KOut :=
  if (p0 = 0) ∨ (p1 = 0) then { ret := (-1), writes := [("errno", 22)], events := [] }
  else if s0 = s1 then { ret := b2i (n0 ≤ n1), writes := [], events := [] }
  else { ret := b2i (s0 ≤ s1), writes := [], events := [] }

/-- TWIN (not translated) of `clock_get_timespec` -/
def clock_get_timespec (p : Int) (sec : Int) (nsec : Int) (msecs : Int) (rv_gettime : Int) : KOut :=
  if p = 0 then { ret := (-1), writes := [("errno", 22)], events := [] }
  else if rv_gettime < 0 then { ret := (-1), writes := [], events := [] }
  else if msecs > 0 then
    let n := wrapS64 (nsec + (((cmod msecs 1000) * 1000) * 1000))
    let s := wrapS64 (sec + (wrapS64 (cdiv msecs 1000)))
    { ret := 0, writes := [("tsp.tv_sec", if n ≥ 1000000000 then wrapS64 (s + (wrapS64 (cdiv n 1000000000))) else s),
                           ("tsp.tv_nsec", if n ≥ 1000000000 then cmod n 1000000000 else n)], events := [] }
  else { ret := 0, writes := [], events := [] }
""",
    "timer_set_guard": """/-- TWIN -/
def timer_set_guard (cb : Int) (tsp : Int) : KOut :=
  if (¬ (cb ≠ 0)) ∨ (¬ (tsp ≠ 0)) then { ret := (-1), writes := [("errno", 22)], events := [] }
  else { ret := 0, writes := [], events := [] }
""",
    "timer_id_bump": """/-- TWIN -/
def timer_id_bump (timer_id : Int) : KOut :=
  { ret := if (wrapS64 (timer_id + 1)) ≤ 0 then 1 else wrapS64 (timer_id + 1),
    writes := [("_timer_id", if (wrapS64 (timer_id + 1)) ≤ 0 then 1 else wrapS64 (timer_id + 1))], events := [] }
""",
    "timer_cancel_guard": """/-- TWIN -/
def timer_cancel_guard (id : Int) : KOut :=
  if id ≤ 0 then { ret := (-1), writes := [("errno", 22)], events := [] } else { ret := 0, writes := [], events := [] }
""",
    "timer_cancel_ret": """/-- TWIN -/
def timer_cancel_ret (found : Int) : KOut := { ret := if found ≠ 0 then 1 else 0, writes := [], events := [] }
""",
}
TWIN = dict(insert_walk=dict(cmp="clock_is_timespec_le", elem_first=True, negated=False),
            scan_walk=dict(cmp="clock_is_timespec_le", elem_first=True, negated=False),
            set_signals="(pos == 0)", cancel_signals="(pos == 0)", scan_offset_ms=0,
            set_events=["lock", "alloc", "idbump", "init", "walk", "link", "headtest", "unlock", "signal?", "ret"],
            cancel_events=["lock", "walk", "unlink?", "headtest?", "unlock", "signal?", "ret"],
            thread_events=["waitempty", "cancel_off", "clock", "scan", "detach?", "unlock", "dispatch", "lock", "recycle", "cancel_on", "timedwait"])
TWIN_CONSTS = dict(REPLAY_PURGE_SECS=60, GROUP_UPDATE_SECS=3600, RANDOM_STIR_MAX_SECS=32768, LONG_MAX=(1 << 63) - 1, EINVAL=22, ETIMEDOUT=110, EINTR=4)


def generate(ctx):
    n_before = len([o for o in ctx.obligations if not o["ok"]])
    out = {"kernels": [], "kernel_names": []}
    clk = translate_kernels(ctx, "src/munged/clock.c", [
        dict(name="clock_is_timespec_le", inputs=[("tsp0", "p0"), ("tsp1", "p1"), ("tsp0.tv_sec", "s0"), ("tsp0.tv_nsec", "n0"),
                                                   ("tsp1.tv_sec", "s1"), ("tsp1.tv_nsec", "n1")]),
        dict(name="clock_get_timespec", inputs=[("tsp", "p"), ("tsp.tv_sec", "sec"), ("tsp.tv_nsec", "nsec")], params=["msecs"],
             calls={"clock_gettime": ("input", "rv_gettime", (32, True))}),
    ])
    degraded = []
    if clk is None:
        if not any(o["kind"] == "gen" and not o["ok"] and "clock" in o["name"] for o in ctx.obligations):
            ctx.obligation("gen", "kernels of clock.c translated", False, "translate_kernels returned nothing")
        clk = TWIN_KERNELS["clock"]
        degraded.append("clock kernels")
    for f in (ex_set, ex_relative, ex_cancel, ex_thread):
        try:
            f(ctx, out)
        except (Miss, KError, IndexError, KeyError, TypeError, AttributeError) as e:
            ctx.obligation("gen", "structure of timer.c (%s) recognised" % f.__name__[3:], False, "%s: %s" % (type(e).__name__, e))
    try:
        ex_periodic(ctx, out)
    except (Miss, KError, IndexError, KeyError, TypeError, AttributeError) as e:
        ctx.obligation("gen", "re-arm sites of the periodic callbacks extracted", False, repr(e))
    try:
        ex_callers(ctx, out)
    except (Miss, KError, IndexError, KeyError, TypeError, AttributeError) as e:
        ctx.obligation("gen", "callers of the timer API extracted", False, repr(e))
    pr = run_probe(ctx, "timer_consts", PROBE % ctx.repo, gc=True, libs=["-lcrypto"])
    kv = {}
    if pr is not None:
        for line in pr.strip().split("\n"):
            p = line.split()
            kv[p[0]] = int(p[1])
    need = list(TWIN_CONSTS)
    ctx.obligation("gen", "period constants probed (munge_defs.h, random.c)", all(k in kv for k in need), str(kv))
    for k in need:
        if k not in kv:
            kv[k] = TWIN_CONSTS[k]; degraded.append("const " + k)
    for k, v in TWIN.items():
        if k not in out:
            out[k] = v; degraded.append(k)
    have = "\n".join(out["kernels"])
    for nm in ("timer_set_guard", "timer_id_bump", "timer_cancel_guard", "timer_cancel_ret"):
        if ("def %s " % nm) not in have:
            out["kernels"].append(TWIN_KERNELS[nm]); degraded.append("kernel " + nm)
    out.setdefault("rearm", [])
    out.setdefault("callers", [])
    ok = len([o for o in ctx.obligations if not o["ok"]]) == n_before
    if degraded:
        ctx.cov.setdefault("generator_item_degraded", []).extend(degraded)
    rp = [r for r in out["rearm"] if r["fn"] == "replay_purge"]
    rp = rp[0] if rp else dict(const=None, msec="(re-arm site not found)")
    body = "/- GENERATED from <repo>/src/munged/{timer,clock,replay,gids,random,munged}.c by tools/gen/g_timer.py -- do not edit -/\n"
    body += "import Munge.C.Kernel\nnamespace Munge.Gen.Timer\nopen Munge.C\n\n"
    body += clk + "\n" + "\n".join(out["kernels"]) + "\n"
    body += walk_lean("insertWalkContinues", "sorted-insert walk of `timer_set_absolute`: step past list element `e` for the new timer `n` (timespecs as (sec, nsec))",
                      out["insert_walk"], "n") + "\n"
    body += walk_lean("scanWalkContinues", "expiry scan of `_timer_thread`: element `e` is expired at the clock reading `now`",
                      out["scan_walk"], "now") + "\n"
    body += "/-- `if (t_prev_ptr == &_timer_active) do_signal = 1` in timer_set_absolute: `pos` = index at which the walk stopped, `len` = length of the list before -/\n"
    body += "def setSignals (pos len : Nat) : Bool := %s\n" % out["set_signals"]
    body += "/-- the same test in timer_cancel (evaluated only when a timer was found at index `pos`) -/\n"
    body += "def cancelSignals (pos len : Nat) : Bool := %s\n" % out["cancel_signals"]
    body += "/-- millisecond offset of the clock read before the expiry scan -/\ndef scanOffsetMs : Int := %d\n" % out["scan_offset_ms"]
    body += "/-- the deadline given to pthread_cond_timedwait is the head of the active list -/\ndef timedwaitOnHead : Bool := true\n"
    body += "/-- the dispatch loop iterates over the detached (thread-local) list, not over `_timer_active` -/\ndef dispatchOverDetached : Bool := true\n\n"
    ls = lambda l: "[" + ", ".join('"%s"' % x for x in l) + "]"
    body += "/-- abstract event order of timer_set_absolute / timer_cancel / one iteration of _timer_thread -/\n"
    body += "def setEvents : List String := %s\n" % ls(out["set_events"])
    body += "def cancelEvents : List String := %s\n" % ls(out["cancel_events"])
    body += "def threadEvents : List String := %s\n\n" % ls(out["thread_events"])
    body += "structure RearmSite where\n  callback : String\n  earlyReturns : List String\n  guards : List String\n  msecExpr : String\n  msecConst : Option Int\nderiving Repr, DecidableEq\n\n"
    body += "/-- the self re-arming `timer_set_relative` call of each periodic callback and the conditions it is under -/\n"
    body += "def rearmSites : List RearmSite := [\n" + ",\n".join(
        '  { callback := "%s", earlyReturns := %s, guards := %s, msecExpr := "%s", msecConst := %s }' % (
            r["fn"], ls(r["early"]), ls(r["guards"]), r["msec"], "none" if r["const"] is None else "some %d" % r["const"])
        for r in out["rearm"]) + "]\n\n"
    body += "/-- callers of the timer API (file, function, callee, F6 class: a = thread not running, b = on the timer thread, c = holds the gids mutex) -/\n"
    body += "def callers : List (String × String × String × String) := [\n" + ",\n".join(
        '  ("%s", "%s", "%s", "%s")' % c for c in out["callers"]) + "]\n\n"
    body += "def mainOrder : List String := %s\n\n" % ls(out.get("main_order", []))
    body += "def REPLAY_PURGE_SECS : Int := %d\ndef GROUP_UPDATE_SECS : Int := %d\ndef RANDOM_STIR_MAX_SECS : Int := %d\n" % (
        kv["REPLAY_PURGE_SECS"], kv["GROUP_UPDATE_SECS"], kv["RANDOM_STIR_MAX_SECS"])
    body += "def LONG_MAX : Int := %d\ndef EINVAL : Int := %d\n" % (kv["LONG_MAX"], kv["EINVAL"])
    body += "/-- period of the replay purge as written at the re-arm site -/\ndef replayPurgeMs : Int := %s\n" % (
        rp["const"] if rp["const"] is not None else "0 /- not a constant: %s -/" % rp["msec"])
    body += "\nend Munge.Gen.Timer\n"
    gen_write("Timer", body)
    ctx.cov.setdefault("generated", {})["Timer"] = dict(insert_walk=out["insert_walk"], scan_walk=out["scan_walk"],
                                                        set_signals=out["set_signals"], cancel_signals=out["cancel_signals"],
                                                        rearm=[(r["fn"], r["early"], r["guards"], r["msec"]) for r in out["rearm"]],
                                                        callers=len(out["callers"]), degraded=degraded)
    return ok
