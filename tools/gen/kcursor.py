"""K+cursor: the K translator (ktrans.py) extended with *cursors* - pointer variables that walk one named
byte buffer - so that the credential parsers (`dec_unpack_outer`, `dec_unpack_inner`) are translated from
clang's AST like the decision kernels instead of being modelled by hand.

A cursor is (buffer name, offset : Int term).  Supported on top of subset K:

  p = c->outer                  read of a path listed in the spec's `cursors` -> cursor at offset 0
  *p                            `rdU8 <buf> off` (the buffer is an oracle `Int -> Int`), event ("rd", [off, 1])
  p += e, p -= e, p + e         cursor arithmetic (no wrap: pointer arithmetic)
  p - c->outer                  offset difference (at C type long)
  c->inner = p                  pointer store: writes ("<path>", 1) [non-NULL] and ("<path>.off", off)
  memcpy (&u, p, 4); ntohl (u)  `rdBE32 <buf> off` (host byte order is probed), event ("rd", [off, 4])
  memcpy (dst, p, n)            events ("rd", [off, n]) and ("cp:<dst path>", [off, n])
  memset (dst, v, n)            event ("set:<dst path>", [v, n])
  x = malloc (n)                event ("malloc", [n]); value = input `malloc_ret`
  q[i] = v                      event ("st:<path of q>", [i, v])
  sizeof (e) / sizeof (T)       constant, from the spec's `sizeofs` table (filled by a compile-and-print probe)
  *p = v                        event ("wr", [off, 1, 0, v])
  u32 = htonl (x); memcpy (p, &u32, 4)      event ("wr", [off, 4, 1, x])
  memcpy (p, src, n)            event ("wr", [off, n, 2, k]), k = index of the source's name in `<kernel>_srcNames`
  m_msg_set_err (m, code, strdup ("text"))   event ("m_msg_set_err", [code, k]), k = index of "text" in the
                                             generated table `<kernel>_errStrings`

Every byte the C reads through the cursor therefore shows up as an "rd" event carrying offset and length; the
theorems of Props/C08Unpack.lean state that on every path every such event lies inside the buffer, and that
every copy fits its destination."""
from .ktrans import Translator, KError, E, P, Path, lit, trange


class Cur:
    def __init__(self, buf, off):
        self.buf, self.off = buf, off


class Addr:
    """address of an lvalue: ("local", name) | ("path", name)"""
    def __init__(self, lv):
        self.lv = lv


class CursorTranslator(Translator):
    def __init__(self, spec, enumvals, enumtypes):
        super().__init__(spec, enumvals, enumtypes)
        self.cursors = spec.get("cursors", {})
        self.sizeofs = spec.get("sizeofs", {})
        self.err_strings = spec.setdefault("_err_strings", [])
        for b in set(self.cursors.values()):
            self.oracles[b] = 1

    # ---------- helpers
    @staticmethod
    def strip(n):
        while n.get("kind") in ("ParenExpr", "ImplicitCastExpr", "CStyleCastExpr"):
            n = n["inner"][0]
        return n

    def ctype(self, node):
        try:
            return super().ctype(node)
        except KError:
            t = node.get("type", {})
            q = (t.get("desugaredQualType") or t.get("qualType") or "")
            if "[" in q:
                return "ptr"
            raise

    def sizeof_of(self, n):
        at = n.get("argType")
        if at:
            q = at.get("desugaredQualType") or at.get("qualType")
        else:
            t = self.strip(n["inner"][0]).get("type", {}) if n.get("inner") else {}
            t = n["inner"][0].get("type", {}) if n.get("inner") else {}
            q = t.get("desugaredQualType") or t.get("qualType")
        q = q.replace("const ", "").strip()
        for td, base in (("uint8_t", "unsigned char"), ("int8_t", "signed char"), ("uint16_t", "unsigned short"), ("int16_t", "short"),
                         ("uint32_t", "unsigned int"), ("int32_t", "int"), ("uint64_t", "unsigned long"), ("int64_t", "long")):
            if q == td or q.startswith(td + "[") or q.startswith(td + " ["):
                q = base + q[len(td):]
        from .ktrans import INT_TYPES
        if q in INT_TYPES:
            return INT_TYPES[q][0] // 8
        import re
        m = re.match(r"^(.*\S)\s*\[(\d+)\]$", q)
        if m and m.group(1).strip() in INT_TYPES:
            return INT_TYPES[m.group(1).strip()][0] // 8 * int(m.group(2))
        if q in self.sizeofs:
            return self.sizeofs[q]
        raise KError("sizeof (%s) is not in the probed table" % q)

    def as_int(self, v):
        if isinstance(v, Cur) and self.spec.get("malloc_cursor") == v.buf and v.off.lo == v.off.hi == 0:
            return self.input("malloc_ret", "ptr")          # `if (!(buf = malloc (..)))`: the allocation's success
        if isinstance(v, (Cur, Addr)):
            raise KError("cursor / address used as an integer")
        return super().as_int(v)

    # ---------- lvalues
    def lvalue(self, n, st):
        k = n["kind"]
        # `iov[1].iov_len`: a member of an element of a LOCAL array at a constant index is a local variable of its own
        if k == "MemberExpr" and not n.get("isArrow"):
            b = self.strip(n["inner"][0])
            if b.get("kind") == "ArraySubscriptExpr":
                a0 = self.strip(b["inner"][0])
                ix = self.strip(b["inner"][1])
                if a0.get("kind") == "DeclRefExpr" and a0["referencedDecl"]["kind"] == "VarDecl" and ix.get("kind") == "IntegerLiteral" \
                        and a0["referencedDecl"]["name"] in st["declared"]:
                    nm = "%s[%s].%s" % (a0["referencedDecl"]["name"], ix["value"], n["name"])
                    st["declared"].add(nm)
                    return ("local", nm)
        # `rnode.data.t_expired`: a member (chain) of a LOCAL struct / union is a named object of its own
        if k == "MemberExpr" and not n.get("isArrow"):
            chain, b = [n["name"]], self.strip(n["inner"][0])
            while b.get("kind") == "MemberExpr" and not b.get("isArrow"):
                chain.append(b["name"]); b = self.strip(b["inner"][0])
            if b.get("kind") == "DeclRefExpr" and b["referencedDecl"]["kind"] == "VarDecl" and b["referencedDecl"]["name"] in st["declared"] \
                    and b["referencedDecl"]["name"] not in st["locals"]:
                return ("path", ".".join([b["referencedDecl"]["name"]] + chain[::-1]))
        # `pmeta->magic` where pmeta is a cursor onto a packed header: a 32-bit field at a probed offset (spec `struct_fields`)
        if k == "MemberExpr" and n.get("isArrow") and n.get("name") in self.spec.get("struct_fields", {}):
            try:
                b = self.rvalue(n["inner"][0], st)
            except KError:
                b = None
            if isinstance(b, Cur):
                fo, fs = self.spec["struct_fields"][n["name"]]
                return ("field", Cur(b.buf, E("%s + %d" % (b.off.p(), fo), b.off.lo + fo, b.off.hi + fo) if fo else b.off), fs)
        if k == "UnaryOperator" and n.get("opcode") == "*":
            inner = self.strip(n["inner"][0])
            if not (inner["kind"] == "CallExpr"):
                v = self.rvalue(n["inner"][0], st)
                if isinstance(v, Cur):
                    return ("deref", v)
        if k == "ArraySubscriptExpr":
            base = self.strip(n["inner"][0])
            blv = self.lvalue(base, st)
            if blv[0] != "path":
                raise KError("subscript of a non-path pointer")
            idx = self.as_int(self.rvalue(n["inner"][1], st))
            return ("elem", blv[1], idx)
        return super().lvalue(n, st)

    def read(self, lv, t, st):
        if lv[0] == "deref":
            c = lv[1]
            st["events"].append('("rd", [%s, 1])' % c.off.s)
            return E("rdU8 %s %s" % (c.buf, c.off.p()), 0, 255)
        if lv[0] == "field":
            c, fs = lv[1], lv[2]
            if fs != 4:
                raise KError("struct field of %d bytes read through a cursor" % fs)
            st["events"].append('("rd", [%s, 4])' % c.off.s)
            v = E("rdNat32 %s %s" % (c.buf, c.off.p()), 0, (1 << 32) - 1)
            v.native32 = (c.buf, c.off)
            return v
        if lv[0] == "elem":
            raise KError("read through a subscript")
        if lv[0] == "path" and lv[1] in self.cursors and not isinstance(st["mem"].get(lv[1]), Cur) and t == "ptr":
            return Cur(self.cursors[lv[1]], lit(0))
        if lv[0] == "local" and isinstance(st["locals"].get(lv[1]), Cur):
            return st["locals"][lv[1]]
        return super().read(lv, t, st)

    def write(self, lv, val, st):
        if lv[0] == "elem":
            st["events"].append('("st:%s", [%s, %s])' % (lv[1], lv[2].s, self.as_int(val).s))
            return
        if lv[0] == "deref":
            c = lv[1]
            st["events"].append('("wr", [%s, 1, 0, %s])' % (c.off.s, self.as_int(val).s))
            return
        if isinstance(val, Cur):
            if lv[0] == "local":
                st["locals"][lv[1]] = val
                return
            nm = lv[1]
            for p_, v_ in ((nm, lit(1)), (nm + ".off", val.off)):
                if p_ not in st["worder"]:
                    st["worder"].append(p_)
                st["mem"][p_] = v_
            self.path_types[nm + ".off"] = (64, True)
            return
        if isinstance(val, Addr):
            if lv[0] == "local":
                st["locals"][lv[1]] = val          # a pointer variable holding the address of a named object (`p_uid = &m->client_uid`)
                return
            raise KError("address stored")
        super().write(lv, val, st)

    # ---------- rvalues
    def rvalue(self, n, st):
        k = n["kind"]
        if k == "UnaryExprOrTypeTraitExpr" and n.get("name") == "sizeof":
            return lit(self.sizeof_of(n))
        if k == "UnaryOperator" and n.get("opcode") == "&":
            return Addr(self.lvalue(n["inner"][0], st))
        if k == "ImplicitCastExpr" and n.get("castKind") == "ArrayToPointerDecay":
            sub = self.strip(n["inner"][0])
            if sub["kind"] == "MemberExpr":
                return Addr(self.lvalue(sub, st))
            if sub["kind"] == "DeclRefExpr" and sub["referencedDecl"]["kind"] == "VarDecl":
                return Addr(("local", sub["referencedDecl"]["name"]))        # a local array handed over by address
        if k == "CompoundAssignOperator" and n["opcode"] in ("+=", "-="):
            lv = self.lvalue(n["inner"][0], st)
            if lv[0] == "local" and isinstance(st["locals"].get(lv[1]), Cur):
                c = st["locals"][lv[1]]
                d = self.as_int(self.rvalue(n["inner"][1], st))
                if n["opcode"] == "+=":
                    off = E("%s + %s" % (c.off.p(), d.p()), c.off.lo + d.lo, c.off.hi + d.hi)
                else:
                    off = E("%s - %s" % (c.off.p(), d.p()), c.off.lo - d.hi, c.off.hi - d.lo)
                if c.off.lo == c.off.hi and d.lo == d.hi and c.off.atom and d.atom:
                    off = lit(c.off.lo + (d.lo if n["opcode"] == "+=" else -d.lo))
                nc = Cur(c.buf, off)
                st["locals"][lv[1]] = nc
                return nc
            if lv[0] == "local" and isinstance(st["locals"].get(lv[1]), E):
                is_ptr = False
                try:
                    is_ptr = self.ctype(n) == "ptr"
                except KError:
                    pass
                if is_ptr:                 # arithmetic on an opaque pointer (a scratch buffer only ever handed to the primitives)
                    a = st["locals"][lv[1]]
                    d = self.as_int(self.rvalue(n["inner"][1], st))
                    v = E("%s %s %s" % (a.p(), n["opcode"][0], d.p()), 0, (1 << 64) - 1)
                    st["locals"][lv[1]] = v
                    return v
        if k == "BinaryOperator" and n["opcode"] in ("+", "-"):
            a = self.rvalue(n["inner"][0], st)
            if isinstance(a, Cur):
                b = self.rvalue(n["inner"][1], st)
                if isinstance(b, Cur):
                    if n["opcode"] != "-" or a.buf != b.buf:
                        raise KError("arithmetic on two cursors of different buffers")
                    return self.wrap(E("%s - %s" % (a.off.p(), b.off.p()), a.off.lo - b.off.hi, a.off.hi - b.off.lo), (64, True))
                b = self.as_int(b)
                if n["opcode"] == "+":
                    return Cur(a.buf, E("%s + %s" % (a.off.p(), b.p()), a.off.lo + b.lo, a.off.hi + b.hi))
                return Cur(a.buf, E("%s - %s" % (a.off.p(), b.p()), a.off.lo - b.hi, a.off.hi - b.lo))
            b = self.as_int(self.rvalue(n["inner"][1], st))
            return self.arith(n["opcode"], self.as_int(a), b, self.ctype(n))
        if k in ("ImplicitCastExpr", "CStyleCastExpr") and n.get("castKind") in ("NoOp", "BitCast"):
            return self.rvalue(n["inner"][0], st)
        return super().rvalue(n, st)

    def merge_val(self, t, get):
        if t[0] == "ite":
            a, b = self.merge_val(t[2], get), self.merge_val(t[3], get)
            if isinstance(a, Cur) or isinstance(b, Cur):
                if a is None:
                    return b
                if b is None:
                    return a
                if not (isinstance(a, Cur) and isinstance(b, Cur) and a.buf == b.buf):
                    raise KError("cursor differs in kind across branches")
                if a.off.s == b.off.s:
                    return a
                return Cur(a.buf, E("if %s then %s else %s" % (t[1].s, a.off.s, b.off.s),
                                    min(a.off.lo, b.off.lo), max(a.off.hi, b.off.hi)))
        return super().merge_val(t, get)

    # ---------- statements: `if (a || f (..))` / `if (a && f (..))` with a call in the right operand is rewritten into nested ifs
    #            (C evaluates the call only when the left operand does not decide)
    @staticmethod
    def _has_call(n):
        if isinstance(n, dict):
            if n.get("kind") == "CallExpr":
                return True
            return any(CursorTranslator._has_call(c) for c in n.get("inner", []))
        return False

    def run(self, stmts, st, depth=0):
        if stmts and stmts[0].get("kind") == "IfStmt":
            s = stmts[0]
            inner = s["inner"]
            c = inner[0]
            while c.get("kind") == "ParenExpr":
                c = c["inner"][0]
            if c.get("kind") == "BinaryOperator" and c.get("opcode") in ("||", "&&") and self._has_call(c["inner"][1]):
                a, b = c["inner"]
                th = inner[1]
                el = inner[2] if len(inner) > 2 else None
                def mk(cond, t, e):
                    return {"kind": "IfStmt", "inner": [cond, t] + ([e] if e is not None else [])}
                if c["opcode"] == "||":
                    new = mk(a, th, mk(b, th, el))
                else:
                    new = mk(a, mk(b, th, el), el)
                return self.run([new] + stmts[1:], st, depth)
        return super().run(stmts, st, depth)

    # ---------- calls
    def dst_name(self, arg, st):
        """name of the object a memcpy/memset destination points to"""
        v = self.rvalue(arg, st)
        if isinstance(v, Addr):
            return v.lv
        s = self.strip(arg)
        if s["kind"] == "MemberExpr":
            return self.lvalue(s, st)
        if s["kind"] == "DeclRefExpr":
            return ("path", s["referencedDecl"]["name"])          # a local pointer (e.g. a malloc'd scratch buffer): named by the variable
        raise KError("memcpy/memset destination is not a named object")

    def call(self, n, st):
        fn = self.callee(n)
        args = n["inner"][1:]
        if fn in ("memcpy", "__builtin_memcpy", "__builtin___memcpy_chk"):
            d0 = self.rvalue(args[0], st)
            if isinstance(d0, Cur):
                cnt = self.as_int(self.rvalue(args[2], st))
                sv = self.rvalue(args[1], st)
                if isinstance(sv, Addr) and sv.lv[0] == "local":
                    v = st["locals"].get(sv.lv[1])
                    h = getattr(v, "hton32", None)
                    if h is None or not (cnt.lo == cnt.hi == 4):
                        raise KError("memcpy to the cursor from a local that does not hold htonl (x), or not 4 bytes")
                    st["events"].append('("wr", [%s, 4, 1, %s])' % (d0.off.s, h.s))
                else:
                    if isinstance(sv, Addr):
                        nm = sv.lv[1]
                    else:
                        s_ = self.strip(args[1])
                        if s_["kind"] != "MemberExpr":
                            raise KError("memcpy to the cursor from an unnamed source")
                        nm = self.lvalue(s_, st)[1]
                    names = self.spec.setdefault("_src_names", [])
                    if nm not in names:
                        names.append(nm)
                    st["events"].append('("wr", [%s, %s, 2, %d])' % (d0.off.s, cnt.s, names.index(nm)))
                return lit(1)
            dst = self.dst_name(args[0], st)
            src = self.rvalue(args[1], st)
            cnt = self.as_int(self.rvalue(args[2], st))
            if isinstance(src, Addr) and src.lv[0] == "path" and dst[0] == "path":
                st["events"].append('("copy:%s<-%s", [%s])' % (dst[1], src.lv[1], cnt.s))      # object to object, both named
                return lit(1)
            if not isinstance(src, Cur):
                raise KError("memcpy from something that is not a cursor")
            st["events"].append('("rd", [%s, %s])' % (src.off.s, cnt.s))
            if dst[0] == "local":
                if not (cnt.lo == cnt.hi == 4):
                    raise KError("memcpy into a local of size other than 4")
                v = E("rdNat32 %s %s" % (src.buf, src.off.p()), 0, (1 << 32) - 1)
                v.native32 = (src.buf, src.off)
                st["locals"][dst[1]] = v
            else:
                st["events"].append('("cp:%s", [%s, %s])' % (dst[1], src.off.s, cnt.s))
            return lit(1)
        if fn in ("memset", "__builtin_memset"):
            dst = self.dst_name(args[0], st)
            v = self.as_int(self.rvalue(args[1], st))
            cnt = self.as_int(self.rvalue(args[2], st))
            if dst[0] != "path":
                raise KError("memset of a local")
            st["events"].append('("set:%s", [%s, %s])' % (dst[1], v.s, cnt.s))
            return lit(1)
        if fn in ("ntohl", "htonl", "__bswap_32", "__builtin_bswap32", "__uint32_identity"):
            v = self.rvalue(args[0], st)
            nat = getattr(v, "native32", None)
            if nat is None:
                if fn in ("htonl", "ntohl", "__bswap_32", "__builtin_bswap32") and isinstance(v, E):
                    r = E("bswap32 %s" % v.p(), 0, (1 << 32) - 1)     # only ever stored through the cursor (wr:be32 carries v itself)
                    r.hton32 = self.wrap(v, (32, False))
                    return r
                raise KError("ntohl of a value that was not loaded from the cursor")
            if fn == "__uint32_identity":
                return v
            return E("rdBE32 %s %s" % (nat[0], nat[1].p()), 0, (1 << 32) - 1)
        if fn == "strlen" and self.strip(args[0]).get("kind") == "StringLiteral":
            return lit(len(self.find_string(args[0]) or ""))
        if fn in ("strcpy", "__builtin_strcpy", "__builtin___strcpy_chk"):
            d0 = self.rvalue(args[0], st)
            txt = self.find_string(args[1])
            if not isinstance(d0, Cur) or txt is None:
                raise KError("strcpy that is not (cursor, string literal)")
            names = self.spec.setdefault("_src_names", [])
            lab = "literal:" + txt
            if lab not in names:
                names.append(lab)
            st["events"].append('("wr", [%s, %d, 2, %d])' % (d0.off.s, len(txt) + 1, names.index(lab)))
            return lit(1)
        if fn == "free" and self.spec.get("named_free"):
            st["events"].append('("free:%s", [])' % self.dst_name(args[0], st)[1])
            return lit(0)
        if fn == "malloc":
            sz = self.as_int(self.rvalue(args[0], st))
            st["events"].append('("malloc", [%s])' % sz.s)
            if self.spec.get("malloc_cursor"):
                if "malloc_ret" not in self.inputs:
                    self.inputs["malloc_ret"] = "malloc_ret"
                self.input("malloc_ret", "ptr")
                return Cur(self.spec["malloc_cursor"], lit(0))
            return self.input("malloc_ret", "ptr") if "malloc_ret" in self.inputs else self._mk_input("malloc_ret")
        if fn == "m_msg_set_err" and self.spec.get("err_index"):
            code = self.as_int(self.rvalue(args[1], st))
            txt = self.find_string(args[2]) or ""
            if txt not in self.err_strings:
                self.err_strings.append(txt)
            st["events"].append('("m_msg_set_err", [%s, %d])' % (code.s, self.err_strings.index(txt)))
            return lit(-1)
        h = self.spec.get("calls", {}).get(fn)
        if h is not None and h[0] == "outinput":
            # ("outinput", retName, retType, {arg index: (inputName, ctype)}, [arg indices recorded in the event]): the call's result is
            # an input, and so is what it stores through each `&local` out-parameter; the event carries the listed integer arguments
            vals = []
            for i in (h[4] if len(h) > 4 else []):
                v = self.rvalue(args[i], st)
                if isinstance(v, Cur):
                    v = v.off
                elif isinstance(v, Addr) and v.lv[0] == "local":
                    # `f (.., &ts)`: what the local holds (e.g. the token an earlier call stored through `&ts`)
                    v = st["locals"].get(v.lv[1])
                    if not isinstance(v, E):
                        raise KError("address of an unset local recorded in an event")
                elif isinstance(v, Addr):
                    if v.lv[0] != "path":
                        raise KError("address of a local recorded in an event")
                    v = self.input(v.lv[1], "ptr")           # an array member handed over by address: named by its declared input
                vals.append(self.as_int(v))
            st["events"].append('("%s", [%s])' % (fn, ", ".join(v.s for v in vals)))
            sites0 = self.spec.setdefault("_sites", {}).setdefault(fn, [])
            if n.get("id") not in sites0:
                sites0.append(n.get("id"))
            k0 = sites0.index(n.get("id"))
            for i, (nm, ct) in h[3].items():
                if k0:
                    nm = "%s_%d" % (nm, k0 + 1)
                a = self.rvalue(args[i], st)
                if not isinstance(a, Addr):
                    raise KError("out-parameter %d of %s is not the address of a named object" % (i, fn))
                if nm not in self.used_inputs:
                    self.used_inputs.append(nm)
                self.input_types[nm] = ct
                lo, hi = trange(ct)
                if a.lv[0] == "local":
                    st["locals"][a.lv[1]] = E(nm, lo, hi, atom=True)
                else:
                    self.path_types[a.lv[1]] = ct
                    Translator.write(self, a.lv, E(nm, lo, hi, atom=True), st)
            # objects the call stores to behind the caller's back (h[5]: per call site, {path: (input name, ctype)}): e.g. errno, or the
            # header fields `_msg_unpack` fills in
            if len(h) > 5 and k0 < len(h[5]):
                for path, (pn, ct) in h[5][k0].items():
                    if pn not in self.used_inputs:
                        self.used_inputs.append(pn)
                    self.input_types[pn] = ct
                    lo, hi = trange(ct)
                    self.path_types[path] = ct
                    Translator.write(self, ("path", path), E(pn, lo, hi, atom=True), st)
            # one input per call SITE (two calls of the same function return two different results)
            sites = self.spec.setdefault("_sites", {}).setdefault(fn, [])
            sid = n.get("id")
            if sid not in sites:
                sites.append(sid)
            k = sites.index(sid)
            nm = h[1] if k == 0 else "%s_%d" % (h[1], k + 1)
            if nm not in self.used_inputs:
                self.used_inputs.append(nm)
            self.input_types[nm] = h[2]
            lo, hi = trange(h[2])
            return E(nm, lo, hi, atom=True)
        return super().call(n, st)

    def _mk_input(self, nm):
        self.inputs[nm] = nm
        return self.input(nm, "ptr")

    def find_string(self, n):
        if isinstance(n, dict):
            if n.get("kind") == "StringLiteral":
                v = n.get("value", '""')
                return v[1:-1] if v.startswith('"') else v
            for c in n.get("inner", []):
                r = self.find_string(c)
                if r is not None:
                    return r
        return None
