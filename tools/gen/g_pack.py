"""Gen.Pack: the credential packers `enc_pack_outer` / `enc_pack_inner` of src/munged/enc.c translated by the K+cursor
translator: the allocation is a `malloc` event carrying its size, every store through the cursor a `wr:*` event carrying
offset and length (and the value for single bytes and big-endian words)."""
from .ktrans import translate_kernels
from .kcursor import CursorTranslator
from .g_unpack import probe_sizes
from ..vlib.leanlib import gen_write


def specs(sz):
    calls = {"m_msg_set_err": ("event", -1, [1])}
    M = lambda f: ("c.msg." + f, f)
    return [
        dict(name="enc_pack_outer", cursors={"c.outer_mem": "outer"}, sizeofs={"struct in_addr": sz["SZ_in_addr"]},
             inputs=[("c.outer_mem_len", "outer_mem_len0"), ("c.version", "version"), M("cipher"), M("mac"), M("zip"), M("realm_len"),
                     ("c.iv_len", "iv_len"), ("malloc_ret", "malloc_ret")],
             calls=calls),
        dict(name="enc_pack_inner", cursors={"c.inner_mem": "inner"}, sizeofs={"struct in_addr": sz["SZ_in_addr"]},
             inputs=[("c.inner_mem_len", "inner_mem_len0"), ("c.salt_len", "salt_len"), M("time0"), M("ttl"), M("client_uid"), M("client_gid"),
                     M("auth_uid"), M("auth_gid"), M("data_len"), ("malloc_ret", "malloc_ret")],
             calls=calls),
    ]


def generate(ctx):
    sz = probe_sizes(ctx)
    if sz is None:
        ctx.obligation("gen", "sizes for the packers probed", False)
        return False
    d = translate_kernels(ctx, "src/munged/enc.c", specs(sz), cls=CursorTranslator)
    if d is None:
        return False
    body = "/- GENERATED from <repo>/src/munged/enc.c by tools/gen/g_pack.py (K+cursor translator) -- do not edit -/\n"
    body += "import Munge.C.Kernel\nimport Munge.C.Cursor\nset_option linter.unusedVariables false\nnamespace Munge.Gen.Pack\nopen Munge.C\n\n"
    body += d + "\nend Munge.Gen.Pack\n"
    gen_write("Pack", body)
    return True
