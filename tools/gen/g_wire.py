"""Gen.Wire: the client-daemon message codec of src/libcommon/m_msg.c as data.

Extracted on every run from the repo's working tree:
  * struct m_msg: every member with its kind (integer / pointer / in-struct bytes / bit-field) and sizeof (probe);
  * per `case` of the `switch (type)` in `_msg_length`, `_msg_pack`, `_msg_unpack`: the ordered list of field
    descriptors (Munge.Wire.Fld) read off the `n += ...` statements and the `if / else if` chains (clang-14 JSON AST);
  * the initialisers of the header locals in `_msg_pack`, the post-switch header checks of `_msg_unpack`, the
    (m_msg_set_err code, return code) pairs of the `err` / `nomem` exits;
  * the order, exit codes and the length-gate condition of the `else if` chain of `m_msg_recv`; the same for the
    length gate of `m_msg_send`;
  * constants (magic, version, header size, maximum request length), enum m_msg_type, the EMUNGE_* codes used,
    the munge_strerror() strings, and `m_msg_reset` as a translated kernel.
Any statement shape not recognised is a failed generator obligation, never a silent default."""
import json, os, re
from .probe import run_probe
from . import ktrans
from ..vlib.core import sh
from ..vlib.cbuild import cflags
from ..vlib.leanlib import gen_write

REL = "src/libcommon/m_msg.c"
CMP = {"<": "lt", "<=": "le", ">": "gt", ">=": "ge", "==": "eq", "!=": "ne"}
FLIP = {"<": ">", "<=": ">=", ">": "<", ">=": "<=", "==": "==", "!=": "!="}


class GErr(Exception):
    pass


# ---------------------------------------------------------------- AST access
def load_decls(repo):
    cmd = ["clang-14", "-fsyntax-only", "-w"] + cflags(repo) + [
        "-Xclang", "-ast-dump=json", "-Xclang", "-ast-dump-filter=_msg", os.path.join(repo, REL)]
    rc, out = sh(cmd, timeout=180)
    i = out.find("{")
    if i < 0:
        raise GErr("clang produced no AST for %s: %s" % (REL, out[-400:]))
    s, dec, pos, docs = out[i:], json.JSONDecoder(), 0, []
    while pos < len(s):
        while pos < len(s) and s[pos] != "{":
            pos += 1
        if pos >= len(s):
            break
        try:
            d, pos = dec.raw_decode(s, pos)
        except json.JSONDecodeError:
            break
        docs.append(d)
    return docs


def fn_body(docs, name):
    for d in docs:
        if d.get("kind") == "FunctionDecl" and d.get("name") == name:
            for c in d.get("inner", []):
                if c.get("kind") == "CompoundStmt":
                    return d, c
    raise GErr("no definition of %s in %s" % (name, REL))


WRAP = ("ParenExpr", "ImplicitCastExpr", "ConstantExpr", "CStyleCastExpr")


def strip(n):
    while n.get("kind") in WRAP:
        n = n["inner"][0]
    return n


def is_ref(n, kinds, name=None):
    n = strip(n)
    if n.get("kind") != "DeclRefExpr":
        return False
    rd = n["referencedDecl"]
    return rd["kind"] in kinds and (name is None or rd["name"] == name)


def member(n):
    """`m->X` (as lvalue or rvalue) -> X, else None"""
    n = strip(n)
    if n.get("kind") == "MemberExpr" and n.get("isArrow") and is_ref(n["inner"][0], ("ParmVarDecl",), "m"):
        return n["name"]
    return None


def local(n):
    n = strip(n)
    if n.get("kind") == "DeclRefExpr" and n["referencedDecl"]["kind"] == "VarDecl":
        return n["referencedDecl"]["name"]
    return None


def addr_of(n):
    """`&(m->X)` -> ('member', X); `&loc` -> ('local', loc)"""
    n = strip(n)
    if n.get("kind") == "UnaryOperator" and n.get("opcode") == "&":
        x = n["inner"][0]
        if member(x):
            return ("member", member(x))
        if local(x):
            return ("local", local(x))
    return None


def sizeof_arg(n):
    n = strip(n)
    if n.get("kind") == "UnaryExprOrTypeTraitExpr" and n.get("name") == "sizeof":
        if "argType" in n:
            return ("type", n["argType"]["qualType"])
        x = n["inner"][0]
        if member(x):
            return ("member", member(x))
        if local(x):
            return ("local", local(x))
    return None


def literal(n):
    n = strip(n)
    if n.get("kind") == "IntegerLiteral":
        return int(n["value"])
    return None


def enumconst(n):
    n = strip(n)
    if n.get("kind") == "DeclRefExpr" and n["referencedDecl"]["kind"] == "EnumConstantDecl":
        return n["referencedDecl"]["name"]
    return None


def callee(n):
    n = strip(n)
    if n.get("kind") == "CallExpr":
        f = strip(n["inner"][0])
        if f.get("kind") == "DeclRefExpr":
            return f["referencedDecl"]["name"], n["inner"][1:]
    return None, None


def walk(n):
    if isinstance(n, dict):
        yield n
        for c in n.get("inner", []) or []:
            yield from walk(c)


def src_line(n):
    for x in walk(n):
        r = x.get("range", {}).get("begin", {})
        for k in (r, r.get("expansionLoc", {}), r.get("spellingLoc", {})):
            if "line" in k:
                return k["line"]
    return "?"


# ---------------------------------------------------------------- the three switches
class Codec:
    def __init__(self, docs):
        self.docs = docs
        self.types = set()       # type names whose sizeof is needed
        self.local_types = {}    # local name -> declared type name
        self.enums = set()       # enum constants whose value is needed

    # -- locals of _msg_pack/_msg_unpack
    def decls(self, body, buf, buflen):
        """checks `p = <buf>` and `q = <buf> + <buflen>`; returns {local: initialiser literal or None}"""
        inits, seen = {}, {}
        for s in body["inner"]:
            if s["kind"] != "DeclStmt":
                continue
            for d in s["inner"]:
                if d["kind"] != "VarDecl":
                    raise GErr("unexpected declaration %s" % d["kind"])
                init = [c for c in d.get("inner", []) if c.get("kind") != "FullComment"]
                seen[d["name"]] = init[0] if init else None
                self.local_types[d["name"]] = d["type"]["qualType"]
        if "p" not in seen or "q" not in seen or seen["p"] is None or seen["q"] is None:
            raise GErr("cursor locals p/q not found")
        if not is_ref(seen["p"], ("ParmVarDecl",), buf):
            raise GErr("cursor `p` is not initialised to `%s`" % buf)
        qn = strip(seen["q"])
        if not (qn.get("kind") == "BinaryOperator" and qn.get("opcode") == "+" and
                is_ref(qn["inner"][0], ("ParmVarDecl",), buf) and is_ref(qn["inner"][1], ("ParmVarDecl",), buflen)):
            raise GErr("end pointer `q` is not `%s + %s`" % (buf, buflen))
        for k, v in seen.items():
            if k in ("p", "q"):
                continue
            inits[k] = None if v is None else literal(v)
            if v is not None and inits[k] is None:
                raise GErr("initialiser of local `%s` is not an integer constant" % k)
        return inits

    def target(self, t):
        """('member', X) -> field name X ; ('local', v) -> 'local.v'"""
        if t[0] == "member":
            return t[1]
        if t[0] == "local":
            self.types.add(self.local_types[t[1]])
            return "local." + t[1]
        raise GErr("bad target %r" % (t,))

    def width(self, t):
        if t[0] == "member":
            return ("M", t[1])
        if t[0] == "local":
            return ("T", self.local_types[t[1]])
        self.types.add(t[1])
        return ("T", t[1])

    def switch_items(self, body, param):
        sw = [s for s in body["inner"] if s["kind"] == "SwitchStmt"]
        if len(sw) != 1 or not is_ref(sw[0]["inner"][0], ("ParmVarDecl",), param):
            raise GErr("expected exactly one `switch (%s)`" % param)
        comp = sw[0]["inner"][1]
        if comp["kind"] != "CompoundStmt":
            raise GErr("switch body is not a block")
        cases, cur = [], None
        for it in comp.get("inner", []):
            if it["kind"] == "CaseStmt":
                if cur is not None and not cur["closed"]:
                    raise GErr("fall-through between cases (line %s)" % src_line(it))
                nm = enumconst(it["inner"][0])
                if nm is None:
                    raise GErr("case label is not an enum constant (line %s)" % src_line(it))
                self.enums.add(nm)
                cur = {"label": nm, "stmts": [it["inner"][-1]], "closed": False}
                cases.append(cur)
            elif it["kind"] == "DefaultStmt":
                if cur is not None and not cur["closed"]:
                    raise GErr("fall-through into default")
                cur = {"label": None, "stmts": [it["inner"][-1]], "closed": False}
                cases.append(cur)
            else:
                if cur is None:
                    raise GErr("statement before the first case")
                if cur["closed"]:
                    if it["kind"] == "BreakStmt":      # `return (-1); break;`
                        continue
                    raise GErr("unreachable statement in switch (line %s)" % src_line(it))
                cur["stmts"].append(it)
            if cur["stmts"][-1]["kind"] in ("BreakStmt", "GotoStmt", "ReturnStmt"):
                cur["closed"] = True
        return cases

    # -- _msg_length
    def length(self):
        f, body = fn_body(self.docs, "_msg_length")
        ok_n = False
        for s in body["inner"]:
            if s["kind"] == "DeclStmt":
                for d in s["inner"]:
                    init = [c for c in d.get("inner", []) if c.get("kind") != "FullComment"]
                    if d.get("name") == "n" and d["type"]["qualType"] == "int" and init and literal(init[0]) == 0:
                        ok_n = True
        if not ok_n:
            raise GErr("_msg_length: accumulator `int n = 0` not found")
        last = body["inner"][-1]
        if not (last["kind"] == "ReturnStmt" and local(last["inner"][0]) == "n"):
            raise GErr("_msg_length does not end in `return (n)`")
        table, default = [], None
        for c in self.switch_items(body, "type"):
            if c["label"] is None:
                r = c["stmts"][0]
                v = None
                if r["kind"] == "ReturnStmt":
                    e = strip(r["inner"][0])
                    if e.get("kind") == "UnaryOperator" and e.get("opcode") == "-" and literal(e["inner"][0]) is not None:
                        v = -literal(e["inner"][0])
                    elif literal(e) is not None:
                        v = literal(e)
                if v is None:
                    raise GErr("_msg_length: default case is not `return <constant>`")
                default = v
                continue
            flds = []
            if c["stmts"][-1]["kind"] != "BreakStmt":
                raise GErr("_msg_length: case %s does not end in break" % c["label"])
            for s in c["stmts"][:-1]:
                if not (s["kind"] == "CompoundAssignOperator" and s["opcode"] == "+=" and local(s["inner"][0]) == "n"):
                    raise GErr("_msg_length: statement at line %s is not `n += ...`" % src_line(s))
                rhs = s["inner"][1]
                sz = sizeof_arg(rhs)
                if sz and sz[0] == "member":
                    flds.append(("int", sz[1], ("M", sz[1])))
                elif sz and sz[0] == "type":
                    self.types.add(sz[1])
                    flds.append(("int", "sizeof." + sz[1], ("T", sz[1])))
                elif member(rhs):
                    flds.append(("var", member(rhs)))
                else:
                    raise GErr("_msg_length: unsupported addend at line %s" % src_line(s))
            table.append((c["label"], flds))
        if default is None:
            raise GErr("_msg_length: no default case")
        return table, default

    # -- chains of _msg_pack / _msg_unpack
    def chain(self, fn, c, mode, labels):
        stmts = c["stmts"]
        if len(stmts) != 2 or stmts[0]["kind"] != "IfStmt" or stmts[1]["kind"] != "GotoStmt":
            raise GErr("%s: case %s is not `if-chain; goto <label>`" % (fn, c["label"]))
        if labels.get(stmts[1]["targetLabelDeclId"]) != "err":
            raise GErr("%s: case %s: chain failure does not go to `err`" % (fn, c["label"]))
        out, n = [], stmts[0]
        while n["kind"] != "BreakStmt":
            if n["kind"] != "IfStmt" or len(n["inner"]) != 3:
                raise GErr("%s: case %s: chain link at line %s has no else / is not an if" % (fn, c["label"], src_line(n)))
            cond, then, els = n["inner"]
            exit_ = None
            if then["kind"] == "NullStmt":
                exit_ = "err"
            elif then["kind"] == "GotoStmt":
                exit_ = labels.get(then["targetLabelDeclId"])
            if exit_ is None:
                raise GErr("%s: case %s: unsupported then-branch at line %s" % (fn, c["label"], src_line(n)))
            out.append(self.link(fn, cond, mode, exit_))
            n = els
        return out

    def link(self, fn, cond, mode, exit_):
        where = "%s line %s" % (fn, src_line(cond))
        c = cond
        while c.get("kind") == "ParenExpr":
            c = c["inner"][0]
        # !_pack / !_unpack / !_alloc  (also written `f (...) == 0`)
        zero_test = None
        if c.get("kind") == "UnaryOperator" and c.get("opcode") == "!":
            zero_test = c["inner"][0]
        elif c.get("kind") == "BinaryOperator" and c.get("opcode") == "==":
            for a, b in (c["inner"], c["inner"][::-1]):
                if literal(b) == 0 and callee(a)[0] in ("_pack", "_unpack", "_alloc"):
                    zero_test = a
        if zero_test is not None:
            name, args = callee(zero_test)
            if name == "_pack" and mode == "pack" and len(args) == 4:
                a_p, a_src, a_sz, a_q = args
                t = addr_of(a_src)
                if addr_of(a_p) == ("local", "p") and t and sizeof_arg(a_sz) == t and local(a_q) == "q" and exit_ == "err":
                    return ("int", self.target(t), self.width(t))
                raise GErr("%s: _pack call is not `_pack (&p, &X, sizeof (X), q)`" % where)
            if name == "_unpack" and mode == "unpack" and len(args) == 4:
                a_dst, a_p, a_sz, a_q = args
                t = addr_of(a_dst)
                if addr_of(a_p) == ("local", "p") and t and sizeof_arg(a_sz) == t and local(a_q) == "q" and exit_ == "err":
                    return ("int", self.target(t), self.width(t))
                raise GErr("%s: _unpack call is not `_unpack (&X, &p, sizeof (X), q)`" % where)
            if name == "_alloc" and mode == "unpack" and len(args) == 2:
                t = addr_of(args[0])
                ln = member(args[1])
                if t and t[0] == "member" and ln and exit_ == "nomem":
                    return ("alloc", t[1], ln)
                raise GErr("%s: _alloc call is not `!_alloc (&(m->Y), m->L)) goto nomem`" % where)
            raise GErr("%s: unsupported call `%s` in a %s chain" % (where, name, mode))
        if c.get("kind") == "BinaryOperator" and c.get("opcode") in CMP:
            lhs, rhs = c["inner"]
            name, args = callee(lhs)
            if name == "_copy":
                if not (c["opcode"] == "<" and literal(rhs) == 0 and len(args) == 6 and exit_ == "err"):
                    raise GErr("%s: _copy result is not tested with `< 0`" % where)
                a_dst, a_src, a_len, a_first, a_last, a_inc = args
                ln = member(a_len)
                if not (ln and local(a_first) == "p" and local(a_last) == "q" and addr_of(a_inc) == ("local", "p")):
                    raise GErr("%s: _copy call is not `_copy (dst, src, m->L, p, q, &p)`" % where)
                a_pkt, a_mem = (a_dst, a_src) if mode == "pack" else (a_src, a_dst)
                if local(a_pkt) != "p":
                    raise GErr("%s: _copy packet-side argument is not the cursor `p`" % where)
                t = addr_of(a_mem)
                if t and t[0] == "member":
                    return ("bytes", t[1], ln, ("M", t[1]))
                if member(a_mem):
                    return ("bytes", member(a_mem), ln, None)
                raise GErr("%s: _copy member-side argument is neither `m->Y` nor `&(m->Y)`" % where)
            if name is None and not any(x.get("kind") == "CallExpr" for x in walk(c)):
                op = c["opcode"]
                def const(x):
                    sz = sizeof_arg(x)
                    if sz:
                        return self.width(sz)
                    if literal(x) is not None:
                        return literal(x)
                    y = strip(x)
                    if y.get("kind") == "BinaryOperator" and y.get("opcode") in ("+", "-", "*"):
                        a, b = const(y["inner"][0]), const(y["inner"][1])
                        if a is not None and b is not None:
                            return ("op", y["opcode"], a, b)
                    return None
                if member(lhs) and const(rhs) is not None and sizeof_arg(lhs) is None:
                    if exit_ != "err":
                        raise GErr("%s: bounds test does not leave through `err`" % where)
                    return ("guard", member(lhs), CMP[op], const(rhs))
                if member(rhs) and const(lhs) is not None and sizeof_arg(rhs) is None:
                    if exit_ != "err":
                        raise GErr("%s: bounds test does not leave through `err`" % where)
                    return ("guard", member(rhs), CMP[FLIP[op]], const(lhs))
        raise GErr("%s: unsupported condition in a %s chain" % (where, mode))

    def labels_of(self, body):
        """label declId -> name, and name -> (set_err code, return code) read off the statements after the label"""
        ids, exits = {}, {}
        st = body["inner"]
        for i, s in enumerate(st):
            if s["kind"] == "LabelStmt":
                ids[s["declId"]] = s["name"]
                name, args = callee(s["inner"][0])
                ret = st[i + 1] if i + 1 < len(st) else None
                if name != "m_msg_set_err" or ret is None or ret["kind"] != "ReturnStmt" or enumconst(args[1]) is None \
                        or enumconst(ret["inner"][0]) is None:
                    raise GErr("label %s is not `m_msg_set_err (m, E, ...); return (E');`" % s["name"])
                self.enums.update([enumconst(args[1]), enumconst(ret["inner"][0])])
                exits[s["name"]] = (enumconst(args[1]), enumconst(ret["inner"][0]))
        return ids, exits

    def seterr_return(self, block, what):
        """`{ m_msg_set_err (m, E, ...); return (E'); }` -> (E, E')"""
        st = block["inner"] if block["kind"] == "CompoundStmt" else [block]
        if len(st) == 2:
            name, args = callee(st[0])
            if name == "m_msg_set_err" and st[1]["kind"] == "ReturnStmt" and enumconst(args[1]) and enumconst(st[1]["inner"][0]):
                self.enums.update([enumconst(args[1]), enumconst(st[1]["inner"][0])])
                return enumconst(args[1]), enumconst(st[1]["inner"][0])
        raise GErr("%s: exit block is not `m_msg_set_err (m, E, ...); return (E');`" % what)

    def pack(self):
        f, body = fn_body(self.docs, "_msg_pack")
        inits = self.decls(body, "dst", "dstlen")
        ids, exits = self.labels_of(body)
        if "err" not in exits:
            raise GErr("_msg_pack: no `err` exit")
        table = []
        for c in self.switch_items(body, "type"):
            if c["label"] is None:
                if not (len(c["stmts"]) == 1 and c["stmts"][0]["kind"] == "GotoStmt" and ids.get(c["stmts"][0]["targetLabelDeclId"]) == "err"):
                    raise GErr("_msg_pack: default case is not `goto err`")
                continue
            table.append((c["label"], self.chain("_msg_pack", c, "pack", ids)))
        ok = self.success_return(body)
        return table, inits, exits, ok

    def success_return(self, body):
        """the statement after the switch (ignoring compiled-out asserts and the header post-check) returns a constant"""
        st = body["inner"]
        i = [k for k, s in enumerate(st) if s["kind"] == "SwitchStmt"][0]
        for s in st[i + 1:]:
            if s["kind"] == "ReturnStmt":
                e = enumconst(s["inner"][0])
                if e is None:
                    raise GErr("success return is not an enum constant")
                self.enums.add(e)
                return e
            if s["kind"] == "LabelStmt":
                break
        raise GErr("no success return after the switch")

    def unpack(self):
        f, body = fn_body(self.docs, "_msg_unpack")
        inits = self.decls(body, "src", "srclen")
        if any(v is not None for v in inits.values()):
            raise GErr("_msg_unpack: header locals are initialised")
        ids, exits = self.labels_of(body)
        if "err" not in exits or "nomem" not in exits:
            raise GErr("_msg_unpack: `err` / `nomem` exits not found")
        table = []
        for c in self.switch_items(body, "type"):
            if c["label"] is None:
                if not (len(c["stmts"]) == 1 and c["stmts"][0]["kind"] == "GotoStmt" and ids.get(c["stmts"][0]["targetLabelDeclId"]) == "err"):
                    raise GErr("_msg_unpack: default case is not `goto err`")
                continue
            table.append((c["label"], self.chain("_msg_unpack", c, "unpack", ids)))
        # statements between the switch and the success return
        st = body["inner"]
        i = [k for k, s in enumerate(st) if s["kind"] == "SwitchStmt"][0]
        post_type, post = None, []
        for s in st[i + 1:]:
            if s["kind"] in ("ReturnStmt", "LabelStmt"):
                break
            if s["kind"] == "ParenExpr" or s["kind"] == "NullStmt":      # compiled-out assert
                continue
            if s["kind"] != "IfStmt" or post_type is not None:
                raise GErr("_msg_unpack: unsupported statement after the switch (line %s)" % src_line(s))
            cond = strip(s["inner"][0])
            if not (cond.get("kind") == "BinaryOperator" and cond["opcode"] == "==" and
                    is_ref(cond["inner"][0], ("ParmVarDecl",), "type") and enumconst(cond["inner"][1])) or len(s["inner"]) != 2:
                raise GErr("_msg_unpack: post-switch test is not `if (type == <enum>)`")
            post_type = enumconst(cond["inner"][1])
            self.enums.add(post_type)
            blk = s["inner"][1]
            inner = blk["inner"] if blk["kind"] == "CompoundStmt" else [blk]
            if len(inner) != 1:
                raise GErr("_msg_unpack: header post-check is not a single if-chain")
            n = inner[0]
            while n is not None:
                if n["kind"] != "IfStmt":
                    raise GErr("_msg_unpack: header post-check link is not an if")
                cc = strip(n["inner"][0])
                if not (cc.get("kind") == "BinaryOperator" and cc["opcode"] == "!=" and local(cc["inner"][0])
                        and literal(cc["inner"][1]) is not None):
                    raise GErr("_msg_unpack: header post-check is not `<local> != <constant>` (line %s)" % src_line(n))
                e = self.seterr_return(n["inner"][1], "_msg_unpack header post-check")
                post.append(("local." + local(cc["inner"][0]), literal(cc["inner"][1]), e[0], e[1]))
                n = n["inner"][2] if len(n["inner"]) > 2 else None
        ok = self.success_return(body)
        return table, exits, post_type, post, ok

    # -- m_msg_recv / m_msg_send
    def classify(self, cond):
        calls = [callee(x)[0] for x in walk(cond) if x.get("kind") == "CallExpr"]
        prm = {x["referencedDecl"]["name"] for x in walk(cond)
               if x.get("kind") == "DeclRefExpr" and x["referencedDecl"]["kind"] == "ParmVarDecl"}
        loc = {x["referencedDecl"]["name"] for x in walk(cond)
               if x.get("kind") == "DeclRefExpr" and x["referencedDecl"]["kind"] == "VarDecl"}
        mem = {x["name"] for x in walk(cond) if x.get("kind") == "MemberExpr"}
        enums = {x["referencedDecl"]["name"] for x in walk(cond)
                 if x.get("kind") == "DeclRefExpr" and x["referencedDecl"]["kind"] == "EnumConstantDecl"}
        if "fd_timed_read_n" in calls:
            return "read_hdr" if "hdr" in loc else "read_body" if "pkt" in mem else None
        if "_msg_unpack" in calls:
            return "unpack_hdr" if "hdr" in loc and "MUNGE_MSG_HDR" in enums else "unpack_body" if {"pkt", "type", "pkt_len"} <= mem else None
        if "malloc" in calls:
            return "malloc" if mem == {"pkt", "pkt_len"} else None
        if "__errno_location" in calls and len(calls) == 1:
            return "timeout"
        if calls:
            return None
        if "maxlen" in prm:
            return "gate"
        if "type" in prm:
            return "type_check"
        if loc == {"n", "nrecv"} and not mem:
            return "short_hdr"
        if loc == {"n"} and mem == {"pkt_len"}:
            return "short_body"
        return None

    def gate_prop(self, cond, fn):
        """the length-gate condition as a Lean Prop over (maxlen pkt_len : Int), C conversions explicit"""
        tr = ktrans.Translator({"name": fn, "inputs": [("m.pkt_len", "pkt_len"), ("maxlen", "maxlen")]}, {}, {})
        st = {"locals": {}, "mem": {}, "worder": [], "events": [], "declared": {"maxlen"}, "params": {"m", "type", "maxlen"}}
        st["locals"]["maxlen"] = tr.input("maxlen", (32, True))
        try:
            p = tr.cond(cond, st)
        except ktrans.KError as e:
            raise GErr("%s: length gate not translatable: %s" % (fn, e))
        if set(tr.used_inputs) - {"maxlen", "pkt_len"}:
            raise GErr("%s: length gate reads %s" % (fn, tr.used_inputs))
        return p.s

    def recv(self):
        f, body = fn_body(self.docs, "m_msg_recv")
        chains = [s for s in body["inner"] if s["kind"] == "IfStmt"]
        if len(chains) != 1:
            raise GErr("m_msg_recv: expected one if-chain")
        # nrecv = sizeof (hdr)
        hdr_size = None
        for s in body["inner"]:
            if s["kind"] == "BinaryOperator" and s["opcode"] == "=" and local(s["inner"][0]) == "nrecv":
                sz = sizeof_arg(s["inner"][1])
                if sz == ("local", "hdr"):
                    hdr_size = True
        if not hdr_size:
            raise GErr("m_msg_recv: `nrecv = sizeof (hdr)` not found")
        out, gate, n = [], None, chains[0]
        while n is not None:
            if n["kind"] != "IfStmt":
                raise GErr("m_msg_recv: chain link is not an if (line %s)" % src_line(n))
            tag = self.classify(n["inner"][0])
            if tag is None:
                raise GErr("m_msg_recv: unrecognised chain condition at line %s" % src_line(n["inner"][0]))
            e = self.seterr_return(n["inner"][1], "m_msg_recv " + tag)
            out.append((tag, e[0], e[1]))
            if tag == "gate":
                gate = self.gate_prop(n["inner"][0], "m_msg_recv")
            n = n["inner"][2] if len(n["inner"]) > 2 else None
        if gate is None:
            raise GErr("m_msg_recv: no length gate in the chain")
        ok = None
        for s in body["inner"]:
            if s["kind"] == "ReturnStmt":
                ok = enumconst(s["inner"][0])
        if ok is None:
            raise GErr("m_msg_recv: no final return")
        self.enums.add(ok)
        # hdr array length
        hdr_len = None
        for x in walk(body):
            if x.get("kind") == "VarDecl" and x.get("name") == "hdr":
                m_ = re.match(r"uint8_t\s*\[(\d+)\]", x["type"]["qualType"])
                if m_:
                    hdr_len = int(m_.group(1))
        if hdr_len is None:
            raise GErr("m_msg_recv: `uint8_t hdr[N]` not found")
        return out, gate, ok, hdr_len

    def send(self):
        f, body = fn_body(self.docs, "m_msg_send")
        gates = []
        for s in body["inner"]:
            if s["kind"] == "IfStmt" and self.classify(s["inner"][0]) == "gate":
                gates.append(s)
        if len(gates) != 1:
            raise GErr("m_msg_send: expected one length gate, found %d" % len(gates))
        e = self.seterr_return(gates[0]["inner"][1], "m_msg_send gate")
        # position: the gate must come after the body pack and before the header pack / write
        idx = body["inner"].index(gates[0])
        def calls_in(stmts):
            return [callee(x)[0] for s in stmts for x in walk(s) if x.get("kind") == "CallExpr"]
        before, after = calls_in(body["inner"][:idx]), calls_in(body["inner"][idx + 1:])
        order = "ok" if ("_msg_length" in before and "_msg_pack" in before and "fd_timed_write_iov" in after
                         and "fd_timed_write_iov" not in before) else "unexpected"
        # the `(n = _msg_length (m, type)) <= 0` test
        lentest = None
        for x in walk(body):
            if x.get("kind") == "BinaryOperator" and x.get("opcode") in CMP:
                l = x["inner"][0]
                if any(callee(y)[0] == "_msg_length" for y in walk(l) if y.get("kind") == "CallExpr") and literal(x["inner"][1]) is not None:
                    lentest = (CMP[x["opcode"]], literal(x["inner"][1]))
        if lentest is None:
            raise GErr("m_msg_send: `_msg_length (...) <op> <const>` test not found")
        return self.gate_prop(gates[0]["inner"][0], "m_msg_send"), e, order, lentest


def struct_members(docs):
    for d in docs:
        if d.get("kind") == "RecordDecl" and d.get("name") == "m_msg" and d.get("completeDefinition"):
            out = []
            for f in d["inner"]:
                if f["kind"] != "FieldDecl":
                    continue
                q = f["type"].get("desugaredQualType") or f["type"]["qualType"]
                if f.get("isBitfield"):
                    kind = "bit"
                elif q.endswith("*"):
                    kind = "ptr"
                elif q in ktrans.INT_TYPES:
                    kind = "int"
                else:
                    kind = "fix"
                out.append((f["name"], kind, q))
            return out
    raise GErr("struct m_msg not found")


def enum_names(docs, name):
    for d in docs:
        if d.get("kind") == "EnumDecl" and d.get("name") == name:
            return [c["name"] for c in d["inner"] if c["kind"] == "EnumConstantDecl"]
    raise GErr("enum %s not found" % name)


# ---------------------------------------------------------------- Lean emission
def lstr(s):
    return '"' + s.replace("\\", "\\\\").replace('"', '\\"') + '"'


def generate(ctx):
    try:
        return _generate(ctx)
    except (GErr, ktrans.KError) as e:
        ctx.obligation("gen", "message codec structure extracted from %s" % REL, False, str(e))
        return False


def _generate(ctx):
    docs = load_decls(ctx.repo)
    cd = Codec(docs)
    members = struct_members(docs)
    mtypes = enum_names(docs, "m_msg_type")
    ltab, ldefault = cd.length()
    ptab, pinits, pexits, pok = cd.pack()
    utab, uexits, post_type, post, uok = cd.unpack()
    rchain, rgate, rok, hdr_len = cd.recv()
    sgate, sexit, sorder, slentest = cd.send()
    ctx.obligation("gen", "field lists of _msg_length/_msg_pack/_msg_unpack (%d/%d/%d cases), header checks, recv/send chains read off the AST" % (
        len(ltab), len(ptab), len(utab)), True)
    ctx.obligation("gen", "m_msg_send: length gate sits between `_msg_pack` of the body and the write", sorder == "ok", sorder)

    # ---- probe: sizes, constants, enum values, strerror strings
    enums = sorted(cd.enums | set(mtypes) | {"EMUNGE_SUCCESS", "EMUNGE_SNAFU", "EMUNGE_NO_MEMORY", "EMUNGE_SOCKET", "EMUNGE_BAD_LENGTH"})
    src = '#include <stdio.h>\n#include <string.h>\n#include <munge.h>\n#include "m_msg.h"\n#include "munge_defs.h"\nint main (void) {\n  struct m_msg *m = 0; int e; const char *s;\n'
    for name, kind, q in members:
        if kind != "bit":
            src += '  printf ("M %s %%d\\n", (int) sizeof (m->%s));\n' % (name, name)
    for t in sorted(cd.types):
        src += '  printf ("T %s %%d\\n", (int) sizeof (%s));\n' % (t.replace(" ", "~"), t)
    for c in ("MUNGE_MSG_MAGIC", "MUNGE_MSG_VERSION", "MUNGE_MSG_HDR_SIZE", "MUNGE_MAXIMUM_REQ_LEN"):
        src += '  printf ("C %s %%lld\\n", (long long) %s);\n' % (c, c)
    for c in enums:
        src += '  printf ("E %s %%lld\\n", (long long) %s);\n' % (c, c)
    src += '  for (e = 0; e < 256; e++) { s = munge_strerror ((munge_err_t) e); printf ("S %d", e); for (; s && *s; s++) printf (" %d", (unsigned char) *s); printf ("\\n"); }\n'
    src += "  return 0;\n}\n"
    out = run_probe(ctx, "wire", src, libs=[os.path.join(ctx.repo, "src/libmunge/strerror.c")])
    if out is None:
        return False
    M, T, C, E, S = {}, {}, {}, {}, {}
    for line in out.strip().split("\n"):
        p = line.split()
        if p[0] == "M":
            M[p[1]] = int(p[2])
        elif p[0] == "T":
            T[p[1].replace("~", " ")] = int(p[2])
        elif p[0] == "C":
            C[p[1]] = int(p[2])
        elif p[0] == "E":
            E[p[1]] = int(p[2])
        elif p[0] == "S":
            S[int(p[1])] = [int(x) for x in p[2:]]
    ok = len(S) == 256 and all(k in C for k in ("MUNGE_MSG_MAGIC", "MUNGE_MSG_VERSION", "MUNGE_MSG_HDR_SIZE", "MUNGE_MAXIMUM_REQ_LEN"))
    ctx.obligation("gen", "sizeof of %d members of struct m_msg, %d types, 4 constants, %d enum values, 256 munge_strerror strings (probe)" % (
        len(M), len(T), len(E)), ok, out[:300])
    if not ok:
        return False

    def width(w):
        if isinstance(w, int):
            return w
        if w[0] == "op":
            a, b = width(w[2]), width(w[3])
            v = a + b if w[1] == "+" else a - b if w[1] == "-" else a * b
            if v < 0:
                raise GErr("negative constant in a bounds test")
            return v
        if w[0] == "M":
            if w[1] not in M:
                raise GErr("sizeof (m->%s) not probed (bit-field?)" % w[1])
            return M[w[1]]
        return T[w[1]]

    def fld(f):
        if f[0] == "int":
            return ".int %s %d" % (lstr(f[1]), width(f[2]))
        if f[0] == "var":
            return ".var %s" % lstr(f[1])
        if f[0] == "alloc":
            return ".alloc %s %s" % (lstr(f[1]), lstr(f[2]))
        if f[0] == "bytes":
            return ".bytes %s %s %s" % (lstr(f[1]), lstr(f[2]), ".heap" if f[3] is None else "(.fixed %d)" % width(f[3]))
        if f[0] == "guard":
            return ".guard %s .%s %d" % (lstr(f[1]), f[2], width(f[3]))
        raise GErr("bad descriptor %r" % (f,))

    def table(name, tab, doc):
        s = "/-- %s -/\ndef %s : List (Nat × List Fld) := [\n" % (doc, name)
        rows = []
        for label, flds in tab:
            rows.append("  -- case %s\n  (%d, [%s])" % (label, E[label], ",\n    ".join(fld(f) for f in flds)))
        return s + ",\n".join(rows) + "]\n\n"

    kinds = dict((n, k) for n, k, q in members)
    for tab in (ltab, ptab, utab):
        for label, flds in tab:
            for f in flds:
                if f[0] == "int" and not f[1].startswith(("local.", "sizeof.")) and kinds.get(f[1]) != "int":
                    raise GErr("member %s used as an integer field is not an integer member" % f[1])
                if f[0] in ("alloc", "bytes", "guard", "var"):
                    ln = f[2] if f[0] in ("alloc", "bytes") else f[1]
                    if kinds.get(ln) != "int":
                        raise GErr("length member %s is not an integer member" % ln)
                if f[0] == "alloc" and kinds.get(f[1]) != "ptr":
                    raise GErr("_alloc target %s is not a pointer member" % f[1])
                if f[0] == "bytes" and kinds.get(f[1]) != ("ptr" if f[3] is None else "fix"):
                    raise GErr("_copy member %s: pointer / in-struct kind does not match its use" % f[1])
    for n in list(pinits) + [p[0][6:] for p in post]:
        if n in kinds:
            raise GErr("local %s clashes with a member name" % n)

    b = "/- GENERATED from <repo>/%s by tools/gen/g_wire.py -- do not edit -/\n" % REL
    b += "import Munge.Model.WireDesc\nimport Munge.C.Kernel\nnamespace Munge.Gen.Wire\nopen Munge.Wire Munge.C\n\n"
    b += "def MAGIC : Nat := %d\ndef VERSION : Nat := %d\ndef HDR_SIZE : Nat := %d\ndef MAXIMUM_REQ_LEN : Nat := %d\n" % (
        C["MUNGE_MSG_MAGIC"], C["MUNGE_MSG_VERSION"], C["MUNGE_MSG_HDR_SIZE"], C["MUNGE_MAXIMUM_REQ_LEN"])
    b += "/-- `uint8_t hdr[N]` in m_msg_recv (`nrecv = sizeof (hdr)`) -/\ndef recvHdrLen : Nat := %d\n\n" % hdr_len
    b += "/-- enum m_msg_type -/\ndef msgTypes : List (String × Nat) := [%s]\n" % ", ".join("(%s, %d)" % (lstr(n), E[n]) for n in mtypes)
    for n in mtypes:
        b += "def %s : Nat := %d\n" % (n, E[n])
    b += "\n"
    for n in sorted(e for e in E if e.startswith("EMUNGE_")):
        b += "def %s : Nat := %d\n" % (n, E[n])
    b += "\n/-- integer members of struct m_msg with their sizeof -/\ndef intMembers : List (String × Nat) := [%s]\n" % ", ".join(
        "(%s, %d)" % (lstr(n), M[n]) for n, k, q in members if k == "int")
    b += "/-- pointer members -/\ndef ptrMembers : List String := [%s]\n" % ", ".join(lstr(n) for n, k, q in members if k == "ptr")
    b += "/-- in-struct byte members (not integers, not pointers) with their sizeof -/\ndef fixMembers : List (String × Nat) := [%s]\n" % ", ".join(
        "(%s, %d)" % (lstr(n), M[n]) for n, k, q in members if k == "fix")
    b += "/-- bit-field members -/\ndef bitMembers : List String := [%s]\n" % ", ".join(lstr(n) for n, k, q in members if k == "bit")
    b += "/-- declared type of the header locals of _msg_pack/_msg_unpack -/\ndef localTypes : List (String × String) := [%s]\n\n" % ", ".join(
        "(%s, %s)" % (lstr("local." + n), lstr("sizeof." + cd.local_types[n])) for n in sorted(pinits))
    b += table("lengthTable", ltab, "`_msg_length`: per case of `switch (type)`, the `n += …` statements")
    b += "/-- `_msg_length`: value returned by the default case -/\ndef lengthDefault : Int := %d\n\n" % ldefault
    b += table("packTable", ptab, "`_msg_pack`: per case, the links of the `if … else if …` chain")
    b += table("unpackTable", utab, "`_msg_unpack`: per case, the links of the `if … else if …` chain")
    b += "/-- initialisers of the header locals of `_msg_pack` -/\ndef packInits : List (String × Nat) := [%s]\n" % ", ".join(
        "(%s, %d)" % (lstr("local." + n), v) for n, v in sorted(pinits.items()) if v is not None)
    if any(v is None for v in pinits.values()):
        raise GErr("_msg_pack: a header local has no initialiser")
    b += "/-- `_msg_unpack`: `if (type == T) { if (local != const) { m_msg_set_err (m, E, …); return E' } else if … }` after the switch -/\n"
    b += "def postCheckType : Nat := %d\n" % (E[post_type] if post_type else 0)
    b += "def postChecks : List (String × Nat × Nat × Nat) := [%s]\n" % ", ".join(
        "(%s, %d, %d, %d)" % (lstr(l), v, E[a], E[r]) for l, v, a, r in post)
    b += "/-- (m_msg_set_err code, return code) of the `err` / `nomem` exits; success return -/\n"
    b += "def packErr : Nat × Nat := (%d, %d)\ndef packOk : Nat := %d\n" % (E[pexits["err"][0]], E[pexits["err"][1]], E[pok])
    b += "def unpackErr : Nat × Nat := (%d, %d)\ndef unpackNomem : Nat × Nat := (%d, %d)\ndef unpackOk : Nat := %d\n\n" % (
        E[uexits["err"][0]], E[uexits["err"][1]], E[uexits["nomem"][0]], E[uexits["nomem"][1]], E[uok])
    b += "/-- `m_msg_recv`: the `else if` chain in order: (what the link tests, m_msg_set_err code, return code) -/\n"
    b += "def recvChain : List (String × Nat × Nat) := [%s]\ndef recvOk : Nat := %d\n" % (
        ",\n  ".join("(%s, %d, %d)" % (lstr(t), E[a], E[r]) for t, a, r in rchain), E[rok])
    b += "/-- the length-gate condition of `m_msg_recv`, C conversions explicit -/\n"
    b += "def recvGate (maxlen pkt_len : Int) : Prop := %s\ninstance (a b : Int) : Decidable (recvGate a b) := by unfold recvGate; infer_instance\n" % rgate
    b += "/-- the length-gate condition of `m_msg_send` and its exit; the test on `_msg_length`'s result -/\n"
    b += "def sendGate (maxlen pkt_len : Int) : Prop := %s\ninstance (a b : Int) : Decidable (sendGate a b) := by unfold sendGate; infer_instance\n" % sgate
    b += "def sendGateExit : Nat × Nat := (%d, %d)\ndef sendLenTest : Cmp × Nat := (.%s, %d)\n\n" % (E[sexit[0]], E[sexit[1]], slentest[0], slentest[1])
    b += "/-- `munge_strerror (e)` for e = 0..255 (bytes, without the NUL) -/\ndef strerrorTab : List (List UInt8) := [\n%s]\n\n" % ",\n".join(
        "  [%s]" % ", ".join(str(x) for x in S[e]) for e in range(256))
    kern = ktrans.translate_kernels(ctx, REL, [dict(
        name="m_msg_reset", void=True, calls={"free": ("ignore", 0)},
        inputs=[("m.realm_str", "realm_str"), ("m.realm_is_copy", "realm_is_copy"), ("m.data", "data"), ("m.data_is_copy", "data_is_copy")])])
    if kern is None:
        return False
    b += kern
    b += "\nend Munge.Gen.Wire\n"
    gen_write("Wire", b)
    return True
