"""Gen.Key: `_create_key_secret` of src/mungekey/key.c translated by the K translator (calls to the entropy source, the
distinguisher formatting and the HKDF context become inputs / events): which steps a successful key creation went through,
and that a failing step - in particular a failing entropy source - yields no key."""
from .ktrans import translate_kernels
from .kcursor import CursorTranslator
from ..vlib.leanlib import gen_write

STEPS = ["entropy_read", "entropy_read_uint", "snprintf", "hkdf_ctx_set_md", "hkdf_ctx_set_key", "hkdf_ctx_set_salt", "hkdf_ctx_set_info", "hkdf"]


def specs():
    calls = {s: ("input", "r_" + s, (32, True), True) for s in STEPS}
    calls.update({"munge_enum_int_to_str": ("input", "md_str", "ptr", True), "hkdf_ctx_create": ("input", "hkdfp", "ptr", True),
                  "hkdf_ctx_destroy": ("event", 0, []), "memburn": ("ignore", 0), "log_msg": ("ignore", 0), "strlen": ("ignore", 1)})
    return [dict(name="_create_key_secret", lean="create_key_secret", inputs=[], params=["buflen"], calls=calls)]


def generate(ctx):
    d = translate_kernels(ctx, "src/mungekey/key.c", specs(), cls=CursorTranslator)
    if d is None:
        return False
    body = "/- GENERATED from <repo>/src/mungekey/key.c by tools/gen/g_key.py (K translator) -- do not edit -/\n"
    body += "import Munge.C.Kernel\nimport Munge.C.Cursor\nset_option linter.unusedVariables false\nnamespace Munge.Gen.Key\nopen Munge.C\n\n"
    body += d + "\nend Munge.Gen.Key\n"
    gen_write("Key", body)
    return True
