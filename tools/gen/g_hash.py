"""Gen.Hash: what the `Hash`/`Replay` models (C05, C07) take from the sources.

  src/munged/replay.c  constants (probe), the key hash function as a byte-weight vector (probe of the real
                       `replay_key_f`), kernels `replay_cmp_f` (memcmp result as an input; its argument order and
                       length by AST pattern) and `replay_is_expired`, the expiry expression of `replay_insert` and
                       `replay_remove`, how `replay_purge` obtains `now`, calls `hash_delete_if` and re-arms itself
  src/munged/hash.c    the chain walks of `hash_find` / `hash_insert` / `hash_remove`: comparator argument order, the
                       "skip" and "match" tests, where a new node is linked, what remove unlinks; the selection
                       test of `hash_delete_if`; the slot computation
  src/munged/dec.c     kernels `dec_validate_replay` (retry gate) and `dec_validate_time` (ttl cap, window), the stage
                       chain of `dec_process_msg`, and the condition guarding `replay_remove` after a failed send
  src/munged/cred.c    that `cred_create` zero-fills the per-request credential

Anything that does not have the expected shape is a failed obligation (never a silent default)."""
import re
from . import ktrans
from .ktrans import KError, load_ast
from .probe import run_probe
from ..vlib.leanlib import gen_write

# ----------------------------------------------------------------------------------------------------------------
# a small C pretty-printer over clang's JSON AST: parentheses and implicit casts vanish, so patterns on its output
# survive re-formatting / re-parenthesising but not a changed operator, operand, callee or statement order.

def _strip(n):
    while n.get("kind") in ("ParenExpr", "ImplicitCastExpr", "ConstantExpr"):
        n = n["inner"][0]
    return n


def cx(n):
    """expression -> canonical text"""
    n = _strip(n)
    k = n.get("kind")
    if k == "DeclRefExpr":
        return n["referencedDecl"]["name"]
    if k == "MemberExpr":
        return cx(n["inner"][0]) + ("->" if n.get("isArrow") else ".") + n["name"]
    if k in ("IntegerLiteral", "CharacterLiteral"):
        return str(n["value"])
    if k == "StringLiteral":
        return "STR"
    if k == "UnaryOperator":
        s = cx(n["inner"][0])
        if n.get("isPostfix"):
            return "%s%s" % (s, n["opcode"])
        return "%s(%s)" % (n["opcode"], s) if _strip(n["inner"][0]).get("kind") in ("BinaryOperator", "ConditionalOperator") \
            else "%s%s" % (n["opcode"], s)
    if k in ("BinaryOperator", "CompoundAssignOperator"):
        return "(%s %s %s)" % (cx(n["inner"][0]), n["opcode"], cx(n["inner"][1]))
    if k == "CallExpr":
        return "%s(%s)" % (cx(n["inner"][0]), ", ".join(cx(a) for a in n["inner"][1:]))
    if k == "ArraySubscriptExpr":
        return "%s[%s]" % (cx(n["inner"][0]), cx(n["inner"][1]))
    if k == "CStyleCastExpr":
        if n.get("castKind") == "NullToPointer":
            return "NULL"
        return "(%s)%s" % (n["type"]["qualType"], cx(n["inner"][0]))
    if k == "UnaryExprOrTypeTraitExpr":
        if n.get("inner"):
            return "%s(%s)" % (n.get("name", "sizeof"), cx(n["inner"][0]))
        return "%s(%s)" % (n.get("name", "sizeof"), n.get("argType", {}).get("qualType", "?"))
    if k == "ConditionalOperator":
        return "(%s ? %s : %s)" % tuple(cx(c) for c in n["inner"])
    return "<%s>" % k


def _unparen(s):
    return s[1:-1] if s.startswith("(") and s.endswith(")") else s


def cs(n):
    """statement -> nested python structure of canonical texts"""
    k = n.get("kind")
    if k == "CompoundStmt":
        out = []
        for c in n.get("inner", []):
            r = cs(c)
            if r is not None:
                out.append(r)
        return out
    if k == "NullStmt":
        return None
    if k == "IfStmt":
        i = n["inner"]
        return ("if", _unparen(cx(i[0])), blk(i[1]), blk(i[2]) if len(i) > 2 else [])
    if k == "ForStmt":
        i = n["inner"]
        part = lambda x: _unparen(cx(x)) if x.get("kind") else ""
        return ("for", part(i[0]), part(i[2]), part(i[3]), blk(i[4]))
    if k == "WhileStmt":
        i = n["inner"]
        return ("while", _unparen(cx(i[0])), blk(i[-1]))
    if k == "DoStmt":
        i = n["inner"]
        return ("do", blk(i[0]), _unparen(cx(i[1])))
    if k == "ReturnStmt":
        return ("return", _unparen(cx(n["inner"][0])) if n.get("inner") else "")
    if k == "GotoStmt":
        return ("goto",)
    if k == "LabelStmt":
        return ("label", n.get("name"), blk(n["inner"][0]))
    if k == "BreakStmt":
        return ("break",)
    if k == "ContinueStmt":
        return ("continue",)
    if k == "DeclStmt":
        out = []
        for d in n.get("inner", []):
            init = [c for c in d.get("inner", []) if c.get("kind") and c.get("kind") != "FullComment"]
            if init:
                out.append(("expr", "%s = %s" % (d["name"], _unparen(cx(init[0])))))
        return ("decls", out) if out else None
    return ("expr", _unparen(cx(n)))


def blk(n):
    r = cs(n)
    if r is None:
        return []
    return r if isinstance(r, list) else [r]


def is_lock_noise(st):
    """the lsd_mutex_* macros expand to do { int e = pthread_mutex_xxx (..); if (e) abort } while (0)"""
    return st[0] == "do" and "pthread_mutex_" in repr(st[1])


def body_of(fdecl):
    b = [c for c in fdecl["inner"] if c.get("kind") == "CompoundStmt"][0]
    return [s for s in blk(b) if not is_lock_noise(s)]


def find_nodes(n, pred, out=None):
    out = [] if out is None else out
    if isinstance(n, dict):
        if n.get("kind") and pred(n):
            out.append(n)
        for c in n.get("inner", []):
            find_nodes(c, pred, out)
    return out


CMPOPS = {"<": "<", ">": ">", "<=": "≤", ">=": "≥", "==": "=", "!=": "≠"}


def cmp_prop(text, var, lean_var):
    """`cmpval < 0` (or `0 > cmpval`) -> Lean `c < 0`; one operand must be `var`, the other an integer literal"""
    m = re.fullmatch(r"%s (<|>|<=|>=|==|!=) (-?\d+)" % re.escape(var), text)
    if m:
        op, v = m.group(1), int(m.group(2))
    else:
        m = re.fullmatch(r"(-?\d+) (<|>|<=|>=|==|!=) %s" % re.escape(var), text)
        if not m:
            raise KError("test `%s` is not `%s <op> <integer>`" % (text, var))
        op, v = {"<": ">", ">": "<", "<=": ">=", ">=": "<=", "==": "==", "!=": "!="}[m.group(2)], int(m.group(1))
    return "%s %s %s" % (lean_var, CMPOPS[op], str(v) if v >= 0 else "(%d)" % v)


# ----------------------------------------------------------------------------------------------------------------
# translator extensions (kept here; candidates for tools/gen/ktrans.py): `T *const` parameter types and `*param`

class HTranslator(ktrans.Translator):
    auto_fields = False

    def ctype(self, node):
        t = node.get("type", {})
        q = (t.get("desugaredQualType") or t.get("qualType") or "").strip()
        if q.endswith("*const") or q.endswith("* const"):
            return "ptr"
        return super().ctype(node)

    def lvalue(self, n, st):
        if n.get("kind") == "UnaryOperator" and n.get("opcode") == "*":
            inner = _strip(n["inner"][0])
            if inner.get("kind") == "DeclRefExpr" and inner["referencedDecl"].get("kind") == "ParmVarDecl" \
                    and inner["referencedDecl"]["name"] in st["params"]:
                return ("path", "*" + inner["referencedDecl"]["name"])
        return super().lvalue(n, st)

    def input(self, path, t):
        if self.auto_fields and path not in self.inputs and path.startswith("c.") and t != "ptr":
            lo, hi = ktrans.trange(t)
            self.fields_read.append(path)
            return ktrans.E('fld "%s"' % path, lo, hi)
        return super().input(path, t)


def translate(ctx, relfile, specs):
    old = ktrans.Translator
    ktrans.Translator = HTranslator
    try:
        return ktrans.translate_kernels(ctx, relfile, specs)
    finally:
        ktrans.Translator = old


def expr_translator(inputs, locals_):
    tr = HTranslator(dict(name="(expression)", inputs=inputs), {}, {})
    st = {"locals": dict(locals_), "mem": {}, "worder": [], "events": [], "declared": set(locals_), "params": set()}
    return tr, st


# ----------------------------------------------------------------------------------------------------------------

PROBE = r'''
#include <stdio.h>
#include <stdlib.h>
#include "replay.c"
static unsigned long long rnd_s = 88172645463325252ULL;
static unsigned rnd (void) { rnd_s ^= rnd_s << 13; rnd_s ^= rnd_s >> 7; rnd_s ^= rnd_s << 17; return (unsigned) (rnd_s >> 11); }
int main (void) {
    union replay_node a; int i, j, lin = 1, indep = 1; unsigned w[sizeof (a.data.mac)];
    printf ("REPLAY_HASH_SIZE %lld\n", (long long) REPLAY_HASH_SIZE);
    printf ("PURGE_SECS %lld\n", (long long) MUNGE_REPLAY_PURGE_SECS);
    printf ("RETRY_ATTEMPTS %lld\n", (long long) MUNGE_SOCKET_RETRY_ATTEMPTS);
    printf ("MAC_KEEP %lld\n", (long long) sizeof (a.data.mac));
    printf ("MIN_MD_LEN %lld\n", (long long) MUNGE_MINIMUM_MD_LEN);
    printf ("TIME_T_BITS %lld\n", (long long) sizeof (a.data.t_expired) * 8);
    printf ("TIME_T_SIGNED %d\n", (int) ((time_t) -1 < (time_t) 0));
    printf ("EMUNGE_SUCCESS %d\nEMUNGE_SNAFU %d\nEMUNGE_NO_MEMORY %d\nEMUNGE_CRED_INVALID %d\nEMUNGE_CRED_EXPIRED %d\n"
            "EMUNGE_CRED_REWOUND %d\nEMUNGE_CRED_REPLAYED %d\nEMUNGE_CRED_UNAUTHORIZED %d\n",
            EMUNGE_SUCCESS, EMUNGE_SNAFU, EMUNGE_NO_MEMORY, EMUNGE_CRED_INVALID, EMUNGE_CRED_EXPIRED,
            EMUNGE_CRED_REWOUND, EMUNGE_CRED_REPLAYED, EMUNGE_CRED_UNAUTHORIZED);
    printf ("ENOMEM %d\nEEXIST %d\nEPERM %d\nEINVAL %d\n", ENOMEM, EEXIST, EPERM, EINVAL);
    printf ("KEYW");
    for (i = 0; i < (int) sizeof (a.data.mac); i++) {
        memset (&a, 0, sizeof (a)); a.data.mac[i] = 1; w[i] = replay_key_f (&a); printf (" %u", w[i]);
    }
    printf ("\n");
    for (j = 0; j < 2000; j++) {       /* the real key function is the weighted byte sum mod 2^32, whatever the expiry */
        unsigned s = 0, k1, k2;
        memset (&a, 0, sizeof (a));
        for (i = 0; i < (int) sizeof (a.data.mac); i++) { a.data.mac[i] = (unsigned char) rnd (); s += w[i] * a.data.mac[i]; }
        a.data.t_expired = (time_t) rnd (); k1 = replay_key_f (&a);
        a.data.t_expired = (time_t) rnd (); k2 = replay_key_f (&a);
        if (k1 != s) lin = 0;
        if (k1 != k2) indep = 0;
    }
    memset (&a, 0, sizeof (a));
    printf ("KEY_ZERO %u\nKEY_LINEAR %d\nKEY_INDEP_OF_EXPIRY %d\n", replay_key_f (&a), lin, indep);
    return 0;
}
'''


def walk_pattern(fn, stmts):
    """the chain walk of hash_find/insert/remove ->
       dict(cmp_args, skip, match, found_block, after_loop statements, loop var style)"""
    idx = [i for i, s in enumerate(stmts) if s[0] == "for"]
    if len(idx) != 1:
        raise KError("%s: expected exactly one for-loop (the chain walk), found %d" % (fn, len(idx)))
    i = idx[0]
    _, init, cond, inc, body = stmts[i]
    slot_stmt = stmts[i - 1] if i > 0 else None
    if slot_stmt != ("expr", "slot = (h->key_f(key) % h->size)"):
        raise KError("%s: slot computation before the walk is %r, not `slot = h->key_f (key) %% h->size`" % (fn, slot_stmt))
    if (init, cond, inc) == ("p = h->table[slot]", "p != NULL", "p = p->next"):
        style = "p"
    elif (init, cond, inc) == ("pp = &h->table[slot]", "(p = *pp) != NULL", "pp = &p->next"):
        style = "pp"
    else:
        raise KError("%s: unexpected loop header for (%s; %s; %s)" % (fn, init, cond, inc))
    if len(body) != 4 or body[0][0] != "expr" or body[1][0] != "if" or body[2][0] != "if" or body[3] != ("break",):
        raise KError("%s: walk body is not `c = cmp; if (..) continue; if (..) {..}; break`: %r" % (fn, body))
    m = re.fullmatch(r"(\w+) = h->cmp_f\((.+), (.+)\)", body[0][1])
    if not m:
        raise KError("%s: first statement of the walk is not a comparator call: %s" % (fn, body[0][1]))
    var, a0, a1 = m.groups()
    if (a0, a1) == ("p->hkey", "key"):
        node_first = True
    elif (a0, a1) == ("key", "p->hkey"):
        node_first = False
    else:
        raise KError("%s: comparator arguments are (%s, %s)" % (fn, a0, a1))
    if body[1][2] != [("continue",)] or body[1][3]:
        raise KError("%s: first test does not just `continue`: %r" % (fn, body[1]))
    if body[2][3]:
        raise KError("%s: the match test has an else branch" % fn)
    return dict(node_first=node_first, skip=cmp_prop(body[1][1], var, "c"), match=cmp_prop(body[2][1], var, "c"),
                found=body[2][2], after=stmts[i + 1:], style=style)


def flat_events(stmts, out):
    """pre-order list of ('lock'|'unlock'|'return'|'touch', text) of a statement tree"""
    for st in stmts:
        k = st[0]
        if k == "do" and "pthread_mutex_lock" in repr(st[1]):
            out.append(("lock", "")); continue
        if k == "do" and "pthread_mutex_unlock" in repr(st[1]):
            out.append(("unlock", "")); continue
        texts = []
        if k == "expr":
            texts = [st[1]]
        elif k == "decls":
            texts = [x[1] for x in st[1]]
        elif k == "if":
            texts = [st[1]]
        elif k == "for":
            texts = list(st[1:4])
        elif k == "while":
            texts = [st[1]]
        elif k == "return":
            texts = [st[1]]
        for t in texts:
            if "h->table" in t or "h->count" in t or "p->next" in t or "*pp" in t or "p->hkey" in t or "p->data" in t:
                out.append(("touch", t))
        if k == "return":
            out.append(("return", st[1]))
        for sub in st[1:]:
            if isinstance(sub, list):
                flat_events(sub, out)
    return out


def atomic_cert(ctx, fn):
    """every access of the table / chain nodes lies between lsd_mutex_lock (&h->mutex) and the matching unlock,
    and no return happens while the mutex is held (the model treats the function as one atomic step)"""
    name = "atomicity certificate: %s (src/munged/hash.c) touches the table only while holding h->mutex" % fn
    try:
        b = [c for c in load_ast(ctx.repo, "src/munged/hash.c", fn)["inner"] if c.get("kind") == "CompoundStmt"][0]
        ev = flat_events(blk(b), [])
        kinds = [e[0] for e in ev]
        if kinds.count("lock") != 1 or kinds.count("unlock") != 1:
            raise KError("expected exactly one lock and one unlock, got %r" % kinds)
        i, j = kinds.index("lock"), kinds.index("unlock")
        if i > j:
            raise KError("unlock before lock")
        for n, (k, t) in enumerate(ev):
            if k == "touch" and not (i < n < j):
                raise KError("`%s` is outside the critical section" % t)
            if k == "return" and i < n < j:
                raise KError("return `%s` inside the critical section" % t)
        ctx.obligation("gen", name, True)
        return True
    except KError as e:
        ctx.obligation("gen", name, False, str(e))
        return False


def extract_hash(ctx):
    """-> dict of Lean snippets, or None"""
    res = {}
    ok = True
    for fn in ("hash_find", "hash_insert", "hash_remove", "hash_delete_if", "hash_for_each", "hash_count"):
        ok = atomic_cert(ctx, fn) and ok
    for fn in ("hash_find", "hash_insert", "hash_remove"):
        try:
            w = walk_pattern(fn, body_of(load_ast(ctx.repo, "src/munged/hash.c", fn)))
            flat = repr(w["found"])
            if fn == "hash_find":
                if w["found"] != [("expr", "data = p->data")]:
                    raise KError("hash_find: on a match it does %r, not `data = p->data`" % (w["found"],))
                if not any(s == ("return", "data") for s in w["after"]):
                    raise KError("hash_find does not return data")
            if fn == "hash_insert":
                exp_found = [("expr", "*__errno_location() = 17"), ("expr", "data = NULL"), ("goto",)]
                if w["found"] != exp_found:
                    raise KError("hash_insert: on a match it does %r, not errno = EEXIST; data = NULL; goto end" % (w["found"],))
                link = [s for s in w["after"] if s[0] == "expr"]
                want = ["p->hkey = key", "p->data = data", "p->next = *pp", "*pp = p", "h->count++"]
                got = [s[1] for s in link]
                if got != want or w["style"] != "pp":
                    raise KError("hash_insert: node is linked by %r, expected %r (before the node the walk stopped at)" % (got, want))
            if fn == "hash_remove":
                want = [("expr", "data = p->data"), ("expr", "*pp = p->next"), ("expr", "hash_node_free(p)"), ("expr", "h->count--")]
                if w["found"] != want or w["style"] != "pp":
                    raise KError("hash_remove: on a match it does %r, expected %r" % (w["found"], want))
            res[fn] = w
            ctx.obligation("gen", "chain walk of %s (src/munged/hash.c) has the modelled shape; tests extracted" % fn, True)
        except KError as e:
            ctx.obligation("gen", "chain walk of %s (src/munged/hash.c) has the modelled shape; tests extracted" % fn, False, str(e))
            ok = False
    # hash_delete_if
    try:
        st = body_of(load_ast(ctx.repo, "src/munged/hash.c", "hash_delete_if"))
        fors = [s for s in st if s[0] == "for"]
        if len(fors) != 1 or fors[0][1:4] != ("i = 0", "i < h->size", "i++"):
            raise KError("outer loop is not for (i = 0; i < h->size; i++): %r" % (fors[0][1:4] if fors else None,))
        b = fors[0][4]
        if len(b) != 2 or b[0] != ("expr", "pp = &h->table[i]") or b[1][0] != "while" or b[1][1] != "(p = *pp) != NULL":
            raise KError("bucket loop is not pp = &h->table[i]; while ((p = *pp) != NULL): %r" % (b,))
        wb = b[1][2]
        if len(wb) != 1 or wb[0][0] != "if":
            raise KError("while body is not a single if/else")
        m = re.fullmatch(r"arg_f\(p->data, p->hkey, arg\) (<|>|<=|>=|==|!=) (-?\d+)", wb[0][1])
        if not m:
            raise KError("selection test is `%s`" % wb[0][1])
        sel = "v %s %s" % (CMPOPS[m.group(1)], m.group(2))
        th = [s for s in wb[0][2] if s[0] == "expr"]
        if [s[1] for s in th] != ["*pp = p->next", "hash_node_free(p)", "h->count--", "n++"] or \
                not (wb[0][2] and wb[0][2][0][0] == "if" and wb[0][2][0][1] == "h->del_f"):
            raise KError("selected branch does %r" % (wb[0][2],))
        if wb[0][3] != [("expr", "pp = &p->next")]:
            raise KError("unselected branch does %r" % (wb[0][3],))
        if ("return", "n") not in st:
            raise KError("does not return n")
        res["delete_sel"] = sel
        ctx.obligation("gen", "hash_delete_if (src/munged/hash.c) visits every node of every bucket; selection test extracted", True)
    except KError as e:
        ctx.obligation("gen", "hash_delete_if (src/munged/hash.c) visits every node of every bucket; selection test extracted", False, str(e))
        ok = False
    # hash_create: the size default and that slots are zeroed
    try:
        st = body_of(load_ast(ctx.repo, "src/munged/hash.c", "hash_create"))
        flat = repr(st)
        if "h->size = size" not in flat or "calloc(size, sizeof(struct hash_node *))" not in flat or "h->count = 0" not in flat:
            raise KError("hash_create does not calloc `size` slots / store size / zero count: %s" % flat[:600])
        ctx.obligation("gen", "hash_create (src/munged/hash.c) makes `size` empty slots", True)
    except KError as e:
        ctx.obligation("gen", "hash_create (src/munged/hash.c) makes `size` empty slots", False, str(e))
        ok = False
    return res if ok else None


def extract_replay(ctx, kv):
    """expiry expressions, memcmp arguments, what the key copy takes, purge wiring"""
    res = {}
    ok = True
    name = "replay_insert/replay_remove (src/munged/replay.c): key = (first sizeof (mac) bytes of c->mac, expiry expression)"
    try:
        for fn, var, op in (("replay_insert", "r->data", "hash_insert"), ("replay_remove", "rnode.data", "hash_remove")):
            d = load_ast(ctx.repo, "src/munged/replay.c", fn)
            asg = find_nodes(d, lambda n: n["kind"] == "BinaryOperator" and n.get("opcode") == "=" and
                             cx(n["inner"][0]) == var + ".t_expired")
            if len(asg) != 1:
                raise KError("%s: %d assignments to %s.t_expired" % (fn, len(asg), var))
            tr, st = expr_translator([("c.msg.time0", "time0"), ("c.msg.ttl", "ttl")], {"m": ktrans.Path("c.msg")})
            st["declared"].add("m")
            e = tr.rvalue(asg[0]["inner"][1], st)
            res[fn + "_expiry"] = e.s
            flat = repr(body_of(d))
            if "m = c->msg" not in flat:
                raise KError("%s: m is not c->msg" % fn)
            if "memcpy(%s.mac, c->mac, sizeof(%s.mac))" % (var, var) not in flat:
                raise KError("%s: the MAC copy is not memcpy (%s.mac, c->mac, sizeof (%s.mac))" % (fn, var, var))
            if fn == "replay_insert":
                want = ["if", "hash_insert(replay_hash, r, r) != NULL"]
                sts = body_of(d)
                hit = [s for s in sts if s[0] == "if" and s[1] == want[1]]
                if not hit or hit[0][2] != [("return", "0")]:
                    raise KError("replay_insert: `if (hash_insert (replay_hash, r, r) != NULL) return 0` not found")
                i = sts.index(hit[0])
                tail = sts[i + 1:]
                if tail[:2] != [("expr", "e = *__errno_location()"), ("expr", "replay_free(r)")] or \
                        tail[2] != ("if", "e == %d" % kv["EEXIST"], [("return", "1")], []) or tail[-1] != ("return", "-1"):
                    raise KError("replay_insert: the failure tail is %r" % (tail,))
            else:
                if "r = hash_remove(replay_hash, &rnode)" not in flat or "('return', 'r ? 0 : -1')" not in flat:
                    raise KError("replay_remove: not r = hash_remove (replay_hash, &rnode); return r ? 0 : -1")
            # the guards in front (no table: benchmark -> 0, else -1)
            g = body_of(d)[0]
            if g[0] != "if" or g[1] != "!replay_hash" or g[2][0] != ("if", "conf->got_benchmark", [("return", "0")], []) \
                    or g[2][-1] != ("return", "-1"):
                raise KError("%s: the no-table guard is %r" % (fn, g))
        ctx.obligation("gen", name, True)
    except KError as e:
        ctx.obligation("gen", name, False, str(e))
        ok = False
    name = "replay_cmp_f (src/munged/replay.c): memcmp over the kept MAC bytes, argument order"
    try:
        d = load_ast(ctx.repo, "src/munged/replay.c", "replay_cmp_f")
        calls = find_nodes(d, lambda n: n["kind"] == "CallExpr" and cx(n["inner"][0]) == "memcmp")
        if len(calls) != 1:
            raise KError("%d memcmp calls" % len(calls))
        a = [cx(x) for x in calls[0]["inner"][1:]]
        if a[2] not in ("sizeof(r1->data.mac)", "sizeof(r2->data.mac)"):
            raise KError("memcmp length is %s" % a[2])
        if a[:2] == ["r1->data.mac", "r2->data.mac"]:
            res["memcmp_swapped"] = "false"
        elif a[:2] == ["r2->data.mac", "r1->data.mac"]:
            res["memcmp_swapped"] = "true"
        else:
            raise KError("memcmp arguments are %r" % (a,))
        ctx.obligation("gen", name, True)
    except KError as e:
        ctx.obligation("gen", name, False, str(e))
        ok = False
    name = "replay_purge (src/munged/replay.c): now = time (); hash_delete_if (replay_hash, replay_is_expired, &now); re-arms its timer"
    try:
        d = load_ast(ctx.repo, "src/munged/replay.c", "replay_purge")
        sts = body_of(d)
        texts = []
        def walk(x):
            for s in x:
                if s[0] == "expr":
                    texts.append(s[1])
                elif s[0] == "if":
                    texts.append("if " + s[1]); walk(s[2]); walk(s[3])
        walk(sts)
        i_time = [i for i, t in enumerate(texts) if t.startswith("if time(&now) ==")]
        i_del = [i for i, t in enumerate(texts) if re.fullmatch(r"n = hash_delete_if\(replay_hash, \(hash_arg_f\)replay_is_expired, &now\)", t)]
        i_arm = [i for i, t in enumerate(texts) if t.startswith("if timer_set_relative((callback_f)replay_purge, NULL, ")]
        if not (i_time and i_del and i_arm and i_time[0] < i_del[0] < i_arm[0]):
            raise KError("statement list is %r" % (texts,))
        if sts[0] != ("if", "!replay_hash", [("return", "")], []):
            raise KError("first statement is %r" % (sts[0],))
        call = find_nodes(d, lambda n: n["kind"] == "CallExpr" and cx(n["inner"][0]) == "timer_set_relative")[0]
        tr, st = expr_translator([], {})
        ms = tr.rvalue(call["inner"][3], st)
        if ms.lo != ms.hi:
            raise KError("re-arm period is not a constant")
        res["rearm_ms"] = ms.lo
        ctx.obligation("gen", name, True)
    except (KError, IndexError) as e:
        ctx.obligation("gen", name, False, str(e))
        ok = False
    return res if ok else None


def extract_dec(ctx):
    """stage chain of dec_process_msg and the guard of replay_remove after a failed send"""
    res = {}
    name = "dec_process_msg (src/munged/dec.c): stage chain, rc, and the condition guarding replay_remove after a failed send"
    try:
        d = load_ast(ctx.repo, "src/munged/dec.c", "dec_process_msg")
        sts = body_of(d)
        flat = [s for s in sts]
        # rc starts at -1
        decl = [x for s in sts if s[0] == "decls" for x in s[1]]
        if ("expr", "rc = -1") not in decl:
            raise KError("rc is not initialised to -1: %r" % (decl,))
        # the chain: if (f (..) < 0) ; else if ... else rc = 0
        chain = [s for s in sts if s[0] == "if" and re.fullmatch(r"\w+\(\w+\) < 0", s[1])]
        if len(chain) != 1:
            raise KError("expected one stage chain, found %d" % len(chain))
        stages = []
        s = chain[0]
        while True:
            m = re.fullmatch(r"(\w+)\((\w+)\) < 0", s[1]) or re.fullmatch(r"!\(\(c = (cred_create)\((m)\)\)\)", s[1])
            if not m or s[2]:
                raise KError("stage test `%s` has the wrong shape or a non-empty body" % s[1])
            stages.append(m.group(1))
            el = s[3]
            if len(el) == 1 and el[0][0] == "if":
                s = el[0]
                continue
            if el != [("expr", "rc = 0")]:
                raise KError("the chain ends in %r, not rc = 0" % (el,))
            break
        res["stages"] = stages
        # nothing between the chain and the send touches rc or the replay table
        i = sts.index(chain[0])
        send = [s for s in sts[i + 1:] if s[0] == "if" and s[1].startswith("m_msg_send(")]
        if len(send) != 1:
            raise KError("expected one `if (m_msg_send (...) ...)` after the chain")
        mid = sts[i + 1:sts.index(send[0])]
        if "rc =" in repr(mid) or "replay_" in repr(mid):
            raise KError("statements between the chain and the send touch rc or the replay table: %r" % (mid,))
        m = re.fullmatch(r"m_msg_send\(m, (\w+), 0\) != (\w+)", send[0][1])
        if not m or m.group(2) not in ("EMUNGE_SUCCESS", "0"):
            raise KError("send test is `%s`" % send[0][1])
        sb = send[0][2]
        if len(sb) != 2 or sb[0][0] != "if" or sb[0][2] != [("expr", "replay_remove(c)")] or sb[0][3] or sb[1] != ("expr", "rc = -1"):
            raise KError("failed-send branch is %r, expected `if (<cond>) replay_remove (c); rc = -1`" % (sb,))
        if "replay_remove" in repr(sts[sts.index(send[0]) + 1:]) or "replay_remove" in repr(sts[:sts.index(send[0])]):
            raise KError("replay_remove is called elsewhere in dec_process_msg")
        # translate <cond> over rc and the fields of the per-request credential
        sendnode = find_nodes(d, lambda n: n["kind"] == "IfStmt" and cx(n["inner"][0]).startswith("(m_msg_send("))[0]
        inner_if = find_nodes(sendnode["inner"][1], lambda n: n["kind"] == "IfStmt")[0]
        tr, st = expr_translator([], {"rc": ktrans.E("rc", -1, 0, atom=True)})
        tr.auto_fields = True
        tr.fields_read = []
        c = tr.cond(inner_if["inner"][0], st)
        res["rollback"] = c.s
        res["rollback_fields"] = list(tr.fields_read)
        res["rollback_c"] = sb[0][1]
        ctx.obligation("gen", name, True)
    except (KError, IndexError) as e:
        ctx.obligation("gen", name, False, str(e))
        return None
    name = "cred_create (src/munged/cred.c) zero-fills the per-request credential (fields default to 0)"
    try:
        flat = repr(body_of(load_ast(ctx.repo, "src/munged/cred.c", "cred_create")))
        if "c = calloc(1, sizeof(*c))" not in flat:
            raise KError("no `c = calloc (1, sizeof (*c))` in cred_create")
        ctx.obligation("gen", name, True)
    except KError as e:
        ctx.obligation("gen", name, False, str(e))
        return None
    return res


def lean_str_list(xs):
    return "[" + ", ".join('"%s"' % x for x in xs) + "]"


def generate(ctx):
    out = run_probe(ctx, "hash", PROBE, gc=True)
    if out is None:
        return False
    kv = {}
    for line in out.strip().split("\n"):
        p = line.split()
        kv[p[0]] = [int(x) for x in p[1:]] if p[0] == "KEYW" else int(p[1])
    okp = len(kv.get("KEYW", [])) == kv.get("MAC_KEEP") and kv.get("KEY_LINEAR") == 1 and kv.get("KEY_INDEP_OF_EXPIRY") == 1 \
        and kv.get("KEY_ZERO") == 0
    ctx.obligation("gen", "replay.c constants; replay_key_f is a fixed weighted sum of the kept MAC bytes (probe calls the real function)",
                   okp, out[:600])
    if not okp:
        return False
    k_dec = translate(ctx, "src/munged/dec.c", [
        dict(name="dec_validate_replay",
             inputs=[("c.msg.retry", "retry"), ("conf.got_socket_retry", "got_socket_retry"), ("errno", "errno")],
             calls={"m_msg_set_err": ("event", -1, [1]), "replay_insert": ("input", "replay_insert_ret", (32, True), True),
                    "log_msg": ("ignore", 0)}),
        dict(name="dec_validate_time",
             inputs=[("c.msg.time0", "time0"), ("c.msg.ttl", "ttl"), ("c.msg.time1", "time1"), ("conf.max_ttl", "max_ttl"),
                     ("conf.got_clock_skew", "got_clock_skew")],
             calls={"m_msg_set_err": ("event", -1, [1])}),
    ])
    k_rep = translate(ctx, "src/munged/replay.c", [
        dict(name="replay_cmp_f", inputs=[("r1.data.t_expired", "e1"), ("r2.data.t_expired", "e2")],
             calls={"memcmp": ("input", "mac_cmp", (32, True), False)}),
        dict(name="replay_is_expired", inputs=[("r.data.t_expired", "t_expired"), ("*pnow", "now")]),
    ])
    h = extract_hash(ctx)
    r = extract_replay(ctx, kv)
    d = extract_dec(ctx)
    if None in (k_dec, k_rep, h, r, d):
        return False
    tt = (kv["TIME_T_BITS"], bool(kv["TIME_T_SIGNED"]))
    ctx.obligation("gen", "time_t is a 64-bit signed integer on this platform (the model's clock type)", tt == (64, True), str(tt))
    L = []
    L.append("/- GENERATED from <repo>/src/munged/{hash,replay,dec,cred}.c by tools/gen/g_hash.py -- do not edit -/")
    L.append("import Munge.C.Kernel\nset_option linter.unusedVariables false\nnamespace Munge.Gen.Hash\nopen Munge.C\n")
    L.append("/-! ### constants (compile-and-print probe that #includes replay.c) -/")
    for nm in ("REPLAY_HASH_SIZE", "PURGE_SECS", "RETRY_ATTEMPTS", "MAC_KEEP", "MIN_MD_LEN"):
        L.append("def %s : Nat := %d" % (nm, kv[nm]))
    for nm in ("EMUNGE_SUCCESS", "EMUNGE_SNAFU", "EMUNGE_NO_MEMORY", "EMUNGE_CRED_INVALID", "EMUNGE_CRED_EXPIRED", "EMUNGE_CRED_REWOUND",
               "EMUNGE_CRED_REPLAYED", "EMUNGE_CRED_UNAUTHORIZED", "ENOMEM", "EEXIST", "EPERM", "EINVAL"):
        L.append("def %s : Int := %d" % (nm, kv[nm]))
    L.append("\n/-- `replay_key_f r = Σ keyWeights[i] * r.mac[i] mod 2^32` (measured on the real function; independent of the expiry) -/")
    L.append("def keyWeights : List Nat := [%s]" % ", ".join(str(x) for x in kv["KEYW"]))
    L.append("\n/-! ### chain walks of hash.c (AST patterns): `c` is the comparator's result -/")
    L.append("/-- the comparator is called as `cmp_f (p->hkey, key)` (node first) in find / insert / remove -/")
    for fn in ("hash_find", "hash_insert", "hash_remove"):
        short = fn[5:]
        L.append("def %s_nodeFirst : Bool := %s" % (short, "true" if h[fn]["node_first"] else "false"))
        L.append("/-- `%s`: the walk passes over a node (continue) when -/" % fn)
        L.append("def %s_skip (c : Int) : Prop := %s" % (short, h[fn]["skip"]))
        L.append("instance : DecidablePred %s_skip := fun c => by unfold %s_skip; infer_instance" % (short, short))
        L.append("/-- `%s`: a node not passed over is the sought one when (otherwise the walk stops: break) -/" % fn)
        L.append("def %s_match (c : Int) : Prop := %s" % (short, h[fn]["match"]))
        L.append("instance : DecidablePred %s_match := fun c => by unfold %s_match; infer_instance" % (short, short))
    L.append("/-- `hash_delete_if` unlinks a node when its `arg_f` value `v` satisfies -/")
    L.append("def delete_sel (v : Int) : Prop := %s" % h["delete_sel"])
    L.append("instance : DecidablePred delete_sel := fun v => by unfold delete_sel; infer_instance")
    L.append("\n/-! ### replay.c -/")
    L.append("/-- `replay_cmp_f` calls `memcmp (r2.mac, r1.mac, n)` instead of `memcmp (r1.mac, r2.mac, n)` -/")
    L.append("def memcmpSwapped : Bool := %s" % r["memcmp_swapped"])
    L.append("/-- `t_expired` as computed by `replay_insert` from `m->time0`, `m->ttl` -/")
    L.append("def insertExpiry (time0 ttl : Int) : Int := %s" % r["replay_insert_expiry"])
    L.append("/-- `t_expired` as computed by `replay_remove` -/")
    L.append("def removeExpiry (time0 ttl : Int) : Int := %s" % r["replay_remove_expiry"])
    L.append("/-- milliseconds after which `replay_purge` re-arms itself -/")
    L.append("def purgeRearmMsecs : Int := %d" % r["rearm_ms"])
    L.append("")
    L.append(k_rep)
    L.append("/-! ### dec.c -/")
    L.append("/-- the stages of `dec_process_msg` in order; `rc = 0` iff every one returned >= 0 -/")
    L.append("def stages : List String := %s" % lean_str_list(d["stages"]))
    L.append("/-- condition `%s` guarding `replay_remove (c)` once the reply could not be sent.  `rc` is 0 iff all stages" % d["rollback_c"])
    L.append("    succeeded (else -1); `fld` reads a field of the per-request credential (zero-filled by `cred_create`). -/")
    L.append("def rollbackCond (rc : Int) (fld : String → Int) : Prop := %s" % d["rollback"])
    L.append("instance (rc : Int) (fld : String → Int) : Decidable (rollbackCond rc fld) := by unfold rollbackCond; infer_instance")
    L.append("/-- credential fields the condition reads -/")
    L.append("def rollbackFields : List String := %s" % lean_str_list(d["rollback_fields"]))
    L.append("")
    L.append(k_dec)
    L.append("end Munge.Gen.Hash\n")
    gen_write("Hash", "\n".join(L))
    ctx.cov.setdefault("generated", {})["Hash"] = {
        "constants": {k: kv[k] for k in ("REPLAY_HASH_SIZE", "PURGE_SECS", "RETRY_ATTEMPTS", "MAC_KEEP")},
        "walk_tests": {fn: (h[fn]["skip"], h[fn]["match"]) for fn in ("hash_find", "hash_insert", "hash_remove")},
        "delete_sel": h["delete_sel"], "stages": d["stages"], "rollback": d["rollback_c"]}
    return True
