"""Gen.Fd: what the `Fd` model (C08 sub-check "timed I/O") takes from src/libcommon/fd.c and src/libcommon/m_msg.c.

K-translated (tools/gen/ktrans.py, every C conversion explicit):
  * `_fd_get_poll_timeout`  (remaining-milliseconds computation; the struct `now` it fills is an input),
  * `_get_timeval` of m_msg.c (deadline = now + msecs, with the microsecond carry),
  * and, cut out of the three loop-carrying routines fd_timed_read_n / fd_timed_write_n / fd_timed_write_iov as
    statement ranges in which `continue` / `break` / `return -1` (or `goto err`) / `goto <io label>` are replaced by
    `return 1` / `return 2` / `return 3` / `return 1`:
      <r>_guard      the argument guard                                   (ret -1 + errno, or 0)
      <r>_skip       `if (do_skip_first_poll && nleft > 0) { msecs = -1; goto io; }`   (ret 1 = jump taken; writes msecs)
      <r>_cond       the `while` condition
      <r>_afterPoll  the if-chain on nfd / errno / pfd.revents after poll()            (ret = control code; writes errno)
      <r>_afterIo    everything after the read/write/writev call up to the end of the loop body (for the iovec variant:
                     up to the iovec-advance loop)                                     (ret = control code; writes nleft)
      <r>_ret        the final return expression
      iovadv_cond / iovadv_body   header condition and body of the iovec-advance loop (element i is an input)
By AST pattern (failed obligation if the shape is not the one the model's step function is written for):
  the order  `msecs = _fd_get_poll_timeout (when); nfd = poll (&pfd, 1, msecs); <chain>; label: n = IO (fd, cursor, nleft|iov_cnt);
  <tail>`, the events mask stored in pfd.events, that `p += n` follows the error chain of the tail, the header
  `for (i = 0; ...; i++)` of the advance loop and its `iov[i].iov_base = (char *) iov[i].iov_base + n`, the `err:` exit
  (`free (iov); return -1`), the summation loop of the iovec lengths, and in m_msg.c the classification chain
  `(errno = 0, n = fd_timed_* (.., &tv, 1)) < 0` / `errno == ETIMEDOUT` / `n != want` after one `_get_timeval (&tv, TIMEOUT)`.
By probe: poll bits, errno values, MUNGE_SOCKET_TIMEOUT_MSECS.
If anything fails, the obligation is recorded and the TWIN (the text generated from the reviewed sources) is written so
that the Lean side still builds and the correspondence streams can look for a concrete failing input."""
import copy, re
from .probe import run_probe
from .ktrans import load_ast, Translator, KError, trange, lit, indent, E, translate_kernels
from ..vlib.leanlib import gen_write

FD = "src/libcommon/fd.c"
MSG = "src/libcommon/m_msg.c"

PROBE = r'''
#include <stdio.h>
#include <errno.h>
#include <poll.h>
#include "munge_defs.h"
int main(void){
#define P(x) printf(#x " %lld\n", (long long) (x))
  P(POLLIN); P(POLLOUT); P(POLLHUP); P(POLLNVAL); P(POLLERR);
  P(EINTR); P(EAGAIN); P(ETIMEDOUT); P(EBADF); P(EIO); P(EINVAL); P(ENOMEM);
  P(MUNGE_SOCKET_TIMEOUT_MSECS);
  return 0;
}
'''
CONSTS = ["POLLIN", "POLLOUT", "POLLHUP", "POLLNVAL", "POLLERR", "EINTR", "EAGAIN", "ETIMEDOUT", "EBADF", "EIO",
          "EINVAL", "ENOMEM", "MUNGE_SOCKET_TIMEOUT_MSECS"]

CONT, BRK, FAIL = 1, 2, 3


class Miss(Exception):
    pass


# ------------------------------------------------------------------ canonical C text
def strip(n):
    while n.get("kind") in ("ImplicitCastExpr", "ParenExpr", "ConstantExpr", "CStyleCastExpr") and n.get("inner"):
        n = n["inner"][0]
    return n


def cx(n):
    n = strip(n)
    k = n.get("kind")
    if k == "DeclRefExpr":
        return n["referencedDecl"]["name"]
    if k == "MemberExpr":
        b = cx(n["inner"][0])
        if not re.match(r"^[\w.\[\]>-]+$", b):
            b = "(" + b + ")"
        return b + ("->" if n.get("isArrow") else ".") + n["name"]
    if k == "ArraySubscriptExpr":
        return "%s[%s]" % (cx(n["inner"][0]), cx(n["inner"][1]))
    if k == "UnaryOperator":
        s = cx(n["inner"][0])
        if not re.match(r"^[\w.\[\]>-]+$", s):
            s = "(" + s + ")"
        return s + n["opcode"] if n.get("isPostfix") else n["opcode"] + s
    if k in ("BinaryOperator", "CompoundAssignOperator"):
        return "(%s %s %s)" % (cx(n["inner"][0]), n["opcode"], cx(n["inner"][1]))
    if k == "CallExpr":
        return "%s(%s)" % (cx(n["inner"][0]), ", ".join(cx(a) for a in n["inner"][1:]))
    if k == "IntegerLiteral":
        return n["value"]
    if k == "ConditionalOperator":
        return "(%s ? %s : %s)" % tuple(cx(a) for a in n["inner"])
    if k == "UnaryExprOrTypeTraitExpr":
        return "sizeof"
    return "<%s>" % k


def kids(n):
    return [c for c in n.get("inner", []) if c.get("kind")]


def body_of(fd):
    return [c for c in fd["inner"] if c["kind"] == "CompoundStmt"][0]


def stmts(n):
    """statements of a block; `assert (..)` compiled with NDEBUG (`((void) 0)`) and empty statements vanish"""
    ss = kids(n) if n.get("kind") == "CompoundStmt" else [n]
    return [s for s in ss if s["kind"] != "NullStmt" and strip(s).get("kind") != "IntegerLiteral"]


def is_errno_lhs(n):
    return cx(n) == "*(__errno_location())"


# ------------------------------------------------------------------ translator with the two extensions this file needs
class FdTranslator(Translator):
    """ktrans.Translator plus: (1) `arr[idx].field` is the path "arr[<idx text>].field" (so an access to another
    element than the declared one is an undeclared input -> KError); (2) inputs listed in spec['nonneg'] have a
    non-negative range (pfd.revents: the kernel only ever sets the low bits of the short)."""
    def lvalue(self, n, st):
        if n.get("kind") == "ParenExpr":
            return self.lvalue(n["inner"][0], st)
        if n.get("kind") == "MemberExpr" and not n.get("isArrow"):
            b = n["inner"][0]
            while b.get("kind") == "ParenExpr":
                b = b["inner"][0]
            if b.get("kind") == "ArraySubscriptExpr":
                return ("path", "%s.%s" % (cx(b), n["name"]))
        return super().lvalue(n, st)

    def input(self, path, t):
        e = super().input(path, t)
        if e.s in self.spec.get("nonneg", ()) and t != "ptr":
            return E(e.s, 0, trange(t)[1], atom=True)
        return e


def k_emit(ctx, spec, fdecl, src, doc=None):
    tr = FdTranslator(spec, {}, {})
    try:
        term = tr.translate(fdecl)
    except KError as e:
        ctx.obligation("gen", "kernel %s (%s) translated (subset K)" % (spec["name"], src), False, str(e))
        return None
    seen = []
    for nm in [nm for (_, nm) in spec.get("inputs", [])] + [h[1] for h in spec.get("calls", {}).values() if h[0] == "input"] + tr.used_inputs:
        if nm not in seen:
            seen.append(nm)
    rng = []
    for nm in seen:
        t = tr.input_types.get(nm) or spec.get("types", {}).get(nm)
        if t == "ptr":
            rng.append("0 ≤ %s" % nm)
        elif t:
            lo, hi = trange(t)
            if nm in spec.get("nonneg", ()):
                lo = 0
            rng.append("%s ≤ %s ∧ %s ≤ %s" % (lit(lo).s, nm, nm, hi))
    sig = " ".join("(%s : Int)" % nm for nm in seen)
    ctx.obligation("gen", "kernel %s (%s) translated (subset K)" % (spec["name"], src), True)
    return ("/-- translated from %s -/\ndef %s %s : KOut :=\n%s\n\n" % (doc or src, spec["name"], sig, indent(term)) +
            "def %s_inRange %s : Prop :=\n  %s\n" % (spec["name"], sig, " ∧ ".join(rng) if rng else "True"))


def ret_lit(v):
    return {"kind": "ReturnStmt", "inner": [{"kind": "IntegerLiteral", "value": str(v), "type": {"qualType": "int"}}]}


def synth(name, ss, of=None):
    """synthetic function made of the statements `ss`; the pointer parameters of `of` stay parameters (so that
    `when->tv_sec` is the path when.tv_sec), everything else the statements mention is an input path"""
    pp = []
    if of is not None:
        for c in of.get("inner", []):
            q = c.get("type", {}).get("qualType", "")
            if c.get("kind") == "ParmVarDecl" and (q.endswith("*") or "(*)" in q):
                pp.append(c)
    return {"kind": "FunctionDecl", "name": name, "inner": pp + [{"kind": "CompoundStmt", "inner": list(ss)}]}


def rewrite(n, io_label, err_label, err_ok, io_goto_ok=False):
    """Deep copy of a statement subtree in which loop-control transfers become `return <code>`."""
    k = n.get("kind")
    if k == "ContinueStmt":
        return ret_lit(CONT)
    if k == "BreakStmt":
        return ret_lit(BRK)
    if k == "ReturnStmt":
        v = cx(n["inner"][0]) if n.get("inner") else ""
        if v != "-1":
            raise Miss("a `return %s` inside the loop (only `return -1` is modelled)" % v)
        return ret_lit(FAIL)
    if k == "GotoStmt":
        t = n.get("targetLabelDeclId")
        if t == io_label:
            if not io_goto_ok:
                raise Miss("a jump back to the I/O call from inside the loop (the I/O is retried without poll and without "
                           "recomputing the remaining time); the model only knows `continue`")
            return ret_lit(CONT)
        if t == err_label and err_ok:
            return ret_lit(FAIL)
        raise Miss("goto to an unrecognised label")
    if k in ("WhileStmt", "ForStmt", "DoStmt", "SwitchStmt"):
        raise Miss("nested %s inside a statement range that is translated as a kernel" % k)
    m = dict(n)
    if "inner" in n:
        m["inner"] = [rewrite(c, io_label, err_label, err_ok, io_goto_ok) if isinstance(c, dict) and c.get("kind") else c for c in n["inner"]]
    return m


# ------------------------------------------------------------------ one timed routine
ROUTINES = [
    # name, lean prefix, io callee, io args (canonical), result var pattern, events const
    dict(fn="fd_timed_read_n", pre="read", io="read", args=["fd", "p", "nleft"], ev="POLLIN", cursor="p", total="n"),
    dict(fn="fd_timed_write_n", pre="write", io="write", args=["fd", "p", "nleft"], ev="POLLOUT", cursor="p", total="n"),
    dict(fn="fd_timed_write_iov", pre="iov", io="writev", args=["fd", "iov", "iov_cnt"], ev="POLLOUT", cursor=None, total="iov_len"),
]


def extract_routine(ctx, R, kv, out):
    fd = load_ast(ctx.repo, FD, R["fn"])
    top = []
    for s in kids(body_of(fd)):
        if s["kind"] == "DeclStmt":
            for d in kids(s):
                if d.get("kind") != "VarDecl" or [c for c in kids(d) if "Comment" not in c["kind"]]:
                    raise Miss("%s: a local with an initialiser (the model assumes plain declarations)" % R["fn"])
            continue
        top.append(s)
    pre = R["pre"]
    src = "%s in %s" % (R["fn"], FD)
    # --- locate the loop, the skip `if`, the guard
    wi = [i for i, s in enumerate(top) if s["kind"] == "WhileStmt"]
    if len(wi) != 1:
        raise Miss("%s: expected exactly one while loop at top level, found %d" % (R["fn"], len(wi)))
    wi = wi[0]
    loop = top[wi]
    lcond, lbody = kids(loop)[0], kids(loop)[1]
    lb = stmts(lbody)
    labels = [(i, s) for i, s in enumerate(lb) if s["kind"] == "LabelStmt"]
    if len(labels) != 1:
        raise Miss("%s: expected exactly one label inside the loop body" % R["fn"])
    li, lab = labels[0]
    io_label = lab["declId"]
    # err label (iovec variant)
    err_label, err_ok = None, False
    for i, s in enumerate(top):
        if s["kind"] == "LabelStmt" and i > wi:
            err_label = s["declId"]
            tail = [cx(x) if x["kind"] != "ReturnStmt" else "return " + cx(x["inner"][0]) for x in kids(s) + top[i + 1:]]
            err_ok = tail == ["free(iov)", "return -1"]
            if not err_ok:
                raise Miss("%s: error exit is %s, expected free(iov); return -1" % (R["fn"], tail))
    # guard = first statement
    g = top[0]
    if g["kind"] != "IfStmt":
        raise Miss("%s: first statement is not the argument guard" % R["fn"])
    ginputs = {"read": [("fd", "fd"), ("buf", "buf")], "write": [("fd", "fd"), ("buf", "buf")],
               "iov": [("fd", "fd"), ("iov_orig", "iov_orig"), ("iov_cnt", "iov_cnt")]}[pre]
    kg = k_emit(ctx, dict(name=pre + "_guard", inputs=ginputs), synth("g", [g, ret_lit(0)]), "the argument guard of " + src)
    # between guard and loop: setup statements
    setup = [cx(s) for s in top[1:wi] if s["kind"] not in ("IfStmt", "ForStmt", "DeclStmt")]
    ev_stmt = [t for t in setup if t.startswith("(pfd.events = ")]
    if len(ev_stmt) != 1 or ev_stmt[0] != "(pfd.events = %d)" % kv[R["ev"]]:
        raise Miss("%s: pfd.events is set by %s, expected the single store of %s (%d)" % (R["fn"], ev_stmt, R["ev"], kv[R["ev"]]))
    if "(pfd.fd = fd)" not in setup:
        raise Miss("%s: `pfd.fd = fd` not found" % R["fn"])
    if pre != "iov":
        for need in ("(p = buf)", "(nleft = n)"):
            if need not in setup:
                raise Miss("%s: `%s` not found before the loop (found %s)" % (R["fn"], need, setup))
    else:
        if "(nleft = (iov_len = n))" not in setup and not ("(iov_len = n)" in setup and "(nleft = n)" in setup):
            raise Miss("%s: `nleft = iov_len = n` not found before the loop (found %s)" % (R["fn"], setup))
        if "memcpy(iov, iov_orig, iov_mem_len)" not in setup or "(iov = malloc(iov_mem_len))" not in setup or \
                "(iov_mem_len = (sizeof * iov_cnt))" not in setup:
            raise Miss("%s: private copy of the iovec (malloc + memcpy of sizeof * iov_cnt) not found: %s" % (R["fn"], setup))
        fors = [s for s in top[1:wi] if s["kind"] == "ForStmt"]
        if len(fors) != 1:
            raise Miss("%s: summation loop of the iovec lengths not found" % R["fn"])
        f = fors[0]["inner"]
        ftxt = [cx(f[0]), cx(f[2]), cx(f[3])] + [cx(s) for s in stmts(f[4])]
        if ftxt != ["((i = 0) , (n = 0))", "(i < iov_cnt)", "i++", "(n += iov[i].iov_len)"]:
            raise Miss("%s: summation loop is %s" % (R["fn"], ftxt))
    # skip-first-poll `if`: the IfStmt right before the loop
    sk = top[wi - 1]
    if sk["kind"] != "IfStmt":
        raise Miss("%s: the statement before the loop is not the do_skip_first_poll test" % R["fn"])
    ksk = k_emit(ctx, dict(name=pre + "_skip", inputs=[("do_skip_first_poll", "do_skip"), ("nleft", "nleft")]),
                 synth("s", [rewrite(sk, io_label, None, False, True), ret_lit(0)]), "the do_skip_first_poll jump of " + src)
    # loop condition
    kc = k_emit(ctx, dict(name=pre + "_cond", inputs=[("nleft", "nleft")]),
                synth("c", [{"kind": "ReturnStmt", "inner": [lcond]}]), "the loop condition of " + src)
    # --- loop body: msecs = tmo(when); nfd = poll(&pfd, 1, msecs); chain; label: io; tail
    head = [cx(s) for s in lb[:2]]
    if head != ["(msecs = _fd_get_poll_timeout(when))", "(nfd = poll(&pfd, 1, msecs))"]:
        raise Miss("%s: the loop body does not start with `msecs = _fd_get_poll_timeout (when); nfd = poll (&pfd, 1, msecs);` "
                   "(remaining time recomputed before every poll): %s" % (R["fn"], head))
    chain = lb[2:li]
    if len(chain) != 1 or chain[0]["kind"] != "IfStmt":
        raise Miss("%s: between poll() and the I/O call there is not exactly one if-chain (%d statements)" % (R["fn"], len(chain)))
    kap = k_emit(ctx, dict(name=pre + "_afterPoll", inputs=[("nfd", "nfd"), ("errno", "errno"), ("pfd.revents", "revents")],
                           nonneg=("revents",)),
                 synth("a", [rewrite(chain[0], io_label, err_label, err_ok), ret_lit(0)]), "the if-chain after poll() of " + src)
    # the I/O call under the label
    iost = kids(lab)
    want_io = "(%s = %s(%s))" % ("%s", R["io"], ", ".join(R["args"]))
    m = len(iost) == 1 and re.match(r"^\((\w+) = %s\(%s\)\)$" % (R["io"], re.escape(", ".join(R["args"]))), cx(iost[0]))
    if not m:
        raise Miss("%s: the labelled statement is `%s`, expected `%s`" % (R["fn"], cx(iost[0]) if iost else None, want_io % "n"))
    nv = m.group(1)
    tail = lb[li + 1:]
    adv = None
    if pre != "iov":
        # `p += n` must come after the error chain; it is cut out (pointer arithmetic) and emitted as <pre>_padv
        pi = [i for i, s in enumerate(tail) if cx(s) in ("(p += %s)" % nv, "(p = (p + %s))" % nv)]
        if len(pi) != 1:
            raise Miss("%s: cursor update `p += %s` not found exactly once after the I/O call" % (R["fn"], nv))
        pi = pi[0]
        if pi == 0 or tail[0]["kind"] != "IfStmt" or not cx(tail[0]["inner"][0]).startswith("(%s < 0" % nv):
            raise Miss("%s: `p += %s` is not preceded by the `%s < 0` chain" % (R["fn"], nv, nv))
        if any("p" == x for s in tail[:pi] + tail[pi + 1:] for x in re.findall(r"\b\w+\b", cx(s) if s["kind"] not in ("IfStmt",) else "")):
            raise Miss("%s: other uses of p in the loop tail" % R["fn"])
        ktail = tail[:pi] + tail[pi + 1:]
    else:
        fi = [i for i, s in enumerate(tail) if s["kind"] == "ForStmt"]
        if len(fi) != 1 or fi[0] != len(tail) - 1:
            raise Miss("%s: the iovec-advance loop is not the last statement of the loop body" % R["fn"])
        adv = tail[fi[0]]
        ktail = tail[:fi[0]]
    kai = k_emit(ctx, dict(name=pre + "_afterIo", inputs=[(nv, "nio"), ("errno", "errno"), ("nleft", "nleft"), ("msecs", "msecs")]),
                 synth("t", [rewrite(s, io_label, err_label, err_ok) for s in ktail] + [ret_lit(0)]),
                 "the statements after the %s() call of %s" % (R["io"], src))
    # return expression: the ReturnStmt right after the loop (iov: after free)
    after = top[wi + 1:]
    if pre == "iov":
        if not after or cx(after[0]) != "free(iov)":
            raise Miss("%s: `free (iov)` does not directly follow the loop" % R["fn"])
        after = after[1:]
    if not after or after[0]["kind"] != "ReturnStmt":
        raise Miss("%s: no return directly after the loop" % R["fn"])
    kr = k_emit(ctx, dict(name=pre + "_ret", inputs=[(R["total"], "n"), ("nleft", "nleft")]),
                synth("r", [after[0]]), "the final return of " + src)
    ks = [kg, ksk, kc, kap, kai, kr]
    if adv is not None:
        f = adv["inner"]
        if cx(f[0]) != "(i = 0)" or cx(f[3]) != "i++":
            raise Miss("%s: advance loop header is `for (%s; ..; %s)`, expected i = 0 / i++" % (R["fn"], cx(f[0]), cx(f[3])))
        kic = k_emit(ctx, dict(name="iovadv_cond", inputs=[("i", "i"), ("iov_cnt", "iov_cnt"), (nv, "nwritten")]),
                     synth("c", [{"kind": "ReturnStmt", "inner": [f[2]]}]), "the condition of the iovec-advance loop of " + src)
        bs = stmts(f[4])
        base = [i for i, s in enumerate(bs) if cx(s) in ("(iov[i].iov_base = (iov[i].iov_base + n))", "(iov[i].iov_base += n)")]
        if len(base) != 1 or base[0] != len(bs) - 1:
            raise Miss("%s: `iov[i].iov_base = (char *) iov[i].iov_base + n` is not the last statement of the advance loop body: %s"
                       % (R["fn"], [cx(s) if s["kind"] != "IfStmt" else "if " + cx(s["inner"][0]) for s in bs]))
        kib = k_emit(ctx, dict(name="iovadv_body", inputs=[(nv, "nwritten"), ("iov[i].iov_len", "len_i")]),
                     synth("b", [rewrite(s, None, None, False) for s in bs[:-1]] + [ret_lit(0)]),
                     "the body of the iovec-advance loop of %s (without the iov_base update, which adds the local n)" % src)
        ks += [kic, kib]
    if any(k is None for k in ks):
        raise Miss("%s: kernel translation failed" % R["fn"])
    out.extend(ks)


# ------------------------------------------------------------------ the two loop-free helpers
def extract_timeout(ctx, out):
    fd = load_ast(ctx.repo, FD, "_fd_get_poll_timeout")
    ss = kids(body_of(fd))
    keep = []
    for s in ss:
        if s["kind"] == "DeclStmt":
            ds = [d for d in kids(s) if d.get("kind") == "VarDecl"]
            if len(ds) == 1 and ds[0]["name"] == "now" and "timeval" in ds[0].get("type", {}).get("qualType", ""):
                continue               # `struct timeval now;` -- its two members are inputs (filled by gettimeofday)
        keep.append(s)
    if len(keep) == len(ss):
        raise Miss("_fd_get_poll_timeout: local `struct timeval now` not found")
    k = k_emit(ctx, dict(name="fd_get_poll_timeout",
                         inputs=[("when", "when_p"), ("when.tv_sec", "ws"), ("when.tv_usec", "wu"), ("now.tv_sec", "ns"), ("now.tv_usec", "nu")],
                         calls={"gettimeofday": ("input", "rv_gtod", (32, True), True)}),
               synth("t", keep, fd), "`_fd_get_poll_timeout` in " + FD)
    if k is None:
        raise Miss("_fd_get_poll_timeout: not translated")
    out.append(k)


def extract_msg(ctx, kv, out):
    """m_msg.c: `_get_timeval` and, around each fd_timed_* call, the classification of its result."""
    txt = translate_kernels(ctx, MSG, [dict(name="_get_timeval", lean="get_timeval",
                                            inputs=[("tv", "tv_p"), ("tv.tv_sec", "sec"), ("tv.tv_usec", "usec")], params=["msecs"],
                                            calls={"gettimeofday": ("input", "rv_gtod", (32, True), True)}, void=True)])
    if txt is None:
        raise Miss("_get_timeval: not translated")
    out.append(txt)
    sites = []
    for fn, callee_, nsites in (("m_msg_send", "fd_timed_write_iov", 1), ("m_msg_recv", "fd_timed_read_n", 2)):
        fd = load_ast(ctx.repo, MSG, fn)
        found = []
        tvs = []

        def walk(n):
            if not isinstance(n, dict):
                return
            if n.get("kind") == "CallExpr" and cx(n).startswith("_get_timeval("):
                tvs.append(cx(n))
            if n.get("kind") == "IfStmt":
                c = cx(n["inner"][0])
                m = re.match(r"^\(\(\(\*\(__errno_location\(\)\) = 0\) , \(n = %s\((.*)\)\)\) < 0\)$" % callee_, c)
                if m:
                    args = m.group(1)
                    el = n["inner"][2] if len(n["inner"]) > 2 else None
                    c2 = cx(el["inner"][0]) if el and el.get("kind") == "IfStmt" else None
                    el2 = el["inner"][2] if el and len(el["inner"]) > 2 else None
                    c3 = cx(el2["inner"][0]) if el2 and el2.get("kind") == "IfStmt" else None
                    found.append((args, c2, c3))
            for v in n.get("inner", []) or []:
                walk(v)
        walk(body_of(fd))
        if tvs != ["_get_timeval(&tv, %d)" % kv["MUNGE_SOCKET_TIMEOUT_MSECS"]]:
            raise Miss("%s: deadline is not computed by exactly one `_get_timeval (&tv, MUNGE_SOCKET_TIMEOUT_MSECS)`: %s" % (fn, tvs))
        if len(found) != nsites:
            raise Miss("%s: %d call sites of %s with `(errno = 0, n = ..) < 0`, expected %d" % (fn, len(found), callee_, nsites))
        for args, c2, c3 in found:
            a = [x.strip() for x in args.split(",")]
            if a[-2:] != ["&tv", "1"]:
                raise Miss("%s: %s is not called with (.., &tv, 1): %s" % (fn, callee_, args))
            if c2 != "(*(__errno_location()) == %d)" % kv["ETIMEDOUT"]:
                raise Miss("%s: second link of the result chain is `%s`, expected errno == ETIMEDOUT" % (fn, c2))
            if not c3 or not re.match(r"^\(n != [\w>.-]+\)$", c3):
                raise Miss("%s: third link of the result chain is `%s`, expected n != <wanted>" % (fn, c3))
            sites.append((fn, callee_, a, c3))
    ctx.obligation("gen", "m_msg.c: one deadline per message; result chain `n < 0` / `errno == ETIMEDOUT` / `n != wanted` at the %d timed calls" % len(sites),
                   True, str(sites))
    out.append("/-- how m_msg_send / m_msg_recv classify the result of a timed call (errno was set to 0 before it):\n"
               "    1 = failed (error text from errno), 2 = timed out, 3 = incomplete, 0 = complete -/\n"
               "def callerClass (n errno want : Int) : Int :=\n"
               "  if n < 0 then 1 else if errno = %d then 2 else if n ≠ want then 3 else 0\n" % kv["ETIMEDOUT"])


HEADER = ("/- GENERATED from <repo>/%s and <repo>/%s by tools/gen/g_fd.py -- do not edit -/\n"
          "import Munge.C.Kernel\nset_option linter.unusedVariables false\nnamespace Munge.Gen.Fd\nopen Munge.C\n\n" % (FD, MSG))


def generate(ctx):
    nfail0 = len(ctx.failed_obligations())
    pr = run_probe(ctx, "fd_consts", PROBE)
    kv = {}
    if pr is not None:
        for line in pr.strip().split("\n"):
            p = line.split()
            kv[p[0]] = int(p[1])
    okc = all(k in kv for k in CONSTS)
    ctx.obligation("gen", "poll bits, errno values, socket timeout probed", okc, str(kv))
    if not okc:
        kv = dict(TWIN_CONSTS)
    parts = {}
    for key, f in [("tmo", lambda o: extract_timeout(ctx, o)), ("msg", lambda o: extract_msg(ctx, kv, o))] + \
                  [(R["pre"], (lambda R: lambda o: extract_routine(ctx, R, kv, o))(R)) for R in ROUTINES]:
        o = []
        try:
            f(o)
            parts[key] = "\n".join(o)
            if key in ("read", "write", "iov"):
                ctx.obligation("gen", "loop structure of %s recognised (timeout recomputed -> poll -> chain -> I/O -> tail)" % key, True)
        except (Miss, KError, IndexError, KeyError, TypeError, AttributeError) as e:
            ctx.obligation("gen", "structure of %s extracted from the AST" % key, False, "%s: %s" % (type(e).__name__, e))
            parts[key] = TWIN[key]
    body = HEADER
    for k in CONSTS:
        body += "def %s : Int := %d\n" % (k, kv[k])
    body += "\n/-- control codes returned by the cut-out kernels: 0 = fall through, 1 = continue (or: jump taken), 2 = break, 3 = return -1 -/\n"
    body += "def CONT : Int := %d\ndef BRK : Int := %d\ndef FAIL : Int := %d\n\n" % (CONT, BRK, FAIL)
    body += "/-- value stored to pfd.events by fd_timed_read_n / fd_timed_write_n / fd_timed_write_iov -/\n"
    body += "def read_events : Int := %d\ndef write_events : Int := %d\ndef iov_events : Int := %d\n\n" % (kv["POLLIN"], kv["POLLOUT"], kv["POLLOUT"])
    degraded = len(ctx.failed_obligations()) > nfail0
    body += "/-- true if some part below is the TWIN (the generator could not extract it from the current sources) -/\n"
    body += "def degraded : Bool := %s\n\n" % ("true" if degraded else "false")
    for key in ("tmo", "msg", "read", "write", "iov"):
        body += parts[key] + "\n"
    body += "end Munge.Gen.Fd\n"
    gen_write("Fd", body)
    return not degraded


TWIN_CONSTS = {"POLLIN": 1, "POLLOUT": 4, "POLLHUP": 16, "POLLNVAL": 32, "POLLERR": 8, "EINTR": 4, "EAGAIN": 11, "ETIMEDOUT": 110,
               "EBADF": 9, "EIO": 5, "EINVAL": 22, "ENOMEM": 12, "MUNGE_SOCKET_TIMEOUT_MSECS": 2000}

# the text generated from the reviewed sources; used only when extraction fails
TWIN = {
    'tmo': r'''/-- translated from `_fd_get_poll_timeout` in src/libcommon/fd.c -/
def fd_get_poll_timeout (when_p : Int) (ws : Int) (wu : Int) (ns : Int) (nu : Int) (rv_gtod : Int) : KOut :=
  if when_p = 0 then
    { ret := (-1), writes := [], events := [] }
  else
    if (ws = 0) ∧ (wu = 0) then
      { ret := 0, writes := [], events := [] }
    else
      if rv_gtod < 0 then
        { ret := 0, writes := [], events := [("gettimeofday", [])] }
      else
        { ret := if (wrapS32 (wrapS64 ((wrapS64 ((wrapS64 (ws - ns)) * 1000)) + (wrapS64 (cdiv (wrapS64 ((wrapS64 (wu - nu)) + 999)) 1000))))) < 0 then 0 else wrapS32 (wrapS64 ((wrapS64 ((wrapS64 (ws - ns)) * 1000)) + (wrapS64 (cdiv (wrapS64 ((wrapS64 (wu - nu)) + 999)) 1000)))), writes := [], events := [("gettimeofday", [])] }

def fd_get_poll_timeout_inRange (when_p : Int) (ws : Int) (wu : Int) (ns : Int) (nu : Int) (rv_gtod : Int) : Prop :=
  0 ≤ when_p ∧ (-9223372036854775808) ≤ ws ∧ ws ≤ 9223372036854775807 ∧ (-9223372036854775808) ≤ wu ∧ wu ≤ 9223372036854775807 ∧ (-9223372036854775808) ≤ ns ∧ ns ≤ 9223372036854775807 ∧ (-9223372036854775808) ≤ nu ∧ nu ≤ 9223372036854775807 ∧ (-2147483648) ≤ rv_gtod ∧ rv_gtod ≤ 2147483647
''',
    'msg': r'''/-- translated from `_get_timeval` in src/libcommon/m_msg.c -/
def get_timeval (tv_p : Int) (sec : Int) (usec : Int) (msecs : Int) (rv_gtod : Int) : KOut :=
  { ret := 0, writes := [("tv.tv_usec", if msecs > 0 then if (wrapS64 ((if rv_gtod < 0 then 0 else usec) + ((cmod msecs 1000) * 1000))) ≥ 1000000 then cmod (wrapS64 ((if rv_gtod < 0 then 0 else usec) + ((cmod msecs 1000) * 1000))) 1000000 else wrapS64 ((if rv_gtod < 0 then 0 else usec) + ((cmod msecs 1000) * 1000)) else if rv_gtod < 0 then 0 else usec), ("tv.tv_sec", if msecs > 0 then if (wrapS64 ((if rv_gtod < 0 then 0 else usec) + ((cmod msecs 1000) * 1000))) ≥ 1000000 then wrapS64 ((wrapS64 ((if rv_gtod < 0 then 0 else sec) + (wrapS32 (cdiv msecs 1000)))) + (wrapS64 (cdiv (wrapS64 ((if rv_gtod < 0 then 0 else usec) + ((cmod msecs 1000) * 1000))) 1000000))) else wrapS64 ((if rv_gtod < 0 then 0 else sec) + (wrapS32 (cdiv msecs 1000))) else if rv_gtod < 0 then 0 else sec)], events := [("gettimeofday", [])] }

/-- C-type ranges of the inputs of `get_timeval` (assumed by the wrap elision) -/
def get_timeval_inRange (tv_p : Int) (sec : Int) (usec : Int) (msecs : Int) (rv_gtod : Int) : Prop :=
  (-9223372036854775808) ≤ sec ∧ sec ≤ 9223372036854775807 ∧ (-9223372036854775808) ≤ usec ∧ usec ≤ 9223372036854775807 ∧ (-2147483648) ≤ msecs ∧ msecs ≤ 2147483647 ∧ (-2147483648) ≤ rv_gtod ∧ rv_gtod ≤ 2147483647

/-- how m_msg_send / m_msg_recv classify the result of a timed call (errno was set to 0 before it):
    1 = failed (error text from errno), 2 = timed out, 3 = incomplete, 0 = complete -/
def callerClass (n errno want : Int) : Int :=
  if n < 0 then 1 else if errno = 110 then 2 else if n ≠ want then 3 else 0
''',
    'read': r'''/-- translated from the argument guard of fd_timed_read_n in src/libcommon/fd.c -/
def read_guard (fd : Int) (buf : Int) : KOut :=
  if (fd < 0) ∨ (buf = 0) then
    { ret := (-1), writes := [("errno", 22)], events := [] }
  else
    { ret := 0, writes := [], events := [] }

def read_guard_inRange (fd : Int) (buf : Int) : Prop :=
  (-2147483648) ≤ fd ∧ fd ≤ 2147483647 ∧ 0 ≤ buf

/-- translated from the do_skip_first_poll jump of fd_timed_read_n in src/libcommon/fd.c -/
def read_skip (do_skip : Int) (nleft : Int) : KOut :=
  if (do_skip ≠ 0) ∧ (nleft > 0) then
    { ret := 1, writes := [("msecs", (-1))], events := [] }
  else
    { ret := 0, writes := [], events := [] }

def read_skip_inRange (do_skip : Int) (nleft : Int) : Prop :=
  (-2147483648) ≤ do_skip ∧ do_skip ≤ 2147483647 ∧ 0 ≤ nleft ∧ nleft ≤ 18446744073709551615

/-- translated from the loop condition of fd_timed_read_n in src/libcommon/fd.c -/
def read_cond (nleft : Int) : KOut :=
  { ret := b2i (nleft > 0), writes := [], events := [] }

def read_cond_inRange (nleft : Int) : Prop :=
  0 ≤ nleft ∧ nleft ≤ 18446744073709551615

/-- translated from the if-chain after poll() of fd_timed_read_n in src/libcommon/fd.c -/
def read_afterPoll (nfd : Int) (errno : Int) (revents : Int) : KOut :=
  if (nfd < 0) ∧ ((errno = 4) ∨ (errno = 11)) then
    { ret := 1, writes := [], events := [] }
  else
    if (nfd < 0) ∧ (¬ ((errno = 4) ∨ (errno = 11))) then
      { ret := 3, writes := [], events := [] }
    else
      if (¬ (nfd < 0)) ∧ (nfd = 0) then
        { ret := 2, writes := [("errno", 110)], events := [] }
      else
        if ((¬ (nfd < 0)) ∧ (¬ (nfd = 0))) ∧ ((¬ (nfd = 0)) ∧ ((band revents 32) ≠ 0)) then
          { ret := 3, writes := [("errno", 9)], events := [] }
        else
          if (((¬ (nfd < 0)) ∧ (¬ (nfd = 0))) ∧ (¬ ((¬ (nfd = 0)) ∧ ((band revents 32) ≠ 0)))) ∧ (((¬ (nfd = 0)) ∧ (¬ ((band revents 32) ≠ 0))) ∧ ((¬ ((band revents 32) ≠ 0)) ∧ ((band revents 8) ≠ 0))) then
            { ret := 3, writes := [("errno", 5)], events := [] }
          else
            { ret := 0, writes := [], events := [] }

def read_afterPoll_inRange (nfd : Int) (errno : Int) (revents : Int) : Prop :=
  (-2147483648) ≤ nfd ∧ nfd ≤ 2147483647 ∧ (-2147483648) ≤ errno ∧ errno ≤ 2147483647 ∧ 0 ≤ revents ∧ revents ≤ 32767

/-- translated from the statements after the read() call of fd_timed_read_n in src/libcommon/fd.c -/
def read_afterIo (nio : Int) (errno : Int) (nleft : Int) (msecs : Int) : KOut :=
  if (nio < 0) ∧ ((errno = 4) ∨ (errno = 11)) then
    { ret := 1, writes := [], events := [] }
  else
    if (nio < 0) ∧ (¬ ((errno = 4) ∨ (errno = 11))) then
      { ret := 3, writes := [], events := [] }
    else
      if (¬ (nio < 0)) ∧ (nio = 0) then
        { ret := 2, writes := [], events := [] }
      else
        if msecs = 0 then
          { ret := 2, writes := [("nleft", wrapU64 (nleft - (wrapU64 nio)))], events := [] }
        else
          { ret := 0, writes := [("nleft", wrapU64 (nleft - (wrapU64 nio)))], events := [] }

def read_afterIo_inRange (nio : Int) (errno : Int) (nleft : Int) (msecs : Int) : Prop :=
  (-9223372036854775808) ≤ nio ∧ nio ≤ 9223372036854775807 ∧ (-2147483648) ≤ errno ∧ errno ≤ 2147483647 ∧ 0 ≤ nleft ∧ nleft ≤ 18446744073709551615 ∧ (-2147483648) ≤ msecs ∧ msecs ≤ 2147483647

/-- translated from the final return of fd_timed_read_n in src/libcommon/fd.c -/
def read_ret (n : Int) (nleft : Int) : KOut :=
  { ret := wrapS64 (wrapU64 (n - nleft)), writes := [], events := [] }

def read_ret_inRange (n : Int) (nleft : Int) : Prop :=
  0 ≤ n ∧ n ≤ 18446744073709551615 ∧ 0 ≤ nleft ∧ nleft ≤ 18446744073709551615
''',
    'write': r'''/-- translated from the argument guard of fd_timed_write_n in src/libcommon/fd.c -/
def write_guard (fd : Int) (buf : Int) : KOut :=
  if (fd < 0) ∨ (buf = 0) then
    { ret := (-1), writes := [("errno", 22)], events := [] }
  else
    { ret := 0, writes := [], events := [] }

def write_guard_inRange (fd : Int) (buf : Int) : Prop :=
  (-2147483648) ≤ fd ∧ fd ≤ 2147483647 ∧ 0 ≤ buf

/-- translated from the do_skip_first_poll jump of fd_timed_write_n in src/libcommon/fd.c -/
def write_skip (do_skip : Int) (nleft : Int) : KOut :=
  if (do_skip ≠ 0) ∧ (nleft > 0) then
    { ret := 1, writes := [("msecs", (-1))], events := [] }
  else
    { ret := 0, writes := [], events := [] }

def write_skip_inRange (do_skip : Int) (nleft : Int) : Prop :=
  (-2147483648) ≤ do_skip ∧ do_skip ≤ 2147483647 ∧ 0 ≤ nleft ∧ nleft ≤ 18446744073709551615

/-- translated from the loop condition of fd_timed_write_n in src/libcommon/fd.c -/
def write_cond (nleft : Int) : KOut :=
  { ret := b2i (nleft > 0), writes := [], events := [] }

def write_cond_inRange (nleft : Int) : Prop :=
  0 ≤ nleft ∧ nleft ≤ 18446744073709551615

/-- translated from the if-chain after poll() of fd_timed_write_n in src/libcommon/fd.c -/
def write_afterPoll (nfd : Int) (errno : Int) (revents : Int) : KOut :=
  if (nfd < 0) ∧ ((errno = 4) ∨ (errno = 11)) then
    { ret := 1, writes := [], events := [] }
  else
    if (nfd < 0) ∧ (¬ ((errno = 4) ∨ (errno = 11))) then
      { ret := 3, writes := [], events := [] }
    else
      if (¬ (nfd < 0)) ∧ (nfd = 0) then
        { ret := 2, writes := [("errno", 110)], events := [] }
      else
        if ((¬ (nfd < 0)) ∧ (¬ (nfd = 0))) ∧ ((¬ (nfd = 0)) ∧ ((band revents 16) ≠ 0)) then
          { ret := 2, writes := [], events := [] }
        else
          if (((¬ (nfd < 0)) ∧ (¬ (nfd = 0))) ∧ (¬ ((¬ (nfd = 0)) ∧ ((band revents 16) ≠ 0)))) ∧ (((¬ (nfd = 0)) ∧ (¬ ((band revents 16) ≠ 0))) ∧ ((¬ ((band revents 16) ≠ 0)) ∧ ((band revents 32) ≠ 0))) then
            { ret := 3, writes := [("errno", 9)], events := [] }
          else
            if ((((¬ (nfd < 0)) ∧ (¬ (nfd = 0))) ∧ (¬ ((¬ (nfd = 0)) ∧ ((band revents 16) ≠ 0)))) ∧ (¬ (((¬ (nfd = 0)) ∧ (¬ ((band revents 16) ≠ 0))) ∧ ((¬ ((band revents 16) ≠ 0)) ∧ ((band revents 32) ≠ 0))))) ∧ ((((¬ (nfd = 0)) ∧ (¬ ((band revents 16) ≠ 0))) ∧ (¬ ((¬ ((band revents 16) ≠ 0)) ∧ ((band revents 32) ≠ 0)))) ∧ (((¬ ((band revents 16) ≠ 0)) ∧ (¬ ((band revents 32) ≠ 0))) ∧ ((¬ ((band revents 32) ≠ 0)) ∧ ((band revents 8) ≠ 0)))) then
              { ret := 3, writes := [("errno", 5)], events := [] }
            else
              { ret := 0, writes := [], events := [] }

def write_afterPoll_inRange (nfd : Int) (errno : Int) (revents : Int) : Prop :=
  (-2147483648) ≤ nfd ∧ nfd ≤ 2147483647 ∧ (-2147483648) ≤ errno ∧ errno ≤ 2147483647 ∧ 0 ≤ revents ∧ revents ≤ 32767

/-- translated from the statements after the write() call of fd_timed_write_n in src/libcommon/fd.c -/
def write_afterIo (nio : Int) (errno : Int) (nleft : Int) (msecs : Int) : KOut :=
  if (nio < 0) ∧ ((errno = 4) ∨ (errno = 11)) then
    { ret := 1, writes := [], events := [] }
  else
    if (nio < 0) ∧ (¬ ((errno = 4) ∨ (errno = 11))) then
      { ret := 3, writes := [], events := [] }
    else
      if msecs = 0 then
        { ret := 2, writes := [("nleft", wrapU64 (nleft - (wrapU64 nio)))], events := [] }
      else
        { ret := 0, writes := [("nleft", wrapU64 (nleft - (wrapU64 nio)))], events := [] }

def write_afterIo_inRange (nio : Int) (errno : Int) (nleft : Int) (msecs : Int) : Prop :=
  (-9223372036854775808) ≤ nio ∧ nio ≤ 9223372036854775807 ∧ (-2147483648) ≤ errno ∧ errno ≤ 2147483647 ∧ 0 ≤ nleft ∧ nleft ≤ 18446744073709551615 ∧ (-2147483648) ≤ msecs ∧ msecs ≤ 2147483647

/-- translated from the final return of fd_timed_write_n in src/libcommon/fd.c -/
def write_ret (n : Int) (nleft : Int) : KOut :=
  { ret := wrapS64 (wrapU64 (n - nleft)), writes := [], events := [] }

def write_ret_inRange (n : Int) (nleft : Int) : Prop :=
  0 ≤ n ∧ n ≤ 18446744073709551615 ∧ 0 ≤ nleft ∧ nleft ≤ 18446744073709551615
''',
    'iov': r'''/-- translated from the argument guard of fd_timed_write_iov in src/libcommon/fd.c -/
def iov_guard (fd : Int) (iov_orig : Int) (iov_cnt : Int) : KOut :=
  if ((fd < 0) ∨ (iov_orig = 0)) ∨ (iov_cnt ≤ 0) then
    { ret := (-1), writes := [("errno", 22)], events := [] }
  else
    { ret := 0, writes := [], events := [] }

def iov_guard_inRange (fd : Int) (iov_orig : Int) (iov_cnt : Int) : Prop :=
  (-2147483648) ≤ fd ∧ fd ≤ 2147483647 ∧ 0 ≤ iov_orig ∧ (-2147483648) ≤ iov_cnt ∧ iov_cnt ≤ 2147483647

/-- translated from the do_skip_first_poll jump of fd_timed_write_iov in src/libcommon/fd.c -/
def iov_skip (do_skip : Int) (nleft : Int) : KOut :=
  if (do_skip ≠ 0) ∧ (nleft > 0) then
    { ret := 1, writes := [("msecs", (-1))], events := [] }
  else
    { ret := 0, writes := [], events := [] }

def iov_skip_inRange (do_skip : Int) (nleft : Int) : Prop :=
  (-2147483648) ≤ do_skip ∧ do_skip ≤ 2147483647 ∧ 0 ≤ nleft ∧ nleft ≤ 18446744073709551615

/-- translated from the loop condition of fd_timed_write_iov in src/libcommon/fd.c -/
def iov_cond (nleft : Int) : KOut :=
  { ret := b2i (nleft > 0), writes := [], events := [] }

def iov_cond_inRange (nleft : Int) : Prop :=
  0 ≤ nleft ∧ nleft ≤ 18446744073709551615

/-- translated from the if-chain after poll() of fd_timed_write_iov in src/libcommon/fd.c -/
def iov_afterPoll (nfd : Int) (errno : Int) (revents : Int) : KOut :=
  if (nfd < 0) ∧ ((errno = 4) ∨ (errno = 11)) then
    { ret := 1, writes := [], events := [] }
  else
    if (nfd < 0) ∧ (¬ ((errno = 4) ∨ (errno = 11))) then
      { ret := 3, writes := [], events := [] }
    else
      if (¬ (nfd < 0)) ∧ (nfd = 0) then
        { ret := 2, writes := [("errno", 110)], events := [] }
      else
        if ((¬ (nfd < 0)) ∧ (¬ (nfd = 0))) ∧ ((¬ (nfd = 0)) ∧ ((band revents 16) ≠ 0)) then
          { ret := 2, writes := [], events := [] }
        else
          if (((¬ (nfd < 0)) ∧ (¬ (nfd = 0))) ∧ (¬ ((¬ (nfd = 0)) ∧ ((band revents 16) ≠ 0)))) ∧ (((¬ (nfd = 0)) ∧ (¬ ((band revents 16) ≠ 0))) ∧ ((¬ ((band revents 16) ≠ 0)) ∧ ((band revents 32) ≠ 0))) then
            { ret := 3, writes := [("errno", 9)], events := [] }
          else
            if ((((¬ (nfd < 0)) ∧ (¬ (nfd = 0))) ∧ (¬ ((¬ (nfd = 0)) ∧ ((band revents 16) ≠ 0)))) ∧ (¬ (((¬ (nfd = 0)) ∧ (¬ ((band revents 16) ≠ 0))) ∧ ((¬ ((band revents 16) ≠ 0)) ∧ ((band revents 32) ≠ 0))))) ∧ ((((¬ (nfd = 0)) ∧ (¬ ((band revents 16) ≠ 0))) ∧ (¬ ((¬ ((band revents 16) ≠ 0)) ∧ ((band revents 32) ≠ 0)))) ∧ (((¬ ((band revents 16) ≠ 0)) ∧ (¬ ((band revents 32) ≠ 0))) ∧ ((¬ ((band revents 32) ≠ 0)) ∧ ((band revents 8) ≠ 0)))) then
              { ret := 3, writes := [("errno", 5)], events := [] }
            else
              { ret := 0, writes := [], events := [] }

def iov_afterPoll_inRange (nfd : Int) (errno : Int) (revents : Int) : Prop :=
  (-2147483648) ≤ nfd ∧ nfd ≤ 2147483647 ∧ (-2147483648) ≤ errno ∧ errno ≤ 2147483647 ∧ 0 ≤ revents ∧ revents ≤ 32767

/-- translated from the statements after the writev() call of fd_timed_write_iov in src/libcommon/fd.c -/
def iov_afterIo (nio : Int) (errno : Int) (nleft : Int) (msecs : Int) : KOut :=
  if (nio < 0) ∧ ((errno = 4) ∨ (errno = 11)) then
    { ret := 1, writes := [], events := [] }
  else
    if (nio < 0) ∧ (¬ ((errno = 4) ∨ (errno = 11))) then
      { ret := 3, writes := [], events := [] }
    else
      if msecs = 0 then
        { ret := 2, writes := [("nleft", wrapU64 (nleft - (wrapU64 nio)))], events := [] }
      else
        { ret := 0, writes := [("nleft", wrapU64 (nleft - (wrapU64 nio)))], events := [] }

def iov_afterIo_inRange (nio : Int) (errno : Int) (nleft : Int) (msecs : Int) : Prop :=
  (-9223372036854775808) ≤ nio ∧ nio ≤ 9223372036854775807 ∧ (-2147483648) ≤ errno ∧ errno ≤ 2147483647 ∧ 0 ≤ nleft ∧ nleft ≤ 18446744073709551615 ∧ (-2147483648) ≤ msecs ∧ msecs ≤ 2147483647

/-- translated from the final return of fd_timed_write_iov in src/libcommon/fd.c -/
def iov_ret (n : Int) (nleft : Int) : KOut :=
  { ret := wrapS64 (wrapU64 (n - nleft)), writes := [], events := [] }

def iov_ret_inRange (n : Int) (nleft : Int) : Prop :=
  0 ≤ n ∧ n ≤ 18446744073709551615 ∧ 0 ≤ nleft ∧ nleft ≤ 18446744073709551615

/-- translated from the condition of the iovec-advance loop of fd_timed_write_iov in src/libcommon/fd.c -/
def iovadv_cond (i : Int) (iov_cnt : Int) (nwritten : Int) : KOut :=
  { ret := b2i ((i < iov_cnt) ∧ (nwritten > 0)), writes := [], events := [] }

def iovadv_cond_inRange (i : Int) (iov_cnt : Int) (nwritten : Int) : Prop :=
  (-2147483648) ≤ i ∧ i ≤ 2147483647 ∧ (-2147483648) ≤ iov_cnt ∧ iov_cnt ≤ 2147483647 ∧ (-9223372036854775808) ≤ nwritten ∧ nwritten ≤ 9223372036854775807

/-- translated from the body of the iovec-advance loop of fd_timed_write_iov in src/libcommon/fd.c (without the iov_base update, which adds the local n) -/
def iovadv_body (nwritten : Int) (len_i : Int) : KOut :=
  if (if (wrapU64 nwritten) > len_i then len_i else wrapU64 nwritten) = 0 then
    { ret := 1, writes := [("n", if (wrapU64 nwritten) > len_i then len_i else wrapU64 nwritten)], events := [] }
  else
    { ret := 0, writes := [("n", if (wrapU64 nwritten) > len_i then len_i else wrapU64 nwritten), ("nwritten", wrapS64 (wrapU64 ((wrapU64 nwritten) - (if (wrapU64 nwritten) > len_i then len_i else wrapU64 nwritten)))), ("iov[i].iov_len", wrapU64 (len_i - (if (wrapU64 nwritten) > len_i then len_i else wrapU64 nwritten)))], events := [] }

def iovadv_body_inRange (nwritten : Int) (len_i : Int) : Prop :=
  (-9223372036854775808) ≤ nwritten ∧ nwritten ≤ 9223372036854775807 ∧ 0 ≤ len_i ∧ len_i ≤ 18446744073709551615
''',
}
