"""Gen.Base64: tables, class constants and length formulas of src/munged/base64.c."""
from .probe import run_probe, lean_list_u8
from .ktrans import translate_kernels
from ..vlib.leanlib import gen_write

PROBE = r'''
#include <stdio.h>
#include "base64.c"
int main(void){
  int i;
  printf("bin2asc_len %d\n", (int) (sizeof(bin2asc) - 1));
  printf("bin2asc"); for(i=0;i<(int)sizeof(bin2asc)-1;i++) printf(" %d", bin2asc[i]); printf("\n");
  printf("asc2bin_len %d\n", (int) sizeof(asc2bin));
  printf("asc2bin"); for(i=0;i<(int)sizeof(asc2bin);i++) printf(" %d", asc2bin[i]); printf("\n");
  printf("ERR %d\nIGN %d\nPAD %d\nPADCHAR %d\n", BASE64_ERR, BASE64_IGN, BASE64_PAD, BASE64_PAD_CHAR);
  return 0;
}
'''

def generate(ctx):
    out = run_probe(ctx, "base64", PROBE)
    if out is None:
        return False
    kv = {}
    for line in out.strip().split("\n"):
        p = line.split()
        kv[p[0]] = [int(x) for x in p[1:]]
    ok = len(kv.get("bin2asc", [])) == kv["bin2asc_len"][0] and len(kv.get("asc2bin", [])) == kv["asc2bin_len"][0]
    ctx.obligation("gen", "base64 tables and class constants extracted (probe #includes base64.c)", ok, out[:300])
    kern = translate_kernels(ctx, "src/munged/base64.c", [
        dict(name="base64_encode_length", params=["srclen"]),
        dict(name="base64_decode_length", params=["srclen"]),
    ])
    if kern is None:
        return False
    body = "/- GENERATED from %s/src/munged/base64.c by tools/gen/g_base64.py -- do not edit -/\n" % "<repo>"
    body += "import Munge.C.Kernel\nnamespace Munge.Gen.Base64\nopen Munge.C\n\n"
    body += "def bin2asc : List UInt8 := %s\n\n" % lean_list_u8(kv["bin2asc"])
    body += "def asc2bin : List UInt8 := %s\n\n" % lean_list_u8(kv["asc2bin"])
    body += "def ERR : UInt8 := %d\ndef IGN : UInt8 := %d\ndef PAD : UInt8 := %d\ndef PADCHAR : UInt8 := %d\n\n" % (
        kv["ERR"][0], kv["IGN"][0], kv["PAD"][0], kv["PADCHAR"][0])
    body += kern
    body += "\nend Munge.Gen.Base64\n"
    gen_write("Base64", body)
    return ok
