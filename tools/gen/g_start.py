"""Gen.Start: start-up / shutdown structure of munged for C15, extracted from the clang-14 AST of
src/munged/{munged,lock,conf,random}.c on every run.

Emitted (lean/Munge/Gen/Start.lean):
  * per function (main, sock_create, lock_create + the static helpers of lock.c it calls, write_pidfile,
    sock_destroy, random_fini, _random_write_seed, destroy_conf) the ordered list of security-relevant callees
    (`List Call`): which system call, which of the daemon's path names / descriptors it is applied to (arguments are
    resolved through the call chain: `pidfile` in write_pidfile is `conf->pidfile_name` of main's call), constants
    folded from the AST (open flags and mode, umask argument, the `struct flock` set before F_SETLK), and the *guard*
    under which the call sits (only with --force, only when F_SETLK found the lock busy, error path, ...);
  * `lockRevalidates`: after the F_SETLK the code fstat()s the descriptor, stat()s the lock file *name* and compares
    st_dev and st_ino (AST pattern), and that comparison guards a fatal exit;
  * `lockBusyExits`, `lockErrorExits`, `staleExits`: every leaf of the corresponding branch calls a fatal logger;
  * the mode test of _lock_stat (`lockStatMode`, `lockStatRegular`).
Whatever cannot be classified is a failed obligation (never a silent default)."""
import json, os, re
from .ktrans import load_ast, KError
from .probe import run_probe
from ..vlib.leanlib import gen_write

FILES = {
    "main": "src/munged/munged.c", "sock_create": "src/munged/munged.c", "sock_destroy": "src/munged/munged.c",
    "write_pidfile": "src/munged/munged.c", "lock_create": "src/munged/lock.c",
    "destroy_conf": "src/munged/conf.c", "random_fini": "src/munged/random.c",
    "_random_write_seed": "src/munged/random.c",
}
# helper functions of lock.c are discovered (any callee of lock_create that is defined in lock.c)
DISCOVER_IN = {"src/munged/lock.c"}

CONST_PROBE = r'''
#include <stdio.h>
#include <fcntl.h>
#include <unistd.h>
#include <sys/stat.h>
int main(void){
  printf("O_CREAT %d\nO_EXCL %d\nO_TRUNC %d\nO_WRONLY %d\nO_RDWR %d\nO_RDONLY %d\nO_NOFOLLOW %d\n",
         O_CREAT, O_EXCL, O_TRUNC, O_WRONLY, O_RDWR, O_RDONLY, O_NOFOLLOW);
  printf("F_SETLK %d\nF_SETLKW %d\nF_GETLK %d\nF_WRLCK %d\nF_RDLCK %d\nF_UNLCK %d\nSEEK_SET %d\n",
         F_SETLK, F_SETLKW, F_GETLK, F_WRLCK, F_RDLCK, F_UNLCK, SEEK_SET);
  printf("S_IWUSR %d\nS_IRUSR %d\nS_IFMT %d\nS_IFREG %d\n", S_IWUSR, S_IRUSR, S_IFMT, S_IFREG);
  return 0;
}
'''

NAME_FIELDS = {"socket_name": "sock", "lockfile_name": "lock", "pidfile_name": "pid", "seed_name": "seed"}
FD_FIELDS = {"ld": "listen", "lockfile_fd": "lock"}
FATAL = {"log_err", "log_errno"}                    # always exit
FATAL_UNLESS_FORCE = {"log_err_or_warn"}            # exit unless first argument (got_force) is set
IGNORED = {"log_msg", "free", "strerror", "__errno_location", "memset", "memcpy", "strlen", "strlcpy", "strlcat",
           "snprintf", "strdupf", "strdup", "geteuid", "getpid", "assert", "__assert_fail", "va_start", "va_end",
           "_random_bytes", "timer_cancel", "_random_cleanup", "__builtin_expect", "fileno", "strcmp",
           "log_open_file", "log_close_file", "log_close_all", "log_open_syslog"}
CHECKS = {"path_is_secure", "path_is_accessible", "path_dirname"}


class GenFail(Exception):
    pass


def kids(n):
    return [c for c in n.get("inner", []) if c]


def strip(n):
    """Skip casts and parentheses."""
    while n.get("kind") in ("ImplicitCastExpr", "ParenExpr", "CStyleCastExpr") and kids(n):
        n = kids(n)[0]
    return n


def fold(n):
    """Constant-fold an integer expression of the AST (macros are already expanded); None if not constant."""
    n = strip(n)
    k = n.get("kind")
    if k == "IntegerLiteral":
        return int(n["value"])
    if k == "UnaryOperator" and n.get("opcode") in ("-", "~", "+"):
        v = fold(kids(n)[0])
        return None if v is None else {"-": -v, "~": ~v, "+": v}[n["opcode"]]
    if k == "BinaryOperator" and n.get("opcode") in ("|", "&", "+", "-", "<<"):
        a, b = fold(kids(n)[0]), fold(kids(n)[1])
        if a is None or b is None:
            return None
        return {"|": a | b, "&": a & b, "+": a + b, "-": a - b, "<<": a << b}[n["opcode"]]
    if k == "ConstantExpr":
        return fold(kids(n)[0])
    return None


def render(n):
    """Small pretty-printer (for messages and pattern matching on conditions)."""
    n0 = n
    n = strip(n)
    k = n.get("kind")
    if k == "IntegerLiteral":
        return n["value"]
    if k == "StringLiteral":
        return n.get("value", '""')
    if k == "DeclRefExpr":
        return n["referencedDecl"]["name"]
    if k == "MemberExpr":
        return render(kids(n)[0]) + ("->" if n.get("isArrow") else ".") + n["name"]
    if k == "UnaryOperator":
        return n["opcode"] + render(kids(n)[0]) if not n.get("isPostfix") else render(kids(n)[0]) + n["opcode"]
    if k == "BinaryOperator":
        return "(%s %s %s)" % (render(kids(n)[0]), n["opcode"], render(kids(n)[1]))
    if k == "CallExpr":
        return "%s(%s)" % (render(kids(n)[0]), ", ".join(render(a) for a in kids(n)[1:]))
    if k == "ArraySubscriptExpr":
        return "%s[%s]" % (render(kids(n)[0]), render(kids(n)[1]))
    return "<%s>" % k


def callee(n):
    f = strip(kids(n)[0])
    if f.get("kind") == "DeclRefExpr":
        return f["referencedDecl"]["name"]
    return None


def walk(n):
    yield n
    for c in kids(n):
        yield from walk(c)


def calls_postorder(n):
    """CallExprs of an expression in evaluation order (arguments before the call)."""
    out = []
    for c in kids(n):
        out += calls_postorder(c)
    if n.get("kind") == "CallExpr":
        out.append(n)
    return out


def mentions_member(n, names):
    return any(x.get("kind") == "MemberExpr" and x.get("name") in names for x in walk(n))


def _cmp_field(x):
    """x is `A.f != B.f` / `A.f == B.f` on st_ino or st_dev of two different objects -> (field, opcode)"""
    if x.get("kind") == "BinaryOperator" and x.get("opcode") in ("!=", "=="):
        a, b = strip(kids(x)[0]), strip(kids(x)[1])
        if a.get("kind") == "MemberExpr" and b.get("kind") == "MemberExpr" and a.get("name") == b.get("name") \
                and a.get("name") in ("st_ino", "st_dev") and render(kids(a)[0]) != render(kids(b)[0]):
            return a["name"], x["opcode"]
    return None


def _mismatch_fields(n, neg=False):
    """Fields f for which the (possibly negated) condition n is true whenever A.f differs from B.f:
    `!=` tests joined by `||`, or the negation of `==` tests joined by `&&`."""
    n = strip(n)
    c = _cmp_field(n)
    if c:
        return {c[0]} if (c[1] == "!=") != neg else set()
    k = n.get("kind")
    if k == "UnaryOperator" and n.get("opcode") == "!":
        return _mismatch_fields(kids(n)[0], not neg)
    if k == "BinaryOperator" and n.get("opcode") == ("&&" if neg else "||"):
        return _mismatch_fields(kids(n)[0], neg) | _mismatch_fields(kids(n)[1], neg)
    return set()


def ino_dev_compare(n):
    """Does the subtree contain conditions that together are true whenever st_ino differs and whenever st_dev
    differs (one `a || b` condition, or separate `if`s)?  A test like `dev != dev' && ino != ino'` does not count."""
    got = set()
    for x in walk(n):
        if x.get("kind") in ("IfStmt", "ConditionalOperator", "WhileStmt") and kids(x):
            got |= _mismatch_fields(kids(x)[0])
        elif x.get("kind") == "ReturnStmt" and kids(x):
            got |= _mismatch_fields(kids(x)[0])
    return got == {"st_ino", "st_dev"}


class Extractor:
    def __init__(self, ctx, consts):
        self.ctx = ctx
        self.K = consts
        self.ast = {}            # fn -> FunctionDecl or None
        self.lists = {}          # fn -> list of (sys, guards)
        self.order = []
        self.envs = {}           # fn -> env used (to detect conflicting call sites)
        self.problems = []
        self.facts = {}
        self.assumed_set = set()
        self.has_setlk = {}      # fn -> bool (transitively performs F_SETLK)
        self.has_cmp = {}        # fn -> bool (transitively compares st_ino/st_dev)

    # ---- AST access
    def get(self, fn, relfile):
        if fn not in self.ast:
            try:
                self.ast[fn] = (load_ast(self.ctx.repo, relfile, fn), relfile)
            except KError:
                self.ast[fn] = None
        return self.ast[fn]

    def params(self, fdecl):
        return [c["name"] for c in kids(fdecl) if c.get("kind") == "ParmVarDecl"]

    # ---- argument classification
    def name_of(self, e, env):
        e = strip(e)
        if e.get("kind") == "MemberExpr" and e.get("name") in NAME_FIELDS:
            return NAME_FIELDS[e["name"]]
        if e.get("kind") == "DeclRefExpr":
            v = env.get(e["referencedDecl"]["name"])
            if isinstance(v, tuple) and v[0] == "name":
                return v[1]
        return "other"

    def fd_of(self, e, env, local):
        e = strip(e)
        if e.get("kind") == "MemberExpr" and e.get("name") in FD_FIELDS:
            return FD_FIELDS[e["name"]]
        if e.get("kind") == "DeclRefExpr":
            nm = e["referencedDecl"]["name"]
            v = env.get(nm)
            if isinstance(v, tuple) and v[0] == "fd":
                return v[1]
            if local.get(nm) in ("socket",):
                return "listen"
        return "tmp"

    def classify_arg(self, e, env, local):
        """Value passed to an inlined callee's parameter."""
        s = strip(e)
        if s.get("kind") == "MemberExpr" and s.get("name") in NAME_FIELDS:
            return ("name", NAME_FIELDS[s["name"]])
        if s.get("kind") == "MemberExpr" and s.get("name") in FD_FIELDS:
            return ("fd", FD_FIELDS[s["name"]])
        if s.get("kind") == "MemberExpr" and s.get("name") == "got_force":
            return ("force",)
        if s.get("kind") == "DeclRefExpr" and s["referencedDecl"]["name"] in env:
            return env[s["referencedDecl"]["name"]]
        v = fold(e)
        if v is not None:
            return ("const", v)
        return ("opaque", render(e))

    # ---- condition classification -> (then_guard, else_guard); None = transparent
    def classify_cond(self, c, env, local):
        s = strip(c)
        txt = render(c)
        k = s.get("kind")
        # a condition that (calls something that) compares st_ino/st_dev: the stale-lock-file branch
        if _mismatch_fields(s) == {"st_ino", "st_dev"} or _mismatch_fields(s, True) == {"st_ino", "st_dev"} or \
                any(self.fn_has_cmp(callee(x)) for x in walk(s) if x.get("kind") == "CallExpr"):
            neg = (k == "UnaryOperator" and s.get("opcode") == "!" and not _mismatch_fields(s)) or \
                (k == "BinaryOperator" and s.get("opcode") == "==" and fold(kids(s)[1]) == 0) or \
                (not _mismatch_fields(s) and bool(_mismatch_fields(s, True)))
            return (None, "stale") if neg else ("stale", None)
        if k == "MemberExpr" and s.get("name") == "got_force":
            return ("force", None)
        if k == "DeclRefExpr" and env.get(s["referencedDecl"]["name"]) == ("force",):
            return ("force", None)
        if k == "UnaryOperator" and s.get("opcode") == "!":
            a = strip(kids(s)[0])
            if a.get("kind") == "MemberExpr" and a.get("name") == "got_foreground":
                return ("background", None)
            if a.get("kind") == "MemberExpr" and a.get("name") == "got_force":
                return (None, "force")
            if a.get("kind") == "DeclRefExpr":           # !fp
                return ("failure", None)
        if k == "MemberExpr" and s.get("name") in NAME_FIELDS:        # if (conf->socket_name)
            self.assumed_set.add(txt)
            return ("isSet", "failure")
        if k == "MemberExpr" and s.get("name") in ("got_mlockall", "got_syslog"):
            return ("option", None)
        if k == "DeclRefExpr":
            v = env.get(s["referencedDecl"]["name"])
            if v and v[0] == "const":
                return ("isSet", "failure") if v[1] else ("failure", "isSet")
        if k == "BinaryOperator":
            op = s["opcode"]
            a, b = strip(kids(s)[0]), kids(s)[1]
            bv = fold(b)
            if op == "&&" or op == "||":
                # error tests joined by && / || (e.g. (rv < 0) && (errno != ENOENT))
                ga = self.classify_cond(kids(s)[0], env, local)
                if ga and ga[0] in ("failure", "lockErr"):
                    return ga
                return ("cond", None)
            if a.get("kind") == "MemberExpr" and a.get("name") in FD_FIELDS and op == ">=" and bv == 0:
                return ({"lock": "lockFdOpen", "listen": "listenFdOpen"}[FD_FIELDS[a["name"]]], None)
            if a.get("kind") == "MemberExpr" and a.get("name") in FD_FIELDS and op == "<" and bv == 0:
                return ("failure", None)
            if a.get("kind") == "DeclRefExpr":
                nm = a["referencedDecl"]["name"]
                src = local.get(nm)
                v = env.get(nm)
                if v and v[0] == "name" and op == "!=" and bv == 0:      # seed_path != NULL
                    self.assumed_set.add(txt)
                    return ("isSet", "failure")
                if src and self.fn_has_setlk(src):
                    if op == "<" and bv == 0:
                        return ("lockErr", None)
                    if op == ">" and bv == 0:
                        return ("lockBusy", None)
                    if op == "==" and bv == 0:
                        return (None, "lockErr")
                if op == "<" and bv == 0:
                    return ("failure", None)
                if op == "==" and bv in (-1, 0) and src in CHECKS | {"fprintf", "fclose", "fputs"}:
                    return ("failure", None)
            if a.get("kind") == "CallExpr":
                f = callee(a)
                if (op == "<" and bv == 0) or (op == "==" and bv == -1):
                    return ("lockErr", None) if self.fn_has_setlk(f) else ("failure", None)
        return ("cond", None)        # unknown: allowed only if no system call sits below it

    # ---- properties of callees
    def fn_file(self, fn):
        if fn in FILES:
            return FILES[fn]
        return None

    def resolve(self, fn, cur_file):
        """AST of an inlinable callee, or None."""
        if fn is None:
            return None
        f = self.fn_file(fn)
        if f:
            return self.get(fn, f)
        if cur_file in DISCOVER_IN and fn not in IGNORED and fn not in FATAL | FATAL_UNLESS_FORCE and \
                re.search(r"^\s*%s\s*\(" % re.escape(fn), open(os.path.join(self.ctx.repo, cur_file)).read(), re.M):
            return self.get(fn, cur_file)
        return None

    def _scan(self, fn, pred, memo, seen=()):
        if fn in memo:
            return memo[fn]
        a = self.ast.get(fn)
        if not a or fn in seen:
            return False
        r = False
        for x in walk(a[0]):
            if pred(x):
                r = True
            elif x.get("kind") == "CallExpr" and callee(x) in self.ast and self._scan(callee(x), pred, memo, seen + (fn,)):
                r = True
        memo[fn] = r
        return r

    def call_source(self, c):
        """what a variable assigned from call c carries: the callee, or "<setlk>" for a direct fcntl(F_SETLK)"""
        f = callee(c)
        if f == "fcntl" and len(kids(c)) > 2 and fold(kids(c)[2]) in (self.K["F_SETLK"], self.K["F_SETLKW"]):
            return "<setlk>"
        return f

    def fn_has_setlk(self, fn):
        if fn == "<setlk>":
            return True
        return self._scan(fn, lambda x: x.get("kind") == "CallExpr" and callee(x) == "fcntl" and len(kids(x)) > 2 and
                          fold(kids(x)[2]) in (self.K["F_SETLK"], self.K["F_SETLKW"]), self.has_setlk)

    def fn_has_cmp(self, fn):
        a = self.ast.get(fn)
        if not a:
            return False
        if fn not in self.has_cmp:
            self.has_cmp[fn] = ino_dev_compare(a[0])
        return self.has_cmp[fn]

    # ---- the walk
    def extract(self, fn, relfile, env):
        a = self.get(fn, relfile)
        if a is None:
            raise GenFail("no definition of %s in %s" % (fn, relfile))
        fdecl = a[0]
        if fn in self.lists:
            if self.envs[fn] != env:
                self.problems.append("%s is called with differently classified arguments: %s vs %s" % (fn, self.envs[fn], env))
            return
        self.envs[fn] = dict(env)
        self.lists[fn] = None       # recursion guard
        # pre-load helpers so that fn_has_setlk / fn_has_cmp see them
        for x in walk(fdecl):
            if x.get("kind") == "CallExpr":
                self.resolve(callee(x), relfile)
        out = []
        body = [c for c in kids(fdecl) if c.get("kind") == "CompoundStmt"][0]
        st = {"fn": fn, "file": relfile, "env": env, "local": {}, "out": out, "flock": {}, "sun_path": "other"}
        self.stmt(body, [], st)
        self.lists[fn] = out
        self.order.append(fn)

    def emit(self, st, sys, guards):
        st["out"].append((sys, list(guards)))

    def has_syscall(self, n, st):
        for x in walk(n):
            if x.get("kind") == "CallExpr":
                f = callee(x)
                if f in SYSCALLS or self.resolve(f, st["file"]) is not None or f in ("job_accept",):
                    return True
        return False

    def stmt(self, n, g, st):
        """Visit a statement under guard stack g.  Returns True if the un-guarded (success) path through it returns."""
        k = n.get("kind")
        if k == "CompoundStmt":
            g = list(g)
            ret = False
            for c in kids(n):
                r = self.stmt(c, g, st)
                if r and not ret:
                    ret = True
                    g = g + ["failure"]       # only reachable through a branch that did not take the success path
            return ret
        if k == "IfStmt":
            cs = kids(n)
            cond, then = cs[0], cs[1]
            els = cs[2] if len(cs) > 2 else None
            self.expr(cond, g, st)
            tg, eg = self.classify_cond(cond, st["env"], st["local"])
            if tg == "cond":
                if self.has_syscall(then, st) or (els is not None and self.has_syscall(els, st)):
                    self.problems.append("%s: cannot classify the condition `%s` that guards a system call" % (st["fn"], render(cond)))
            rt = self.stmt(then, g + ([tg] if tg else []), st)
            re_ = False
            if els is not None:
                re_ = self.stmt(els, g + ([eg] if eg else []), st)
            # which branch is the success path?
            if tg in (None, "isSet", "lockFdOpen", "listenFdOpen") and eg in (None,) and els is not None:
                return rt and re_
            if tg in (None, "isSet"):
                return rt if els is None or eg == "failure" else (rt and re_)
            if eg is None:
                return re_ if els is not None else False
            return False
        if k == "DoStmt":
            r = self.stmt(kids(n)[0], g, st)
            self.expr(kids(n)[1], g, st)
            return r
        if k == "WhileStmt":
            self.expr(kids(n)[0], g, st)
            self.stmt(kids(n)[1], g + ["loop"], st)
            return False
        if k == "ForStmt":
            for c in kids(n)[:-1]:
                self.expr(c, g, st)
            self.stmt(kids(n)[-1], g + ["loop"], st)
            return False
        if k == "ReturnStmt":
            for c in kids(n):
                self.expr(c, g, st)
            return True
        if k in ("DeclStmt",):
            for v in kids(n):
                for c in kids(v):
                    self.expr(c, g, st, assign_to=v.get("name"))
            return False
        if k in ("NullStmt", "BreakStmt", "ContinueStmt", "LabelStmt", "GotoStmt"):
            for c in kids(n):
                if c.get("kind", "").endswith("Stmt"):
                    self.stmt(c, g, st)
            return False
        if k == "SwitchStmt" or k == "CaseStmt" or k == "DefaultStmt":
            if self.has_syscall(n, st):
                self.problems.append("%s: system call inside a switch is not supported" % st["fn"])
            return False
        self.expr(n, g, st)
        return False

    def expr(self, n, g, st, assign_to=None):
        """Visit an expression: record flock/sun_path assignments, then every call in evaluation order."""
        for x in walk(n):
            if x.get("kind") == "BinaryOperator" and x.get("opcode") == "=":
                lhs = strip(kids(x)[0])
                if lhs.get("kind") == "MemberExpr" and lhs.get("name") in ("l_type", "l_whence", "l_start", "l_len"):
                    st["flock"][lhs["name"]] = fold(kids(x)[1])
        for c in calls_postorder(n):
            self.call(c, g, st)
        # remember which call a variable was assigned from (rv = _lock_set(...))
        s = strip(n)
        if s.get("kind") == "BinaryOperator" and s.get("opcode") == "=":
            lhs, rhs = strip(kids(s)[0]), strip(kids(s)[1])
            if lhs.get("kind") == "DeclRefExpr" and rhs.get("kind") == "CallExpr":
                st["local"][lhs["referencedDecl"]["name"]] = self.call_source(rhs)
        elif assign_to and s.get("kind") == "CallExpr":
            st["local"][assign_to] = self.call_source(s)

    def call(self, c, g, st):
        f = callee(c)
        args = kids(c)[1:]
        env, local = st["env"], st["local"]
        if f is None:
            self.problems.append("%s: indirect call `%s`" % (st["fn"], render(c)))
            return
        if f in ("strlcpy", "strncpy", "strcpy", "memcpy", "snprintf") and args and mentions_member(args[0], {"sun_path"}):
            st["sun_path"] = self.name_of(args[-2] if f in ("strlcpy", "strncpy", "memcpy") else args[-1], env)
            return
        if f in IGNORED:
            return
        if f in FATAL:
            return self.emit(st, "die", g)
        if f in FATAL_UNLESS_FORCE:
            a0 = self.classify_arg(args[0], env, local) if args else None
            return self.emit(st, "dieUnlessForce" if a0 == ("force",) else "die", g)
        if f == "unlink":
            return self.emit(st, "unlink .%s" % self.name_of(args[0], env), g)
        if f in ("open", "open64"):
            fl = fold(args[1]) if len(args) > 1 else None
            md = fold(args[2]) if len(args) > 2 else 0
            if fl is None or md is None:
                self.problems.append("%s: open() flags/mode are not constant: %s" % (st["fn"], render(c)))
                fl, md = fl or 0, md or 0
            K = self.K
            b = lambda x: "true" if x else "false"
            return self.emit(st, "openF .%s %s %s %s %d" % (self.name_of(args[0], env), b(fl & K["O_CREAT"]), b(fl & K["O_EXCL"]),
                                                            b(fl & K["O_TRUNC"]), md), g)
        if f == "fopen":
            mode = strip(args[1]).get("value", "")
            if "w" in mode:
                return self.emit(st, "fopenW .%s" % self.name_of(args[0], env), g)
            return self.emit(st, "call \"fopen\"", g)
        if f in ("close", "fclose"):
            return self.emit(st, "close .%s" % self.fd_of(args[0], env, local), g)
        if f == "fstat":
            return self.emit(st, "fstat .%s" % self.fd_of(args[0], env, local), g)
        if f in ("stat", "lstat"):
            return self.emit(st, "stat .%s" % self.name_of(args[0], env), g)
        if f == "fcntl":
            cmd = fold(args[1]) if len(args) > 1 else None
            K = self.K
            if cmd in (K["F_SETLK"], K["F_SETLKW"]):
                fl = st["flock"]
                excl = fl.get("l_type") == K["F_WRLCK"]
                whole = fl.get("l_whence") == K["SEEK_SET"] and fl.get("l_start") == 0 and fl.get("l_len") == 0
                if self.fd_of(args[0], env, local) != "lock":
                    self.problems.append("%s: F_SETLK on a descriptor that is not conf->lockfile_fd" % st["fn"])
                nm = "setlk" if cmd == K["F_SETLK"] else "setlkw"
                return self.emit(st, "%s %s %s" % (nm, "true" if excl else "false", "true" if whole else "false"), g)
            if cmd == K["F_GETLK"]:
                return self.emit(st, "getlk", g)
            return self.emit(st, "call \"fcntl\"", g)
        if f == "socket":
            return self.emit(st, "socket", g)
        if f == "bind":
            return self.emit(st, "bind .%s" % st["sun_path"], g)
        if f == "listen":
            return self.emit(st, "listen", g)
        if f == "umask":
            v = fold(args[0])
            return self.emit(st, "umask %s" % ("(some %d)" % v if v is not None else "none"), g)
        if f in ("fprintf", "write", "fd_write_n", "fputs", "fwrite"):
            return self.emit(st, "write .tmp", g)
        if f in CHECKS:
            return self.emit(st, "check \"%s\"" % f, g)
        if f == "job_accept":
            return self.emit(st, "serve", g)
        if f in ("exit", "_exit", "abort"):
            return self.emit(st, "die" if f != "exit" else "exit", g)
        a = self.resolve(f, st["file"])
        if a is not None:
            fdecl, relfile = a
            ps = self.params(fdecl)
            cenv = {}
            for p, e in zip(ps, args):
                cenv[p] = self.classify_arg(e, env, local)
            self.extract(f, relfile, cenv)
            return self.emit(st, "call \"%s\"" % f, g)
        if st["fn"] == "main":
            return self.emit(st, "call \"%s\"" % f, g)     # start-up / shutdown order of main, kept for the record
        # anything else in the leaf functions is not security relevant
        return


SYSCALLS = {"unlink", "open", "open64", "fopen", "close", "fclose", "fstat", "stat", "lstat", "fcntl", "socket", "bind",
            "listen", "umask", "rename", "link", "symlink", "chmod", "fchmod", "chown", "fchown", "mkdir", "rmdir", "flock", "lockf"}
UNMODELLED = {"rename", "link", "symlink", "chmod", "fchmod", "chown", "fchown", "mkdir", "rmdir", "flock", "lockf"}


def always_dies(n, ex, env, force_ok=True):
    """Every path through statement n reaches a fatal logger (without --force)."""
    k = n.get("kind")
    if k == "CompoundStmt":
        return any(always_dies(c, ex, env) for c in kids(n))
    if k == "IfStmt":
        cs = kids(n)
        if any(callee(x) in FATAL | FATAL_UNLESS_FORCE for x in calls_postorder(cs[0])):
            return True
        return len(cs) > 2 and always_dies(cs[1], ex, env) and always_dies(cs[2], ex, env)
    for x in calls_postorder(n):
        f = callee(x)
        if f in FATAL:
            return True
        if f in FATAL_UNLESS_FORCE:
            a = kids(x)[1:]
            if a and ex.classify_arg(a[0], env, {}) == ("force",):
                return True
    return False


def branch_facts(ex):
    """lockBusyExits / lockErrorExits / staleExits: look at the if-chain after the F_SETLK call in lock_create."""
    res = {"lockBusy": None, "lockErr": None, "stale": None}
    a = ex.ast.get("lock_create")
    if not a:
        return res
    env = ex.envs.get("lock_create", {})
    local = {}

    def visit(n):
        k = n.get("kind")
        s = strip(n)
        if s.get("kind") == "BinaryOperator" and s.get("opcode") == "=":
            lhs, rhs = strip(kids(s)[0]), strip(kids(s)[1])
            if lhs.get("kind") == "DeclRefExpr" and rhs.get("kind") == "CallExpr":
                local[lhs["referencedDecl"]["name"]] = ex.call_source(rhs)
        if k == "IfStmt":
            cs = kids(n)
            tg, eg = ex.classify_cond(cs[0], env, local)
            c0 = strip(cs[0])
            if c0.get("kind") == "BinaryOperator" and c0.get("opcode") in ("&&", "||") and tg in ("lockErr", "lockBusy"):
                tg = eg = None      # e.g. the errno test that turns EAGAIN into "busy": not the branch we look for
            for gname, br in ((tg, cs[1]), (eg, cs[2] if len(cs) > 2 else None)):
                if gname in res and br is not None:
                    d = always_dies(br, ex, env)
                    res[gname] = d if res[gname] is None else (res[gname] and d)
        for c in kids(n):
            visit(c)
    visit(a[0])
    # helpers: a stale test inside a helper that itself dies
    for fn, aa in ex.ast.items():
        if aa and fn != "lock_create" and ex.fn_has_cmp(fn):
            for x in walk(aa[0]):
                if x.get("kind") == "IfStmt" and _mismatch_fields(kids(x)[0]):
                    d = always_dies(kids(x)[1], ex, ex.envs.get(fn, {}))
                    if d:
                        res["stale"] = True if res["stale"] is None else res["stale"]
    return res


def lock_stat_facts(ex):
    """_lock_stat-style validation of the descriptor: S_ISREG test and `(st_mode & 07777) != <mode>`."""
    reg, mode = False, None
    for fn, aa in ex.ast.items():
        if not aa or aa[1] != "src/munged/lock.c":
            continue
        for x in walk(aa[0]):
            if x.get("kind") == "BinaryOperator" and x.get("opcode") in ("!=", "=="):
                a, b = strip(kids(x)[0]), kids(x)[1]
                if a.get("kind") == "BinaryOperator" and a.get("opcode") == "&" and mentions_member(a, {"st_mode"}):
                    m, v = fold(kids(a)[1]), fold(b)
                    if m == ex.K["S_IFMT"] and v == ex.K["S_IFREG"]:
                        reg = True
                    elif m == 0o7777 and v is not None:
                        mode = v
    return reg, mode


PREAMBLE = '''/- GENERATED from <repo>/src/munged/{munged,lock,conf,random}.c by tools/gen/g_start.py -- do not edit -/
namespace Munge.Gen.Start

/-- the daemon's path names -/
inductive Name | sock | lock | pid | seed | other
  deriving DecidableEq, Repr
/-- the daemon's long-lived descriptors (`tmp`: a descriptor local to the function) -/
inductive Fd | listen | lock | tmp
  deriving DecidableEq, Repr
/-- condition under which a call is reached -/
inductive Guard
  | force          -- only with --force
  | lockBusy       -- F_SETLK found a conflicting lock
  | lockErr        -- F_SETLK failed otherwise
  | stale          -- the locked descriptor is not the file the name refers to
  | failure        -- error path of an earlier call
  | lockFdOpen | listenFdOpen   -- `conf->lockfile_fd >= 0` / `conf->ld >= 0`
  | isSet          -- a configured name is non-NULL (always, in a normal run)
  | background     -- not with -F
  | option         -- an unrelated command-line option
  | cond           -- some other condition (never guards a system call)
  | loop
  deriving DecidableEq, Repr
inductive Sys
  | unlink (n : Name)
  | openF (n : Name) (creat excl trunc : Bool) (mode : Nat)
  | fopenW (n : Name)
  | close (fd : Fd) | fstat (fd : Fd) | stat (n : Name)
  | setlk (exclusive wholeFile : Bool) | setlkw (exclusive wholeFile : Bool) | getlk
  | socket | bind (n : Name) | listen
  | umask (arg : Option Nat) | write (fd : Fd)
  | check (fn : String) | call (fn : String)
  | serve | die | dieUnlessForce | exit
  deriving DecidableEq, Repr
structure Call where
  sys : Sys
  guard : List Guard
  deriving DecidableEq, Repr

'''


def lean_ident(fn):
    return "f_" + fn.lstrip("_") if fn.startswith("_") else ("main_" if fn == "main" else fn)


def generate(ctx):
    out = run_probe(ctx, "start_consts", CONST_PROBE)
    if out is None:
        return False
    K = {l.split()[0]: int(l.split()[1]) for l in out.strip().split("\n")}
    ex = Extractor(ctx, K)
    ok = True
    try:
        ex.extract("main", FILES["main"], {})
    except (GenFail, KError) as e:
        ex.problems.append(str(e))
    need = ["main", "sock_create", "lock_create", "write_pidfile", "sock_destroy", "random_fini", "_random_write_seed", "destroy_conf"]
    for fn in need:
        got = ex.lists.get(fn)
        ok = ctx.obligation("gen", "callee order of %s extracted (clang AST)" % fn, bool(got),
                            "" if got else "function not reached from main or has no recognised calls") and ok
    for fn, l in ex.lists.items():
        for sysc, g in (l or []):
            if any(u in sysc for u in ()):
                pass
    # unmodelled file-system calls anywhere in the extracted functions
    unm = []
    for fn, aa in ex.ast.items():
        if aa:
            for x in walk(aa[0]):
                if x.get("kind") == "CallExpr" and callee(x) in UNMODELLED:
                    unm.append("%s calls %s" % (fn, callee(x)))
    ok = ctx.obligation("gen", "no file-system call outside the modelled set in the start-up/shutdown functions", not unm, "; ".join(unm)) and ok
    ok = ctx.obligation("gen", "every condition guarding a system call classified; arguments resolved", not ex.problems,
                        "; ".join(ex.problems)) and ok
    # lockRevalidates: after the F_SETLK, lock_create (with helpers) fstat()s the descriptor, stat()s the name, compares dev+ino
    flat = flatten(ex, "lock_create")
    idx = [i for i, (s, g) in enumerate(flat) if s.startswith("setlk")]
    after = flat[idx[0] + 1:] if idx else []
    has_fstat = any(s == "fstat .lock" for s, g in after)
    has_stat = any(s == "stat .lock" for s, g in after)
    cmp_ = any(ex.fn_has_cmp(fn) for fn in ex.lists if ex.ast.get(fn) and ex.ast[fn][1] == "src/munged/lock.c")
    bf = branch_facts(ex)
    reval = bool(idx) and has_fstat and has_stat and cmp_ and bool(bf["stale"])
    ok = ctx.obligation("gen", "lock_create performs exactly one F_SETLK", len(idx) == 1, "found %d" % len(idx)) and ok
    if (has_stat or cmp_) and not reval:
        ctx.log("note: partial re-validation pattern in lock_create (fstat=%s stat=%s compare=%s fatal=%s): treated as absent" %
                (has_fstat, has_stat, cmp_, bf["stale"]))
    reg, mode = lock_stat_facts(ex)
    ok = ctx.obligation("gen", "branch structure after F_SETLK recognised (busy / error branches)", bf["lockBusy"] is not None and bf["lockErr"] is not None,
                        str(bf)) and ok
    b = lambda x: "true" if x else "false"
    body = PREAMBLE
    for fn in ex.order:
        l = ex.lists[fn]
        body += "/-- `%s` (%s) -/\ndef %s : List Call := [\n" % (fn, ex.ast[fn][1], lean_ident(fn))
        body += ",\n".join("  ⟨.%s, [%s]⟩" % (s, ", ".join("." + x for x in g)) for s, g in l)
        body += "]\n\n"
    body += "def body : String → List Call\n"
    for fn in ex.order:
        body += "  | \"%s\" => %s\n" % (fn, lean_ident(fn))
    body += "  | _ => []\n\n"
    body += "def functions : List String := [%s]\n\n" % ", ".join('"%s"' % f for f in ex.order)
    body += "/-- after F_SETLK succeeds the descriptor is compared (st_dev, st_ino) with the file the name refers to now,\n    and a mismatch is fatal -/\n"
    body += "def lockRevalidates : Bool := %s\n" % b(reval)
    body += "/-- every leaf of the `lock is busy` branch ends in a fatal logger -/\ndef lockBusyExits : Bool := %s\n" % b(bf["lockBusy"])
    body += "def lockErrorExits : Bool := %s\n" % b(bf["lockErr"])
    body += "def staleExits : Bool := %s\n" % b(bf["stale"])
    body += "/-- `_lock_stat`: S_ISREG test present; the mode the permission bits are compared with -/\n"
    body += "def lockStatRegular : Bool := %s\ndef lockStatMode : Option Nat := %s\n" % (b(reg), "some %d" % mode if mode is not None else "none")
    body += "\nend Munge.Gen.Start\n"
    gen_write("Start", body)
    ctx.cov.setdefault("generated", {})["Start"] = {
        "functions": ex.order, "calls": sum(len(ex.lists[f]) for f in ex.order), "lockRevalidates": reval,
        "assumed_set": sorted(ex.assumed_set), "branch_facts": bf, "lockStat": [reg, mode]}
    return ok


def flatten(ex, fn, depth=0):
    out = []
    for s, g in ex.lists.get(fn) or []:
        m = re.match(r'call "(.*)"', s)
        if m and m.group(1) in ex.lists and depth < 8:
            out += [(s2, g + g2) for s2, g2 in flatten(ex, m.group(1), depth + 1)]
        else:
            out.append((s, g))
    return out
