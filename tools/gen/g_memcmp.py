"""Gen.Memcmp: the constant-time comparison `crypto_memcmp` of src/common/crypto.c.  It is a loop, so it is taken apart: the loop
header must be `for (i = 0, x = 0; i < n; i++)` (checked on the AST), the single statement of its body is translated by the K
translator as `step (x, a[i], b[i])`, and the function must end in `return (x != 0)`.  The model folds the translated step over the
byte pairs; Props/C02Memcmp.lean proves that the fold is non-zero exactly when the two strings differ somewhere."""
from .ktrans import load_ast, translate_kernels, KError, E, trange, INT_TYPES
from .kcursor import CursorTranslator
from .g_dec import expr_text
from ..vlib.leanlib import gen_write
from . import ktrans


class ElemTranslator(CursorTranslator):
    """`a[i]` / `b[i]` (elements of the two strings at the loop index) are inputs `a_i` / `b_i` of their C type"""
    def read(self, lv, t, st):
        if lv[0] == "elem":
            nm = lv[1] + "_i"
            if nm not in self.used_inputs:
                self.used_inputs.append(nm)
            self.input_types[nm] = t
            lo, hi = trange(t)
            return E(nm, lo, hi, atom=True)
        return super().read(lv, t, st)


def generate(ctx):
    try:
        fn = load_ast(ctx.repo, "src/common/crypto.c", "crypto_memcmp")
    except KError as e:
        ctx.obligation("gen", "crypto_memcmp parsed by clang", False, str(e))
        return False
    body = [c for c in fn["inner"] if c.get("kind") == "CompoundStmt"][0]
    stmts = [s for s in body.get("inner", []) if s.get("kind") != "DeclStmt"]
    loops = [s for s in stmts if s.get("kind") == "ForStmt"]
    shape = None
    if len(loops) == 1 and len(stmts) == 2 and stmts[0] is loops[0] and stmts[1].get("kind") == "ReturnStmt":
        f = loops[0]["inner"]                     # init, condvar, cond, inc, body
        init, cond, inc, lbody = f[0], f[2], f[3], f[4]
        shape = (expr_text(init), expr_text(cond), expr_text(inc), expr_text(stmts[1]["inner"][0]))
    ok = shape in (("i=0,x=0", "i<n", "++i", "x!=0"), ("i=0,x=0", "i<n", "i++", "x!=0"))      # (expr_text prints both i++ and ++i as "++i")
    ctx.obligation("gen", "crypto_memcmp is `for (i = 0, x = 0; i < n; i++) <body>; return (x != 0)`", ok, "found %r" % (shape,))
    if not ok:
        return False
    bstmts = lbody.get("inner", []) if lbody.get("kind") == "CompoundStmt" else [lbody]
    xdecl = None
    for d in body.get("inner", []):
        if d.get("kind") == "DeclStmt":
            for v in d.get("inner", []):
                if v.get("name") == "x":
                    xdecl = v
    xt = (xdecl or {}).get("type", {"qualType": "unsigned char"})
    ret = {"kind": "ReturnStmt", "inner": [{"kind": "ImplicitCastExpr", "castKind": "LValueToRValue", "type": xt,
            "inner": [{"kind": "DeclRefExpr", "type": xt, "referencedDecl": {"kind": "ParmVarDecl", "name": "x"}}]}]}
    synth = {"kind": "FunctionDecl", "name": "crypto_memcmp_step",
             "inner": [{"kind": "ParmVarDecl", "name": "x", "type": xt},
                       {"kind": "CompoundStmt", "inner": list(bstmts) + [ret]}]}
    saved = ktrans.load_ast
    ktrans.load_ast = lambda repo, rel, name, defines=(): synth
    try:
        d = translate_kernels(ctx, "src/common/crypto.c",
                              [dict(name="crypto_memcmp_step", inputs=[("i", "i")], params=["x"], calls={})], cls=ElemTranslator)
    finally:
        ktrans.load_ast = saved
    if d is None:
        return False
    out = "/- GENERATED from <repo>/src/common/crypto.c by tools/gen/g_memcmp.py -- do not edit -/\n"
    out += "import Munge.C.Kernel\nimport Munge.C.Cursor\nset_option linter.unusedVariables false\nnamespace Munge.Gen.Memcmp\nopen Munge.C\n\n"
    out += "/-- width in bits of the accumulator `x` -/\ndef accBits : Int := %d\n\n" % INT_TYPES.get((xt.get("desugaredQualType") or xt.get("qualType")).replace("const ", ""), (0, False))[0]
    out += d + "\nend Munge.Gen.Memcmp\n"
    gen_write("Memcmp", out)
    return True
